(* Model/Socks.v — C20: SOCKS5 parsers of tunnox-core and an independent RFC 1928 / RFC 1929 reference.

   Part A  a tiny language of connection programs (ReadFull / Write / Ret) with two interpreters:
           run_rd over the chunk oracle of Base/Chunks.v (what the Go code does on a net.Conn) and
           run_list over the bare byte list (no transport).
   Part B  faithful transcriptions of the Go parsers as such programs
             internal/client/socks5/listener.go        Listener.Handshake, SendError
             internal/protocol/adapter/socks_auth.go   handleHandshake, handlePasswordAuth
             internal/protocol/adapter/socks_request.go handleRequest, sendReply(rep,"0.0.0.0",0)
             internal/client/socks5/udp_relay.go       parseUDPHeader, buildUDPHeader
           `current` = the code with fixes/C20-*.diff applied; the pinned behaviour is kept as a variant.
   Part C  the reference, written from the RFC message layouts (slice by computed lengths, no reads,
           no transport), the encoders of the RFC messages, and what a conforming server shows on the
           wire for each verdict (`expected_*`).
   Definitions only; proofs are in Proofs/Socks.v. *)
From TX Require Export Base.Bytes Base.Chunks.

Open Scope N_scope.

(* ------------------------------------------------------------------------------------------ *)
(* RFC 1928 numbers (Proofs/SideC20.v re-checks them against the constants of both Go packages) *)
Definition VER : N := 5.
Definition AUTH_NONE : N := 0.
Definition AUTH_USERPASS : N := 2.
Definition AUTH_NOMATCH : N := 255.
Definition CMD_CONNECT : N := 1.
Definition CMD_BIND : N := 2.
Definition CMD_UDP : N := 3.
Definition ATYP_V4 : N := 1.
Definition ATYP_DOMAIN : N := 3.
Definition ATYP_V6 : N := 4.
Definition REP_FAILURE : N := 1.
Definition REP_CMD : N := 7.
Definition REP_ATYP : N := 8.
Definition USERPASS_VER : N := 1.

Record request := { q_cmd : N; q_atyp : N; q_addr : list byte; q_port : N }.

Definition byte_at (i : nat) (l : list byte) : N := nth i l 0.
Definition sub (off n : N) (l : list byte) : list byte := firstn (N.to_nat n) (skipn (N.to_nat off) l).
Fixpoint bytes_eqb (a b : list byte) : bool :=
  match a, b with
  | [], [] => true
  | x :: a', y :: b' => (x =? y) && bytes_eqb a' b'
  | _, _ => false
  end.

(* ========================================================================================== *)
(* Part A — connection programs                                                               *)
(* ========================================================================================== *)

(* ReadFull n k : io.ReadFull(conn, buf[:n]); k (Some bytes) on success, k None on any error
                  (io.EOF / io.ErrUnexpectedEOF / transport error — the Go code only wraps it).
   Write bs k   : conn.Write(bs); the scripted connection never fails a write. *)
Inductive prog (A : Type) : Type :=
| Ret (a : A)
| ReadFull (n : N) (k : option (list byte) -> prog A)
| Write (bs : list byte) (k : prog A).
Arguments Ret {A} a.
Arguments ReadFull {A} n k.
Arguments Write {A} bs k.

(* over the chunk oracle; None = out of fuel (excluded by Proofs/Socks.run_rd_spec) *)
Fixpoint run_rd {A} (p : prog A) (r : rd) (out : list byte) : option (A * rd * list byte) :=
  match p with
  | Ret a => Some (a, r, out)
  | ReadFull n k =>
    match read_full (length (rest r)) n r with
    | RFOk got r' => run_rd (k (Some got)) r' out
    | RFEnd _ r' => run_rd (k None) r' out
    | RFFuel => None
    end
  | Write bs k => run_rd k r (out ++ bs)
  end.

(* over the bare byte list: a full read of n bytes succeeds iff n bytes are there; a failed read
   has drained the stream *)
Fixpoint run_list {A} (p : prog A) (s : list byte) (out : list byte) : A * list byte * list byte :=
  match p with
  | Ret a => (a, s, out)
  | ReadFull n k =>
    if lenN s <? n then run_list (k None) [] out
    else run_list (k (Some (firstn (N.to_nat n) s))) (skipn (N.to_nat n) s) out
  | Write bs k => run_list k s (out ++ bs)
  end.

(* io.ReadAtLeast(conn, buf[:cap], mn) — only used by the pinned adapter greeting *)
Fixpoint read_at_least (fuel : nat) (cap mn : N) (r : rd) (acc : list byte) : rf_result :=
  if mn <=? lenN acc then RFOk acc r else
  match read1 (cap - lenN acc) r with
  | None => RFEnd acc r
  | Some (got, r') =>
    match fuel with
    | O => RFFuel
    | S f => read_at_least f cap mn r' (acc ++ got)
    end
  end.

(* ========================================================================================== *)
(* Part B — the Go parsers                                                                    *)
(* ========================================================================================== *)

(* listener.go SendError(conn, rep)  ==  socks_request.go sendReply(conn, rep, "0.0.0.0", 0):
   VER REP RSV ATYP=IPv4 0.0.0.0 port 0 *)
Definition reply (rep : N) : list byte := [VER; rep; 0; ATYP_V4; 0; 0; 0; 0; 0; 0].

Section RequestProg.
  Context {A : Type}.
  Variable fail : prog A.                       (* a read failed: return the wrapped error *)
  Variable done : N -> list byte -> N -> prog A. (* atyp, address bytes, port *)

  (* "portBuf := make([]byte, 2); io.ReadFull(conn, portBuf); binary.BigEndian.Uint16(portBuf)" *)
  Definition read_port (atyp : N) (addr : list byte) : prog A :=
    ReadFull 2 (fun o => match o with None => fail | Some pb => done atyp addr (de16 pb) end).

  (* "addr := make([]byte, n); io.ReadFull(conn, addr)" followed by the port *)
  Definition read_addr_body (atyp n : N) : prog A :=
    ReadFull n (fun o => match o with None => fail | Some a => read_port atyp a end).

  (* the `switch addrType` of Listener.Handshake and of SocksAdapter.handleRequest (same shape) *)
  Definition read_addr_port (atyp : N) (bad_atyp : prog A) : prog A :=
    if atyp =? ATYP_V4 then read_addr_body atyp 4
    else if atyp =? ATYP_DOMAIN then
      ReadFull 1 (fun o => match o with
        | None => fail
        | Some lb => read_addr_body atyp (byte_at 0 lb)
        end)
    else if atyp =? ATYP_V6 then read_addr_body atyp 16
    else bad_atyp.
End RequestProg.

(* the request half: listener.go lines "buf = make([]byte, 4)" … end of Handshake, and
   socks_request.go handleRequest.  They differ in the accepted commands and in whether a reply is
   sent for a bad version byte. *)
Definition request_prog (cmd_ok : N -> bool) (reply_bad_ver : bool) : prog (option request) :=
  ReadFull 4 (fun o => match o with
    | None => Ret None
    | Some h =>
      if negb (byte_at 0 h =? VER) then
        (if reply_bad_ver then Write (reply REP_FAILURE) (Ret None) else Ret None)
      else
        let cmd := byte_at 1 h in
        if negb (cmd_ok cmd) then Write (reply REP_CMD) (Ret None)
        else
          read_addr_port (Ret None)
            (fun atyp a p => Ret (Some {| q_cmd := cmd; q_atyp := atyp; q_addr := a; q_port := p |}))
            (byte_at 3 h) (Write (reply REP_ATYP) (Ret None))
    end).

(* ---- internal/client/socks5/listener.go ---- *)
Definition listener_cmd_ok (c : N) : bool := (c =? CMD_CONNECT) || (c =? CMD_UDP).

Definition listener_handshake : prog (option request) :=
  ReadFull 2 (fun o => match o with
    | None => Ret None                                        (* "failed to read version" *)
    | Some buf =>
      if negb (byte_at 0 buf =? VER) then Ret None            (* "unsupported SOCKS version", no reply *)
      else
        let nm := byte_at 1 buf in
        if nm =? 0 then Ret None                              (* "no authentication methods provided" *)
        else ReadFull nm (fun o2 => match o2 with
          | None => Ret None                                  (* "failed to read methods" *)
          | Some methods =>
            let am := if existsb (N.eqb AUTH_NONE) methods then AUTH_NONE else AUTH_NOMATCH in
            Write [VER; am]
              (if am =? AUTH_NOMATCH then Ret None            (* "no acceptable authentication method" *)
               else request_prog listener_cmd_ok true)
          end)
    end).

(* ---- internal/protocol/adapter ---- *)
Definition adapter_cmd_ok (c : N) : bool := c =? CMD_CONNECT.

(* socks_auth.go handlePasswordAuth; cred = the single entry of s.credentials *)
Definition userpass_prog (cred : list byte * list byte) : prog bool :=
  ReadFull 2 (fun o => match o with
    | None => Ret false
    | Some b =>
      if negb (byte_at 0 b =? USERPASS_VER) then Ret false
      else ReadFull (byte_at 1 b) (fun o1 => match o1 with
        | None => Ret false
        | Some u => ReadFull 1 (fun o2 => match o2 with
          | None => Ret false
          | Some pl => ReadFull (byte_at 0 pl) (fun o3 => match o3 with
            | None => Ret false
            | Some pw =>
              let ok := bytes_eqb u (fst cred) && bytes_eqb pw (snd cred) in
              Write [USERPASS_VER; if ok then 0 else 1] (Ret ok)
            end)
          end)
        end)
    end).

(* auth = None: authEnabled=false (wants method 0); Some cred: authEnabled=true (wants method 2) *)
Definition adapter_want (auth : option (list byte * list byte)) : N :=
  match auth with None => AUTH_NONE | Some _ => AUTH_USERPASS end.

(* handleHandshake from "methods := buf[2:2+nMethods]" on *)
Definition greeting_tail (auth : option (list byte * list byte)) (methods : list byte) : prog bool :=
  let sel := if existsb (N.eqb (adapter_want auth)) methods then adapter_want auth else AUTH_NOMATCH in
  Write [VER; sel]
    (if sel =? AUTH_NOMATCH then Ret false
     else match auth with
          | Some cred => userpass_prog cred
          | None => Ret true
          end).

(* handleHandshake, repaired (fixes/C20-adapter-greeting-overread.diff): ReadFull(2), ReadFull(nMethods) *)
Definition adapter_greeting (auth : option (list byte * list byte)) : prog bool :=
  ReadFull 2 (fun o => match o with
    | None => Ret false
    | Some buf =>
      if negb (byte_at 0 buf =? VER) then Ret false
      else ReadFull (byte_at 1 buf) (fun o2 => match o2 with
        | None => Ret false
        | Some methods => greeting_tail auth methods
        end)
    end).

(* handleHandshake as pinned: n := io.ReadAtLeast(conn, buf[257], 2); if n < 2+nMethods { ReadFull(buf[n:2+nMethods]) };
   whatever was read beyond 2+nMethods is dropped *)
Definition adapter_greeting_pinned (auth : option (list byte * list byte)) (r : rd) (out : list byte)
  : option (bool * rd * list byte) :=
  match read_at_least (length (rest r)) 257 2 r [] with
  | RFFuel => None
  | RFEnd _ r1 => Some (false, r1, out)
  | RFOk got r1 =>
    if negb (byte_at 0 got =? VER) then Some (false, r1, out)
    else
      let nm := byte_at 1 got in
      if lenN got <? 2 + nm then
        run_rd (ReadFull (2 + nm - lenN got) (fun o => match o with
                  | None => Ret false
                  | Some more => greeting_tail auth (skipn 2 got ++ more)
                  end)) r1 out
      else run_rd (greeting_tail auth (firstn (N.to_nat nm) (skipn 2 got))) r1 out
  end.

Definition adapter_request : prog (option request) := request_prog adapter_cmd_ok false.

(* what handleSocksConnection does with one connection: handshake, then (only if it succeeded) the request.
   Observed: did the handshake succeed, how far the connection had been read after it, the request
   result, everything written, the final reader. *)
Record adapter_obs := { a_hs_ok : bool; a_hs_left : list byte; a_req : option request;
                        a_out : list byte; a_left : list byte }.

Definition adapter_session (pinned : bool) (auth : option (list byte * list byte)) (r : rd)
  : option adapter_obs :=
  match (if pinned then adapter_greeting_pinned auth r [] else run_rd (adapter_greeting auth) r []) with
  | None => None
  | Some (false, r1, out1) =>
    Some {| a_hs_ok := false; a_hs_left := rest r1; a_req := None; a_out := out1; a_left := rest r1 |}
  | Some (true, r1, out1) =>
    match run_rd adapter_request r1 out1 with
    | None => None
    | Some (q, r2, out2) =>
      Some {| a_hs_ok := true; a_hs_left := rest r1; a_req := q; a_out := out2; a_left := rest r2 |}
    end
  end.

(* ---- internal/client/socks5/udp_relay.go ---- *)
(* parseUDPHeader.  min_len is the first length check: 4 after fixes/C20-udp-short-domain-datagram.diff,
   10 as pinned.  Result: atyp, address bytes, port, payload. *)
Definition udp_parse (min_len : N) (d : list byte) : option (N * list byte * N * list byte) :=
  if lenN d <? min_len then None                                  (* "packet too short" *)
  else if negb (byte_at 2 d =? 0) then None                       (* "fragmentation not supported" *)
  else
    let atyp := byte_at 3 d in
    if atyp =? ATYP_V4 then
      if lenN d <? 10 then None
      else Some (atyp, sub 4 4 d, de16 (sub 8 2 d), skipn 10 d)
    else if atyp =? ATYP_DOMAIN then
      if lenN d <? 5 then None
      else
        let dl := byte_at 4 d in
        if lenN d <? 5 + dl + 2 then None
        else Some (atyp, sub 5 dl d, de16 (sub (5 + dl) 2 d), skipn (N.to_nat (5 + dl + 2)) d)
    else if atyp =? ATYP_V6 then
      if lenN d <? 22 then None
      else Some (atyp, sub 4 16 d, de16 (sub 20 2 d), skipn 22 d)
    else None.                                                     (* "unsupported address type" *)

(* parseUDPHeader again, with Go's indexing made explicit: data[i] and data[a:b] panic ("index out of range",
   "slice bounds out of range") when out of range.  UPanic is the run-time panic; Proofs/Socks.udp_parse_checked_spec
   shows it is unreachable when the first length check is at least 4. *)
Definition idx (i : N) (d : list byte) : option byte :=
  if i <? lenN d then Some (byte_at (N.to_nat i) d) else None.
Definition slc (a b : N) (d : list byte) : option (list byte) :=
  if (a <=? b) && (b <=? lenN d) then Some (sub a (b - a) d) else None.
Inductive upres := UPanic | UDrop | UOk (atyp : N) (addr : list byte) (port : N) (payload : list byte).

Definition udp_finish (atyp : N) (a pb pl : option (list byte)) : upres :=
  match a, pb, pl with
  | Some a', Some pb', Some pl' => UOk atyp a' (de16 pb') pl'
  | _, _, _ => UPanic
  end.

Definition udp_parse_checked (min_len : N) (d : list byte) : upres :=
  if lenN d <? min_len then UDrop else
  match idx 2 d with
  | None => UPanic
  | Some frag =>
    if negb (frag =? 0) then UDrop else
    match idx 3 d with
    | None => UPanic
    | Some atyp =>
      if atyp =? ATYP_V4 then
        if lenN d <? 10 then UDrop
        else udp_finish atyp (slc 4 8 d) (slc 8 10 d) (slc 10 (lenN d) d)
      else if atyp =? ATYP_DOMAIN then
        if lenN d <? 5 then UDrop else
        match idx 4 d with
        | None => UPanic
        | Some dl =>
          if lenN d <? 5 + dl + 2 then UDrop
          else udp_finish atyp (slc 5 (5 + dl) d) (slc (5 + dl) (5 + dl + 2) d) (slc (5 + dl + 2) (lenN d) d)
        end
      else if atyp =? ATYP_V6 then
        if lenN d <? 22 then UDrop
        else udp_finish atyp (slc 4 20 d) (slc 20 22 d) (slc 22 (lenN d) d)
      else UDrop
    end
  end.

Definition upres_of (r : option (N * list byte * N * list byte)) : upres :=
  match r with Some (t, a, p, pl) => UOk t a p pl | None => UDrop end.

Definition udp_min_current : N := 4.
Definition udp_min_pinned : N := 10.

(* net.IP.To4 on a 16-byte address: 10 zero bytes, ff ff *)
Definition v4prefix : list byte := [0;0;0;0;0;0;0;0;0;0;255;255].
Definition is_v4mapped (ip : list byte) : bool := bytes_eqb (firstn 12 ip) v4prefix.
Definition v4mapped (a : list byte) : list byte := v4prefix ++ a.

Section Net.
  (* external code: net.ParseIP on the host text, result in 16-byte form (nil = None);
     net.IP.String on a 4- or 16-byte address *)
  Variable parse_ip : list byte -> option (list byte).
  Variable ip_string : list byte -> list byte.

  (* buildUDPHeader(dstHost, dstPort, payload) *)
  Definition udp_build (host : list byte) (port : N) (payload : list byte) : list byte :=
    match parse_ip host with
    | Some ip =>
      if is_v4mapped ip then [0; 0; 0; ATYP_V4] ++ skipn 12 ip ++ be16 port ++ payload
      else [0; 0; 0; ATYP_V6] ++ ip ++ be16 port ++ payload
    | None => [0; 0; 0; ATYP_DOMAIN; lenN host mod 256] ++ host ++ be16 port ++ payload
    end.

  (* the dstHost string parseUDPHeader / Handshake return for (atyp, address bytes) *)
  Definition host_text (atyp : N) (addr : list byte) : list byte :=
    if atyp =? ATYP_DOMAIN then addr else ip_string addr.

  (* the destination a host text denotes: an IP (16-byte form) or a name *)
  Inductive dest := DIP (ip : list byte) | DName (name : list byte).
  Definition dest_of (host : list byte) : dest :=
    match parse_ip host with Some ip => DIP ip | None => DName host end.
End Net.

(* ========================================================================================== *)
(* Part C — reference, from RFC 1928 §3–§7 and RFC 1929 §2                                     *)
(* ========================================================================================== *)

(* §5 "Addressing": how DST.ADDR is delimited for each ATYP *)
Inductive addr_form := FixedLen (n : N) | LenPrefixed | UnknownForm.
Definition addr_form_of (atyp : N) : addr_form :=
  match atyp with
  | 1 => FixedLen 4
  | 3 => LenPrefixed
  | 4 => FixedLen 16
  | _ => UnknownForm
  end.

Inductive addr_result := AUnknown | AIncomplete | AOk (addr : list byte) (port : N) (len : N).

(* DST.ADDR DST.PORT at the head of s: compute the total length first, then slice *)
Definition ref_addr_port (atyp : N) (s : list byte) : addr_result :=
  match addr_form_of atyp with
  | UnknownForm => AUnknown
  | FixedLen n =>
    if lenN s <? n + 2 then AIncomplete else AOk (sub 0 n s) (de16 (sub n 2 s)) (n + 2)
  | LenPrefixed =>
    match s with
    | [] => AIncomplete
    | l :: _ => if lenN s <? 1 + l + 2 then AIncomplete
                else AOk (sub 1 l s) (de16 (sub (1 + l) 2 s)) (1 + l + 2)
    end
  end.

(* §3 version identifier / method selection message: VER NMETHODS METHODS.
   want = the one method this server is configured to use. *)
Inductive gverdict :=
| GIncomplete                 (* the stream ends inside the message *)
| GNotSocks5                  (* VER <> 5 *)
| GNoMethods                  (* NMETHODS = 0 (the RFC says 1 to 255) *)
| GNoAcceptable (len : N)     (* METHOD X'FF' must be answered, the client closes *)
| GSelected (len : N).        (* METHOD `want` is answered *)

Definition ref_greeting (want : N) (s : list byte) : gverdict :=
  match s with
  | ver :: nm :: tl =>
    if negb (ver =? 5) then GNotSocks5
    else if nm =? 0 then GNoMethods
    else if lenN tl <? nm then GIncomplete
    else if existsb (fun m => m =? want) (sub 0 nm tl) then GSelected (2 + nm) else GNoAcceptable (2 + nm)
  | _ => GIncomplete
  end.

(* §4 request: VER CMD RSV ATYP DST.ADDR DST.PORT; the 4-byte fixed part is judged as a unit; RSV is not
   validated.  §6: unsupported command -> REP 7, unsupported address type -> REP 8. *)
Inductive rverdict :=
| RIncomplete
| RBadVersion
| RCmdUnsupported
| RAtypUnsupported
| RAccept (q : request) (len : N).

Definition ref_request (cmd_ok : N -> bool) (s : list byte) : rverdict :=
  match s with
  | ver :: cmd :: _rsv :: atyp :: tl =>
    if negb (ver =? 5) then RBadVersion
    else if negb (cmd_ok cmd) then RCmdUnsupported
    else match ref_addr_port atyp tl with
         | AUnknown => RAtypUnsupported
         | AIncomplete => RIncomplete
         | AOk a p n => RAccept {| q_cmd := cmd; q_atyp := atyp; q_addr := a; q_port := p |} (4 + n)
         end
  | _ => RIncomplete
  end.

(* RFC 1929 §2: VER=1 ULEN UNAME PLEN PASSWD (lengths taken as sent) *)
Inductive uverdict := UIncomplete | UBadVersion | UCreds (user pass : list byte) (len : N).
Definition ref_userpass (s : list byte) : uverdict :=
  match s with
  | ver :: ulen :: tl =>
    if negb (ver =? 1) then UBadVersion
    else if lenN tl <? ulen + 1 then UIncomplete
    else
      let plen := byte_at 0 (sub ulen 1 tl) in
      if lenN tl <? ulen + 1 + plen then UIncomplete
      else UCreds (sub 0 ulen tl) (sub (ulen + 1) plen tl) (2 + ulen + 1 + plen)
  | _ => UIncomplete
  end.

(* §7 UDP request header: RSV(2) FRAG ATYP DST.ADDR DST.PORT DATA; a relay without fragmentation
   support MUST drop FRAG <> 0.  Some (atyp, addr, port, data) | None = drop. *)
Definition ref_udp (d : list byte) : option (N * list byte * N * list byte) :=
  match d with
  | _rsv0 :: _rsv1 :: frag :: atyp :: tl =>
    if negb (frag =? 0) then None
    else match ref_addr_port atyp tl with
         | AOk a p n => Some (atyp, a, p, skipn (N.to_nat n) tl)
         | _ => None
         end
  | _ => None
  end.

(* ---- the RFC messages as encoders (the grammar the reference is checked against) ---- *)
Definition enc_addr (atyp : N) (addr : list byte) : list byte :=
  if atyp =? 3 then lenN addr :: addr else addr.
Definition enc_request (q : request) (rsv : N) : list byte :=
  [5; q_cmd q; rsv; q_atyp q] ++ enc_addr (q_atyp q) (q_addr q) ++ be16 (q_port q).
Definition enc_greeting (methods : list byte) : list byte := [5; lenN methods] ++ methods.
Definition enc_udp (rsv0 rsv1 atyp : N) (addr : list byte) (port : N) (data : list byte) : list byte :=
  [rsv0; rsv1; 0; atyp] ++ enc_addr atyp addr ++ be16 port ++ data.
Definition wf_addr (atyp : N) (addr : list byte) : Prop :=
  wf_bytes addr /\
  ((atyp = 1 /\ lenN addr = 4) \/ (atyp = 3 /\ lenN addr < 256) \/ (atyp = 4 /\ lenN addr = 16)).

(* ---- what a conforming server shows for each verdict.  Where the RFC leaves the server a choice the
        choice is a parameter: (a) whether NMETHODS=0 is answered with 05 FF, (b) whether a request with a
        bad VER gets a general-failure reply. ---- *)
Record obs := { o_res : option request; o_out : list byte; o_used : N }.

Definition expected_request (reply_bad_ver : bool) (cmd_ok : N -> bool) (s : list byte) : obs :=
  match ref_request cmd_ok s with
  | RIncomplete => {| o_res := None; o_out := []; o_used := lenN s |}
  | RBadVersion => {| o_res := None; o_out := if reply_bad_ver then reply 1 else []; o_used := 4 |}
  | RCmdUnsupported => {| o_res := None; o_out := reply 7; o_used := 4 |}
  | RAtypUnsupported => {| o_res := None; o_out := reply 8; o_used := 4 |}
  | RAccept q n => {| o_res := Some q; o_out := []; o_used := n |}
  end.

(* greeting (+ RFC 1929 sub-negotiation when auth is configured): accepted?, bytes written, bytes used *)
Record gobs := { g_ok : bool; g_out : list byte; g_used : N }.

Definition expected_userpass (cred : list byte * list byte) (s : list byte) : gobs :=
  match ref_userpass s with
  | UIncomplete => {| g_ok := false; g_out := []; g_used := lenN s |}
  | UBadVersion => {| g_ok := false; g_out := []; g_used := 2 |}
  | UCreds u p n =>
    let ok := bytes_eqb u (fst cred) && bytes_eqb p (snd cred) in
    {| g_ok := ok; g_out := [1; if ok then 0 else 1]; g_used := n |}
  end.

Definition expected_greeting (answer_no_methods : bool) (auth : option (list byte * list byte))
           (s : list byte) : gobs :=
  match ref_greeting (adapter_want auth) s with
  | GIncomplete => {| g_ok := false; g_out := []; g_used := lenN s |}
  | GNotSocks5 => {| g_ok := false; g_out := []; g_used := 2 |}
  | GNoMethods => {| g_ok := false; g_out := if answer_no_methods then [5; 255] else []; g_used := 2 |}
  | GNoAcceptable n => {| g_ok := false; g_out := [5; 255]; g_used := n |}
  | GSelected n =>
    match auth with
    | None => {| g_ok := true; g_out := [5; 0]; g_used := n |}
    | Some cred =>
      let u := expected_userpass cred (skipn (N.to_nat n) s) in
      {| g_ok := g_ok u; g_out := [5; 2] ++ g_out u; g_used := n + g_used u |}
    end
  end.

(* a whole connection: greeting, then the request on what follows it *)
Definition expected_session (answer_no_methods reply_bad_ver : bool) (cmd_ok : N -> bool)
           (auth : option (list byte * list byte)) (s : list byte) : obs :=
  let g := expected_greeting answer_no_methods auth s in
  if g_ok g then
    let e := expected_request reply_bad_ver cmd_ok (skipn (N.to_nat (g_used g)) s) in
    {| o_res := o_res e; o_out := g_out g ++ o_out e; o_used := g_used g + o_used e |}
  else {| o_res := None; o_out := g_out g; o_used := g_used g |}.

(* the listener never configures authentication, does not answer NMETHODS=0, answers a bad request VER *)
Definition expected_listener (s : list byte) : obs := expected_session false true listener_cmd_ok None s.
(* the adapter answers NMETHODS=0 with 05 FF and does not answer a bad request VER *)
Definition expected_adapter (auth : option (list byte * list byte)) (s : list byte) : obs :=
  expected_session true false adapter_cmd_ok auth s.
(* ========================================================================================== *)
(* Part D — histories of relay operations                                                     *)
(* ========================================================================================== *)
(* One long-lived *UDPRelay serves many parseUDPHeader / buildUDPHeader calls (one receiveLoop goroutine per
   session, handleDNSQuery, handlePacket).  In the model every result is a VALUE: the results of a history are the
   results of its operations taken one by one, so a later operation cannot change an earlier result.  For the Go code
   this is an assumption about slices (no shared / reused backing buffer); the harness checks it on the real code
   ("seq" and "conc" cases: every retained result is compared after every later operation / after a barrier). *)
Inductive uop :=
| UBuild (host : list byte) (port : N) (payload : list byte)
| UParse (d : list byte).
Inductive ures :=
| RBuilt (datagram : list byte)
| RParsed (r : option (N * list byte * N * list byte)).

Definition run_uop (parse_ip : list byte -> option (list byte)) (o : uop) : ures :=
  match o with
  | UBuild h p pl => RBuilt (udp_build parse_ip h p pl)
  | UParse d => RParsed (udp_parse udp_min_current d)
  end.
(* the results a consumer holds after the whole history has run *)
Definition run_uops (parse_ip : list byte -> option (list byte)) (l : list uop) : list ures :=
  map (run_uop parse_ip) l.
Close Scope N_scope.

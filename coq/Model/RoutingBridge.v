(* Model/RoutingBridge.v — the CALL SITES of the waiting-tunnel record (property C09):
   internal/protocol/session/server_bridge.go startSourceBridge / runBridgeLifecycle on top of Model/Routing.v.

   startSourceBridge(req): if s.tunnelBridges[req.TunnelID] exists -> CodeAlreadyExists, nothing else happens;
     otherwise the bridge is indexed and RegisterWaitingTunnel(state built from the mapping, SourceNodeID = this node)
     is called (a failure of the registration is logged, the bridge stays).
   runBridgeLifecycle(tunnelID, bridge): bridge.Start() returns - normal completion, Start error (cancelled before a target
     attached, 30 s timeout), context cancel - then, on EVERY path, the bridge is removed from the index and
     RemoveWaitingTunnel(tunnelID) is called.  [BEnd] is that common tail; which way the tunnel ended does not matter to
     the model, and that the real code reaches the tail on every path is what the harness' "bridge" stream checks.

   The index is per node (s.tunnelBridges of that node's SessionManager). *)
From Coq Require Import List NArith ZArith Bool Arith.
Import ListNotations.
From TX Require Import Base.Val.
From TX Require Export Model.Routing.
Open Scope N_scope.
Open Scope bool_scope.

Inductive bop :=
| BStart (n : nat) (r : waiting)     (* node n: startSourceBridge for tunnel w_tunnel r with the mapping's data r *)
| BEnd (n : nat) (t : str)           (* node n: the lifecycle of its bridge for t ends (any way) *)
| BRefused (n : nat) (t : str)       (* node n: a source-side TunnelOpen for t that handleSourceBridge -> startSourceBridge
                                        REFUSES before it registers anything (no cloud control, mapping lookup fails, ...):
                                        handleSourceBridge returns the error and touches nothing *)
| BOther (o : op).                   (* any direct RoutingTable call / clock tick *)

Definition bindex := nat -> str -> bool.
Definition bi_set (ix : bindex) (n : nat) (t : str) (b : bool) : bindex :=
  fun n' t' => if Nat.eqb n' n && list_eqb t' t then b else ix n' t'.

(* the RoutingTable calls a bridge operation makes, given the node's bridge index *)
Definition bcalls (ix : bindex) (b : bop) : list op * bindex :=
  match b with
  | BStart n r => if ix n (w_tunnel r) then ([], ix) else ([ORegister n r], bi_set ix n (w_tunnel r) true)
  | BEnd n t => if ix n t then ([ORemove n t], bi_set ix n t false) else ([], ix)
  | BRefused _ _ => ([], ix)
  | BOther o => ([o], ix)
  end.

Fixpoint bcompile (ix : bindex) (h : list bop) : list op * bindex :=
  match h with
  | [] => ([], ix)
  | b :: h' => let (os, ix1) := bcalls ix b in let (os', ix2) := bcompile ix1 h' in (os ++ os', ix2)
  end.

(* was the start accepted? *)
Definition bstart_accepted (ix : bindex) (n : nat) (t : str) : bool := negb (ix n t).

(* variant kept to refute it: startSourceBridge skips the publication when the target client's CONTROL connection is on the
   starting node ([ctl n client]); where the control connection lives says nothing about where the target's tunnel
   connection arrives.  The model proper ([bcalls]) registers whatever the placement of connections. *)
Definition bcalls_skip_local (ctl : nat -> Z -> bool) (ix : bindex) (b : bop) : list op * bindex :=
  match b with
  | BStart n r =>
      if ix n (w_tunnel r) then ([], ix)
      else if ctl n (w_dst r) then ([], bi_set ix n (w_tunnel r) true)
      else ([ORegister n r], bi_set ix n (w_tunnel r) true)
  | _ => bcalls ix b
  end.

(* variant kept to refute it: the error path of handleSourceBridge "cleans up" the routing record of the id whenever
   startSourceBridge refused the open (duplicate on the same node, failed open on another node) - every refusal happens
   before this call registered anything, so the record deleted is somebody else's *)
Definition bcalls_cleanup_on_refusal (ix : bindex) (b : bop) : list op * bindex :=
  match b with
  | BStart n r => if ix n (w_tunnel r) then ([ORemove n (w_tunnel r)], ix) else bcalls ix b
  | BRefused n t => ([ORemove n t], ix)
  | _ => bcalls ix b
  end.

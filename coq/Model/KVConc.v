(* Model/KVConc.v — concurrent callers of memory.Storage at the granularity of its critical sections
   (property C13, second half).  Uses Base/Threads.v: one [tstep] = one section guarded by Storage.mu.

   Every method of memory.go / memory_ops.go is ONE critical section (Lock/RLock ... defer Unlock),
   except GetHash, GetAllHash and GetExpiration, which are TWO: the answer is computed under the read
   lock ([read_phase]); if the item was found expired the method then takes the write lock, re-tests and
   deletes ([gc_key]) before returning ErrKeyNotFound.  Other threads can run between the two.

   (On the pinned tree GetHash/GetAllHash additionally read the map value AFTER releasing the read lock:
   a Go data race on the inner map[string]any with a concurrent SetHash/DeleteHash — "fatal error:
   concurrent map read and map write".  That is below the granularity of this model; it is reproduced by
   the harness' race probe and repaired by fixes/C13-hash-read-under-lock.diff, after which the read
   happens inside the first section as modelled.)

   The clock is shared; a [KTick d] in any thread's program advances it (time only moves forward).
   The shared state carries a ghost log: every operation with the answer it gave, appended at its
   linearization point (= its first critical section). *)
From TX Require Export Model.KV Base.Threads.

Open Scope N_scope.

Record shared := { sh_m : kvmap; sh_now : N; sh_log : list (op * out) }.
Record local := { lo_prog : list op;              (* calls still to make *)
                  lo_pending : option key;        (* Some k: inside GetHash/GetAllHash/GetExpiration, second section due *)
                  lo_seen : list (op * out) }.    (* what this caller has observed so far *)

Section Conc.
  Variable D : N.
  Variable V : kvariant.

  Definition tstep (lo : local) (sh : shared) : local * shared :=
    match lo_pending lo with
    | Some k =>
        ({| lo_prog := lo_prog lo; lo_pending := None; lo_seen := lo_seen lo |},
         {| sh_m := gc_key (sh_m sh) (sh_now sh) k; sh_now := sh_now sh; sh_log := sh_log sh |})
    | None =>
        match lo_prog lo with
        | [] => (lo, sh)
        | o :: rest =>
            match two_phase o with
            | Some k =>
                let '(r, gc) := read_phase V (sh_m sh) (sh_now sh) o in
                ({| lo_prog := rest; lo_pending := if gc then Some k else None; lo_seen := lo_seen lo ++ [(o, r)] |},
                 {| sh_m := sh_m sh; sh_now := sh_now sh; sh_log := sh_log sh ++ [(o, r)] |})
            | None =>
                let '(r, m', now') := mem_step D V (sh_m sh) (sh_now sh) o in
                ({| lo_prog := rest; lo_pending := None; lo_seen := lo_seen lo ++ [(o, r)] |},
                 {| sh_m := m'; sh_now := now'; sh_log := sh_log sh ++ [(o, r)] |})
            end
        end
    end.

  Definition init_shared (now0 : N) : shared := {| sh_m := empty; sh_now := now0; sh_log := [] |}.
  Definition init_local (p : list op) : local := {| lo_prog := p; lo_pending := None; lo_seen := [] |}.
  Definition init (now0 : N) (progs : list (list op)) : shared * list local :=
    (init_shared now0, map init_local progs).

  (* a log is a legal sequential history of the Spec started empty at now0 *)
  Definition legal (now0 : N) (log : list (op * out)) : Prop :=
    outs_of (spec_run D empty now0 (map fst log)) = map snd log.
End Conc.

(* ------------------------------------------------------------------------------------------ *)
(* CleanupExpired                                                                              *)
(* ------------------------------------------------------------------------------------------ *)
(* memory_ops.go CleanupExpired (also the body of the StartCleanup ticker goroutine) is ONE critical section:
   m.mu.Lock(); scan and delete with the expiry test re-evaluated per key; Unlock.  In [tstep] it is therefore
   an ordinary one-step operation ([two_phase KCleanup = None], [mem_step ... KCleanup = purge now m]).

   The variant below is what a "scan under RLock, delete later under Lock without re-checking" rewrite would be:
   the first section only collects the set of keys found expired, the second deletes every collected key —
   whatever a writer stored there in between.  It is kept to be refuted (Proofs/KV.two_phase_cleanup_refuted). *)
Record local2 := { l2_base : local; l2_sweep : option (key -> bool) }.

Section Conc2.
  Variable D : N.
  Variable V : kvariant.

  Definition expired_set (m : kvmap) (now : N) : key -> bool :=
    fun k => match m k with Some it => expired now it | None => false end.
  Definition delete_set (m : kvmap) (P : key -> bool) : kvmap :=
    fun k => if P k then None else m k.

  Definition tstep_two_phase_cleanup (lo : local2) (sh : shared) : local2 * shared :=
    match l2_sweep lo with
    | Some P =>
        ({| l2_base := l2_base lo; l2_sweep := None |},
         {| sh_m := delete_set (sh_m sh) P; sh_now := sh_now sh; sh_log := sh_log sh |})
    | None =>
        match lo_pending (l2_base lo), lo_prog (l2_base lo) with
        | None, KCleanup :: rest =>
            ({| l2_base := {| lo_prog := rest; lo_pending := None; lo_seen := lo_seen (l2_base lo) ++ [(KCleanup, OOk)] |};
                l2_sweep := Some (expired_set (sh_m sh) (sh_now sh)) |},
             {| sh_m := sh_m sh; sh_now := sh_now sh; sh_log := sh_log sh ++ [(KCleanup, OOk)] |})
        | _, _ =>
            let '(b, sh') := tstep D V (l2_base lo) sh in ({| l2_base := b; l2_sweep := None |}, sh')
        end
    end.

  Definition init2 (now0 : N) (progs : list (list op)) : shared * list local2 :=
    (init_shared now0, map (fun p => {| l2_base := init_local p; l2_sweep := None |}) progs).
End Conc2.

(* ------------------------------------------------------------------------------------------ *)
(* The second section of GetHash / GetAllHash / GetExpiration and item identity                 *)
(* ------------------------------------------------------------------------------------------ *)
(* The second critical section re-tests EXPIRY ([gc_key]: `if item, ok := m.data[key]; ok && expired(item) { delete }`).
   A tempting rewrite re-tests IDENTITY instead: "delete if m.data[key] is still the *StorageItem I saw under the read
   lock".  That is unsound because not every writer installs a new item: SetHash and IncrBy refresh an expired item IN
   PLACE (same pointer), as do the other methods that assign item.Value / item.Expiration.  To state this, the system
   below tracks for every key the identity of the item stored there: a fresh number whenever a method executes
   `m.data[key] = &StorageItem{...}`, unchanged when it mutates the existing item.  Kept to be refuted
   (Proofs/KV.pointer_recheck_refuted); the harness' "upgrade" scenario replays the schedule on the real code. *)

(* does this call execute `m.data[k] = &StorageItem{...}` ? (memory.go / memory_ops.go, method by method) *)
Definition installs_new_item (m : kvmap) (now : N) (o : op) : option key :=
  let gone k := match m k with None => true | Some it => expired now it end in
  match o with
  | KSet k _ _ | KSetList k _ _ => Some k
  | KSetNX k _ _ => if gone k then Some k else None
  | KAppend k _ => if gone k then Some k else None
  | KSetHash k _ _ | KIncrBy k _ => match m k with None => Some k | Some _ => None end   (* an expired item is reset in place *)
  | KCAS k old _ _ => if gone k && is_nil old then Some k else None
  | _ => None
  end.

Record shared3 := { s3 : shared; s3_id : key -> N; s3_next : N }.
Record local3 := { l3_base : local; l3_saw : option (key * N) }.

Section Conc3.
  Variable D : N.
  Variable V : kvariant.

  Definition tstep_pointer_recheck (lo : local3) (sh : shared3) : local3 * shared3 :=
    match l3_saw lo with
    | Some (k, id) =>
        (* second section: `if cur, ok := m.data[key]; ok && cur == item { delete(m.data, key) }` *)
        let m := sh_m (s3 sh) in
        let m' := match m k with
                  | Some _ => if N.eqb (s3_id sh k) id then upd m k None else m
                  | None => m
                  end in
        ({| l3_base := {| lo_prog := lo_prog (l3_base lo); lo_pending := None; lo_seen := lo_seen (l3_base lo) |}; l3_saw := None |},
         {| s3 := {| sh_m := m'; sh_now := sh_now (s3 sh); sh_log := sh_log (s3 sh) |}; s3_id := s3_id sh; s3_next := s3_next sh |})
    | None =>
        match lo_prog (l3_base lo) with
        | [] => (lo, sh)
        | o :: _ =>
            let m := sh_m (s3 sh) in
            let now := sh_now (s3 sh) in
            let '(b, sh') := tstep D V (l3_base lo) (s3 sh) in
            match lo_pending b with
            | Some k =>     (* first section found the item expired: remember which item it was; the base system's own
                               (expiry re-testing) second section is replaced by the one above *)
                ({| l3_base := {| lo_prog := lo_prog b; lo_pending := None; lo_seen := lo_seen b |}; l3_saw := Some (k, s3_id sh k) |},
                 {| s3 := sh'; s3_id := s3_id sh; s3_next := s3_next sh |})
            | None =>
                match installs_new_item m now o with
                | Some k => ({| l3_base := b; l3_saw := None |},
                             {| s3 := sh'; s3_id := fun k' => if key_eqb k' k then s3_next sh else s3_id sh k'; s3_next := s3_next sh + 1 |})
                | None => ({| l3_base := b; l3_saw := None |}, {| s3 := sh'; s3_id := s3_id sh; s3_next := s3_next sh |})
                end
            end
        end
    end.

  Definition init3 (now0 : N) (progs : list (list op)) : shared3 * list local3 :=
    ({| s3 := init_shared now0; s3_id := fun _ => 0; s3_next := 1 |},
     map (fun p => {| l3_base := init_local p; l3_saw := None |}) progs).
End Conc3.

(* ------------------------------------------------------------------------------------------ *)
(* Reads of composite values copy INSIDE their critical section                                *)
(* ------------------------------------------------------------------------------------------ *)
(* memory.Storage keeps one map per hash and SetHash / DeleteHash write into it (in place).  Get / GetAllHash / GetList
   return a copy, and in [tstep] the copy is part of the read's single step.  The variant below is "look the value up under
   the read lock, copy it after releasing the lock": the first step only remembers which fields to copy, then every field is
   read in a step of its own FROM THE MAP AS IT IS THEN, and the answer is returned (and logged) when the copy is complete.
   (If the key is overwritten by a call that installs a new item, the real code would go on reading the old map; the variant
   reads whatever is stored — it is only used with in-place writers.)  Kept to be refuted
   (Proofs/KV.copy_after_unlock_refuted); the harness' "torn" scenario is the same race on the real code. *)
Record local4 := { l4_base : local; l4_copy : option (key * list key * hash) }.

Section Conc4.
  Variable D : N.
  Variable V : kvariant.

  Definition tstep_copy_after_unlock (lo : local4) (sh : shared) : local4 * shared :=
    let m := sh_m sh in
    match l4_copy lo with
    | Some (k, f :: rest, acc) =>
        let acc' := match m k with
                    | Some it => match val it with
                                 | VHash h => match hget h f with Some x => acc ++ [(f, x)] | None => acc end
                                 | _ => acc
                                 end
                    | None => acc
                    end in
        ({| l4_base := l4_base lo; l4_copy := Some (k, rest, acc') |}, sh)
    | Some (k, [], acc) =>
        let b := l4_base lo in
        ({| l4_base := {| lo_prog := tl (lo_prog b); lo_pending := None; lo_seen := lo_seen b ++ [(KGet k, OVal (VHash acc))] |};
            l4_copy := None |},
         {| sh_m := m; sh_now := sh_now sh; sh_log := sh_log sh ++ [(KGet k, OVal (VHash acc))] |})
    | None =>
        let plain := let '(b, sh') := tstep D V (l4_base lo) sh in ({| l4_base := b; l4_copy := None |}, sh') in
        match lo_pending (l4_base lo), lo_prog (l4_base lo) with
        | None, KGet k :: _ =>
            match live (sh_now sh) (m k) with
            | Some it => match val it with
                         | VHash h => ({| l4_base := l4_base lo; l4_copy := Some (k, map fst h, []) |}, sh)
                         | _ => plain
                         end
            | None => plain
            end
        | _, _ => plain
        end
    end.

  Definition init4 (now0 : N) (progs : list (list op)) : shared * list local4 :=
    (init_shared now0, map (fun p => {| l4_base := init_local p; l4_copy := None |}) progs).
End Conc4.

(* ------------------------------------------------------------------------------------------ *)
(* IncrBy is one critical section                                                              *)
(* ------------------------------------------------------------------------------------------ *)
(* memory_ops.go IncrBy reads, adds and stores under the WRITE lock: one step of [tstep].  The variant below is a
   "fast path under the read lock" for a counter that already exists: read locks do not exclude each other, so the load
   and the store of two callers interleave — modelled as two steps (load the counter; store counter + n and return it).
   Kept to be refuted (Proofs/KV.incr_under_read_lock_refuted); the harness' "incr" scenario (G goroutines x M IncrBy on
   one existing counter, every backend) is the same race on the real code. *)
Record local5 := { l5_base : local; l5_loaded : option (key * Z * Z) }.

Section Conc5.
  Variable D : N.
  Variable V : kvariant.

  Definition tstep_incr_under_read_lock (lo : local5) (sh : shared) : local5 * shared :=
    let m := sh_m sh in
    let plain := let '(b, sh') := tstep D V (l5_base lo) sh in ({| l5_base := b; l5_loaded := None |}, sh') in
    match l5_loaded lo with
    | Some (k, c, n) =>
        let b := l5_base lo in
        let r := OInt (wrap64 (c + n)) in
        let m' := match m k with
                  | Some it => upd m k (Some {| val := VS (SInt (wrap64 (c + n))); exp := exp it |})
                  | None => m
                  end in
        ({| l5_base := {| lo_prog := tl (lo_prog b); lo_pending := None; lo_seen := lo_seen b ++ [(KIncrBy k n, r)] |};
            l5_loaded := None |},
         {| sh_m := m'; sh_now := sh_now sh; sh_log := sh_log sh ++ [(KIncrBy k n, r)] |})
    | None =>
        match lo_pending (l5_base lo), lo_prog (l5_base lo) with
        | None, KIncrBy k n :: _ =>
            match live (sh_now sh) (m k) with
            | Some it => match val it with
                         | VS (SInt c) => ({| l5_base := l5_base lo; l5_loaded := Some (k, c, n) |}, sh)
                         | _ => plain
                         end
            | None => plain          (* absent / expired: the slow path under the write lock *)
            end
        | _, _ => plain
        end
    end.

  Definition init5 (now0 : N) (progs : list (list op)) : shared * list local5 :=
    (init_shared now0, map (fun p => {| l5_base := init_local p; l5_loaded := None |}) progs).
End Conc5.

(* ------------------------------------------------------------------------------------------ *)
(* RemoveFromList is one critical section                                                      *)
(* ------------------------------------------------------------------------------------------ *)
(* memory_ops.go RemoveFromList filters and stores under the WRITE lock: one step of [tstep].  The variant below scans
   under the read lock (first step: compute the filtered copy, nothing stored) and writes the copy back under a separate
   write lock (second step) — an AppendToList landing between the two is overwritten by the stale copy.  Kept to be
   refuted (Proofs/KV.two_section_remove_refuted); the harness' "listrace" scenario is the same race on the real code. *)
Record local6 := { l6_base : local; l6_copy : option (key * scalar * list scalar) }.

Section Conc6.
  Variable D : N.
  Variable V : kvariant.

  Definition tstep_two_section_remove (lo : local6) (sh : shared) : local6 * shared :=
    let m := sh_m sh in
    let plain := let '(b, sh') := tstep D V (l6_base lo) sh in ({| l6_base := b; l6_copy := None |}, sh') in
    match l6_copy lo with
    | Some (k, x, filtered) =>
        let b := l6_base lo in
        let m' := match m k with
                  | Some it => upd m k (Some {| val := VList filtered; exp := exp it |})
                  | None => m
                  end in
        ({| l6_base := {| lo_prog := tl (lo_prog b); lo_pending := None; lo_seen := lo_seen b ++ [(KRemove k x, OOk)] |};
            l6_copy := None |},
         {| sh_m := m'; sh_now := sh_now sh; sh_log := sh_log sh ++ [(KRemove k x, OOk)] |})
    | None =>
        match lo_pending (l6_base lo), lo_prog (l6_base lo) with
        | None, KRemove k x :: _ =>
            match live (sh_now sh) (m k) with
            | Some it => match val it with
                         | VList l =>
                             let filtered := filter (fun y => negb (scalar_eqb y x)) l in
                             if Nat.eqb (length filtered) (length l) then plain     (* no member matches: nothing to write *)
                             else ({| l6_base := l6_base lo; l6_copy := Some (k, x, filtered) |}, sh)
                         | _ => plain
                         end
            | None => plain
            end
        | _, _ => plain
        end
    end.

  Definition init6 (now0 : N) (progs : list (list op)) : shared * list local6 :=
    (init_shared now0, map (fun p => {| l6_base := init_local p; l6_copy := None |}) progs).
End Conc6.

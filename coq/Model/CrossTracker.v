(* Model/CrossTracker.v — FrameStream.Read of a stream created with a TunnelStateTracker (stream.go,
   NewFrameStreamWithTracker): the same loop as Model/CrossFrame.v next_frame_loop, with the tracker consulted
   exactly where the code consults it.  The tracker is an ORACLE: cl is the set of tunnel-id strings it currently
   reports as closed (SessionManager.MarkTunnelClosed is node-wide state changed by other goroutines at any time),
   given per Read call (cls, then dcl for ever).
   `before = true` is the variant that applies the closed-tunnel check BEFORE the tunnel-id filter, i.e. also to the
   stream's own frames; kept only to state what goes wrong with it.  Definitions only. *)
From TX Require Export Model.CrossFrame.
Open Scope N_scope.

Definition closed_in (cl : list (list byte)) (name : list byte) : bool := existsb (bytes_eqb name) cl.

Section Tracker.
  Variable MaxFrame : N.
  Variable before : bool.

  Fixpoint next_frame_loop_t (cl : list (list byte)) (fuel : nat) (tid : list byte) (cap : nat) (st : rstate) (r : rd)
    : rres * rstate * rd :=
    match fuel with
    | O => (RFuel, st, r)
    | S f =>
      match decode_frame MaxFrame r with
      | (DErr e, _, r1) =>
        let st1 := if negb (r_weof st) && negb (err_is_closed e) then mark_broken st else st in
        if err_is_closed e then (REof, set_eof st1, r1)
        else (match e with FFuel => RFuel | _ => RErr end, st1, r1)
      | (DOk fr, _, r1) =>
        if before && closed_in cl (id_to_string (f_tid fr)) then next_frame_loop_t cl f tid cap st r1
        else if negb (bytes_eqb (f_tid fr) tid) then
          (* otherTunnelIDStr := TunnelIDToString(tunnelID); residual frame of a closed tunnel / frame of another tunnel *)
          (if closed_in cl (id_to_string (f_tid fr)) then next_frame_loop_t cl f tid cap st r1
           else next_frame_loop_t cl f tid cap st r1)
        else if f_ty fr =? T_Data then
          match f_data fr with
          | [] => next_frame_loop_t cl f tid cap st r1
          | d => let n := Nat.min cap (length d) in
                 (RData (firstn cap d), if (length d <=? n)%nat then set_buf st [] 0 else set_buf st d n, r1)
          end
        else if (f_ty fr =? T_EOF) || (f_ty fr =? T_Close) then (REof, set_eof st, r1)
        else next_frame_loop_t cl f tid cap st r1
      end
    end.

  Definition fs_read_t (cl : list (list byte)) (tid : list byte) (cap : nat) (st : rstate) (r : rd) : rres * rstate * rd :=
    if r_eof st then (REof, st, r)
    else if (r_off st <? length (r_buf st))%nat then
      let got := firstn cap (skipn (r_off st) (r_buf st)) in
      let off := (r_off st + length got)%nat in
      (RData got, if (length (r_buf st) <=? off)%nat then set_buf st [] 0 else set_buf st (r_buf st) off, r)
    else next_frame_loop_t cl (S (length (rest r))) tid cap st r.

  Fixpoint read_loop_t (fuel : nat) (tid : list byte) (caps : list nat) (dcap : nat)
           (cls : list (list (list byte))) (dcl : list (list byte)) (st : rstate) (r : rd) : list rres * rstate * rd :=
    match fuel with
    | O => ([RFuel], st, r)
    | S f =>
      match fs_read_t (hd dcl cls) tid (hd dcap caps) st r with
      | (RData d, st', r') =>
        let '(l, st'', r'') := read_loop_t f tid (tl caps) dcap (tl cls) dcl st' r' in (RData d :: l, st'', r'')
      | (x, st', r') => ([x], st', r')
      end
    end.
  Definition read_stream_t (tid : list byte) (weof : bool) (caps : list nat) (dcap : nat)
             (cls : list (list (list byte))) (dcl : list (list byte)) (s : list byte) (c : list nat) : list rres * rstate * rd :=
    read_loop_t (S (length s)) tid caps dcap cls dcl (rinit weof) (mkrd s c).
End Tracker.
Close Scope N_scope.

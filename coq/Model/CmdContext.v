(* Model/CmdContext.v — C11, overlapping commands: the CommandContext a handler works with.
   Definitions only (proofs: Proofs/CmdContext.v).

   Transcribed from internal/command/executor.go:
     Execute                 createCommandContext, then executeOneway / executeDuplex
     createCommandContext    a NEW &types.CommandContext{ConnectionID, ClientID (from the connection registry), RequestBody, ...}
     executeOneway           `go func(){ handler.Handle(ctx) }()` and return at once
     executeDuplex           `go func(){ handler.Handle(ctx); sendResponse(ctx.ConnectionID, ...) }()`; returns on the response
                             OR on the RPC timeout, the goroutine keeps running
   so Execute can return while the handler still holds the pointer; other commands are dispatched meanwhile.

   One thread (Base/Threads.v) = one command in flight.  Its atomic steps: dispatch (allocate + fill the context), then the
   actions of its script in order: ALook = the handler (or the response path) reads its context, AReturn = Execute returns to
   the caller.  Shared state: the heap of context objects (and, for the refuted `pooled` variant, the free list of a
   sync.Pool that recycles a context when Execute returns). *)
From TX Require Export Base.Threads.
From Coq Require Import NArith.

(* what a handler can read off its context: (connection, ClientID, body tag) *)
Definition ctxval := (N * N * N)%type.
Definition ctx_default : ctxval := (0%N, 0%N, 0%N).

Inductive action := ALook | AReturn.

Record cthread := {
  t_own : ctxval;             (* the command: connection it arrived on, identity the registry held for it at dispatch, its body *)
  t_cell : option nat;        (* None = not dispatched yet; Some c = holds context object #c *)
  t_script : list action;     (* what is still to come *)
  t_obs : list ctxval         (* what the handler has seen so far *)
}.
Record cshared := { c_heap : list ctxval; c_pool : list nat }.

Definition set_cell (l : cthread) (c : nat) : cthread :=
  {| t_own := t_own l; t_cell := Some c; t_script := t_script l; t_obs := t_obs l |}.

Definition ctx_step (pooled : bool) (l : cthread) (s : cshared) : cthread * cshared :=
  match t_cell l with
  | None =>
      (* createCommandContext *)
      match (if pooled then c_pool s else []) with
      | c :: rest => (set_cell l c, {| c_heap := upd_nth c (t_own l) (c_heap s); c_pool := rest |})
      | [] => (set_cell l (length (c_heap s)), {| c_heap := c_heap s ++ [t_own l]; c_pool := c_pool s |})
      end
  | Some c =>
      match t_script l with
      | [] => (l, s)
      | ALook :: rest =>
          ({| t_own := t_own l; t_cell := Some c; t_script := rest; t_obs := t_obs l ++ [nth c (c_heap s) ctx_default] |}, s)
      | AReturn :: rest =>
          ({| t_own := t_own l; t_cell := Some c; t_script := rest; t_obs := t_obs l |},
           if pooled then {| c_heap := c_heap s; c_pool := c :: c_pool s |} else s)
      end
  end.

Definition new_thread (own : ctxval) (script : list action) : cthread :=
  {| t_own := own; t_cell := None; t_script := script; t_obs := [] |}.
Definition ctx_init (ths : list (ctxval * list action)) : st cshared cthread :=
  ({| c_heap := []; c_pool := [] |}, map (fun p => new_thread (fst p) (snd p)) ths).
Definition ctx_run (pooled : bool) (ths : list (ctxval * list action)) (sched : list nat) : st cshared cthread :=
  run cshared cthread (ctx_step pooled) (ctx_init ths) sched.
Definition observations (s : st cshared cthread) : list (list ctxval) := map t_obs (snd s).

(* a handler that keeps per-command state (the requester's identity) in a field of the SHARED handler object instead of its
   context / stack frame (a seeded breaking change): every command writes the one shared cell #0 at dispatch *)
Definition ctx_step_shared (l : cthread) (s : cshared) : cthread * cshared :=
  match t_cell l with
  | None => (set_cell l 0, {| c_heap := match c_heap s with [] => [t_own l] | _ :: r => t_own l :: r end; c_pool := c_pool s |})
  | Some _ => ctx_step false l s
  end.
Definition ctx_run_shared (ths : list (ctxval * list action)) (sched : list nat) : st cshared cthread :=
  run cshared cthread ctx_step_shared (ctx_init ths) sched.

(* an answer assembled in a buffer SHARED by all connections (a seeded breaking change in the auth handler's GetClientConfig):
   each command resets the buffer, appends its own items one by one, then reads the buffer as its answer.
   Local state: (own item, items still to append, answer read so far). *)
Record bthread := { b_own : N; b_todo : nat; b_started : bool; b_answer : option (list N) }.
Definition buf_step (shared : bool) (l : bthread) (buf : list N) : bthread * list N :=
  if negb (b_started l) then ({| b_own := b_own l; b_todo := b_todo l; b_started := true; b_answer := None |}, if shared then [] else buf)
  else match b_todo l with
       | S k => ({| b_own := b_own l; b_todo := k; b_started := true; b_answer := None |}, if shared then buf ++ [b_own l] else buf)
       | O => match b_answer l with
              | None => ({| b_own := b_own l; b_todo := 0; b_started := true;
                            b_answer := Some (if shared then buf else []) |}, buf)   (* private buffer: modelled by the count below *)
              | Some _ => (l, buf)
              end
       end.
Definition buf_run (shared : bool) (ths : list (N * nat)) (sched : list nat) : st (list N) bthread :=
  run (list N) bthread (buf_step shared)
      ([], map (fun p => {| b_own := fst p; b_todo := snd p; b_started := false; b_answer := None |}) ths) sched.

(* Model/Framing.v — executable model of internal/stream StreamProcessor.WritePacket / ReadPacket
   (stream_processor_write.go, stream_processor_read.go, packet/packet.go) after the C01/C05 fixes
   (length always written for non-heartbeat packets; length field read with io.ReadFull; inflated body
   limited to MaxPacketBodySize).
   Definitions only; proofs are in Proofs/Framing.v. *)
From TX Require Export Base.Bytes Base.Chunks.

Open Scope N_scope.

(* packet.Type predicates (packet.go).  Proofs/SideC01.v re-checks them against the real methods for all
   256 byte values on every run. *)
Definition base_ty (ty : N) : N := N.land ty 63.
Definition is_heartbeat (ty : N) : bool := base_ty ty =? 3.
Definition is_compressed (ty : N) : bool := negb (N.land ty 64 =? 0).
Definition is_encrypted (ty : N) : bool := negb (N.land ty 128 =? 0).
Definition is_json_cmd (ty : N) : bool := (base_ty ty =? 16) || (base_ty ty =? 17).

Record packet := { p_ty : N; p_body : list byte }.

Inductive perr := EEnd | EShortLen | ETooLarge | EShortBody | EEncrypted | EInflate | EJson | EFuel.
Inductive pres :=
| POk (ty : N) (body : list byte) (consumed : N)
| PErr (e : perr) (consumed : N).

(* variants kept to state the two repaired defects as refuted lemmas about the pinned tree *)
Record fvariant := { v_single_len_read : bool;   (* pinned tree: one Read for the 4-byte length *)
                     v_omit_empty_len : bool;    (* pinned tree: no length field for an empty body *)
                     v_unbounded_inflate : bool }. (* pinned tree: io.Copy of the gzip stream without a limit (C05) *)
Definition current_variant := {| v_single_len_read := false; v_omit_empty_len := false; v_unbounded_inflate := false |}.
Definition pinned_variant := {| v_single_len_read := true; v_omit_empty_len := true; v_unbounded_inflate := true |}.

Section Framing.
  Variable V : fvariant.
  Variable MaxBody : N.
  (* external code: Go compress/gzip, encoding/json *)
  Variable deflate : list byte -> list byte.
  Variable inflate : list byte -> option (list byte).
  (* json_norm b = None: json.Unmarshal rejects b; Some b': the CommandPacket it decodes to, re-marshalled *)
  Variable json_norm : list byte -> option (list byte).

  (* ---- writer: WritePacket(pkt, useCompression, _) ---- *)
  Definition wire_ty (compress : bool) (p : packet) : N :=
    if compress then N.lor (p_ty p) 64 else p_ty p.
  Definition wire_body (compress : bool) (p : packet) : list byte :=
    if compress then deflate (p_body p) else p_body p.
  Definition encode (compress : bool) (p : packet) : list byte :=
    let ty := wire_ty compress p in
    if is_heartbeat ty then [ty]
    else if v_omit_empty_len V && (match p_body p with [] => true | _ => false end) then [ty]
    else let body := wire_body compress p in ty :: be32 (lenN body) ++ body.

  Definition encode_all (cps : list (bool * packet)) : list byte :=
    flat_map (fun cp => encode (fst cp) (snd cp)) cps.

  (* ---- reader: ReadPacket over a chunk oracle ---- *)
  Definition read_len (r : rd) : rf_result :=
    if v_single_len_read V then read_once 4 r else read_full (length (rest r)) 4 r.

  Definition finish (ty : N) (body : list byte) (consumed : N) : pres :=
    if is_encrypted ty then PErr EEncrypted consumed
    else
      (* decompressData: io.Copy through LimitReader(MaxBody+1); a larger result is rejected *)
      let after := if is_compressed ty
                   then match inflate body with
                        | None => None
                        | Some b => if negb (v_unbounded_inflate V) && (MaxBody <? lenN b) then None else Some b
                        end
                   else Some body in
      match after with
      | None => PErr EInflate consumed
      | Some b => if is_json_cmd ty
                  then match json_norm b with None => PErr EJson consumed | Some b' => POk ty b' consumed end
                  else POk ty b consumed
      end.

  Definition read_packet (r : rd) : pres * rd :=
    match read1 1 r with
    | None => (PErr EEnd 0, r)
    | Some (tyb, r1) =>
      let ty := hd 0 tyb in
      if is_heartbeat ty then (POk ty [] 1, r1) else
      match read_len r1 with
      | RFOk szb r2 =>
        let n := de32 szb in
        if MaxBody <? n then (PErr ETooLarge 5, r2) else
        match read_full (length (rest r2)) n r2 with
        | RFOk body r3 => (finish ty body (5 + lenN body), r3)
        | RFEnd _ r3 => (PErr EShortBody 5, r3)
        | RFFuel => (PErr EFuel 5, r2)
        end
      | RFEnd _ r2 => (PErr EShortLen 1, r2)
      | RFFuel => (PErr EFuel 1, r1)
      end
    end.

  Fixpoint read_all (fuel : nat) (r : rd) : list pres :=
    match fuel with
    | O => [PErr EFuel 0]
    | S f => match read_packet r with
             | (POk ty b c, r') => POk ty b c :: read_all f r'
             | (PErr e c, _) => [PErr e c]
             end
    end.
  Definition read_stream (s : list byte) (c : list nat) : list pres :=
    read_all (S (length s)) (mkrd s c).

  (* ---- oracle-free specification of the same decoder ---- *)
  Definition parse_packet (s : list byte) : pres * list byte :=
    match s with
    | [] => (PErr EEnd 0, s)
    | ty :: s1 =>
      if is_heartbeat ty then (POk ty [] 1, s1) else
      if lenN s1 <? 4 then (PErr EShortLen 1, []) else
      let n := de32 (firstn 4 s1) in
      let s2 := skipn 4 s1 in
      if MaxBody <? n then (PErr ETooLarge 5, s2) else
      if lenN s2 <? n then (PErr EShortBody 5, []) else
      (finish ty (firstn (N.to_nat n) s2) (5 + n), skipn (N.to_nat n) s2)
    end.

  Fixpoint parse_all (fuel : nat) (s : list byte) : list pres :=
    match fuel with
    | O => [PErr EFuel 0]
    | S f => match parse_packet s with
             | (POk ty b c, s') => POk ty b c :: parse_all f s'
             | (PErr e c, _) => [PErr e c]
             end
    end.
  Definition parse_stream (s : list byte) : list pres := parse_all (S (length s)) s.
End Framing.
Close Scope N_scope.

(* Model/RoutingForward.v — two layers on Model/Routing.v for property C09:

   (A) the LAST HOP of "resolves to the correct source node": forwardToSourceNode (cross_node_session.go) looks the tunnel
       up, then TunnelConnectionManager.CreateDedicatedConnection (tunnel_connection_manager.go) resolves the source
       node's address with getNodeAddr = RoutingTable.GetNodeAddress AT THAT MOMENT and dials it.  [forward_now] is that
       composition.  [use_memo = true] is the variant that remembers nodeID -> address per forwarding node and asks the
       routing table only on a miss (an old address that still accepts connections is never invalidated) - kept to
       refute it (Proofs/RoutingForward.v memo_forward_refuted).

   (B) a transient failure of the SHARED tier during one storage call (Redis down for one command):
       hybrid.Storage / redis.Storage return the error; RegisterWaitingTunnel, RegisterNodeAddress, LookupWaitingTunnel,
       GetNodeAddress report it to the caller and nothing is written anywhere; RemoveWaitingTunnel logs the failed Delete and
       returns nil (routing.go: "删除失败不是致命错误，因为有TTL自动清理") - the record stays until its TTL.
       [fallback = true] is the "degraded mode" variant: a failed shared Set is diverted to the node-local cache and
       reported as success, and shared reads fall back to the local cache on a miss/error, while Delete still only
       touches the shared tier - kept to refute it (local_fallback_refuted). *)
From Coq Require Import List NArith Bool.
Import ListNotations.
From TX Require Import Base.Val.
From TX Require Export Model.Routing.
Open Scope N_scope.

Inductive fres := FDial (node addr : str) | FNoRoute | FNoAddr (node : str).

Inductive fop := FO (o : op) | FF (n : nat) (t : str).          (* FF: a target connection for t arrives on node n *)
Inductive qop := QOk (o : op) | QFault (o : op).                (* QFault: the shared tier fails during this call *)
Inductive qres := QR (r : res) | QStorageErr.

Definition with_local (c : cfg) : cfg :=
  mkCfg (c_ttl c) (c_addr_ttl c) (c_wpre c) (c_npre c) (c_nsuf c) (fun _ => false) (c_shared_ident c) (c_del_expired c).

Definition nil_str (t : str) : bool := match t with [] => true | _ => false end.

(* the storage key a RoutingTable call touches (None: rejected before any storage call / a clock tick) *)
Definition op_key (c : cfg) (o : op) : option key :=
  match o with
  | ORegister _ r => if nil_str (w_tunnel r) then None else Some (wait_key c (w_tunnel r))
  | OLookup _ t | ORemove _ t => if nil_str t then None else Some (wait_key c t)
  | ORegAddr _ id _ | OGetAddr _ id => Some (addr_key c id)
  | OTick _ _ => None
  end.
(* does the call reach the shared tier? *)
Definition hits_shared (c : cfg) (o : op) : bool :=
  match op_key c o with Some k => c_route c k | None => false end.

Section Forward.
  Variable gstr : Type.
  Variable enc : waiting -> gstr.
  Variable dec : gstr -> option waiting.
  Variable decm : gstr -> option waiting.
  Variable of_addr : str -> gstr.
  Variable to_addr : gstr -> str.
  Variable keep : cell -> N -> bool.

  Notation state := (state gstr).
  Notation step := (step gstr enc dec decm of_addr to_addr keep).
  Notation lookup := (lookup gstr enc dec decm of_addr to_addr keep).

  (* ---- (A) *)
  Definition get_addr (c : cfg) (s : state) (n : nat) (id : str) : res := snd (step c s (OGetAddr n id)).

  Definition forward_now (c : cfg) (s : state) (n : nat) (t : str) : fres :=
    match lookup c s n t with
    | ROk r => match get_addr c s n (w_node r) with RAddr a => FDial (w_node r) a | _ => FNoAddr (w_node r) end
    | _ => FNoRoute
    end.

  Definition memo := nat -> str -> option str.
  Definition memo_set (m : memo) (n : nat) (id a : str) : memo :=
    fun n' id' => if Nat.eqb n' n && list_eqb id' id then Some a else m n' id'.

  Definition fstep (use_memo : bool) (c : cfg) (sm : state * memo) (f : fop) : (state * memo) * option fres :=
    let (s, m) := sm in
    match f with
    | FO o => ((fst (step c s o), m), None)
    | FF n t =>
        let s' := fst (step c s (OLookup n t)) in
        match lookup c s n t with
        | ROk r =>
            let id := w_node r in
            match (if use_memo then m n id else None) with
            | Some a => ((s', m), Some (FDial id a))
            | None =>
                match get_addr c s n id with
                | RAddr a => ((s', if use_memo then memo_set m n id a else m), Some (FDial id a))
                | _ => ((s', m), Some (FNoAddr id))
                end
            end
        | _ => ((s', m), Some FNoRoute)
        end
    end.

  Fixpoint frun (use_memo : bool) (c : cfg) (sm : state * memo) (h : list fop) : (state * memo) * list (option fres) :=
    match h with
    | [] => (sm, [])
    | f :: h' => let (sm1, r) := fstep use_memo c sm f in let (sm2, rs) := frun use_memo c sm1 h' in (sm2, r :: rs)
    end.

  Definition ferase (f : fop) : op := match f with FO o => o | FF n t => OLookup n t end.

  (* ---- (B) *)
  Definition qstep (fallback : bool) (c : cfg) (s : state) (x : qop) : state * qres :=
    match x with
    | QOk o =>
        let (s1, r) := step c s o in
        if fallback && hits_shared c o then
          (* variant: a shared MISS is retried on the node-local cache *)
          match o, r with
          | OLookup _ _, RNotFound | OGetAddr _ _, RAddrNotFound =>
              let (s2, r2) := step (with_local c) s o in (s2, QR r2)
          | _, _ => (s1, QR r)
          end
        else (s1, QR r)
    | QFault o =>
        if hits_shared c o then
          match o with
          | ORemove _ _ => (s, QR RUnit)                    (* the failed Delete is logged, nil is returned *)
          | _ => if fallback then let (s2, r2) := step (with_local c) s o in (s2, QR r2)
                 else (s, QStorageErr)                      (* reported; nothing written anywhere *)
          end
        else let (s1, r) := step c s o in (s1, QR r)        (* the call never touches the shared tier *)
    end.

  Fixpoint qrun (fallback : bool) (c : cfg) (s : state) (h : list qop) : state * list qres :=
    match h with
    | [] => (s, [])
    | x :: h' => let (s1, r) := qstep fallback c s x in let (s2, rs) := qrun fallback c s1 h' in (s2, r :: rs)
    end.
  Definition qfinal (fallback : bool) (c : cfg) (s : state) (h : list qop) : state := fst (qrun fallback c s h).

  (* the RoutingTable calls that took effect on the tree as found *)
  Definition qerase (c : cfg) (x : qop) : list op :=
    match x with
    | QOk o => [o]
    | QFault o => if hits_shared c o then [] else [o]
    end.
End Forward.

(* ---- (C) the target node's polling lookup (cross_node_session.go lookupTunnelRouting; handleLocalBridgeWait has the same
   loop): look up; on NotFound/Expired sleep [interval], then interval *= factor, capped at pollMaxInterval; repeat.
   [poll_interval init factor cap k] is the sleep after the k-th miss.  [poll_run] runs the rounds: between two polls the
   rest of the cluster performs an arbitrary history (which includes the passing of the sleep interval). *)
Fixpoint poll_interval (init factor cap : N) (k : nat) : N :=
  match k with
  | O => init
  | S k' => N.min (poll_interval init factor cap k' * factor) cap
  end.

Section Poll.
  Variable gstr : Type.
  Variable enc : waiting -> gstr.
  Variable dec : gstr -> option waiting.
  Variable decm : gstr -> option waiting.
  Variable of_addr : str -> gstr.
  Variable to_addr : gstr -> str.
  Variable keep : cell -> N -> bool.

  (* index of the first poll that resolves, and its answer; None: still polling when the rounds are exhausted *)
  Fixpoint poll_run (c : cfg) (s : state gstr) (n : nat) (t : str) (rounds : list (list op)) (i : nat) : option (nat * waiting) :=
    match lookup gstr enc dec decm of_addr to_addr keep c s n t with
    | ROk r => Some (i, r)
    | _ => match rounds with
           | [] => None
           | h :: rest => poll_run c (final gstr enc dec decm of_addr to_addr keep c s h) n t rest (S i)
           end
    end.
End Poll.

(* variant kept to refute it: the forwarding node refuses ids found in its closed-tunnel tracker (filled when a forward of
   that id finished on this node, never cleared) before consulting the routing table *)
Definition forward_with_closed_guard (gstr : Type) enc dec decm of_addr to_addr keep
           (closed : nat -> str -> bool) (c : cfg) (s : state gstr) (n : nat) (t : str) : fres :=
  if closed n t then FNoRoute else forward_now gstr enc dec decm of_addr to_addr keep c s n t.

(* Model/KV.v — executable model of the storage layer's TTL key-value semantics (property C13).

   Transcribes internal/core/storage/memory/memory.go and memory_ops.go (type Storage: one RWMutex
   around map[string]*StorageItem{Value any; Expiration time.Time}, lazy expiry + CleanupExpired)
   and gives the reference semantics the property compares it with.

     Spec     the simplest sequential map with expiry: eager expiry (a Tick purges what is past its
              deadline), operations never look at the clock except to compute a new deadline.
     MemImpl  the Go code, method by method: garbage stays in the map until something touches it,
              and every method performs its OWN expiry test exactly as written.  The places where the
              pinned tree deviates are selected by a [kvariant] record; [repaired] is the code after
              fixes/C13-*.diff, [pinned] the tree as found.

   Time is explicit: [now : N] (milliseconds), advanced only by [Tick d] operations, hence monotone.
   time.Time{} (the zero value = "never expires") is deadline 0; a real time.Now() is never 0.
   Durations are non-negative (negative time.Duration arguments are outside the model).

   Definitions only; proofs are in Proofs/KV.v.  This file is meant to be reused (C14 hybrid store,
   C06/C08/C09/C19 repositories): import Model.KV and use [spec_step] as the storage contract. *)
From TX Require Export Base.Val.
From Coq Require Export ZArith.

Open Scope N_scope.

(* ------------------------------------------------------------------------------------------ *)
(* Keys, values                                                                                *)
(* ------------------------------------------------------------------------------------------ *)

Definition key := list N.                       (* Go string, as bytes *)
Definition key_eqb (a b : key) : bool := list_eqb a b.

(* What the repositories store: strings (JSON documents are strings), int64 counters, and nil as the
   "expect absent" argument of CompareAndSwap.  Lists and hashes hold scalars. *)
Inductive scalar :=
| SStr (b : list N)
| SInt (z : Z)
| SNil.

Definition scalar_eqb (a b : scalar) : bool :=          (* Go `==` on two `any` of these dynamic types *)
  match a, b with
  | SStr x, SStr y => list_eqb x y
  | SInt x, SInt y => Z.eqb x y
  | SNil, SNil => true
  | _, _ => false
  end.

Definition hash := list (key * scalar).          (* map[string]any: association list, no duplicate fields *)

Inductive value :=
| VS (s : scalar)
| VList (l : list scalar)                        (* []any *)
| VHash (h : hash).                              (* map[string]any *)

Fixpoint hget (h : hash) (f : key) : option scalar :=
  match h with
  | [] => None
  | (g, x) :: t => if key_eqb g f then Some x else hget t f
  end.
Fixpoint hdel (h : hash) (f : key) : hash :=
  match h with
  | [] => []
  | (g, x) :: t => if key_eqb g f then hdel t f else (g, x) :: hdel t f
  end.
Fixpoint hset (h : hash) (f : key) (x : scalar) : hash :=
  match h with
  | [] => [(f, x)]
  | (g, y) :: t => if key_eqb g f then (f, x) :: t else (g, y) :: hset t f x
  end.

(* int64 addition wraps (Go) *)
Definition wrap64 (z : Z) : Z := ((z + 9223372036854775808) mod 18446744073709551616 - 9223372036854775808)%Z.

(* ------------------------------------------------------------------------------------------ *)
(* Items, maps, expiry                                                                         *)
(* ------------------------------------------------------------------------------------------ *)

Record item := { val : value; exp : N }.        (* exp = 0: Expiration.IsZero(), never expires *)

(* `!item.Expiration.IsZero() && time.Now().After(item.Expiration)` *)
Definition expired (now : N) (it : item) : bool := negb (exp it =? 0) && (exp it <? now).

(* `if ttl <= 0 { time.Time{} } else { time.Now().Add(ttl) }`  (Set, SetNX; after the fix also CAS, SetExpiration) *)
Definition deadline (now ttl : N) : N := if ttl =? 0 then 0 else now + ttl.

Definition kvmap := key -> option item.
Definition empty : kvmap := fun _ => None.
Definition upd (m : kvmap) (k : key) (o : option item) : kvmap :=
  fun k' => if key_eqb k' k then o else m k'.

(* what a reader sees of a slot: expired garbage is invisible *)
Definition live (now : N) (o : option item) : option item :=
  match o with
  | Some it => if expired now it then None else Some it
  | None => None
  end.

(* ------------------------------------------------------------------------------------------ *)
(* Operations and observable results                                                           *)
(* ------------------------------------------------------------------------------------------ *)

Inductive op :=
| KSet (k : key) (v : value) (ttl : N)
| KGet (k : key)
| KDelete (k : key)
| KExists (k : key)
| KSetList (k : key) (l : list scalar) (ttl : N)
| KGetList (k : key)
| KAppend (k : key) (x : scalar)                  (* AppendToList *)
| KRemove (k : key) (x : scalar)                  (* RemoveFromList *)
| KSetHash (k f : key) (x : scalar)
| KGetHash (k f : key)
| KGetAllHash (k : key)
| KDeleteHash (k f : key)
| KIncrBy (k : key) (n : Z)                       (* Incr = IncrBy 1 *)
| KSetExpiration (k : key) (ttl : N)
| KGetExpiration (k : key)
| KSetNX (k : key) (v : value) (ttl : N)
| KCAS (k : key) (old : scalar) (new : value) (ttl : N)   (* CompareAndSwap *)
| KCleanup                                        (* CleanupExpired (also run by the background ticker) *)
| KTick (d : N).                                  (* the clock advances by d *)

Inductive out :=
| OOk                                            (* nil error, nothing else returned *)
| OVal (v : value)
| OBool (b : bool)
| OInt (z : Z)
| ODur (d : N)                                   (* GetExpiration: remaining lifetime; 0 for "never" *)
| ODurNeg                                        (* pinned GetExpiration on a never-expiring key: time.Until(time.Time{}) < 0 *)
| ONotFound                                      (* types.ErrKeyNotFound *)
| OInvalidType.                                  (* types.ErrInvalidType *)

(* `item.Value != oldValue` in CompareAndSwap, for a scalar oldValue: different dynamic types are unequal *)
Definition cas_matches (stored : value) (old : scalar) : bool :=
  match stored with VS s => scalar_eqb s old | _ => false end.

Definition is_nil (s : scalar) : bool := match s with SNil => true | _ => false end.

(* ------------------------------------------------------------------------------------------ *)
(* Spec: eager expiry, no garbage                                                              *)
(* ------------------------------------------------------------------------------------------ *)

Section WithDefaultTTL.
  Variable D : N.        (* constants.DefaultDataTTL in ms (regenerated in Gen/C13.v); side condition 0 < D *)

  Definition purge (now : N) (s : kvmap) : kvmap := fun k => live now (s k).

  (* result, new state, new clock *)
  Definition spec_step (s : kvmap) (now : N) (o : op) : out * kvmap * N :=
    match o with
    | KSet k v ttl => (OOk, upd s k (Some {| val := v; exp := deadline now ttl |}), now)
    | KGet k => (match s k with Some it => OVal (val it) | None => ONotFound end, s, now)
    | KDelete k => (OOk, upd s k None, now)
    | KExists k => (OBool (match s k with Some _ => true | None => false end), s, now)
    | KSetList k l ttl => (OOk, upd s k (Some {| val := VList l; exp := deadline now ttl |}), now)
    | KGetList k =>
        (match s k with
         | None => ONotFound
         | Some it => match val it with VList l => OVal (VList l) | _ => OInvalidType end
         end, s, now)
    | KAppend k x =>
        match s k with
        | None => (OOk, upd s k (Some {| val := VList [x]; exp := now + D |}), now)
        | Some it =>
            match val it with
            | VList l => (OOk, upd s k (Some {| val := VList (l ++ [x]); exp := exp it |}), now)
            | _ => (OInvalidType, s, now)
            end
        end
    | KRemove k x =>
        match s k with
        | None => (OOk, s, now)
        | Some it =>
            match val it with
            | VList l => (OOk, upd s k (Some {| val := VList (filter (fun y => negb (scalar_eqb y x)) l);
                                                exp := exp it |}), now)
            | _ => (OInvalidType, s, now)
            end
        end
    | KSetHash k f x =>
        match s k with
        | None => (OOk, upd s k (Some {| val := VHash [(f, x)]; exp := now + D |}), now)
        | Some it =>
            match val it with
            | VHash h => (OOk, upd s k (Some {| val := VHash (hset h f x); exp := exp it |}), now)
            | _ => (OOk, upd s k (Some {| val := VHash [(f, x)]; exp := exp it |}), now)   (* a non-hash value is replaced *)
            end
        end
    | KGetHash k f =>
        (match s k with
         | None => ONotFound
         | Some it => match val it with
                      | VHash h => match hget h f with Some x => OVal (VS x) | None => ONotFound end
                      | _ => OInvalidType
                      end
         end, s, now)
    | KGetAllHash k =>
        (match s k with
         | None => ONotFound
         | Some it => match val it with VHash h => OVal (VHash h) | _ => OInvalidType end
         end, s, now)
    | KDeleteHash k f =>
        match s k with
        | None => (OOk, s, now)
        | Some it =>
            match val it with
            | VHash h => (OOk, upd s k (Some {| val := VHash (hdel h f); exp := exp it |}), now)
            | _ => (OInvalidType, s, now)
            end
        end
    | KIncrBy k n =>
        match s k with
        | None => (OInt (wrap64 (0 + n)), upd s k (Some {| val := VS (SInt (wrap64 (0 + n))); exp := now + D |}), now)
        | Some it =>
            match val it with
            | VS (SInt c) => (OInt (wrap64 (c + n)), upd s k (Some {| val := VS (SInt (wrap64 (c + n))); exp := exp it |}), now)
            | _ => (OInvalidType, s, now)
            end
        end
    | KSetExpiration k ttl =>
        match s k with
        | None => (ONotFound, s, now)
        | Some it => (OOk, upd s k (Some {| val := val it; exp := deadline now ttl |}), now)
        end
    | KGetExpiration k =>
        (match s k with
         | None => ONotFound
         | Some it => ODur (if exp it =? 0 then 0 else exp it - now)
         end, s, now)
    | KSetNX k v ttl =>
        match s k with
        | Some _ => (OBool false, s, now)
        | None => (OBool true, upd s k (Some {| val := v; exp := deadline now ttl |}), now)
        end
    | KCAS k old new ttl =>
        match s k with
        | None => if is_nil old
                  then (OBool true, upd s k (Some {| val := new; exp := deadline now ttl |}), now)
                  else (OBool false, s, now)
        | Some it => if cas_matches (val it) old
                     then (OBool true, upd s k (Some {| val := new; exp := deadline now ttl |}), now)
                     else (OBool false, s, now)
        end
    | KCleanup => (OOk, s, now)
    | KTick d => (OOk, purge (now + d) s, now + d)
    end.

  (* ---------------------------------------------------------------------------------------- *)
  (* MemImpl: memory.go / memory_ops.go, method by method                                      *)
  (* ---------------------------------------------------------------------------------------- *)

  Record kvariant := {
    v_cas_zero_guard : bool;   (* CompareAndSwap's expiry test has the `!IsZero() &&` guard (pinned: no) *)
    v_cas_ttl0_never : bool;   (* CompareAndSwap maps ttl<=0 to time.Time{} (pinned: time.Now().Add(ttl)) *)
    v_setexp_checks_expiry : bool; (* SetExpiration treats an expired item as absent (pinned: revives it) *)
    v_setexp_ttl0_never : bool;    (* SetExpiration maps ttl<=0 to time.Time{} (pinned: time.Now().Add(ttl)) *)
    v_setnx_after : bool;      (* SetNX tests `!Now().After(exp)` like every other method (pinned: `Now().Before(exp)`) *)
    v_getexp_never0 : bool     (* GetExpiration returns 0 for a never-expiring key (pinned: time.Until(time.Time{})) *)
  }.
  Definition repaired := {| v_cas_zero_guard := true; v_cas_ttl0_never := true; v_setexp_checks_expiry := true; v_setexp_ttl0_never := true;
                            v_setnx_after := true; v_getexp_never0 := true |}.
  Definition pinned := {| v_cas_zero_guard := false; v_cas_ttl0_never := false; v_setexp_checks_expiry := false; v_setexp_ttl0_never := false;
                          v_setnx_after := false; v_getexp_never0 := false |}.

  Variable V : kvariant.

  (* pinned CompareAndSwap / SetExpiration: `time.Now().Add(ttl)` also for ttl = 0, i.e. the instant of the call
     itself — which every LATER call is strictly after (consecutive time.Now() readings differ).  On the model's
     clock, where the calls between two Ticks share one instant, that is the instant just before [now]. *)
  Definition pinned_deadline (now ttl : N) : N := if ttl =? 0 then N.pred now else now + ttl.

  (* the `expired` re-check + delete that GetHash / GetAllHash / GetExpiration perform under the write
     lock AFTER releasing the read lock (a second critical section; see Proofs/KV.v, linearizability) *)
  Definition gc_key (m : kvmap) (now : N) (k : key) : kvmap :=
    match m k with
    | Some it => if expired now it then upd m k None else m
    | None => m
    end.

  (* first critical section of GetHash / GetAllHash / GetExpiration: the answer, and whether the
     second critical section (gc_key) follows.  After fixes/C13-hash-read-under-lock.diff the value
     is read while the read lock is still held, which is what is modelled here. *)
  Definition read_phase (m : kvmap) (now : N) (o : op) : out * bool :=
    match o with
    | KGetHash k f =>
        match m k with
        | None => (ONotFound, false)
        | Some it =>
            if expired now it then (ONotFound, true)
            else (match val it with
                  | VHash h => match hget h f with Some x => OVal (VS x) | None => ONotFound end
                  | _ => OInvalidType
                  end, false)
        end
    | KGetAllHash k =>
        match m k with
        | None => (ONotFound, false)
        | Some it =>
            if expired now it then (ONotFound, true)
            else (match val it with VHash h => OVal (VHash h) | _ => OInvalidType end, false)
        end
    | KGetExpiration k =>
        match m k with
        | None => (ONotFound, false)
        | Some it =>
            if expired now it then (ONotFound, true)
            else (if exp it =? 0 then (if v_getexp_never0 V then ODur 0 else ODurNeg) else ODur (exp it - now), false)
        end
    | _ => (OOk, false)
    end.

  Definition two_phase (o : op) : option key :=
    match o with
    | KGetHash k _ | KGetAllHash k | KGetExpiration k => Some k
    | _ => None
    end.

  Definition mem_step (m : kvmap) (now : N) (o : op) : out * kvmap * N :=
    match o with
    (* memory.go Set *)
    | KSet k v ttl => (OOk, upd m k (Some {| val := v; exp := deadline now ttl |}), now)
    (* memory.go Get: lazy, never deletes *)
    | KGet k =>
        (match m k with
         | None => ONotFound
         | Some it => if expired now it then ONotFound else OVal (val it)
         end, m, now)
    | KDelete k => (OOk, upd m k None, now)
    | KExists k =>
        (match m k with
         | None => OBool false
         | Some it => OBool (negb (expired now it))
         end, m, now)
    (* SetList = Set; GetList = Get + type assertion *)
    | KSetList k l ttl => (OOk, upd m k (Some {| val := VList l; exp := deadline now ttl |}), now)
    | KGetList k =>
        (match m k with
         | None => ONotFound
         | Some it => if expired now it then ONotFound
                      else match val it with VList l => OVal (VList l) | _ => OInvalidType end
         end, m, now)
    | KAppend k x =>
        match m k with
        | None => (OOk, upd m k (Some {| val := VList [x]; exp := now + D |}), now)
        | Some it =>
            if expired now it then (OOk, upd m k (Some {| val := VList [x]; exp := now + D |}), now)
            else match val it with
                 | VList l => (OOk, upd m k (Some {| val := VList (l ++ [x]); exp := exp it |}), now)
                 | _ => (OInvalidType, m, now)
                 end
        end
    | KRemove k x =>
        match m k with
        | None => (OOk, m, now)
        | Some it =>
            if expired now it then (OOk, upd m k None, now)
            else match val it with
                 | VList l => (OOk, upd m k (Some {| val := VList (filter (fun y => negb (scalar_eqb y x)) l);
                                                     exp := exp it |}), now)
                 | _ => (OInvalidType, m, now)
                 end
        end
    | KSetHash k f x =>
        (* absent -> fresh item; expired -> value and deadline reset; then the (possibly fresh) value is
           updated if it is a map and replaced by a one-field map otherwise *)
        let it0 := match m k with
                   | None => {| val := VHash []; exp := now + D |}
                   | Some it => if expired now it then {| val := VHash []; exp := now + D |} else it
                   end in
        (OOk, upd m k (Some {| val := VHash (match val it0 with VHash h => hset h f x | _ => [(f, x)] end);
                               exp := exp it0 |}), now)
    | KGetHash k _ | KGetAllHash k | KGetExpiration k =>
        let '(r, gc) := read_phase m now o in
        (r, if gc then gc_key m now k else m, now)
    | KDeleteHash k f =>
        match m k with
        | None => (OOk, m, now)
        | Some it =>
            if expired now it then (OOk, upd m k None, now)
            else match val it with
                 | VHash h => (OOk, upd m k (Some {| val := VHash (hdel h f); exp := exp it |}), now)
                 | _ => (OInvalidType, m, now)
                 end
        end
    | KIncrBy k n =>
        let it0 := match m k with
                   | None => {| val := VS (SInt 0); exp := now + D |}
                   | Some it => if expired now it then {| val := VS (SInt 0); exp := now + D |} else it
                   end in
        match val it0 with
        | VS (SInt c) => (OInt (wrap64 (c + n)), upd m k (Some {| val := VS (SInt (wrap64 (c + n))); exp := exp it0 |}), now)
        | _ => (OInvalidType, m, now)     (* only reachable for a live non-counter: the map is unchanged *)
        end
    | KSetExpiration k ttl =>
        let dl := if v_setexp_ttl0_never V then deadline now ttl else pinned_deadline now ttl in   (* pinned: ttl=0 -> now *)
        match m k with
        | None => (ONotFound, m, now)
        | Some it =>
            if v_setexp_checks_expiry V && expired now it then (ONotFound, upd m k None, now)
            else (OOk, upd m k (Some {| val := val it; exp := dl |}), now)           (* pinned: garbage is revived *)
        end
    | KSetNX k v ttl =>
        let fresh := (OBool true, upd m k (Some {| val := v; exp := deadline now ttl |}), now) in
        match m k with
        | None => fresh
        | Some it =>
            let alive := if v_setnx_after V then negb (expired now it)
                         else (exp it =? 0) || (now <? exp it) in      (* pinned: IsZero() || Now().Before(exp) *)
            if alive then (OBool false, m, now) else fresh
        end
    | KCAS k old new ttl =>
        let dl := if v_cas_ttl0_never V then deadline now ttl else pinned_deadline now ttl in
        let absent := if is_nil old then (OBool true, upd m k (Some {| val := new; exp := dl |}), now)
                      else (OBool false, upd m k None, now) in
        match m k with
        | None => if is_nil old then (OBool true, upd m k (Some {| val := new; exp := dl |}), now)
                  else (OBool false, m, now)
        | Some it =>
            let gone := if v_cas_zero_guard V then expired now it else (exp it <? now) in   (* pinned: Now().After(exp) alone *)
            if gone then absent
            else if cas_matches (val it) old
                 then (OBool true, upd m k (Some {| val := new; exp := dl |}), now)
                 else (OBool false, m, now)
        end
    | KCleanup => (OOk, purge now m, now)
    | KTick d => (OOk, m, now + d)
    end.

  (* ---------------------------------------------------------------------------------------- *)
  (* Histories                                                                                 *)
  (* ---------------------------------------------------------------------------------------- *)

  Fixpoint run_with (step : kvmap -> N -> op -> out * kvmap * N) (m : kvmap) (now : N) (h : list op)
    : list out * kvmap * N :=
    match h with
    | [] => ([], m, now)
    | o :: t => let '(r, m1, now1) := step m now o in
                let '(rs, m2, now2) := run_with step m1 now1 t in
                (r :: rs, m2, now2)
    end.

  Definition mem_run := run_with mem_step.
  Definition spec_run := run_with spec_step.

  Definition outs_of (x : list out * kvmap * N) : list out := fst (fst x).
  Definition map_of (x : list out * kvmap * N) : kvmap := snd (fst x).
  Definition now_of (x : list out * kvmap * N) : N := snd x.

  (* abstraction: MemImpl state (with garbage) |-> Spec state; stated pointwise *)
  Definition refines (m s : kvmap) (now : N) : Prop := forall k, live now (m k) = s k.

  (* the key an operation may write (None: read-only on live data, Cleanup, Tick) *)
  Definition mutates (o : op) (k : key) : bool :=
    match o with
    | KSet k' _ _ | KDelete k' | KSetList k' _ _ | KAppend k' _ | KRemove k' _ | KSetHash k' _ _
    | KDeleteHash k' _ | KIncrBy k' _ | KSetExpiration k' _ | KSetNX k' _ _ | KCAS k' _ _ _ => key_eqb k k'
    | _ => false
    end.

  (* operations that take a lifetime, called with lifetime 0 on key k *)
  Definition with_zero_ttl (o : op) (k : key) : bool :=
    match o with
    | KSet k' _ ttl | KSetList k' _ ttl | KSetNX k' _ ttl | KCAS k' _ _ ttl | KSetExpiration k' ttl =>
        key_eqb k k' && (ttl =? 0)
    | _ => false
    end.
  Definition succeeded (r : out) : bool :=
    match r with OOk | OBool true => true | _ => false end.
End WithDefaultTTL.

(* Model/Commands.v — C11: the server's control-command dispatch as data + an executable semantics.
   Definitions only (proofs: Proofs/Commands.v).

   Transcribed from (tunnox-core):
     internal/protocol/session/command_integration.go  handleCommandPacket  (pre-executor special cases, order of tests)
     internal/command/executor.go                      Execute / createCommandContext (ClientID from the connection registry)
     internal/command/registry.go                      GetHandler
     internal/app/server/connection_code_commands_setup.go   which handlers the server registers
     internal/app/server/{connection_code,mapping,config}_command_handlers.go   getClientID + party checks
     internal/command/handler_http_domain_{create,delete,query}.go + cloud/repos/http_domain_mapping_repository.go
     internal/protocol/session/{socks5_tunnel,traffic_report,dns}_handler.go, control_connection_mgr.go
     internal/command/handler_notification.go          SendNotifyToClientHandler (not registered by the server: `aux` row)

   A row of the table says, for one command byte (and packet type JsonCommand / CommandResp):
     route     — unhandled | registry handler reached through the executor | special case before the executor
     id source — where the acting identity comes from: the connection registry | a packet field | nowhere
     auth      — is identity 0 (unauthenticated) refused up front?
     party     — the relation the acting identity must have to the object named in the body
     effect    — what is done.
   [exec] applies a row.  [current_table] is the code with the four fixes/C11-*.diff applied; [pinned_table]
   is the code as found (traffic report / DNS forward / SOCKS5 zero-listen / C2C notify rows differ).

   Identities are client ids (N); 0 = "no identity" exactly as in the Go code (ClientID == 0). *)
From Coq Require Import NArith List Bool.
Import ListNotations.
Open Scope N_scope.

Definition cid := N.

Record mapping := { m_id : N; m_listen : cid; m_target : cid; m_socks : bool; m_sent : N; m_recv : N;
                    m_active : bool (* Status = "active" *) }.
Record code := { c_id : N; c_owner : cid; c_act : cid }.       (* c_act = 0: not activated *)
Record domain := { d_id : N; d_owner : cid }.

Record world := {
  w_maps : list mapping;     (* port mappings, in index (= creation) order *)
  w_codes : list code;       (* connection codes *)
  w_doms : list domain;      (* HTTP domain mappings *)
  w_online : list cid;       (* ClientRegistry.clientIDMap: clients that resolve to an authenticated control connection *)
  w_bind : list (N * cid);   (* ClientRegistry.connMap: long-lived connection index -> the ClientID it carries NOW *)
  w_nm : N; w_nc : N; w_nd : N;  (* next fresh object indices *)
  w_xnode : bool;            (* cluster mode: a bridge manager, the connection state store and the cross-node pool are configured *)
  w_remote : list cid;       (* clients whose control connection is on ANOTHER node (connection state store) *)
  w_index : list (cid * N)   (* the per-client mapping INDEX (tunnox:client_mappings:<client>): (client, mapping id) entries written when a
                                mapping is created and never rewritten when its record changes: may be stale, dangling or incomplete *)
}.

(* the connection a packet arrives on *)
Inductive connkind :=
| KUnknown                (* a connection id the session has never seen *)
| KFresh                  (* created, no handshake: no control connection *)
| KPending                (* handshake phase 1 only: control connection registered, ClientID = 0, not authenticated *)
| KConn (i : N).          (* long-lived connection #i; whom it speaks for is whatever the registry says at dispatch time *)

Fixpoint memN (x : N) (l : list N) : bool :=
  match l with [] => false | y :: l' => (x =? y) || memN x l' end.

(* control_connection_mgr.go GetClientIDByConnectionID / handlers' getClientID / getClientIDFromConnection *)
Fixpoint lookup_bind (i : N) (l : list (N * cid)) : option cid :=
  match l with [] => None | (j, c) :: l' => if j =? i then Some c else lookup_bind i l' end.
Fixpoint remove_bind (i : N) (l : list (N * cid)) : list (N * cid) :=
  match l with [] => [] | (j, c) :: l' => if j =? i then remove_bind i l' else (j, c) :: remove_bind i l' end.
Definition conn_identity (w : world) (k : connkind) : cid :=
  match k with KConn i => match lookup_bind i (w_bind w) with Some c => c | None => 0 end | _ => 0 end.
Definition has_ctrl (w : world) (k : connkind) : bool :=
  match k with
  | KPending => true
  | KConn i => match lookup_bind i (w_bind w) with Some _ => true | None => false end
  | _ => false end.
Definition unbind_k (k : connkind) (l : list (N * cid)) : list (N * cid) :=
  match k with KConn i => remove_bind i l | _ => l end.

(* the body of a command after JSON parsing, abstracted to what the handlers read *)
Record cmd := {
  k_type : N;               (* CommandPacket.CommandType *)
  k_resp : bool;            (* TransferPacket.PacketType is CommandResp *)
  k_obj : option N;         (* mapping_id / code / domain mapping id named in the body; None = empty string *)
  k_tgt : option cid;       (* target_client_id > 0 ; None = "use the default target" (<= 0) *)
  k_dir : N;                (* MappingList direction: 0 both / 1 outbound / 2 inbound *)
  k_sent : N; k_recv : N;   (* traffic report *)
  k_valid : bool            (* the other required body fields are present *)
}.
(* untrusted identity carried by the packet: SenderId / ReceiverId / Token and any client-id field of the body *)
Definition claim := cid.

Inductive route := RUnhandled | RRegistry | RSpecial.
Inductive idsrc := IdConn | IdPacket | IdNone.
Inductive party := PNone | PMapParty | PMapListen | PBearer | PDomOwner | PReach | PSelf
                 | PReachLax.   (* PReach, but the DEFAULT DNS target is taken from the client's index without asking who the mapping's listen client is now *)
Inductive effect :=
| EPublicNoBody | EPublic            (* HTTP domain base-domain list / subdomain check+generate: no client-owned state *)
| EMapList | EMapGet | EMapDelete
| ECodeGen | ECodeList | ECodeActivate
| EConfigGet
| ETraffic | ESocksOpen | EDnsForward | ENotify
| EDomCreate | EDomDelete | EDomList
| EDisconnect | ERespSink.

Record row := { r_cmd : N; r_resp : option bool; r_route : route; r_id : idsrc; r_auth : bool; r_party : party; r_eff : effect }.

Definition resp_matches (f : option bool) (b : bool) : bool :=
  match f with None => true | Some x => Bool.eqb x b end.
Fixpoint find_row (tbl : list row) (t : N) (resp : bool) : option row :=
  match tbl with
  | [] => None
  | r :: tbl' => if (r_cmd r =? t) && resp_matches (r_resp r) resp then Some r else find_row tbl' t resp
  end.

(* observable result of one command *)
Record result := {
  res_ok : bool;                       (* HandlePacket returned nil *)
  res_world : world;
  res_dm : list N; res_dc : list N; res_dd : list N;   (* object indices written to the sender *)
  res_deliv : list (cid * N * cid)     (* (client, command type, stamped sender) written to other clients *)
}.
Definition mk (ok : bool) (w : world) := {| res_ok := ok; res_world := w; res_dm := []; res_dc := []; res_dd := []; res_deliv := [] |}.

(* ---- object helpers ---- *)
Fixpoint find_map (i : N) (l : list mapping) : option mapping :=
  match l with [] => None | m :: l' => if m_id m =? i then Some m else find_map i l' end.
Fixpoint remove_map (i : N) (l : list mapping) : list mapping :=
  match l with [] => [] | m :: l' => if m_id m =? i then l' else m :: remove_map i l' end.
Fixpoint update_map (f : mapping -> mapping) (i : N) (l : list mapping) : list mapping :=
  match l with [] => [] | m :: l' => if m_id m =? i then f m :: l' else m :: update_map f i l' end.
Fixpoint find_code (i : N) (l : list code) : option code :=
  match l with [] => None | c :: l' => if c_id c =? i then Some c else find_code i l' end.
Fixpoint update_code (f : code -> code) (i : N) (l : list code) : list code :=
  match l with [] => [] | c :: l' => if c_id c =? i then f c :: l' else c :: update_code f i l' end.
Fixpoint find_dom (i : N) (l : list domain) : option domain :=
  match l with [] => None | d :: l' => if d_id d =? i then Some d else find_dom i l' end.
Fixpoint remove_dom (i : N) (l : list domain) : list domain :=
  match l with [] => [] | d :: l' => if d_id d =? i then l' else d :: remove_dom i l' end.
Fixpoint remove_cid (c : cid) (l : list cid) : list cid :=
  match l with [] => [] | x :: l' => if x =? c then remove_cid c l' else x :: remove_cid c l' end.

Definition is_party (a : cid) (m : mapping) : bool := negb (a =? 0) && ((m_listen m =? a) || (m_target m =? a)).
Definition is_listen (a : cid) (m : mapping) : bool := negb (a =? 0) && (m_listen m =? a).
(* a owns a mapping towards t (dns_handler.go clientMayReachTarget, added by the fix) *)
Definition reaches (a t : cid) (l : list mapping) : bool :=
  negb (a =? 0) && existsb (fun m => (m_listen m =? a) && (m_target m =? t)) l.

(* the party test as the code performs it for each relation; PNone = no test at all *)
Definition map_party_ok (p : party) (a : cid) (m : mapping) : bool :=
  match p with
  | PNone | PBearer => true
  | PMapParty => (m_listen m =? a) || (m_target m =? a)     (* mapping_command_handlers.go: a <> 0 tested before *)
  | PMapListen => m_listen m =? a                            (* socks5_tunnel_handler.go step 3 *)
  | _ => false
  end.

(* mapping_repository.go GetClientPortMappings(client): the ids in the client's index, re-read from the primary records
   (entries whose record is gone are skipped) *)
Definition indexed (w : world) (a : cid) (m : mapping) : bool :=
  existsb (fun e => (fst e =? a) && (snd e =? m_id m)) (w_index w).
Definition client_mappings (w : world) (a : cid) : list mapping := filter (indexed w a) (w_maps w).

Definition with_maps (w : world) (l : list mapping) : world :=
  {| w_maps := l; w_codes := w_codes w; w_doms := w_doms w; w_online := w_online w; w_bind := w_bind w; w_nm := w_nm w; w_nc := w_nc w; w_nd := w_nd w; w_xnode := w_xnode w; w_remote := w_remote w; w_index := w_index w |}.
Definition with_doms (w : world) (l : list domain) : world :=
  {| w_maps := w_maps w; w_codes := w_codes w; w_doms := l; w_online := w_online w; w_bind := w_bind w; w_nm := w_nm w; w_nc := w_nc w; w_nd := w_nd w; w_xnode := w_xnode w; w_remote := w_remote w; w_index := w_index w |}.
(* the registry part of the world *)
Definition with_reg (w : world) (online : list cid) (bind : list (N * cid)) : world :=
  {| w_maps := w_maps w; w_codes := w_codes w; w_doms := w_doms w; w_online := online; w_bind := bind; w_nm := w_nm w; w_nc := w_nc w; w_nd := w_nd w; w_xnode := w_xnode w; w_remote := w_remote w; w_index := w_index w |}.

(* dns_handler.go getDefaultTargetClientID: first active SOCKS mapping among GetClientPortMappings(source) — whatever side
   of it the source is on, and whatever the index says *)
Definition default_target (strict : bool) (a : cid) (l : list mapping) : cid :=
  match find (fun m => m_socks m && m_active m && negb (m_target m =? 0) && (negb strict || (m_listen m =? a))) l with
  | Some m => m_target m | None => 0 end.

(* packets written to the sender's own connection are not deliveries to another client *)
Definition deliver (self t : cid) (ty : N) (stamp : cid) : list (cid * N * cid) :=
  if t =? self then [] else [(t, ty, stamp)].

Definition C_TunnelOpenRequest : N := 35.
Definition C_NotifyClient : N := 100.
(* relays to another node, reported like deliveries with a code >= 1000 *)
Definition C_RelayTunnelOpen : N := 1035.   (* bridgeManager.BroadcastTunnelOpen: mapping SecretKey + dial address to the cluster *)
Definition C_RelayDNSQuery : N := 1121.     (* handleDNSQueryCrossNode: DNS query frame to the target's node *)

(* socks5_tunnel_handler.go step 4: local control connection, else (bridge manager configured) broadcast, else refuse *)
Definition socks_route (w : world) (t : cid) : N :=
  if memN t (w_online w) then C_TunnelOpenRequest else if w_xnode w then C_RelayTunnelOpen else 0.
(* dns_handler.go step 3: local control connection; DNSQuery only: else the node the connection state store names *)
Definition dns_route (w : world) (t : cid) (ty : N) : N :=
  if t =? 0 then 0
  else if memN t (w_online w) then ty
  else if (ty =? 121) && w_xnode w && memN t (w_remote w) then C_RelayDNSQuery else 0.

(* ---- the effects; a = acting identity (already past the row's auth gate) ---- *)
Definition run (e : effect) (p : party) (a : cid) (w : world) (k : connkind) (c : cmd) : result :=
  let self := conn_identity w k in
  match e with
  | EPublicNoBody => mk true w
  | EPublic => mk (k_valid c) w
  | EMapList =>
      let sel m := match k_dir c with
                   | 1 => m_listen m =? a
                   | 2 => m_target m =? a
                   | _ => (m_listen m =? a) || (m_target m =? a) end in
      (* ListOutboundMappings / ListInboundMappings: the client's index re-read and FILTERED by the record's current parties *)
      {| res_ok := true; res_world := w; res_dm := map m_id (filter sel (client_mappings w a)); res_dc := []; res_dd := []; res_deliv := [] |}
  | EConfigGet =>
      {| res_ok := true; res_world := w;
         res_dm := map m_id (filter (fun m => (m_listen m =? a) || (m_target m =? a)) (client_mappings w a));
         res_dc := []; res_dd := []; res_deliv := [] |}
  | EMapGet =>
      match k_obj c with None => mk false w | Some i =>
      match find_map i (w_maps w) with None => mk false w | Some m =>
      if map_party_ok p a m
      then {| res_ok := true; res_world := w; res_dm := [i]; res_dc := []; res_dd := []; res_deliv := [] |}
      else mk false w end end
  | EMapDelete =>
      match k_obj c with None => mk false w | Some i =>
      match find_map i (w_maps w) with None => mk false w | Some m =>
      if map_party_ok p a m then mk true (with_maps w (remove_map i (w_maps w))) else mk false w end end
  | ECodeGen =>
      if k_valid c then
        let n := w_nc w in
        {| res_ok := true;
           res_world := {| w_maps := w_maps w; w_codes := w_codes w ++ [{| c_id := n; c_owner := a; c_act := 0 |}]; w_doms := w_doms w;
                           w_online := w_online w; w_bind := w_bind w; w_nm := w_nm w; w_nc := n + 1; w_nd := w_nd w; w_xnode := w_xnode w; w_remote := w_remote w; w_index := w_index w |};
           res_dm := []; res_dc := [n]; res_dd := []; res_deliv := [] |}
      else mk false w
  | ECodeList =>
      {| res_ok := true; res_world := w; res_dm := [];
         res_dc := map c_id (filter (fun x => c_owner x =? a) (w_codes w)); res_dd := []; res_deliv := [] |}
  | ECodeActivate =>
      match k_obj c with None => mk false w | Some i =>
      if negb (k_valid c) then mk false w else
      match find_code i (w_codes w) with None => mk false w | Some x =>
      if negb (c_act x =? 0) then mk false w else
        let n := w_nm w in
        {| res_ok := true;
           res_world := {| w_maps := w_maps w ++ [{| m_id := n; m_listen := a; m_target := c_owner x; m_socks := false; m_sent := 0; m_recv := 0; m_active := true |}];
                           w_codes := update_code (fun y => {| c_id := c_id y; c_owner := c_owner y; c_act := a |}) i (w_codes w);
                           w_doms := w_doms w; w_online := w_online w; w_bind := w_bind w; w_nm := n + 1; w_nc := w_nc w; w_nd := w_nd w; w_xnode := w_xnode w; w_remote := w_remote w;
                           w_index := w_index w ++ [(a, n); (c_owner x, n)] |};
           res_dm := [n]; res_dc := []; res_dd := []; res_deliv := [] |} end end
  | ETraffic =>
      match k_obj c with None => mk true w | Some i =>
      match find_map i (w_maps w) with None => mk true w | Some m =>
      if map_party_ok p a m
      then mk true (with_maps w (update_map (fun y => {| m_id := m_id y; m_listen := m_listen y; m_target := m_target y; m_socks := m_socks y;
                                                         m_sent := m_sent y + k_sent c; m_recv := m_recv y + k_recv c;
                                                         m_active := m_active y |}) i (w_maps w)))
      else mk false w end end
  | ESocksOpen =>
      match k_obj c with None => mk false w | Some i =>
      match find_map i (w_maps w) with None => mk false w | Some m =>
      if map_party_ok p a m then
        if negb (socks_route w (m_target m) =? 0)
        then {| res_ok := true; res_world := w; res_dm := []; res_dc := []; res_dd := [];
                res_deliv := deliver self (m_target m) (socks_route w (m_target m)) 0 |}
        else mk false w
      else mk false w end end
  | EDnsForward =>
      let okf := has_ctrl w k in
      let t := match k_tgt c with
               | Some t => match p with PReach | PReachLax => if reaches a t (client_mappings w a) then t else 0 | _ => t end
               | None => if a =? 0 then 0
                         else default_target (match p with PReach => true | _ => false end) a (client_mappings w a) end in
      if negb (dns_route w t (k_type c) =? 0)
      then {| res_ok := okf; res_world := w; res_dm := []; res_dc := []; res_dd := [];
              res_deliv := deliver self t (dns_route w t (k_type c)) 0 |}
      else mk okf w
  | ENotify =>
      match k_tgt c with None => mk false w | Some t =>
      if (t =? a) || negb (memN t (w_online w)) then mk false w
      else {| res_ok := true; res_world := w; res_dm := []; res_dc := []; res_dd := []; res_deliv := deliver self t C_NotifyClient a |} end
  | EDomCreate =>
      if k_valid c then
        let n := w_nd w in
        {| res_ok := true;
           res_world := {| w_maps := w_maps w; w_codes := w_codes w; w_doms := w_doms w ++ [{| d_id := n; d_owner := a |}];
                           w_online := w_online w; w_bind := w_bind w; w_nm := w_nm w; w_nc := w_nc w; w_nd := n + 1; w_xnode := w_xnode w; w_remote := w_remote w; w_index := w_index w |};
           res_dm := []; res_dc := []; res_dd := [n]; res_deliv := [] |}
      else mk false w
  | EDomDelete =>
      match k_obj c with None => mk false w | Some i =>
      match find_dom i (w_doms w) with None => mk true w | Some d =>      (* "already deleted" counts as success *)
      if d_owner d =? a then mk true (with_doms w (remove_dom i (w_doms w))) else mk false w end end
  | EDomList =>
      {| res_ok := true; res_world := w; res_dm := []; res_dc := [];
         res_dd := map d_id (filter (fun d => d_owner d =? a) (w_doms w)); res_deliv := [] |}
  | EDisconnect =>
      (* handleDisconnectCommand: CloseConnection of the connection the packet arrived on (its registry entry and the
         clientIDMap entry of the identity it carries), nothing else *)
      mk true (with_reg w (remove_cid self (w_online w)) (unbind_k k (w_bind w)))
  | ERespSink => mk true w
  end.

Definition acting (r : row) (w : world) (k : connkind) (cl : claim) : cid :=
  match r_id r with IdConn => conn_identity w k | IdPacket => cl | IdNone => 0 end.

(* what a refusal at the auth gate looks like: the DNS handlers answer the sender with an error packet and return nil
   whenever the sender has a control connection *)
Definition refuse (e : effect) (w : world) (k : connkind) : result :=
  match e with EDnsForward => mk (has_ctrl w k) w | _ => mk false w end.

Definition exec (tbl : list row) (w : world) (k : connkind) (cl : claim) (c : cmd) : result :=
  match find_row tbl (k_type c) (k_resp c) with
  | None => mk false w
  | Some r =>
      match r_route r with
      | RUnhandled => mk false w
      | _ => let a := acting r w k cl in
             if r_auth r && (a =? 0) then refuse (r_eff r) w k else run (r_eff r) (r_party r) a w k c
      end
  end.

Definition route_code (r : route) : N := match r with RUnhandled => 0 | RRegistry => 1 | RSpecial => 2 end.
Definition route_of (tbl : list row) (t : N) (resp : bool) : N :=
  match find_row tbl t resp with None => 0 | Some r => route_code (r_route r) end.

(* ---- the dispatch table of the server (command bytes: packet/packet.go) ---- *)
Definition R (t : N) (resp : option bool) (ro : route) (i : idsrc) (au : bool) (p : party) (e : effect) : row :=
  {| r_cmd := t; r_resp := resp; r_route := ro; r_id := i; r_auth := au; r_party := p; r_eff := e |}.

(* rows that are the same in the code as found and in the repaired code *)
Definition common_rows : list row := [
  R 11 None RSpecial IdConn false PSelf EDisconnect;                (* Disconnect: handleDisconnectCommand *)
  R 50 None RRegistry IdConn true PMapParty EConfigGet;             (* ConfigGet *)
  R 70 None RRegistry IdConn true PSelf ECodeGen;                   (* ConnectionCodeGenerate *)
  R 71 None RRegistry IdConn true PSelf ECodeList;                  (* ConnectionCodeList *)
  R 72 None RRegistry IdConn true PBearer ECodeActivate;            (* ConnectionCodeActivate: the code is a bearer secret *)
  R 74 None RRegistry IdConn true PMapParty EMapList;               (* MappingList *)
  R 75 None RRegistry IdConn true PMapParty EMapGet;                (* MappingGet *)
  R 76 None RRegistry IdConn true PMapParty EMapDelete;             (* MappingDelete *)
  R 81 (Some true) RSpecial IdNone false PNone ERespSink;           (* HTTPProxyResponse (CommandResp only) *)
  R 82 None RRegistry IdNone false PNone EPublicNoBody;             (* HTTPDomainGetBaseDomains *)
  R 83 None RRegistry IdNone false PNone EPublic;                   (* HTTPDomainCheckSubdomain *)
  R 84 None RRegistry IdNone false PNone EPublic;                   (* HTTPDomainGenSubdomain *)
  R 85 None RRegistry IdConn true PSelf EDomCreate;                 (* HTTPDomainCreate: ClientID <= 0 fails Validate *)
  R 86 None RRegistry IdConn false PDomOwner EDomDelete;            (* HTTPDomainDelete: repository compares the owner *)
  R 87 None RRegistry IdConn false PDomOwner EDomList;              (* HTTPDomainList *)
  R 120 (Some true) RSpecial IdNone false PNone ERespSink;          (* DNSResolve response *)
  R 121 (Some true) RSpecial IdNone false PNone ERespSink           (* DNSQuery response *)
].

Definition current_rows : list row := [
  R 90 None RSpecial IdConn true PMapListen ESocksOpen;             (* SOCKS5TunnelRequestCmd (fix: identity 0 refused) *)
  R 110 None RSpecial IdConn true PMapParty ETraffic;               (* TunnelTrafficReport (fix: sender must be a party) *)
  R 120 (Some false) RSpecial IdConn true PReach EDnsForward;       (* DNSResolve request (fix) *)
  R 121 (Some false) RSpecial IdConn true PReach EDnsForward        (* DNSQuery request (fix) *)
].
(* dns_handler.go getDefaultTargetClientID as found after the first round of repairs: explicit targets are checked, the default
   target is not (fixes/C11-dns-default-target-listen-check.diff) *)
Definition lax_dns_rows : list row := [
  R 120 (Some false) RSpecial IdConn true PReachLax EDnsForward;
  R 121 (Some false) RSpecial IdConn true PReachLax EDnsForward
].
Definition pinned_rows : list row := [
  R 90 None RSpecial IdConn false PMapListen ESocksOpen;
  R 110 None RSpecial IdNone false PNone ETraffic;                  (* no identity at all *)
  R 120 (Some false) RSpecial IdConn false PNone EDnsForward;       (* explicit target taken from the packet, sender unchecked *)
  R 121 (Some false) RSpecial IdConn false PNone EDnsForward
].
(* command.SendNotifyToClientHandler: in the anchored files, NOT registered by the server; exercised by the harness through
   the real executor + session.NotificationService when a case asks for it *)
Definition aux_row_current : row := R 102 None RRegistry IdConn true PSelf ENotify.
Definition aux_row_pinned : row := R 102 None RRegistry IdConn false PSelf ENotify.

Definition current_table : list row := common_rows ++ current_rows.
Definition pinned_table : list row := common_rows ++ pinned_rows.

(* variant selection used by the correspondence run: one flag per repaired handler (true = repaired) *)
Definition pick (b : bool) (n : nat) : list row :=
  match nth_error (if b then current_rows else pinned_rows) n with Some r => [r] | None => [] end.
Definition table_of (f_socks f_traffic f_dns f_notify aux f_dnsdef : bool) : list row :=
  common_rows ++ pick f_socks 0 ++ pick f_traffic 1
  ++ (if f_dns && negb f_dnsdef then lax_dns_rows else pick f_dns 2 ++ pick f_dns 3)
  ++ (if aux then [if f_notify then aux_row_current else aux_row_pinned] else []).

(* ------------------------------------------------------------------------------------------------------------- *)
(* histories on ONE long-lived session/executor: commands interleaved with registry events that change the       *)
(* identity a connection carries (client_registry.go UpdateAuth incl. dropStaleIndexLocked; Unregister)          *)
(* ------------------------------------------------------------------------------------------------------------- *)
Inductive event :=
| EvReauth (i : N) (c : cid)     (* connection #i (re-)authenticates as client c: connMap[i].ClientID := c, its old clientIDMap entry dropped *)
| EvRemove (i : N)               (* connection #i leaves the registry (kick / stale cleanup window); its stream stays open *)
(* authorisation-relevant changes of the STORE made behind the commands' back (management API, migration, expiry cleanup) *)
| EvDelMap (i : N)                        (* the mapping record is deleted *)
| EvSetParty (i : N) (side : bool) (c : cid)   (* MigrateClientMappings / UpdatePortMapping: listen (false) / target (true) client rewritten; indexes untouched *)
| EvSetActive (i : N) (b : bool).         (* UpdatePortMappingStatus active / inactive *)

Fixpoint insert_cid (c : cid) (l : list cid) : list cid :=
  match l with [] => [c] | x :: l' => if c =? x then l else if c <? x then c :: l else x :: insert_cid c l' end.
Fixpoint insert_bind (i : N) (c : cid) (l : list (N * cid)) : list (N * cid) :=
  match l with
  | [] => [(i, c)]
  | (j, d) :: l' => if i =? j then (i, c) :: l' else if i <? j then (i, c) :: l else (j, d) :: insert_bind i c l'
  end.

Definition apply_event (ev : event) (w : world) : world :=
  match ev with
  | EvReauth i c =>
      let old := match lookup_bind i (w_bind w) with Some o => o | None => 0 end in
      with_reg w (insert_cid c (remove_cid old (w_online w))) (insert_bind i c (w_bind w))
  | EvRemove i =>
      let old := match lookup_bind i (w_bind w) with Some o => o | None => 0 end in
      with_reg w (remove_cid old (w_online w)) (remove_bind i (w_bind w))
  | EvDelMap i => with_maps w (remove_map i (w_maps w))
  | EvSetParty i side c =>
      with_maps w (update_map (fun y => {| m_id := m_id y; m_listen := if side then m_listen y else c; m_target := if side then c else m_target y;
                                           m_socks := m_socks y; m_sent := m_sent y; m_recv := m_recv y; m_active := m_active y |}) i (w_maps w))
  | EvSetActive i b =>
      with_maps w (update_map (fun y => {| m_id := m_id y; m_listen := m_listen y; m_target := m_target y; m_socks := m_socks y;
                                           m_sent := m_sent y; m_recv := m_recv y; m_active := b |}) i (w_maps w))
  end.

Inductive hstep := HCmd (k : connkind) (cl : claim) (c : cmd) | HEv (ev : event).

(* the executor and the handlers keep no per-connection state: each command is executed against the world as it is
   at the moment of dispatch *)
Fixpoint run_history (tbl : list row) (w : world) (hs : list hstep) : list result * world :=
  match hs with
  | [] => ([], w)
  | HCmd k cl c :: hs' => let r := exec tbl w k cl c in
                          let '(rs, w') := run_history tbl (res_world r) hs' in (r :: rs, w')
  | HEv ev :: hs' => run_history tbl (apply_event ev w) hs'
  end.
Definition world_after (tbl : list row) (w : world) (hs : list hstep) : world := snd (run_history tbl w hs).

(* the seeded defect class: an executor that remembers the first non-zero identity it resolved for a connection id and
   keeps using it for the handlers that read CommandContext.ClientID (HTTP domain create/delete/list, C2C notify) *)
Definition uses_ctx_identity (e : effect) : bool :=
  match e with EDomCreate | EDomDelete | EDomList | ENotify => true | _ => false end.
Definition exec_memo (tbl : list row) (memo : list (N * cid)) (w : world) (k : connkind) (cl : claim) (c : cmd)
  : result * list (N * cid) :=
  match k, find_row tbl (k_type c) (k_resp c) with
  | KConn i, Some r =>
      match r_route r with
      | RRegistry =>
          let resolved := match lookup_bind i memo with Some a => a | None => conn_identity w k end in
          let memo' := if resolved =? 0 then memo else insert_bind i resolved memo in
          if uses_ctx_identity (r_eff r)
          then ((if r_auth r && (resolved =? 0) then refuse (r_eff r) w k else run (r_eff r) (r_party r) resolved w k c), memo')
          else (exec tbl w k cl c, memo')
      | _ => (exec tbl w k cl c, memo)
      end
  | _, _ => (exec tbl w k cl c, memo)
  end.
Fixpoint run_history_memo (tbl : list row) (memo : list (N * cid)) (w : world) (hs : list hstep) : list result * world :=
  match hs with
  | [] => ([], w)
  | HCmd k cl c :: hs' => let '(r, memo') := exec_memo tbl memo w k cl c in
                          let '(rs, w') := run_history_memo tbl memo' (res_world r) hs' in (r :: rs, w')
  | HEv ev :: hs' => run_history_memo tbl memo (apply_event ev w) hs'
  end.

(* ------------------------------------------------------------------------------------------------------------- *)
(* one storage call fails while a command is handled (fault injection on the histories)                          *)
(* ------------------------------------------------------------------------------------------------------------- *)
(* storage reads a handler performs to fetch the object BEFORE it decides whether the sender may touch it
   (mapping_command_handlers.go GetMapping; traffic_report_handler.go / socks5_tunnel_handler.go GetPortMapping;
    http_domain_mapping_repository.go DeleteMapping -> GetMapping) *)
Definition guard_reads (e : effect) : nat :=
  match e with EMapGet | EMapDelete | ETraffic | ESocksOpen | EDomDelete => 1 | _ => 0 end.
(* what the handler answers when that read fails: nothing is decided without the record — fail closed *)
Definition guard_fail (e : effect) (w : world) : result :=
  match e with ETraffic => mk true w (* "mapping may have been deleted": returns nil *) | _ => mk false w end.

(* p = position (from 0) of the failing storage call; a fault after the decision can only cut a GRANTED mutation short
   (the party's own business, checked on the real code by the predicate); the decision itself was taken on true data *)
Definition exec_faulty (open : bool) (tbl : list row) (w : world) (k : connkind) (cl : claim) (c : cmd) (p : nat) : result :=
  match find_row tbl (k_type c) (k_resp c) with
  | None => mk false w
  | Some r =>
      match r_route r with
      | RUnhandled => mk false w
      | _ => let a := acting r w k cl in
             if r_auth r && (a =? 0) then refuse (r_eff r) w k
             else if Nat.ltb p (guard_reads (r_eff r)) then
               (* `open` = the refuted variant (a seeded breaking change): MappingDelete whose lookup failed falls through to
                  the repository's delete-by-id without any party check *)
               match open, r_eff r, k_obj c with
               | true, EMapDelete, Some i => mk true (with_maps w (remove_map i (w_maps w)))
               | _, _, _ => guard_fail (r_eff r) w
               end
             else run (r_eff r) (r_party r) a w k c
      end
  end.

(* ------------------------------------------------------------------------------------------------------------- *)
(* the order of a handler's steps: reads, THE party/identity check, externally visible effects                    *)
(* ------------------------------------------------------------------------------------------------------------- *)
Inductive pstep := SRead | SCheck | SEmit (code : N).
(* what a run of the program emits for a sender that is / is not entitled by its proven identity *)
Fixpoint emitted (entitled : bool) (prog : list pstep) : list N :=
  match prog with
  | [] => []
  | SRead :: p => emitted entitled p
  | SCheck :: p => if entitled then emitted entitled p else []
  | SEmit e :: p => e :: emitted entitled p
  end.
(* no effect is emitted before the check *)
Fixpoint check_first (prog : list pstep) : bool :=
  match prog with [] => true | SRead :: p => check_first p | SCheck :: _ => true | SEmit _ :: _ => false end.

(* HandleSOCKS5TunnelRequest, the branches after the mapping lookup (socks5_tunnel_handler.go steps 2-6):
   target local: read mapping, check source = ListenClientID, look the target up, write TunnelOpenRequest to it
   target on another node: ..., look the target up (absent), bridgeManager.BroadcastTunnelOpen *)
Definition socks_prog_local : list pstep := [SRead; SCheck; SRead; SEmit C_TunnelOpenRequest].
Definition socks_prog_remote : list pstep := [SRead; SCheck; SRead; SEmit C_RelayTunnelOpen].
(* HandleDNSQueryRequest with the target on another node: parse, check sender (identity + mapping towards the target),
   local lookup (absent), FindClientNode, frame to the node *)
Definition dnsquery_prog_remote : list pstep := [SCheck; SRead; SRead; SEmit C_RelayDNSQuery].
(* the refuted order (a seeded breaking change): "return early when the target is offline" — target lookup and the
   cross-node relay moved in front of the listen-client check *)
Definition socks_prog_remote_relay_first : list pstep := [SRead; SRead; SEmit C_RelayTunnelOpen; SCheck].

(* the same variant on the executable model: SOCKS5 request where the relay precedes the party check *)
Definition socks_relay_first (w : world) (k : connkind) (c : cmd) : result :=
  match k_obj c with None => mk false w | Some i =>
  match find_map i (w_maps w) with None => mk false w | Some m =>
  if negb (memN (m_target m) (w_online w)) && w_xnode w
  then {| res_ok := true; res_world := w; res_dm := []; res_dc := []; res_dd := [];
          res_deliv := deliver (conn_identity w k) (m_target m) C_RelayTunnelOpen 0 |}
  else run ESocksOpen PMapListen (conn_identity w k) w k c end end.

(* ------------------------------------------------------------------------------------------------------------- *)
(* refuted variants of two seeded breaking changes                                                                *)
(* ------------------------------------------------------------------------------------------------------------- *)
(* MappingList default branch answering with the raw per-client index (no filter by the record's current parties) *)
Definition maplist_raw_index (w : world) (a : cid) : list N := map m_id (client_mappings w a).

(* DNS forwarding that remembers the default target per source client and keeps using it while that client is connected *)
Definition dns_default_cached (cache : list (cid * cid)) (w : world) (a : cid) : cid * list (cid * cid) :=
  match find (fun e => (fst e =? a) && memN (snd e) (w_online w)) cache with
  | Some e => (snd e, cache)
  | None => let t := default_target true a (client_mappings w a) in (t, if t =? 0 then cache else (a, t) :: cache)
  end.

(* HTTPDomainDelete that lets ANY sender reap a mapping whose ExpiresAt has passed (a seeded breaking change).  In the model
   expiry is not an input of any decision: an expired mapping or domain is an ordinary object of the world, still its owner's. *)
Definition dom_delete_reaping (expired : N -> bool) (w : world) (a : cid) (i : N) : world :=
  match find_dom i (w_doms w) with
  | Some d => if (d_owner d =? a) || expired i then with_doms w (remove_dom i (w_doms w)) else w
  | None => w
  end.

(* Model/Relay.v — executable model of the client-side relays in internal/utils/iocopy/copy.go:
     UDP            (datagram <-> length-prefixed stream; batching writer and bulk de-framing reader)
     Bidirectional  (two copy loops + half-close + join), tryCloseWrite
   Definitions only; proofs are in Proofs/Relay.v.  The buffer sizes are Section variables instantiated
   with the values regenerated from copy.go (Gen/C12.v); Proofs/SideC12.v re-proves the relations the
   theorems need.  `Fixed = true` is the code after fixes/C12-udp-deframe-spin-on-truncated-record.diff,
   `Fixed = false` the pinned tree (kept for the _refuted lemma). *)
From TX Require Export Base.Bytes Base.Chunks Base.Threads.

Open Scope N_scope.

Definition dgram := list byte.
Definition is_nil {A} (l : list A) : bool := match l with [] => true | _ => false end.

(* ---- a tunnel / stream endpoint's read side: Chunks.rd plus "the last chunk comes with the end error"
        (Go's Read may return n > 0 together with io.EOF / an error) ---- *)
(* t_empty: one flag per future Read call; true = that call returns (0, nil) — which io.Reader permits (the client's
   WebSocket transport does it for an empty binary message) — and consumes nothing *)
Record trd := { t_rd : rd; t_wd : bool; t_empty : list bool }.

Definition tread (cap : N) (t : trd) : list byte * option N * trd :=
  match t_empty t with
  | true :: more => ([], None, {| t_rd := t_rd t; t_wd := t_wd t; t_empty := more |})
  | _ =>
    let more := tl (t_empty t) in
    match read1 cap (t_rd t) with
    | None => ([], Some (endk (t_rd t)), {| t_rd := t_rd t; t_wd := t_wd t; t_empty := more |})
    | Some (got, r') =>
      if t_wd t && is_nil (rest r')
      then (got, Some (endk r'), {| t_rd := r'; t_wd := t_wd t; t_empty := more |})
      else (got, None, {| t_rd := r'; t_wd := t_wd t; t_empty := more |})
    end
  end.
(* the loops' continuation decision on a read failure: in every relay loop of copy.go (UDP tunnel end, UDP local end,
   both directions of Bidirectional) ANY error — EOF, io.ErrUnexpectedEOF, net.ErrClosed, os.ErrDeadlineExceeded, every
   net.Error whatever its Timeout()/Temporary(), plain errors — ends that direction after what was read with it has been
   forwarded; nothing is retried.  That is what tread's `Some kind` means to every loop above/below.  Gen/C12.v's
   relay_retry_table is the same decision probed on the real relays with sticky failures (Proofs/SideC12.v). *)
Definition relay_retries (site kind : N) : bool := false.
(* what is left to happen on a read side: bytes plus scripted empty reads *)
Definition tmeasure (t : trd) : nat := (length (rest (t_rd t)) + length (t_empty t))%nat.

(* ======================================================================================== *)
(*  UDP, tunnel -> UDP direction (copy.go, second goroutine of func UDP)                    *)
(* ======================================================================================== *)

(* the UDP endpoint's write side: datagrams accepted so far; w_fail = index of the Write that fails *)
Record wst := { w_log : list dgram; w_cnt : N; w_fail : option N; w_bytes : N }.

(* uflush := func() error { for _, pkt := range pendingPackets { udpConn.Write(..) -> err => return err;
                                                              result.BytesReceived += len } } *)
Fixpoint uflush (pend : list dgram) (w : wst) : bool * wst :=
  match pend with
  | [] => (false, w)
  | d :: tl =>
    if match w_fail w with Some k => k =? w_cnt w | None => false end
    then (true, {| w_log := w_log w; w_cnt := w_cnt w + 1; w_fail := w_fail w; w_bytes := w_bytes w |})
    else uflush tl {| w_log := w_log w ++ [d]; w_cnt := w_cnt w + 1; w_fail := w_fail w;
                     w_bytes := w_bytes w + lenN d |}
  end.

(* error classes of Result.ReceiveError: 0 nil, 1 tunnel read error, 2 UDP write error, 3 io.ErrUnexpectedEOF *)

Record ust := { s_buf : list byte;      (* readBuf[:buffered] *)
                s_pend : list dgram;    (* pendingPackets *)
                s_w : wst; s_t : trd; s_err : N }.

Inductive ures :=
| UFuel
| UReturn (w : wst) (werr : bool)                       (* `return` out of the goroutine *)
| UBreak (rest : list byte) (pend : list dgram) (w : wst).  (* inner loop left; rest = readBuf[processed:buffered] *)
Inductive ostep := OStop (w : wst) (err : N) | OCont (s : ust) | OFuel.
Inductive dres := DDone (w : wst) (err : N) | DFuel.

Section Udp.
  Variable Fixed : bool.
  Variables BufSz Low MaxRec Batch : N.   (* 512 KB, 256 KB, 65535, 32 *)
  (* which write path flush() takes: None = the fallback loop over udpConn.Write (any io.Writer);
     Some cap = udpConn is a *net.UDPConn: every pending packet is add()ed to the sendmmsg batch writer
     (udp_batch.go), which holds at most cap messages — add() returns false beyond that and the caller ignores it,
     i.e. the packet is dropped — and flush() then sends what the writer holds *)
  Variable BwCap : option N.

  Definition uflush_path (pend : list dgram) (w : wst) : bool * wst :=
    match BwCap with
    | None => uflush pend w
    | Some cap => uflush (firstn (N.to_nat cap) pend) w
    end.

  (* for buffered-processed >= 2 { packetLen := ...; illegal -> uflush(); return; incomplete -> break;
       append; processed += 2+packetLen; if len(pending) >= batchSize { uflush -> err => ReceiveError = err; return } } *)
  Fixpoint unpack (fuel : nat) (buf : list byte) (pend : list dgram) (w : wst) : ures :=
    match fuel with
    | O => UFuel
    | S f =>
      match buf with
      | a :: b :: tl =>
        let n := de16 [a; b] in
        if (n =? 0) || (MaxRec <? n) then UReturn (snd (uflush_path pend w)) false
        else if lenN tl <? n then UBreak buf pend w
        else
          let pend' := pend ++ [firstn (N.to_nat n) tl] in
          let buf' := skipn (N.to_nat n) tl in
          if Batch <=? lenN pend' then
            match uflush_path pend' w with
            | (true, w') => UReturn w' true
            | (false, w') => unpack f buf' [] w'
            end
          else unpack f buf' pend' w
      | _ => UBreak buf pend w
      end
    end.

  (* one iteration of the outer `for { ... }`, first half:
       if buffered < 256K { n, err := tunnelConn.Read(readBuf[buffered:]); buffered += n;
                            if err != nil { if err != io.EOF { ReceiveError = err }; ... } }
     result: (readBuf[:buffered], tunnel, ReceiveError, a read error arrived in this iteration) *)
  Definition read_phase (s : ust) : list byte * trd * N * bool :=
    if lenN (s_buf s) <? Low then
      let '(got, e, t') := tread (BufSz - lenN (s_buf s)) (s_t s) in
      match e with
      | None => (s_buf s ++ got, t', s_err s, false)
      | Some k => (s_buf s ++ got, t', (if k =? 0 then s_err s else 1), true)
      end
    else (s_buf s, s_t s, s_err s, false).

  (* second half: the `buffered == 0` exit, unpacking, uflush, compaction, (repaired) exit *)
  Definition process_phase (pend : list dgram) (w : wst) (x : list byte * trd * N * bool) : ostep :=
    let '(buf1, t1, err1, ended) := x in
    if ended && is_nil buf1 then
      (* if buffered == 0 { uflush -> flushErr && ReceiveError == nil => ReceiveError = flushErr; break } *)
      let '(fe, w') := uflush_path pend w in
      OStop w' (if fe && (err1 =? 0) then 2 else err1)
    else
      match unpack (S (length buf1)) buf1 pend w with
      | UFuel => OFuel
      | UReturn w' werr => OStop w' (if werr then 2 else err1)
      | UBreak rst pend' w' =>
        let processed := (length buf1 - length rst)%nat in
        (* if len(pendingPackets) > 0 && processed > 0 { uflush -> err => ReceiveError = err; return } *)
        let '(fe, w'', pend'') :=
          if negb (is_nil pend') && (0 <? processed)%nat
          then let '(fe, w2) := uflush_path pend' w' in (fe, w2, [])
          else (false, w', pend') in
        if fe then OStop w'' 2
        else if Fixed && ended then
          (* the repair: if tunnelEnded { if buffered > 0 && ReceiveError == nil { = ErrUnexpectedEOF }; break } *)
          OStop w'' (if is_nil rst then err1 else if err1 =? 0 then 3 else err1)
        else OCont {| s_buf := rst; s_pend := pend''; s_w := w''; s_t := t1; s_err := err1 |}
      end.

  Definition outer_step (s : ust) : ostep := process_phase (s_pend s) (s_w s) (read_phase s).

  Fixpoint deframe (fuel : nat) (s : ust) : dres :=
    match fuel with
    | O => DFuel
    | S f => match outer_step s with
             | OStop w e => DDone w e
             | OFuel => DFuel
             | OCont s' => deframe f s'
             end
    end.

  (* ---- oracle-free specification: the complete records of a byte string ---- *)
  (* result: (records, unprocessed tail, stopped at an illegal length field) *)
  Fixpoint split (fuel : nat) (buf : list byte) : list dgram * list byte * bool :=
    match fuel with
    | O => ([], buf, false)
    | S f =>
      match buf with
      | a :: b :: tl =>
        let n := de16 [a; b] in
        if (n =? 0) || (MaxRec <? n) then ([], buf, true)
        else if lenN tl <? n then ([], buf, false)
        else let '(r, rst, bad) := split f (skipn (N.to_nat n) tl) in
             (firstn (N.to_nat n) tl :: r, rst, bad)
      | _ => ([], buf, false)
      end
    end.
  Definition split_all (s : list byte) := split (length s) s.
End Udp.

Definition w0 (fail : option N) : wst := {| w_log := []; w_cnt := 0; w_fail := fail; w_bytes := 0 |}.
Definition ust0e (s : list byte) (cuts : list nat) (e : N) (wd : bool) (emp : list bool) (fail : option N) : ust :=
  {| s_buf := []; s_pend := []; s_w := w0 fail;
     s_t := {| t_rd := {| rest := s; cuts := cuts; endk := e; carry := false |}; t_wd := wd; t_empty := emp |}; s_err := 0 |}.
Definition ust0 (s : list byte) (cuts : list nat) (e : N) (wd : bool) (fail : option N) : ust := ust0e s cuts e wd [] fail.

(* ======================================================================================== *)
(*  UDP, UDP -> tunnel direction (first goroutine of func UDP): batching writer             *)
(* ======================================================================================== *)

Definition enc_dgram (d : dgram) : list byte := be16 (lenN d) ++ d.
Definition encode_all (ds : list dgram) : list byte := flat_map enc_dgram ds.

Inductive uev := EvD (d : dgram) | EvTick.     (* a datagram read from the UDP side | the 20 ms ticker fired *)
Record est := { e_batch : list byte; e_out : list (list byte); e_sent : N }.
Definition est0 : est := {| e_batch := []; e_out := []; e_sent := 0 |}.

Section Enc.
  Variable BatchBuf : N.    (* 256 KB *)
  (* flushLocked: if batchPos > 0 { tunnelConn.Write(batchBuf[:batchPos]); batchPos = 0 } *)
  Definition eflush (e : est) : est :=
    match e_batch e with
    | [] => e
    | b => {| e_batch := []; e_out := e_out e ++ [b]; e_sent := e_sent e |}
    end.
  Definition estep (e : est) (ev : uev) : est :=
    match ev with
    | EvTick => eflush e
    | EvD [] => e                                    (* if n == 0 { continue } *)
    | EvD d =>
      let e1 := if BatchBuf <? lenN (e_batch e) + (2 + lenN d) then eflush e else e in
      let e2 := {| e_batch := e_batch e1 ++ enc_dgram d; e_out := e_out e1; e_sent := e_sent e1 + lenN d |} in
      if BatchBuf / 2 <? lenN (e_batch e2) then eflush e2 else e2
    end.
  (* the UDP side's reads end (EOF / error): final uflush *)
  Definition encode_events (evs : list uev) : est := eflush (fold_left estep evs est0).
End Enc.

Definition ev_dgrams (evs : list uev) : list dgram :=
  flat_map (fun ev => match ev with EvD (x :: d) => [x :: d] | _ => [] end) evs.

(* ======================================================================================== *)
(*  UDP -> tunnel, who owns batchBuf: the main loop and the 20 ms ticker goroutine as two     *)
(*  Threads.v threads over the REAL buffer (a byte array that is overwritten in place),       *)
(*  batchPos, batchMu and the tunnel.  One step = lock / take batchBuf[:batchPos] /           *)
(*  tunnelConn.Write returns / unlock / "read one datagram and frame it" (under the lock).    *)
(*  LateWrite = false: the code (flushLocked under batchMu: the slice handed to Write stays    *)
(*  owned by the lock holder until Write has returned).  LateWrite = true: the variant that     *)
(*  takes pending := batchBuf[:batchPos], resets batchPos, UNLOCKS and only then writes.         *)
(* ======================================================================================== *)
Record bsh := { b_buf : list byte;        (* batchBuf, as far as it has ever been written *)
                b_pos : nat;              (* batchPos *)
                b_lock : option nat;      (* batchMu: None | Some holder *)
                b_out : list byte;        (* bytes the tunnel has consumed, in order *)
                b_inq : list dgram;       (* datagrams the local side will still deliver *)
                b_seen : list dgram;      (* datagrams read so far, in arrival order *)
                b_cw : bool;              (* tryCloseWrite(tunnelConn) has happened: a tunnel that honours its half-close
                                             refuses every later Write *)
                b_werr : bool }.          (* some tunnel Write was refused *)
Inductive bpc :=
| BIdle | BHave                  (* outside / inside the critical section, nothing taken yet *)
| BTaken (n : nat)               (* a Write of batchBuf[:n] is in flight *)
| BUnlock | BFinal
| BClose                         (* close(done); about to tryCloseWrite(tunnelConn) *)
| BDone.

(* copy(batchBuf[pos:], e): in place *)
Definition store (pos : nat) (e : list byte) (buf : list byte) : list byte :=
  firstn pos buf ++ e ++ skipn (pos + length e) buf.
Definition enc_ne (d : dgram) : list byte := match d with [] => [] | _ => enc_dgram d end.

Definition bset (sh : bsh) buf pos lock out inq seen : bsh :=
  {| b_buf := buf; b_pos := pos; b_lock := lock; b_out := out; b_inq := inq; b_seen := seen;
     b_cw := b_cw sh; b_werr := b_werr sh |}.
Definition bflags (sh : bsh) (cw werr : bool) : bsh :=
  {| b_buf := b_buf sh; b_pos := b_pos sh; b_lock := b_lock sh; b_out := b_out sh; b_inq := b_inq sh;
     b_seen := b_seen sh; b_cw := cw; b_werr := werr |}.
(* tunnelConn.Write(batchBuf[:n]) returns (n = 0: flushLocked does not call Write at all) *)
Definition write_n (n : nat) (sh : bsh) : bsh :=
  if (0 <? n)%nat && b_cw sh then bflags sh (b_cw sh) true
  else bset sh (b_buf sh) (b_pos sh) (b_lock sh) (b_out sh ++ firstn n (b_buf sh)) (b_inq sh) (b_seen sh).
(* flushLocked(): if batchPos > 0 { Write(batchBuf[:batchPos]) -> err => return err; batchPos = 0 } *)
Definition flush_locked (sh : bsh) : bsh :=
  if (0 <? b_pos sh)%nat && b_cw sh then bflags sh (b_cw sh) true
  else bset sh (b_buf sh) 0%nat (b_lock sh) (b_out sh ++ firstn (b_pos sh) (b_buf sh)) (b_inq sh) (b_seen sh).

Section Own.
  Variable LateWrite : bool.          (* the timed flush unlocks before its tunnel Write has returned *)
  Variable FlushAfterClose : bool.    (* the final flush runs after close(done) + tryCloseWrite(tunnelConn) *)
  Variable BatchBuf : nat.

  (* main loop, holding the lock, one datagram d: flush first if it does not fit; frame it at batchPos;
     flush if more than half full *)
  Definition pre_flush (d : dgram) (sh : bsh) : bsh :=
    if (BatchBuf <? b_pos sh + (2 + length d))%nat then flush_locked sh else sh.
  Definition put_dgram (d : dgram) (sh : bsh) : bsh :=
    bset sh (store (b_pos sh) (enc_dgram d) (b_buf sh)) (b_pos sh + (2 + length d))%nat (b_lock sh)
         (b_out sh) (tl (b_inq sh)) (b_seen sh ++ [d]).
  Definition post_flush (sh : bsh) : bsh :=
    if (BatchBuf / 2 <? b_pos sh)%nat then flush_locked sh else sh.
  Definition frame_one (d : dgram) (sh : bsh) : bsh :=
    match d with
    | [] => bset sh (b_buf sh) (b_pos sh) (b_lock sh) (b_out sh) (tl (b_inq sh)) (b_seen sh ++ [d])
    | _ => post_flush (put_dgram d (pre_flush d sh))
    end.

  Definition main_own (pc : bpc) (sh : bsh) : bpc * bsh :=
    match pc with
    | BIdle =>
      if FlushAfterClose && is_nil (b_inq sh) && negb (b_cw sh)
      then (BIdle, bflags sh true (b_werr sh))      (* variant: the local side ended -> half-close the tunnel FIRST *)
      else match b_lock sh with
           | None => (BHave, bset sh (b_buf sh) (b_pos sh) (Some 0%nat) (b_out sh) (b_inq sh) (b_seen sh))
           | Some _ => (BIdle, sh)          (* batchMu.Lock() blocks *)
           end
    | BHave => match b_inq sh with
               | d :: _ => (BUnlock, frame_one d sh)
               | [] => (BFinal, flush_locked sh)   (* the local side ended: flushLocked(), still under the lock *)
               end
    | BUnlock => (BIdle, bset sh (b_buf sh) (b_pos sh) None (b_out sh) (b_inq sh) (b_seen sh))
    | BFinal => (BClose, bset sh (b_buf sh) (b_pos sh) None (b_out sh) (b_inq sh) (b_seen sh))
    | BClose => (BDone, bflags sh true (b_werr sh))    (* close(done); tryCloseWrite(tunnelConn) *)
    | other => (other, sh)
    end.

  Definition tick_own (pc : bpc) (sh : bsh) : bpc * bsh :=
    match pc with
    | BIdle => match b_lock sh with
               | None => (BHave, bset sh (b_buf sh) (b_pos sh) (Some 1%nat) (b_out sh) (b_inq sh) (b_seen sh))
               | Some _ => (BIdle, sh)
               end
    | BHave => (* pending := batchBuf[:batchPos]  (a slice: it ALIASES batchBuf) *)
      if LateWrite
      then (BTaken (b_pos sh), bset sh (b_buf sh) 0%nat None (b_out sh) (b_inq sh) (b_seen sh))   (* batchPos = 0; Unlock() *)
      else (BTaken (b_pos sh), sh)
    | BTaken n => (* tunnelConn.Write(pending) returns: the tunnel has consumed what the slice holds NOW *)
      if LateWrite
      then (BIdle, write_n n sh)
      else (BUnlock, let sh1 := write_n n sh in
                     if b_werr sh1 then sh1
                     else bset sh1 (b_buf sh1) 0%nat (b_lock sh1) (b_out sh1) (b_inq sh1) (b_seen sh1))
    | BUnlock => (BIdle, bset sh (b_buf sh) (b_pos sh) None (b_out sh) (b_inq sh) (b_seen sh))
    | other => (other, sh)
    end.

  Definition own_step (lo : nat * bpc) (sh : bsh) : (nat * bpc) * bsh :=
    match fst lo with
    | 0%nat => let '(pc', sh') := main_own (snd lo) sh in ((0%nat, pc'), sh')
    | r => let '(pc', sh') := tick_own (snd lo) sh in ((r, pc'), sh')
    end.
End Own.
Definition own_init (ds : list dgram) : st bsh (nat * bpc) :=
  ({| b_buf := []; b_pos := 0; b_lock := None; b_out := []; b_inq := ds; b_seen := []; b_cw := false; b_werr := false |},
   [(0%nat, BIdle); (1%nat, BIdle)]).

(* ---- the relay's copy-buffer pool (copyBufferPool in copy.go) as far as Bidirectional uses it: a starting copy direction
        Gets a buffer (a free one, else a new one), a finishing direction Puts the buffer it holds back (the deferred Put).
        DoublePut = the variant that puts the same buffer back twice on one exit path. ---- *)
Record bpool := { bp_free : list nat; bp_next : nat; bp_held : list nat }.
Inductive bpop := BpGet | BpPut (i : nat).
Definition bpool_step (DoublePut : bool) (p : bpool) (o : bpop) : bpool :=
  match o with
  | BpGet => match bp_free p with
             | i :: more => {| bp_free := more; bp_next := bp_next p; bp_held := i :: bp_held p |}
             | [] => {| bp_free := []; bp_next := S (bp_next p); bp_held := bp_next p :: bp_held p |}
             end
  | BpPut i => if existsb (Nat.eqb i) (bp_held p)
               then {| bp_free := (if DoublePut then [i; i] else [i]) ++ bp_free p; bp_next := bp_next p;
                       bp_held := remove Nat.eq_dec i (bp_held p) |}
               else p
  end.
Definition bpool0 : bpool := {| bp_free := []; bp_next := 0; bp_held := [] |}.

(* ---- the ticker variant that flushes only after a QUIET interval (it remembers batchPos of the previous tick and
        skips the flush while the batch is still growing) — kept for a _refuted lemma ---- *)
Record qst := { q_e : est; q_last : N }.
Definition qstep (BatchBuf : N) (q : qst) (ev : uev) : qst :=
  match ev with
  | EvTick => let e' := if lenN (e_batch (q_e q)) =? q_last q then eflush (q_e q) else q_e q in
              {| q_e := e'; q_last := lenN (e_batch e') |}
  | _ => {| q_e := estep BatchBuf (q_e q) ev; q_last := q_last q |}
  end.

(* ======================================================================================== *)
(*  the local UDP session of the listening client (internal/client/mapping/udp_adapter.go):   *)
(*  UDPVirtualConn.lastActive and UDPMappingAdapter.cleanupStaleSessions (session TTL)         *)
(*  SIn t: a datagram from the local application arrives at time t (readLoop refreshes the      *)
(*  stamp); SOut t: the relay writes a tunnel->UDP datagram (Write refreshes the stamp);         *)
(*  SCleanup t: one pass of the cleanup loop: closes the session iff t - lastActive > TTL.       *)
(*  OutRefreshes = true is the code; false the variant whose Write leaves the stamp alone.       *)
(* ======================================================================================== *)
Inductive sev := SIn (t : N) | SOut (t : N) | SCleanup (t : N).
Record sess := { ss_last : N; ss_closed : bool; ss_lost : N }.   (* ss_lost: relay writes refused by a closed session *)
Definition sess_step (OutRefreshes : bool) (TTL : N) (s : sess) (e : sev) : sess :=
  match e with
  | SIn t => if ss_closed s then s else {| ss_last := t; ss_closed := false; ss_lost := ss_lost s |}
  | SOut t => if ss_closed s then {| ss_last := ss_last s; ss_closed := true; ss_lost := ss_lost s + 1 |}
              else if OutRefreshes then {| ss_last := t; ss_closed := false; ss_lost := ss_lost s |} else s
  | SCleanup t => if ss_closed s then s
                  else if TTL <? t - ss_last s then {| ss_last := ss_last s; ss_closed := true; ss_lost := ss_lost s |} else s
  end.
Definition sess_run (OutRefreshes : bool) (TTL : N) (s : sess) (evs : list sev) : sess :=
  fold_left (sess_step OutRefreshes TTL) evs s.
(* the hypothesis "traffic in EITHER direction at least every TTL": every cleanup pass happens within TTL of the most
   recent datagram (in or out); `last` = time of the most recent datagram *)
Fixpoint live_traffic (TTL last : N) (evs : list sev) : Prop :=
  match evs with
  | [] => True
  | SIn t :: tl => live_traffic TTL t tl
  | SOut t :: tl => live_traffic TTL t tl
  | SCleanup t :: tl => t - last <= TTL /\ live_traffic TTL last tl
  end.

(* ======================================================================================== *)
(*  client SOCKS5 UDP-associate tunnel endpoint: internal/client/socks5_tunnel.go udpTunnelConn *)
(*  SendPacket = [len:2 BE][datagram] (empty datagrams included);                               *)
(*  ReceivePacket = io.ReadFull(reader, 2); io.ReadFull(reader, len) directly on the stream      *)
(*  reader — nothing is read ahead, nothing is buffered between calls.                            *)
(* ======================================================================================== *)
Inductive tcres := TcOk (d : dgram) | TcErr.
Definition tc_recv (r : rd) : tcres * rd :=
  match read_full (length (rest r)) 2 r with
  | RFOk hdr r1 =>
    match read_full (length (rest r1)) (de16 hdr) r1 with
    | RFOk body r2 => (TcOk body, r2)
    | _ => (TcErr, r1)
    end
  | _ => (TcErr, r)
  end.
(* the receive loop of the UDP relay: ReceivePacket until it fails *)
Fixpoint tc_recv_all (fuel : nat) (r : rd) : list dgram :=
  match fuel with
  | O => []
  | S f => match tc_recv r with
           | (TcOk d, r') => d :: tc_recv_all f r'
           | (TcErr, _) => []
           end
  end.

(* ---- specification vocabulary for "the stream is cut at byte offset cut" ---- *)
(* datagrams whose record lies completely before the cut / the bytes of the record the cut falls into *)
Fixpoint complete_before (cut : nat) (ds : list dgram) : list dgram :=
  match ds with
  | [] => []
  | d :: tl => if (2 + length d <=? cut)%nat then d :: complete_before (cut - (2 + length d)) tl else []
  end.
Fixpoint tail_after (cut : nat) (ds : list dgram) : list byte :=
  match ds with
  | [] => []
  | d :: tl => if (2 + length d <=? cut)%nat then tail_after (cut - (2 + length d)) tl
               else firstn cut (enc_dgram d)
  end.
Definition valid_dgram (MaxRec : N) (d : dgram) : Prop := 0 < lenN d /\ lenN d <= MaxRec.
(* Result.ReceiveError class when the stream ends with kind k (0 = EOF) leaving `tail` unprocessed *)
Definition final_err (err0 k : N) (tail : list byte) : N :=
  let e1 := if k =? 0 then err0 else 1 in
  if is_nil tail then e1 else if e1 =? 0 then 3 else e1.
Definition sum_len (ds : list dgram) : N := fold_right (fun d a => lenN d + a) 0 ds.

(* ======================================================================================== *)
(*  TCP: Bidirectional = two copy goroutines + tryCloseWrite + wg.Wait + Close both         *)
(*  Threads.v model: one step = one loop iteration / one CloseWrite / wg.Done / Close        *)
(* ======================================================================================== *)

(* ---- how an endpoint is handed to the relay: tryCloseWrite + readWriteCloser.CloseWrite/Close dispatch ----
   ep_kind 0: a connection that implements CloseWriter itself (net.TCPConn, the scripted fake)
           1: a plain io.ReadWriteCloser without CloseWrite
           2: iocopy.NewReadWriteCloser[WithCloseWrite](reader, writer, closeFunc[, closeWriteFunc]) — what
              internal/client/{mapping/base.go, target_handler.go, socks5_tunnel.go} build around the tunnel stream *)
Record wcfg := { ep_kind : N; ep_cwfunc : bool;      (* closeWriteFunc != nil *)
                 ep_writer_cw : bool;               (* the wrapped Writer implements CloseWriter *)
                 ep_closefunc : bool }.             (* closeFunc != nil *)
Inductive hc_action :=
| HcFunc      (* closeWriteFunc() *)
| HcWriter    (* the connection's / wrapped writer's own CloseWrite() *)
| HcNoop      (* nothing: "let the final Close handle it" *)
| HcClose.    (* a FULL close of the endpoint — what a half-close must never be *)
(* tryCloseWrite(conn):  *net.TCPConn / CloseWriter -> conn.CloseWrite(); otherwise nothing.
   readWriteCloser.CloseWrite: closeWriteFunc != nil -> closeWriteFunc(); Writer.(CloseWriter) -> its
   CloseWrite(); otherwise return nil. *)
Definition close_write_dispatch (c : wcfg) : hc_action :=
  if ep_kind c =? 0 then HcWriter
  else if ep_kind c =? 1 then HcNoop
  else if ep_cwfunc c then HcFunc
  else if ep_writer_cw c then HcWriter
  else HcNoop.
(* conn.Close(): readWriteCloser.Close calls closeFunc only when it is set *)
Definition close_reaches_endpoint (c : wcfg) : bool := negb (ep_kind c =? 2) || ep_closefunc c.
Definition cfg_direct : wcfg := {| ep_kind := 0; ep_cwfunc := false; ep_writer_cw := false; ep_closefunc := true |}.

(* everything direction d (0: A->B, 1: B->A) touches: the source's read side, the destination's write side *)
Record dirst := { d_rd : trd;               (* source endpoint: what it will still hand to Read *)
                  d_out : list byte;        (* destination endpoint: bytes accepted by Write *)
                  d_wlimit : option N;      (* destination accepts this many bytes in total, then faults *)
                  d_wshort : bool;          (* the fault is a short write (nw < nr, nil) instead of an error *)
                  d_cfg : wcfg;             (* how the destination endpoint is wrapped *)
                  d_cw : N;                 (* CloseWrite calls reaching the destination endpoint / its writer *)
                  d_cwf : N;                (* closeWriteFunc calls of the destination's wrapper *)
                  d_bytes : N;              (* Result.BytesSent / BytesReceived *)
                  d_err : N }.              (* Result.SendError / ReceiveError class: 0 nil, 1 read error,
                                               2 write error, 4 io.ErrShortWrite, 5 endpoint already closed *)

Definition d_with (D : dirst) (rd : trd) (out : list byte) (cw cwf bytes err : N) : dirst :=
  {| d_rd := rd; d_out := out; d_wlimit := d_wlimit D; d_wshort := d_wshort D; d_cfg := d_cfg D;
     d_cw := cw; d_cwf := cwf; d_bytes := bytes; d_err := err |}.

Record tsh := { sh_d0 : dirst; sh_d1 : dirst; sh_wg : N;
                sh_closed_a : bool; sh_closed_b : bool; sh_ncl_a : N; sh_ncl_b : N;
                sh_io_after_close : N; sh_ret : bool;
                sh_dl_a : bool; sh_dl_b : bool }.   (* a read deadline armed by the relay on endpoint A / B; the environment is
                                                      adversarial: the still-open peer may stay silent past ANY armed deadline *)

Inductive tpc :=
| PLoop (total : N)       (* in the `for` loop; totalWritten *)
| PHalf                   (* loop left: writerB.Close() (no-op); about to tryCloseWrite(dst) *)
| PWg                     (* about to run the deferred wg.Done() *)
| PDone
| MWait | MCloseA | MCloseB | MRet.     (* main: wg.Wait(); connA.Close(); connB.Close(); return result *)

Section Tcp.
  Variable CopyBuf : N.   (* constants.CopyBufferSize *)
  (* false = the code: a finished direction half-closes its destination and does nothing else to it.
     true  = the variant that also arms a read deadline ("drain timeout") on that endpoint, which the OTHER direction is
     still reading from *)
  Variable DrainDeadline : bool.

  (* one iteration of the copy loop of direction D; cs / cd: source / destination already Close()d *)
  Definition loop_iter (cs cd dl : bool) (total : N) (D : dirst) : tpc * dirst * N :=
    let '(got, e, t') := if cs then ([], Some 99, d_rd D)
                         else if dl then ([], Some 98, d_rd D)      (* i/o timeout: the armed deadline has passed *)
                         else tread CopyBuf (d_rd D) in
    let upd out bytes err := d_with D t' out (d_cw D) (d_cwf D) bytes err in
    (* if nr > 0 { nw, writeErr := dst.Write(buf[:nr]) ... } *)
    let '(nw, werr, out', ioac) :=
      if is_nil got then (0, 0, d_out D, 0)
      else if cd then (0, 2, d_out D, 1)
      else match d_wlimit D with
           | Some L =>
             if L <? lenN (d_out D) + lenN got
             then let k := L - lenN (d_out D) in
                  (k, (if d_wshort D then 0 else 2), d_out D ++ firstn (N.to_nat k) got, 0)
             else (lenN got, 0, d_out D ++ got, 0)
           | None => (lenN got, 0, d_out D ++ got, 0)
           end in
    let total' := total + nw in
    let ioac' := ioac + (if cs then 1 else 0) in
    if negb (is_nil got) && negb (werr =? 0) then (PHalf, upd out' (d_bytes D) werr, ioac')
    else if negb (is_nil got) && negb (nw =? lenN got) then (PHalf, upd out' (d_bytes D) 4, ioac')
    else match e with
         | Some k => (PHalf, upd out' total' (if k =? 0 then d_err D else if k =? 99 then 5 else if k =? 98 then 8 else 1), ioac')
         | None => (PLoop total', upd out' (d_bytes D) (d_err D), ioac')
         end.

  Definition set_d (d : nat) (sh : tsh) (D : dirst) (wg ioac : N) : tsh :=
    {| sh_d0 := if (d =? 0)%nat then D else sh_d0 sh; sh_d1 := if (d =? 0)%nat then sh_d1 sh else D;
       sh_wg := wg; sh_closed_a := sh_closed_a sh; sh_closed_b := sh_closed_b sh;
       sh_ncl_a := sh_ncl_a sh; sh_ncl_b := sh_ncl_b sh;
       sh_io_after_close := sh_io_after_close sh + ioac; sh_ret := sh_ret sh;
       sh_dl_a := sh_dl_a sh; sh_dl_b := sh_dl_b sh |}.

  (* a full Close of direction d's DESTINATION endpoint (d = 0: B, else A) *)
  Definition close_dst (d : nat) (sh : tsh) : tsh :=
    {| sh_d0 := sh_d0 sh; sh_d1 := sh_d1 sh; sh_wg := sh_wg sh;
       sh_closed_a := if (d =? 0)%nat then sh_closed_a sh else true;
       sh_closed_b := if (d =? 0)%nat then true else sh_closed_b sh;
       sh_ncl_a := if (d =? 0)%nat then sh_ncl_a sh else sh_ncl_a sh + 1;
       sh_ncl_b := if (d =? 0)%nat then sh_ncl_b sh + 1 else sh_ncl_b sh;
       sh_io_after_close := sh_io_after_close sh; sh_ret := sh_ret sh;
       sh_dl_a := sh_dl_a sh; sh_dl_b := sh_dl_b sh |}.

  (* SetReadDeadline(now + drain timeout) on direction d's destination endpoint *)
  Definition arm_deadline (d : nat) (sh : tsh) : tsh :=
    {| sh_d0 := sh_d0 sh; sh_d1 := sh_d1 sh; sh_wg := sh_wg sh; sh_closed_a := sh_closed_a sh; sh_closed_b := sh_closed_b sh;
       sh_ncl_a := sh_ncl_a sh; sh_ncl_b := sh_ncl_b sh; sh_io_after_close := sh_io_after_close sh; sh_ret := sh_ret sh;
       sh_dl_a := if (d =? 0)%nat then sh_dl_a sh else true; sh_dl_b := if (d =? 0)%nat then true else sh_dl_b sh |}.

  (* tryCloseWrite(dst), through whatever wraps the destination *)
  Definition half_close_only (d : nat) (D : dirst) (sh : tsh) : tsh :=
    match close_write_dispatch (d_cfg D) with
    | HcFunc => set_d d sh (d_with D (d_rd D) (d_out D) (d_cw D) (d_cwf D + 1) (d_bytes D) (d_err D)) (sh_wg sh) 0
    | HcWriter => set_d d sh (d_with D (d_rd D) (d_out D) (d_cw D + 1) (d_cwf D) (d_bytes D) (d_err D)) (sh_wg sh) 0
    | HcNoop => set_d d sh D (sh_wg sh) 0
    | HcClose => close_dst d (set_d d sh D (sh_wg sh) 0)
    end.
  Definition half_close_step (d : nat) (D : dirst) (sh : tsh) : tsh :=
    if DrainDeadline then arm_deadline d (half_close_only d D sh) else half_close_only d D sh.

  Definition copier_step (d : nat) (pc : tpc) (sh : tsh) : tpc * tsh :=
    let D := if (d =? 0)%nat then sh_d0 sh else sh_d1 sh in
    let cs := if (d =? 0)%nat then sh_closed_a sh else sh_closed_b sh in
    let cd := if (d =? 0)%nat then sh_closed_b sh else sh_closed_a sh in
    match pc with
    | PLoop total => let dl := if (d =? 0)%nat then sh_dl_a sh else sh_dl_b sh in
                     let '(pc', D', ioac) := loop_iter cs cd dl total D in (pc', set_d d sh D' (sh_wg sh) ioac)
    | PHalf => (PWg, half_close_step d D sh)
    | PWg => (PDone, set_d d sh D (sh_wg sh - 1) 0)
    | other => (other, sh)
    end.

  (* connA.Close(); connB.Close(): A is the destination of direction 1, B of direction 0 *)
  Definition main_step (pc : tpc) (sh : tsh) : tpc * tsh :=
    let mk ca cb na nb r :=
      {| sh_d0 := sh_d0 sh; sh_d1 := sh_d1 sh; sh_wg := sh_wg sh; sh_closed_a := ca; sh_closed_b := cb;
         sh_ncl_a := na; sh_ncl_b := nb; sh_io_after_close := sh_io_after_close sh; sh_ret := r;
         sh_dl_a := sh_dl_a sh; sh_dl_b := sh_dl_b sh |} in
    match pc with
    | MWait => if sh_wg sh =? 0 then (MCloseA, sh) else (MWait, sh)
    | MCloseA => if close_reaches_endpoint (d_cfg (sh_d1 sh))
                 then (MCloseB, mk true (sh_closed_b sh) (sh_ncl_a sh + 1) (sh_ncl_b sh) false)
                 else (MCloseB, sh)
    | MCloseB => if close_reaches_endpoint (d_cfg (sh_d0 sh))
                 then (MRet, mk (sh_closed_a sh) true (sh_ncl_a sh) (sh_ncl_b sh + 1) false)
                 else (MRet, sh)
    | MRet => (PDone, mk (sh_closed_a sh) (sh_closed_b sh) (sh_ncl_a sh) (sh_ncl_b sh) true)
    | other => (other, sh)
    end.

  (* thread-local state = (role, pc): role 0 = A->B copier, 1 = B->A copier, anything else = main *)
  Definition tstep (lo : nat * tpc) (sh : tsh) : (nat * tpc) * tsh :=
    match fst lo with
    | 0%nat => let '(pc', sh') := copier_step 0 (snd lo) sh in ((0%nat, pc'), sh')
    | 1%nat => let '(pc', sh') := copier_step 1 (snd lo) sh in ((1%nat, pc'), sh')
    | r => let '(pc', sh') := main_step (snd lo) sh in ((r, pc'), sh')
    end.
End Tcp.

(* dirw: the direction whose source sends s and whose DESTINATION is wrapped as cfg *)
Definition dirwe (s : list byte) (cuts : list nat) (e : N) (wd : bool) (emp : list bool) (wl : option N) (ws : bool)
                 (cfg : wcfg) : dirst :=
  {| d_rd := {| t_rd := {| rest := s; cuts := cuts; endk := e; carry := false |}; t_wd := wd; t_empty := emp |}; d_out := [];
     d_wlimit := wl; d_wshort := ws; d_cfg := cfg; d_cw := 0; d_cwf := 0; d_bytes := 0; d_err := 0 |}.
Definition dirw (s : list byte) (cuts : list nat) (e : N) (wd : bool) (wl : option N) (ws : bool) (cfg : wcfg) : dirst :=
  dirwe s cuts e wd [] wl ws cfg.
Definition dir0 (s : list byte) (cuts : list nat) (e : N) (wd : bool) (wl : option N) (ws : bool) : dirst :=
  dirw s cuts e wd wl ws cfg_direct.
Definition tcp_init (D0 D1 : dirst) : st tsh (nat * tpc) :=
  ({| sh_d0 := D0; sh_d1 := D1; sh_wg := 2; sh_closed_a := false; sh_closed_b := false;
      sh_ncl_a := 0; sh_ncl_b := 0; sh_io_after_close := 0; sh_ret := false; sh_dl_a := false; sh_dl_b := false |},
   [(0%nat, PLoop 0); (1%nat, PLoop 0); (2%nat, MWait)]).
Close Scope N_scope.

(* Model/Lockout.v — executable model of the address lock-out machinery (property C18):
     internal/security/brute_force_protector.go  (RecordFailure / RecordSuccess / IsBanned / BanIP / banIP /
                                                  UnbanIP / cleanup / cleanupOldFailures)
     internal/security/ip_manager.go             (IsAllowed / AddToBlacklist / RemoveFromBlacklist /
                                                  AddToWhitelist / RemoveFromWhitelist / cleanup / findInList)
     internal/security/ip_manager_storage.go     (the persisted lists survive a restart: loadFromStorage)
     internal/security/rate_limiter.go           (allow / TokenBucket.Take / refill / cleanup)
     internal/app/server/auth_handler.go         (HandleHandshake gates 1-3 and the RecordFailure/RecordSuccess sites)
   Time is an explicit integer (any unit; `tps` = ticks per second for the bucket).  Every mutex-protected
   section of the Go code is ONE atomic step of a thread (Base/Threads.v); the goroutines spawned by
   IsBanned / IsAllowed on an expired entry are entries of a pending list executed by separate runner
   threads in any order at any later point.
   current_variant = the code after fixes/C18-unban-only-if-expired.diff, fixes/C18-ban-never-weakened.diff and
                     fixes/C18-anon-registration-keeps-failures.diff, fixes/C18-blacklist-any-active-entry.diff;
   pinned_variant  = the tree as found (spawned unban deletes whatever record is present; banIP overwrites).
   Definitions only; proofs are in Proofs/Lockout.v. *)
From Coq Require Export ZArith.
From TX Require Export Base.Threads.
Open Scope Z_scope.

Record variant := { cond_unban : bool;      (* spawned unban deletes only a record that is still expired *)
                    keep_stronger : bool;   (* banIP never replaces a ban by a weaker one *)
                    anon_resets : bool;     (* handleFirstConnection calls RecordSuccess (clears the failure record
                                               although no credential was proven) *)
                    skip_gate_p2 : bool;    (* gate 2 is skipped for phase-2 messages ("the connection passed the check
                                               when its challenge was issued"): kept to state the refuted variant *)
                    first_match : N }.      (* 0: IsAllowed refuses iff SOME matching blacklist record is in force
                                               (findActiveInList); 1, 2: it judges by the FIRST matching record only
                                               (findInList: the exact key, then the ranges in map order - order 1 or 2) *)
Definition current_variant :=
  {| cond_unban := true; keep_stronger := true; anon_resets := false; skip_gate_p2 := false; first_match := 0%N |}.
Definition pinned_variant :=
  {| cond_unban := false; keep_stronger := false; anon_resets := true; skip_gate_p2 := false; first_match := 1%N |}.

Record cfg := { maxf : Z; window : Z; band : Z; perm : Z;      (* BruteForceConfig *)
                rate : Z; burst : Z; ttl : Z; tps : Z }.       (* RateLimitConfig (ip level); ticks per second *)

(* ---------- expiring sets: bannedIPs (BanRecord.ExpiresAt) and blacklist (IPRecord.ExpiresAt) ---------- *)
Definition expiry := option Z.                       (* None = zero time = permanent *)
Definition emap := N -> option expiry.
Definition upd {A} (m : N -> A) (k : N) (v : A) : N -> A := fun x => if N.eqb x k then v else m x.

(* !ExpiresAt.IsZero() && time.Now().After(ExpiresAt) *)
Definition expired (now : Z) (e : expiry) : bool := match e with None => false | Some t => now >? t end.
(* duration > 0 ? now.Add(duration) : zero *)
Definition mk_expiry (now dur : Z) : expiry := if dur >? 0 then Some (now + dur) else None.
(* old lasts at least as long as new *)
Definition stronger_or_eq (old new : expiry) : bool :=
  match old, new with
  | None, _ => true
  | Some _, None => false
  | Some a, Some b => b <=? a
  end.
(* banIP's map update *)
Definition put (V : variant) (m : emap) (ip : N) (new : expiry) : emap :=
  match m ip with
  | Some old => if keep_stronger V && stronger_or_eq old new then m else upd m ip (Some new)
  | None => upd m ip (Some new)
  end.
(* the spawned goroutine: pinned = UnbanIP / RemoveFromBlacklist; fixed = unbanIfExpired / removeExpiredFromBlacklist *)
Definition spawned_remove (V : variant) (now : Z) (m : emap) (ip : N) : emap :=
  if cond_unban V
  then match m ip with
       | Some e => if expired now e then upd m ip None else m
       | None => m
       end
  else upd m ip None.
(* cleanup loops: delete every temporary record with now0.After(ExpiresAt) *)
Definition sweep (now0 : Z) (m : emap) : emap :=
  fun k => match m k with
           | Some e => if expired now0 e then None else Some e
           | None => None
           end.
(* answer of IsBanned (true = banned) / negation of the blacklist part of IsAllowed, as a function of the state *)
Definition in_force (now : Z) (m : emap) (ip : N) : bool :=
  match m ip with Some e => negb (expired now e) | None => false end.
Definition has_expired (now : Z) (m : emap) (ip : N) : bool :=
  match m ip with Some e => expired now e | None => false end.

(* ---------- failure records ---------- *)
Definition frec := (list Z * Z)%type.                (* FailureRecord.Failures, TotalCount *)
Definition prune (W now : Z) (ts : list Z) : list Z := filter (fun t => t >? now - W) ts.   (* failTime.After(cutoff) *)
Inductive decision := DNone | DTemp | DPerm.
Definition lenZ {A} (l : list A) : Z := Z.of_nat (length l).

(* RecordFailure, section under p.mu *)
Definition fail_a (C : cfg) (now : Z) (r : option frec) : frec * decision :=
  let '(ts, tot) := match r with Some x => x | None => ([], 0) end in
  let ts' := prune (window C) now (ts ++ [now]) in
  let tot' := tot + 1 in
  ((ts', tot'),
   if tot' >=? perm C then DPerm else if lenZ ts' >=? maxf C then DTemp else DNone).

(* cleanup, section under p.mu: cleanupOldFailures on every record, delete the empty ones *)
Definition sweep_fails (W now : Z) (f : N -> option frec) : N -> option frec :=
  fun k => match f k with
           | Some (ts, tot) => match prune W now ts with [] => None | ts' => Some (ts', tot) end
           | None => None
           end.

(* ---------- token bucket (tokens scaled by tps so that refill is exact) ---------- *)
Definition bucket := (Z * Z)%type.                   (* tokens*tps, lastRefill *)
Definition cap (C : cfg) : Z := burst C * tps C.
Definition refill (C : cfg) (now : Z) (b : bucket) : Z := Z.min (fst b + (now - snd b) * rate C) (cap C).
(* allow(key, n): get-or-create (full) then Take(n) *)
Definition take (C : cfg) (now : Z) (n : Z) (b : option bucket) : bucket * bool :=
  let tok := match b with Some x => refill C now x | None => cap C end in
  if tok >=? n * tps C then ((tok - n * tps C, now), true) else ((tok, now), false).
(* cleanup: now.Sub(lastRefill) > TTL *)
Definition bucket_gc (C : cfg) (now : Z) (b : option bucket) : option bucket :=
  match b with Some x => if now - snd x >? ttl C then None else Some x | None => None end.

(* ---------- shared state ---------- *)
Record sh := { now : Z;
               fails : N -> option frec;
               bans : emap;   pend : list N;          (* bannedIPs; spawned `go UnbanIP(ip)` not yet run *)
               bl : emap;     pendbl : list N;        (* blacklist; spawned `go RemoveFromBlacklist(ip)` not yet run *)
               wl : N -> bool;
               bk : N -> option bucket;
               chal : N -> bool }.                    (* connection id -> a challenge is pending on it (conn.SetPendingChallenge) *)

Definition set_now (s : sh) (t : Z) : sh :=
  {| now := t; fails := fails s; bans := bans s; pend := pend s; bl := bl s; pendbl := pendbl s; wl := wl s; bk := bk s; chal := chal s |}.
Definition set_fails (s : sh) f : sh :=
  {| now := now s; fails := f; bans := bans s; pend := pend s; bl := bl s; pendbl := pendbl s; wl := wl s; bk := bk s; chal := chal s |}.
Definition set_bans (s : sh) b p : sh :=
  {| now := now s; fails := fails s; bans := b; pend := p; bl := bl s; pendbl := pendbl s; wl := wl s; bk := bk s; chal := chal s |}.
Definition set_bl (s : sh) b p : sh :=
  {| now := now s; fails := fails s; bans := bans s; pend := pend s; bl := b; pendbl := p; wl := wl s; bk := bk s; chal := chal s |}.
Definition set_wl (s : sh) w : sh :=
  {| now := now s; fails := fails s; bans := bans s; pend := pend s; bl := bl s; pendbl := pendbl s; wl := w; bk := bk s; chal := chal s |}.
Definition set_chal (s : sh) c : sh :=
  {| now := now s; fails := fails s; bans := bans s; pend := pend s; bl := bl s; pendbl := pendbl s; wl := wl s; bk := bk s; chal := c |}.
Definition set_bk (s : sh) b : sh :=
  {| now := now s; fails := fails s; bans := bans s; pend := pend s; bl := bl s; pendbl := pendbl s; wl := wl s; bk := b; chal := chal s |}.

Definition init_sh : sh :=
  {| now := 0; fails := fun _ => None; bans := fun _ => None; pend := []; bl := fun _ => None; pendbl := [];
     wl := fun _ => false; bk := fun _ => None; chal := fun _ => false |}.

(* list keys that match an address (IPManager.findInList / findActiveInList): its exact key and the CIDR entries
   containing it.  Addresses are numbers < 1000; address a lies in the /28 with key 1000 + a/16 and in the /27
   with key 2000 + a/32 (the harness maps them to 10.1.0.(16g)/28, 10.1.0.(32g)/27 and 10.1.0.a): ranges overlap,
   every /28 inside a /27.  A key >= 1000 matches only itself. *)
Definition keys_of (ip : N) : list N :=
  if (ip <? 1000)%N then [ip; (1000 + ip / 16)%N; (2000 + ip / 32)%N] else [ip].
(* the order in which the first-match lookup of the pinned tree meets them (Go map order: either) *)
Definition match_order (o : N) (ip : N) : list N :=
  if (ip <? 1000)%N
  then match o with 2%N => [ip; (2000 + ip / 32)%N; (1000 + ip / 16)%N] | _ => keys_of ip end
  else [ip].
Definition wl_in (w : N -> bool) (ip : N) : bool := existsb w (keys_of ip).
Definition has_rec (m : emap) (k : N) : bool := match m k with Some _ => true | None => false end.

(* what IsBanned / IsAllowed answer in a state *)
Definition is_banned (s : sh) (ip : N) : bool := in_force (now s) (bans s) ip.
Definition is_allowed (s : sh) (ip : N) : bool :=
  wl_in (wl s) ip || negb (existsb (in_force (now s) (bl s)) (keys_of ip)).

(* IsAllowed: (keys of the expired records whose asynchronous removal it spawns, answer) *)
Definition allowed_dec (V : variant) (s : sh) (ip : N) : list N * bool :=
  if wl_in (wl s) ip then ([], true)
  else match first_match V with
       | 0%N => (filter (has_expired (now s) (bl s)) (keys_of ip),
                 negb (existsb (in_force (now s) (bl s)) (keys_of ip)))
       | o => match find (has_rec (bl s)) (match_order o ip) with
              | None => ([], true)
              | Some k => if has_expired (now s) (bl s) k then ([k], true) else ([], false)
              end
       end.

(* a process restart: everything held in memory only is gone (failure records, bans, spawned goroutines,
   buckets); the black/white lists are rebuilt from the store (NewIPManager -> loadFromStorage), where a
   temporary record lives exactly until its expiry (storage TTL) and a permanent one has no expiry *)
Definition restart (s : sh) : sh :=
  {| now := now s; fails := fun _ => None; bans := fun _ => None; pend := [];
     bl := sweep (now s) (bl s); pendbl := []; wl := wl s; bk := fun _ => None; chal := fun _ => false |}.

(* ---------- calls and threads ---------- *)
(* handshake shapes: unknown client id (ClientID <> 0) | ClientID = 0 with a token the handler accepts as a first
   connection, credential generation ok / failing | ClientID = 0 with any other token (step 4 does not register;
   the lookup of client 0 fails).  EVERY ClientID = 0 handshake passes gate 3, whatever its token. *)
Inductive hkind :=
| HBad | HAnonOk | HAnonFail | HZeroJunk
| HP1 (c : N)                   (* known client, phase 1 on connection c: a challenge is issued and kept on the connection *)
| HP2 (c : N) (good : bool).    (* phase 2 on connection c: the response to its pending challenge, correct or not *)
Definition hk_anon (k : hkind) : bool := match k with HAnonOk | HAnonFail | HZeroJunk => true | _ => false end.
(* the message MAY record a failure (static upper bound used for counting) *)
Definition hk_fails (k : hkind) : bool := match k with HAnonOk | HP1 _ => false | _ => true end.
(* ... and does, in this state: phase 2 fails without a pending challenge on ITS connection or with a wrong response *)
Definition auth_fails (k : hkind) (s : sh) : bool :=
  match k with
  | HAnonOk | HP1 _ => false
  | HP2 c good => negb (chal s c && good)
  | _ => true
  end.
Definition is_p2 (k : hkind) : bool := match k with HP2 _ _ => true | _ => false end.

Inductive call :=
| CFail (ip : N) | CSucc (ip : N) | CQuery (ip : N) | CBan (ip : N) (dur : Z) | CUnban (ip : N) | CCleanup
| CBlAdd (ip : N) (dur : Z) | CBlRm (ip : N) | CWlAdd (ip : N) | CWlRm (ip : N) | CAllowed (ip : N) | CBlCleanup
| CAllowIP (ip : N) (n : Z) | CRlCleanup
| CHs (ip : N) (k : hkind)
| CRestart.

(* results appended to a program's log: 0/1 booleans; handshake: 0 blacklisted, 1 banned, 2 rate-limited,
   3 authentication failed, 4 success, 5 challenge issued *)
Inductive pc :=
| PIdle
| PFailB (ip : N) (d : decision) (res : N)       (* RecordFailure between p.mu.Unlock() and banIP *)
| PCleanB (now0 : Z)                             (* cleanup between the two locked loops; now0 read at entry *)
| PHs2 (ip : N) (k : hkind)                      (* HandleHandshake after gate 1 *)
| PHs3 (ip : N) (k : hkind)                      (* after gate 2 *)
| PHsAuth (ip : N) (k : hkind).                  (* after gate 3 *)

Inductive lo :=
| LClock (ds : list Z)                           (* advances the clock by max 0 d *)
| LRunBan (cs : list nat)                        (* runs the (c mod n)-th pending spawned unban *)
| LRunBl (cs : list nat)
| LProg (p : pc) (rest : list call) (log : list N).

Definition nb (b : bool) : N := if b then 1%N else 0%N.

Fixpoint remove_nth {A} (i : nat) (l : list A) : list A :=
  match l, i with
  | [], _ => []
  | _ :: t, O => t
  | h :: t, S j => h :: remove_nth j t
  end.

Section Step.
  Variable V : variant.
  Variable C : cfg.

  (* RecordFailure part 1: returns the next pc and the state *)
  Definition do_fail_a (s : sh) (ip : N) (res_banned res_none : N) : pc * sh * option N :=
    let '(r, d) := fail_a C (now s) (fails s ip) in
    let s' := set_fails s (upd (fails s) ip (Some r)) in
    match d with
    | DNone => (PIdle, s', Some res_none)
    | _ => (PFailB ip d res_banned, s', None)
    end.

  (* banIP *)
  Definition do_ban (s : sh) (ip : N) (dur : Z) : sh :=
    set_bans s (put V (bans s) ip (mk_expiry (now s) dur)) (pend s).

  (* first atomic step of a call (pc = PIdle) *)
  Definition start (c : call) (s : sh) : pc * sh * option N :=
    match c with
    | CFail ip => do_fail_a s ip 1%N 0%N
    | CSucc ip => (PIdle, set_fails s (upd (fails s) ip None), Some 0%N)
    | CQuery ip =>
        if has_expired (now s) (bans s) ip
        then (PIdle, set_bans s (bans s) (pend s ++ [ip]), Some 0%N)
        else (PIdle, s, Some (nb (is_banned s ip)))
    | CBan ip dur => (PIdle, do_ban s ip dur, Some 0%N)
    | CUnban ip => (PIdle, set_bans s (upd (bans s) ip None) (pend s), Some 0%N)
    | CCleanup => (PCleanB (now s), set_fails s (sweep_fails (window C) (now s) (fails s)), None)
    | CBlAdd ip dur => (PIdle, set_bl s (upd (bl s) ip (Some (mk_expiry (now s) dur))) (pendbl s), Some 0%N)
    | CBlRm ip => (PIdle, set_bl s (upd (bl s) ip None) (pendbl s), Some 0%N)
    | CWlAdd ip => (PIdle, set_wl s (upd (wl s) ip true), Some 0%N)
    | CWlRm ip => (PIdle, set_wl s (upd (wl s) ip false), Some 0%N)
    | CAllowed ip =>
        let r := allowed_dec V s ip in
        (PIdle, set_bl s (bl s) (pendbl s ++ fst r), Some (nb (snd r)))
    | CBlCleanup => (PIdle, set_bl s (sweep (now s) (bl s)) (pendbl s), Some 0%N)
    | CAllowIP ip n =>
        let '(b, ok) := take C (now s) n (bk s ip) in
        (PIdle, set_bk s (upd (bk s) ip (Some b)), Some (nb ok))
    | CRlCleanup => (PIdle, set_bk s (fun k => bucket_gc C (now s) (bk s k)), Some 0%N)
    | CHs ip k =>
        (* gate 1: ipManager.IsAllowed *)
        let r := allowed_dec V s ip in
        let s' := set_bl s (bl s) (pendbl s ++ fst r) in
        if snd r then (PHs2 ip k, s', None) else (PIdle, s', Some 0%N)
    | CRestart => (PIdle, restart s, Some 0%N)
    end.

  (* continuation steps *)
  Definition continue (p : pc) (s : sh) : pc * sh * option N :=
    match p with
    | PIdle => (PIdle, s, None)
    | PFailB ip d res =>
        (PIdle, match d with
                | DPerm => do_ban s ip 0
                | DTemp => do_ban s ip (band C)
                | DNone => s
                end, Some res)
    | PCleanB now0 => (PIdle, set_bans s (sweep now0 (bans s)) (pend s), Some 0%N)
    | PHs2 ip k =>
        (* gate 2: bruteForceProtector.IsBanned *)
        (* evaluated for EVERY handshake message: phase 1, phase 2 and first connections alike; the ban is per
           address, whatever the state of the connection the message arrives on *)
        let nxt := if hk_anon k then PHs3 ip k else PHsAuth ip k in
        if skip_gate_p2 V && is_p2 k then (nxt, s, None)
        else if has_expired (now s) (bans s) ip
        then (nxt, set_bans s (bans s) (pend s ++ [ip]), None)
        else if is_banned s ip then (PIdle, s, Some 1%N) else (nxt, s, None)
    | PHs3 ip k =>
        (* gate 3: rateLimiter.AllowIP for ClientID == 0 *)
        let '(b, ok) := take C (now s) 1 (bk s ip) in
        let s' := set_bk s (upd (bk s) ip (Some b)) in
        if ok then (PHsAuth ip k, s', None) else (PIdle, s', Some 2%N)
    | PHsAuth ip k =>
        match k with
        | HP1 c => (PIdle, set_chal s (upd (chal s) c true), Some 5%N)      (* handleChallengePhase1 *)
        | _ =>
          (* handleChallengePhase2 clears the pending challenge of ITS connection before verifying *)
          let s0 := match k with HP2 c _ => set_chal s (upd (chal s) c false) | _ => s end in
          if auth_fails k s then do_fail_a s0 ip 3%N 3%N
          else (* verified response: RecordSuccess; first connection: no reset (unless the pinned variant) *)
            (PIdle, if (match k with HP2 _ _ => true | _ => anon_resets V end)
                    then set_fails s0 (upd (fails s0) ip None) else s0, Some 4%N)
        end
    end.

  Definition tstep (l : lo) (s : sh) : lo * sh :=
    match l with
    | LClock [] => (l, s)
    | LClock (d :: ds) => (LClock ds, set_now s (now s + Z.max 0 d))
    | LRunBan [] => (l, s)
    | LRunBan (c :: cs) =>
        match pend s with
        | [] => (LRunBan cs, s)
        | _ => let i := Nat.modulo c (length (pend s)) in
               let ip := nth i (pend s) 0%N in
               (LRunBan cs, set_bans s (spawned_remove V (now s) (bans s) ip) (remove_nth i (pend s)))
        end
    | LRunBl [] => (l, s)
    | LRunBl (c :: cs) =>
        match pendbl s with
        | [] => (LRunBl cs, s)
        | _ => let i := Nat.modulo c (length (pendbl s)) in
               let ip := nth i (pendbl s) 0%N in
               (LRunBl cs, set_bl s (spawned_remove V (now s) (bl s) ip) (remove_nth i (pendbl s)))
        end
    | LProg PIdle [] _ => (l, s)
    | LProg PIdle (c :: rest) log =>
        let '(p', s', r) := start c s in
        (LProg p' rest (match r with Some x => log ++ [x] | None => log end), s')
    | LProg p rest log =>
        let '(p', s', r) := continue p s in
        (LProg p' rest (match r with Some x => log ++ [x] | None => log end), s')
    end.

  (* ---------- sequential execution of a timed script (used by the correspondence run):
     set the clock, run the call to completion, then run every pending spawned goroutine ---------- *)
  Fixpoint finish_call (fuel : nat) (l : lo) (s : sh) : lo * sh :=
    match fuel with
    | O => (l, s)
    | S f => match l with
             | LProg PIdle _ _ => (l, s)
             | _ => let '(l', s') := tstep l s in finish_call f l' s'
             end
    end.
  Fixpoint drain_ban (fuel : nat) (s : sh) : sh :=
    match fuel with
    | O => s
    | S f => match pend s with [] => s | _ => drain_ban f (snd (tstep (LRunBan [O]) s)) end
    end.
  Fixpoint drain_bl (fuel : nat) (s : sh) : sh :=
    match fuel with
    | O => s
    | S f => match pendbl s with [] => s | _ => drain_bl f (snd (tstep (LRunBl [O]) s)) end
    end.
  (* late = false: the goroutines spawned by a call run right after it (what the Go scheduler does when the
     next call is milliseconds away); late = true: they run only after the NEXT call (used to explain an
     observation by the expired-entry race of the pinned tree) *)
  Definition exec_call (late : bool) (st : sh * list N) (tc : Z * call) : sh * list N :=
    let '(s, log) := st in
    let s0 := set_now s (Z.max (now s) (fst tc)) in
    let '(l1, s1) := tstep (LProg PIdle [snd tc] log) s0 in
    let '(l2, s2) := finish_call 6 l1 s1 in
    let nb := if late then length (pend s0) else S (length (pend s2)) in
    let nl := if late then length (pendbl s0) else S (length (pendbl s2)) in
    let s3 := drain_bl nl (drain_ban nb s2) in
    (s3, match l2 with LProg _ _ lg => lg | _ => log end).
  Definition exec_script (late : bool) (script : list (Z * call)) : sh * list N :=
    fold_left (exec_call late) script (init_sh, []).
End Step.

(* ---------- the token bucket on its own: one key, timed operations ---------- *)
Inductive bop := BTake (n : Z) | BGc.
Definition bucket_step (C : cfg) (st : option bucket * Z) (tb : Z * bop) : option bucket * Z :=
  let '(b, adm) := st in
  match snd tb with
  | BTake n => let '(b', ok) := take C (fst tb) n b in (Some b', if ok then adm + n else adm)
  | BGc => (bucket_gc C (fst tb) b, adm)
  end.
Definition bucket_run (C : cfg) (b : option bucket) (ops : list (Z * bop)) : option bucket * Z :=
  fold_left (bucket_step C) ops (b, 0).

(* ---------- registrations of one address: ClientID = 0 handshakes with arbitrary token forms ----------
   registers f: step 4 accepts token form f as a first connection; charged f: gate 3 charges the bucket for it.
   One event = one such handshake at time t (gates 1-2 passed); counts the registrations granted. *)
Definition reg_step (C : cfg) (registers charged : nat -> bool) (st : option bucket * Z) (tf : Z * nat)
  : option bucket * Z :=
  let '(b, regs) := st in
  if charged (snd tf)
  then let '(b', ok) := take C (fst tf) 1 b in
       (Some b', if ok && registers (snd tf) then regs + 1 else regs)
  else (b, if registers (snd tf) then regs + 1 else regs).
Definition reg_run (C : cfg) (registers charged : nat -> bool) (b : option bucket) (h : list (Z * nat))
  : option bucket * Z := fold_left (reg_step C registers charged) h (b, 0).

(* Model/Limits.v — C17: admission against a configured limit, one thread program per admission shape.
   One thread step = ONE atomic action at the granularity the property names (one mutex-protected
   section, one atomic Load/Add/CAS, one storage-level count or create).  Definitions only.

   Transcribed code (paths relative to /repo):
   * internal/protocol/session/connection_lifecycle.go  CreateConnection / CloseConnection   -> sstep
   * internal/protocol/session/tunnel_registry.go       Register / Remove                    -> treg_apply
   * internal/protocol/session/client_registry.go       Register (replace / evict oldest) / Remove -> creg_apply
   * internal/client/mapping/base_utils.go + base.go    admission of one local connection    -> mstep
   * internal/cloud/services/conncode/service.go CreateConnectionCode (step 2..5) and
     activation.go ActivateConnectionCode (step 5..7)   count-active then create             -> qstep
   `Pinned` = the code as found (check-then-act), `Current` = the repaired code (fixes/C17-*.diff). *)
From TX Require Export Base.Threads.
From Coq Require Export NArith ZArith.

Inductive variant := Pinned | Current.

(* `limit > 0 && count >= limit` — 0 means unlimited (SessionConfig.MaxConnections, ClientRegistry.maxConnections,
   TunnelRegistry.maxTunnels, MappingConfig.MaxConnections) *)
Definition at_cap (max n : nat) : bool := (0 <? max) && (max <=? n).

Fixpoint countb {A} (p : A -> bool) (l : list A) : nat :=
  match l with [] => 0 | x :: t => (if p x then 1 else 0) + countb p t end.

(* ------------------------------------------------------------------------------------------------
   1. server-wide connection cap: SessionManager.CreateConnection
      shared state: len(connMap) and the number of streams registered in the StreamManager.
      Connection ids are pairwise distinct (C15), so an insert always adds an entry and CreateStream
      never reports a duplicate. *)
Inductive spc :=
| SStart       (* before  RLock; len(connMap); RUnlock; compare with MaxConnections *)
| SChecked     (* passed the check; next: reader.GetConnectionID() / idManager.GenerateConnectionID() *)
| SGotID       (* next: streamMgr.CreateStream(connID, ...) *)
| SStreamed    (* next: Lock; [Current: re-check;] connMap[connID] = conn; Unlock *)
| SUndo        (* Current only: refused under the write lock; next: streamMgr.RemoveStream(connID) *)
| SAccepted    (* registered in connMap; next (if the caller closes): CloseConnection *)
| SClosed
| SRefused.

Record sloc := { s_pc : spc; s_closes : bool }.
Record ssh := { conns : nat; streams : nat }.

Definition sstep (v : variant) (max : nat) (lo : sloc) (sh : ssh) : sloc * ssh :=
  let goto p := {| s_pc := p; s_closes := s_closes lo |} in
  match s_pc lo with
  | SStart => if at_cap max (conns sh) then (goto SRefused, sh) else (goto SChecked, sh)
  | SChecked => (goto SGotID, sh)
  | SGotID => (goto SStreamed, {| conns := conns sh; streams := S (streams sh) |})
  | SStreamed =>
      match v with
      | Pinned => (goto SAccepted, {| conns := S (conns sh); streams := streams sh |})
      | Current =>
          if at_cap max (conns sh) then (goto SUndo, sh)
          else (goto SAccepted, {| conns := S (conns sh); streams := streams sh |})
      end
  | SUndo => (goto SRefused, {| conns := conns sh; streams := pred (streams sh) |})
  | SAccepted =>
      (* CloseConnection: Lock; delete(connMap, id); Unlock — the StreamManager entry is NOT removed *)
      if s_closes lo then (goto SClosed, {| conns := pred (conns sh); streams := streams sh |}) else (lo, sh)
  | SClosed | SRefused => (lo, sh)
  end.

Definition s_is (p : spc) (lo : sloc) : bool :=
  match s_pc lo, p with
  | SStart, SStart | SChecked, SChecked | SGotID, SGotID | SStreamed, SStreamed | SUndo, SUndo
  | SAccepted, SAccepted | SClosed, SClosed | SRefused, SRefused => true
  | _, _ => false
  end.
Definition s_holds_stream (lo : sloc) : bool :=
  match s_pc lo with SStreamed | SUndo | SAccepted | SClosed => true | _ => false end.

Definition srun v max (sh : ssh) (ts : list sloc) (sched : list nat) : ssh * list sloc :=
  run _ _ (sstep v max) (sh, ts) sched.
Definition s_new (closes : bool) : sloc := {| s_pc := SStart; s_closes := closes |}.

(* ------------------------------------------------------------------------------------------------
   2. one-step registries (each operation runs under the registry's single mutex) *)
Inductive rop :=
| RReg (id created : N)      (* Register(conn{ConnID = id, CreatedAt = created}); id 0 stands for the empty ConnID *)
| RRem (id : N)              (* Remove(id) *)
| RAuth (id client : N).     (* TunnelRegistry.UpdateAuth(id, tunnel, ...): binds the tunnel id; an unknown id is an error; keys untouched
                                (for the control registry see xop / cregx_apply below) *)
Inductive rres := ROk | RRefused | REvicted (id : N) | RNoop.

Definition keys (m : list (N * N)) : list N := map fst m.
Definition has (m : list (N * N)) (id : N) : bool := existsb (fun e => N.eqb (fst e) id) m.
Definition del (m : list (N * N)) (id : N) : list (N * N) := filter (fun e => negb (N.eqb (fst e) id)) m.

(* TunnelRegistry.Register: refuse at capacity (even a re-registration of a present id), else insert/overwrite *)
Definition treg_apply (max : nat) (o : rop) (m : list (N * N)) : rres * list (N * N) :=
  match o with
  | RReg id t =>
      if N.eqb id 0 then (RRefused, m)
      else if at_cap max (length m) then (RRefused, m)
      else (ROk, (id, t) :: del m id)
  | RRem id => if has m id then (ROk, del m id) else (RNoop, m)
  | RAuth id _ => if has m id then (ROk, m) else (RRefused, m)      (* the key set is untouched either way *)
  end.

(* NOT the code: "a registration whose TunnelID is already registered is a replacement and skips the capacity check".
   The cap is on connMap, keyed by ConnID, so a known TunnelID on a NEW ConnID still adds an entry (refuted). *)
Definition treg_tid_skip_apply (max : nat) (tid_known : bool) (id t : N) (m : list (N * N)) : rres * list (N * N) :=
  if N.eqb id 0 then (RRefused, m)
  else if negb (tid_known || has m id) && at_cap max (length m) then (RRefused, m)
  else (ROk, (id, t) :: del m id).

(* ClientRegistry.findOldestConnectionLocked: minimal CreatedAt (first minimal in list order; Go iterates a map,
   so with equal stamps the choice is unspecified — the harness stamps distinct times) *)
Fixpoint oldest (m : list (N * N)) : option (N * N) :=
  match m with
  | [] => None
  | e :: t => match oldest t with
              | None => Some e
              | Some o => if N.leb (snd e) (snd o) then Some e else Some o
              end
  end.

(* ClientRegistry.Register (as of /repo c61cb06): registering a ConnID that already has a record is a REPLACEMENT — the count
   does not grow, so the capacity branch is not taken and nothing is evicted; a new ConnID at capacity evicts the oldest
   record first.  Never refuses a valid connection. *)
Definition creg_apply (max : nat) (o : rop) (m : list (N * N)) : rres * list (N * N) :=
  match o with
  | RReg id t =>
      if N.eqb id 0 then (RRefused, m)
      else if has m id then (ROk, (id, t) :: del m id)
      else if at_cap max (length m) then
        match oldest m with
        | Some old => (REvicted (fst old), (id, t) :: del m (fst old))
        | None => (RRefused, m)
        end
      else (ROk, (id, t) :: m)
  | RRem id => if has m id then (ROk, del m id) else (RNoop, m)
  | RAuth id _ => if has m id then (ROk, m) else (RRefused, m)      (* the key set is untouched either way *)
  end.

(* ClientRegistry.removeConnectionLocked with the client index made explicit: the registry also keeps clientID -> connID.
   A connection's identity (`ident`: connID -> the clientID it carries, 0 = unauthenticated) may be indexed under ANOTHER
   connection (the same client authenticated on a second connection).  The code drops the index entry only if it points to
   this connection and ALWAYS removes the connection from connMap.  `guarded` = the flattened variant whose early return
   also skips the connMap delete (NOT the code; refuted). *)
Record cregx := { x_map : list (N * N); x_ident : list (N * N); x_index : list (N * N) }.
Definition lookup2 (l : list (N * N)) (k : N) : N :=
  match find (fun e => N.eqb (fst e) k) l with Some e => snd e | None => 0%N end.
Definition remove_conn (guarded : bool) (r : cregx) (id : N) : cregx :=
  let cl := lookup2 (x_ident r) id in
  let points_here := has (x_index r) cl && N.eqb (lookup2 (x_index r) cl) id in
  if negb (N.eqb cl 0) && negb points_here && guarded then r                         (* early return: nothing removed *)
  else {| x_map := del (x_map r) id;
          x_ident := del (x_ident r) id;
          x_index := if negb (N.eqb cl 0) && points_here then del (x_index r) cl else x_index r |}.

(* The control registry with identities: operations of ClientRegistry as of /repo eb41b39.
   XReg id created client   Register(conn); client > 0 = the connection arrives already authenticated as that client:
                            clientIDMap[client] = conn (the previous holder of the index entry STAYS registered)
   XRem id                  Remove(id)
   XAuth id client          UpdateAuth(id, client): unknown id = error; else identity := client, index entries that point to
                            this connection under another client id are dropped, and — `authevict`, eb41b39 — the connection
                            the client id currently resolves to, if it is another one, is REMOVED in the same critical
                            section (two concurrent logins of one client cannot both survive); clientIDMap[client] := id.
   The connMap component of XReg / XRem is exactly creg_apply's (the index never decides whether a connection is removed). *)
Inductive xop := XReg (id created client : N) | XRem (id : N) | XAuth (id client : N).
Definition x_insert (r : cregx) (id t cl : N) : cregx :=
  {| x_map := (id, t) :: x_map r;
     x_ident := if N.eqb cl 0 then del (x_ident r) id else (id, cl) :: del (x_ident r) id;
     x_index := if N.eqb cl 0 then x_index r else (cl, id) :: del (x_index r) cl |}.
Definition cregx_apply (authevict : bool) (max : nat) (o : xop) (r : cregx) : rres * cregx :=
  match o with
  | XReg id t cl =>
      if N.eqb id 0 then (RRefused, r)
      else if has (x_map r) id then (ROk, x_insert (remove_conn false r id) id t cl)
      else if at_cap max (length (x_map r)) then
        match oldest (x_map r) with
        | Some old => (REvicted (fst old), x_insert (remove_conn false r (fst old)) id t cl)
        | None => (RRefused, r)
        end
      else (ROk, x_insert r id t cl)
  | XRem id => if has (x_map r) id then (ROk, remove_conn false r id) else (RNoop, r)
  | XAuth id cl =>
      if negb (has (x_map r) id) then (RRefused, r)
      else
        let r1 := {| x_map := x_map r; x_ident := (id, cl) :: del (x_ident r) id;
                     x_index := filter (fun e => negb (N.eqb (snd e) id) || N.eqb (fst e) cl) (x_index r) |} in
        let old := lookup2 (x_index r1) cl in
        let r2 := if authevict && has (x_index r1) cl && negb (N.eqb old id) then remove_conn false r1 old else r1 in
        (ROk, {| x_map := x_map r2; x_ident := x_ident r2; x_index := (cl, id) :: del (x_index r2) cl |})
  end.
Definition x_empty : cregx := {| x_map := []; x_ident := []; x_index := [] |}.
Definition to_rop (o : xop) : rop := match o with XReg id t _ => RReg id t | XRem id => RRem id | XAuth id cl => RAuth id cl end.

Record xloc := { xl_todo : list xop; xl_log : list rres }.
Definition xstep (apply : xop -> cregx -> rres * cregx) (lo : xloc) (r : cregx) : xloc * cregx :=
  match xl_todo lo with
  | [] => (lo, r)
  | o :: rest => let '(res, r') := apply o r in ({| xl_todo := rest; xl_log := res :: xl_log lo |}, r')
  end.
Definition xrun apply (r : cregx) (ts : list xloc) (sched : list nat) := run _ _ (xstep apply) (r, ts) sched.

(* a caller = a script of operations; one step = one operation under the lock *)
Record rloc := { r_todo : list rop; r_log : list rres }.
Definition rstep (apply : rop -> list (N * N) -> rres * list (N * N)) (lo : rloc) (m : list (N * N)) : rloc * list (N * N) :=
  match r_todo lo with
  | [] => (lo, m)
  | o :: rest => let '(r, m') := apply o m in ({| r_todo := rest; r_log := r :: r_log lo |}, m')
  end.
Definition rrun apply (m : list (N * N)) (ts : list rloc) (sched : list nat) := run _ _ (rstep apply) (m, ts) sched.

(* sequential application (what the harness replays: the registry mutex linearises the calls) *)
Fixpoint rseq (apply : rop -> list (N * N) -> rres * list (N * N)) (ops : list rop) (m : list (N * N)) : list rres * list (N * N) :=
  match ops with
  | [] => ([], m)
  | o :: rest => let '(r, m') := apply o m in let '(rs, m'') := rseq apply rest m' in (r :: rs, m'')
  end.

(* ------------------------------------------------------------------------------------------------
   3. per-mapping concurrent-connection limit on the listening client: BaseMappingHandler.handleConnection
      shared: activeConnCount (atomic.Int32) and the number of live tunnels of this mapping *)
Inductive mpc :=
| MStart (early : bool)            (* next: activeConnCount.Load() and compare.  early: the tunnel of this connection will be
                                      closed by its peer between tunnelManager.RegisterTunnel and tun.Start() *)
| MLoaded (early : bool) (cur : Z) (* Pinned: passed the check, next Add(1).  Current: next CompareAndSwap(cur, cur+1) *)
| MActive (early : bool)           (* holds a slot; setting the tunnel up (PrepareConnection, DialTunnel, RegisterTunnel) *)
| MLive                            (* tunnel started, handleConnection has returned *)
| MClosing                         (* Tunnel.Close has begun (closed from outside the copy loop); localConn.Close() has not returned:
                                      the connection is still OPEN *)
| MEarlyClosed                     (* Tunnel.Close ran OnClosed before Start; next: Start fails, deferred cleanup runs *)
| MDone                            (* tunnel closed / connection given up *)
| MRefused.
Record msh := { counter : Z; live : Z }.

(* once = the slot release is wrapped in a sync.Once (the code); once = false is the non-idempotent variant (refuted) *)
(* close_first = Tunnel.Close closes localConn / tunnelRWC BEFORE it unregisters and runs OnClosed (the code): the slot is
   returned only once the connection is closed; close_first = false returns the slot first (refuted) *)
Definition mstep_gen (once close_first : bool) (v : variant) (max : nat) (pc : mpc) (sh : msh) : mpc * msh :=
  let bump d l := {| counter := counter sh + d; live := live sh + l |}%Z in
  match pc with
  | MStart e =>
      match v, max with
      | Current, 0 => (MActive e, bump 1 0)%Z                               (* unlimited: Add(1) only *)
      | _, _ => if (0 <? max) && (Z.of_nat max <=? counter sh)%Z then (MRefused, sh) else (MLoaded e (counter sh), sh)
      end
  | MLoaded e cur =>
      match v with
      | Pinned => (MActive e, bump 1 0)%Z                                   (* activeConnCount.Add(1) *)
      | Current => if (counter sh =? cur)%Z then (MActive e, bump 1 0)%Z else (MStart e, sh)   (* CAS, retry on failure *)
      end
  | MActive false =>
      match v with
      | Pinned => (MLive, bump (-1) 1)%Z        (* tun.Start(); return => deferred Add(-1) runs while the tunnel lives *)
      | Current => (MLive, bump 0 1)%Z          (* slot handed over to the tunnel *)
      end
  | MActive true =>                             (* registered, then closed by the peer: Tunnel.Close -> OnClosed *)
      match v with
      | Pinned => (MEarlyClosed, sh)            (* OnClosed does not touch the counter *)
      | Current => (MEarlyClosed, bump (-1) 0)%Z   (* OnClosed -> releaseSlot() *)
      end
  | MEarlyClosed =>                             (* tun.Start() fails; failure path; deferred releaseSlot() *)
      match v with
      | Pinned => (MDone, bump (-1) 0)%Z
      | Current => if once then (MDone, sh) else (MDone, bump (-1) 0)%Z
      end
  | MLive =>                                    (* Tunnel.Close begins; `live` counts OPEN connections *)
      match v with
      | Pinned => (MClosing, sh)
      | Current => if close_first then (MClosing, sh) else (MClosing, bump (-1) 0)%Z   (* OnClosed before the conns are closed *)
      end
  | MClosing =>                                 (* localConn.Close() returns *)
      match v with
      | Pinned => (MDone, bump 0 (-1))%Z
      | Current => if close_first then (MDone, bump (-1) (-1))%Z else (MDone, bump 0 (-1))%Z   (* ... then OnClosed releases the slot *)
      end
  | MDone | MRefused => (pc, sh)
  end.
Definition mstep := mstep_gen true true.
Definition m_holds (pc : mpc) : bool := match pc with MActive _ | MLive | MClosing => true | _ => false end.
Definition m_live (pc : mpc) : bool := match pc with MLive | MClosing => true | _ => false end.
Definition mrun v max (sh : msh) (ts : list mpc) (sched : list nat) := run _ _ (mstep v max) (sh, ts) sched.

(* 3b. the slot seen as events: one holder = one handleConnection call; its script is ANY sequence of
   HAcq       acquireConnectionSlot() with the limit known (mapping limit, or the user quota could be read)
   HAcqFault  acquireConnectionSlot() while GetUserQuota() fails: the limit is unknown; the code lets the connection through
              AND COUNTS it (falls into the "unlimited: only count" branch)
   HRel       releaseSlot() — OnClosed's or the deferred one, in any number and order.
   once = the release is wrapped in a sync.Once (the code); count_on_fault = a fault admission is counted (the code).
   The variants once = false and count_on_fault = false are refuted. *)
Inductive hev := HAcq | HAcqFault | HRel.
Record hloc := { h_todo : list hev; h_acquired : bool; h_holding : bool; h_byfault : bool }.
Definition hstep (once count_on_fault : bool) (max : nat) (lo : hloc) (c : Z) : hloc * Z :=
  let next r a h f := {| h_todo := r; h_acquired := a; h_holding := h; h_byfault := f |} in
  match h_todo lo with
  | [] => (lo, c)
  | HAcq :: r =>
      if h_acquired lo then (next r true (h_holding lo) (h_byfault lo), c)
      else if (0 <? max) && (Z.of_nat max <=? c)%Z
           then (next [] false false false, c)                                  (* refused: returns at once *)
           else (next r true true false, c + 1)%Z
  | HAcqFault :: r =>
      if h_acquired lo then (next r true (h_holding lo) (h_byfault lo), c)
      else (next r true true true, if count_on_fault then c + 1 else c)%Z        (* let through; counted (or not) *)
  | HRel :: r =>
      if h_holding lo then (next r (h_acquired lo) false (h_byfault lo), c - 1)%Z
      else if once || negb (h_acquired lo) then (next r (h_acquired lo) false (h_byfault lo), c)
      else (next r (h_acquired lo) false (h_byfault lo), c - 1)%Z                 (* released AGAIN *)
  end.
Definition h_new (script : list hev) : hloc := {| h_todo := script; h_acquired := false; h_holding := false; h_byfault := false |}.
Definition h_known_holding (lo : hloc) : bool := h_holding lo && negb (h_byfault lo).
Definition h_fault_holding (lo : hloc) : bool := h_holding lo && h_byfault lo.
Definition hrun once cof max (c : Z) (ts : list hloc) (sched : list nat) := run _ _ (hstep once cof max) (c, ts) sched.

(* 2b. ClientRegistry.Register with the lock RELEASED between the eviction and the insert (NOT the code; the variant the
   harness's gated stream Close() distinguishes; refuted) *)
Inductive ppc := PStart (id t : N) | PInsert (id t : N) | PDone.
Definition creg_split_step (max : nat) (pc : ppc) (m : list (N * N)) : ppc * list (N * N) :=
  match pc with
  | PStart id t =>
      if has m id then (PDone, (id, t) :: del m id)
      else if at_cap max (length m) then
        match oldest m with
        | Some old => (PInsert id t, del m (fst old))      (* evicted; Unlock; oldest.Stream.Close(); Lock *)
        | None => (PDone, m)
        end
      else (PDone, (id, t) :: m)
  | PInsert id t => (PDone, (id, t) :: del m id)           (* connMap[id] = conn, unconditionally *)
  | PDone => (PDone, m)
  end.

(* ------------------------------------------------------------------------------------------------
   4. per-client quotas kept in storage: count the active entries (list reads), then create (writes).
      `limit <= count` refuses — there is no "0 = unlimited" here (service.go / activation.go compare `>=`). *)
Inductive qpc := QStart | QCounted | QCreated | QRefused.
Definition qstep (max : nat) (pc : qpc) (n : nat) : qpc * nat :=
  match pc with
  | QStart => if max <=? n then (QRefused, n) else (QCounted, n)
  | QCounted => (QCreated, S n)
  | QCreated | QRefused => (pc, n)
  end.
Definition q_is_counted (pc : qpc) : bool := match pc with QCounted => true | _ => false end.
Definition q_is_created (pc : qpc) : bool := match pc with QCreated => true | _ => false end.
Definition qrun max (n : nat) (ts : list qpc) (sched : list nat) := run _ _ (qstep max) (n, ts) sched.

(* guard: an admission may start counting only while no other admission sits between its count and its create
   (what an atomic claim / a per-client lock would enforce; the code has neither) *)
Definition q_guard (s : nat * list qpc) (i : nat) : bool :=
  match nth_error (snd s) i with
  | Some QStart => Nat.eqb (countb q_is_counted (snd s)) 0
  | _ => true
  end.
Fixpoint overlap_free (max : nat) (s : nat * list qpc) (sched : list nat) : bool :=
  match sched with
  | [] => true
  | i :: rest => q_guard s i && overlap_free max (sys_step _ _ (qstep max) s i) rest
  end.

(* ------------------------------------------------------------------------------------------------
   5. the quota count as a fold over storage reads, each of which may fail.
      One index read (GetList of the client's index) and one by-id read (Get) per index entry.
      Abort       a failing read aborts the admission with a storage error
                  (repos/connection_code_repository.go ListByTargetClient -> CountActiveByTargetClient -> CreateConnectionCode)
      SkipRecord  a failing by-id read is logged and skipped (NOT the code; the variant is refuted)
      Open        a failing index read yields an empty listing and a failing by-id read is skipped
                  (repos/mapping_repository.go GetClientPortMappings via generic List/Get, as used by
                  ActivateConnectionCode step 5 — a documented choice of the code; storage faults are
                  outside C17's quantifier, so Open is recorded as behaviour, not as a defect) *)
Inductive fpolicy := Abort | SkipRecord | Open.
Inductive ares := ACreated | ARefused | AFailed.

(* recs: the client's index entries, true = still active; rfaults: for each by-id read in order, does it fail *)
Fixpoint count_reads (p : fpolicy) (recs : list bool) (rfaults : list bool) : option nat :=
  match recs with
  | [] => Some 0
  | a :: rs =>
      let f := match rfaults with [] => false | f :: _ => f end in
      let fs := match rfaults with [] => [] | _ :: fs => fs end in
      if f then match p with Abort => None | _ => count_reads p rs fs end
      else match count_reads p rs fs with Some c => Some ((if a then 1 else 0) + c) | None => None end
  end.

Definition active (recs : list bool) : nat := countb (fun b => b) recs.

(* one whole admission, run alone: count (index read, by-id reads), compare, create *)
Definition accept_once (p : fpolicy) (max : nat) (recs : list bool) (idxfault : bool) (rfaults : list bool) : ares * list bool :=
  let counted := if idxfault then match p with Open => Some 0 | _ => None end else count_reads p recs rfaults in
  match counted with
  | None => (AFailed, recs)
  | Some c => if max <=? c then (ARefused, recs) else (ACreated, true :: recs)
  end.

(* ------------------------------------------------------------------------------------------------
   6. the repaired quota admission (fixes/C17-quota-per-client-admission.diff): a per-client admission marker
      taken with SetNX before the count and deleted when the request ends.
      shared: the client's active count and the marker; l_fault: some read of this caller's count fails. *)
Inductive lpc :=
| LNew        (* validation and reads before the admission (activation: GetByCode) *)
| LStart      (* next: SetNX(accept:<scope>:<client>) *)
| LHeld       (* marker held; next: count the active entries (reads) and compare *)
| LCounted    (* below the limit; next: create (writes) *)
| LDoneHeld   (* created; next: Delete(marker) *)
| LRefHeld    (* at the limit; next: Delete(marker) *)
| LFailHeld   (* a read failed; next: Delete(marker) *)
| LCreated | LRefused | LFailed
| LBusy       (* SetNX lost: Conflict, nothing touched *)
| LProbe.     (* `recheck` variant only (NOT the code): SetNX lost; next: Exists(marker) — gone => let in WITHOUT the marker *)
Record lloc := { l_pc : lpc; l_fault : bool }.
Record lsh := { q_n : nat; q_lock : bool }.

(* AcquireAdmission is ONE storage call in the code: SetNX, won or lost.  recheck = true is the variant that looks at the
   marker again after a lost SetNX and lets the request in when the marker has gone meanwhile — without taking it (refuted:
   the next request's SetNX succeeds and two requests of the client are between count and create; the marker-less request's
   Delete also removes the legitimate holder's marker). *)
Definition lstep_gen (recheck : bool) (max : nat) (lo : lloc) (sh : lsh) : lloc * lsh :=
  let goto p := {| l_pc := p; l_fault := l_fault lo |} in
  match l_pc lo with
  | LNew => (goto LStart, sh)
  | LStart => if q_lock sh then (goto (if recheck then LProbe else LBusy), sh)
              else (goto LHeld, {| q_n := q_n sh; q_lock := true |})
  | LProbe => if recheck && negb (q_lock sh) then (goto LHeld, sh) else (goto LBusy, sh)
  | LHeld => if l_fault lo then (goto LFailHeld, sh)
             else if max <=? q_n sh then (goto LRefHeld, sh) else (goto LCounted, sh)
  | LCounted => (goto LDoneHeld, {| q_n := S (q_n sh); q_lock := q_lock sh |})
  | LDoneHeld => (goto LCreated, {| q_n := q_n sh; q_lock := false |})
  | LRefHeld => (goto LRefused, {| q_n := q_n sh; q_lock := false |})
  | LFailHeld => (goto LFailed, {| q_n := q_n sh; q_lock := false |})
  | LCreated | LRefused | LFailed | LBusy => (lo, sh)
  end.
Definition lstep := lstep_gen false.
Definition l_holds (lo : lloc) : bool :=
  match l_pc lo with LHeld | LDoneHeld | LRefHeld | LFailHeld => true | _ => false end.
Definition l_counted (lo : lloc) : bool := match l_pc lo with LCounted => true | _ => false end.
Definition l_created (lo : lloc) : bool := match l_pc lo with LDoneHeld | LCreated => true | _ => false end.
Definition l_new (fault : bool) : lloc := {| l_pc := LNew; l_fault := fault |}.
Definition lrun max (sh : lsh) (ts : list lloc) (sched : list nat) := run _ _ (lstep max) (sh, ts) sched.

(* ------------------------------------------------------------------------------------------------
   7. what the quota count counts: ConnectionCodeRepository.Create writes the by-id RECORD and then APPENDS the id to the
      client's index; ListByTargetClient (run by any admission's count, by read-only queries, on any node) drops index entries
      whose record is missing ("expired").  One step = one storage call.
      RecordFirst = the code;  IndexFirst = the two writes swapped (NOT the code; refuted: a list between the writes drops the
      entry of a code that is being created, which then exists uncounted). *)
Inductive iorder := RecordFirst | IndexFirst.
Inductive ipc :=
| ICreate (id : N) (stage : nat)     (* stage 0: nothing written, 1: first write done, >= 2: Create has returned *)
| IList (remaining : nat).           (* a caller that lists the client's codes `remaining` more times *)
Record ish := { i_stored : list N; i_index : list N }.
Definition imem (k : N) (l : list N) : bool := existsb (N.eqb k) l.
Definition istep (ord : iorder) (pc : ipc) (sh : ish) : ipc * ish :=
  let put_record id := {| i_stored := id :: i_stored sh; i_index := i_index sh |} in
  let put_index id := {| i_stored := i_stored sh; i_index := id :: i_index sh |} in
  match pc with
  | ICreate id 0 => (ICreate id 1, match ord with RecordFirst => put_record id | IndexFirst => put_index id end)
  | ICreate id 1 => (ICreate id 2, match ord with RecordFirst => put_index id | IndexFirst => put_record id end)
  | ICreate id _ => (pc, sh)
  | IList (S n) => (IList n, {| i_stored := i_stored sh; i_index := filter (fun k => imem k (i_stored sh)) (i_index sh) |})
  | IList 0 => (pc, sh)
  end.
Definition irun ord (sh : ish) (ts : list ipc) (sched : list nat) := run _ _ (istep ord) (sh, ts) sched.
(* the count the quota compares with its limit: index entries whose record exists *)
Definition i_counted (sh : ish) : nat := length (filter (fun k => imem k (i_stored sh)) (i_index sh)).

(* ------------------------------------------------------------------------------------------------
   8. "active" codes and the claim marker.  A code is ACTIVE while it is valid for activation (not used, not revoked, not
      expired) — also while an activation of it holds the CLAIM marker and has not yet written the "used" state (the claim
      can still be given back).  Creation runs under the `codes` marker (creates of one client are serialised: one step here,
      see section 6), activation under the `mappings` marker of another client: the two are NOT serialised.
      count_claimed = CountActiveByTargetClient counts claimed codes (the code); false = skips them (refuted). *)
Inductive kpc := KCreate | KCreated | KRefusedK | KActivate | KClaimed | KUsed | KIdle.
Record ksh := { k_active : nat; k_claimed : nat }.
Definition kstep (count_claimed : bool) (max : nat) (pc : kpc) (sh : ksh) : kpc * ksh :=
  match pc with
  | KCreate =>
      let seen := if count_claimed then k_active sh else k_active sh - k_claimed sh in
      if max <=? seen then (KRefusedK, sh) else (KCreated, {| k_active := S (k_active sh); k_claimed := k_claimed sh |})
  | KActivate =>                                   (* Claim (SetNX) of an unclaimed active code of the client *)
      if k_claimed sh <? k_active sh then (KClaimed, {| k_active := k_active sh; k_claimed := S (k_claimed sh) |}) else (KIdle, sh)
  | KClaimed =>                                    (* mapping created, code written back as used: no longer active *)
      (KUsed, {| k_active := pred (k_active sh); k_claimed := pred (k_claimed sh) |})
  | KCreated | KRefusedK | KUsed | KIdle => (pc, sh)
  end.
Definition k_is_claimed (pc : kpc) : bool := match pc with KClaimed => true | _ => false end.
Definition krun cc max (sh : ksh) (ts : list kpc) (sched : list nat) := run _ _ (kstep cc max) (sh, ts) sched.

(* Model/DomainRegistry.v — C19, the legacy in-memory host index: internal/httpservice/domain_registry.go
   DomainRegistry.Register / LookupByHost.  The registry is a map full-domain -> mapping guarded by a sync.RWMutex; one
   thread step = ONE critical section of that mutex (the granularity at which callers can interleave).
     one_section = true : Register = { existence check ; insert } in ONE write-locked section (the code);
     one_section = false: the check in a read-locked section of its own, the insert in a later write-locked section
                          without re-check (the variant refuted in Proofs/DomainRegistry.v).
   A claimant is (name, mapping id); a Register by the mapping that already holds the name is an update and succeeds.
   Definitions only. *)
From TX Require Export Base.Threads Model.Domain.
Local Open Scope N_scope.

Definition regmap := name -> option N.                    (* full domain -> id of the mapping registered for it *)

Inductive rpc := RIdle | RChecked | RDone (ok : bool).
Record claimant := { c_name : name; c_map : N; c_pc : rpc }.

Definition set_pc (c : claimant) (p : rpc) : claimant := {| c_name := c_name c; c_map := c_map c; c_pc := p |}.

Definition free_or_mine (m : regmap) (c : claimant) : bool :=
  match m (c_name c) with None => true | Some j => N.eqb j (c_map c) end.

Section R.
  Variable one_section : bool.

  Definition rstep (c : claimant) (m : regmap) : claimant * regmap :=
    match c_pc c with
    | RIdle =>
        if one_section then
          if free_or_mine m c then (set_pc c (RDone true), upd_name m (c_name c) (Some (c_map c)))
          else (set_pc c (RDone false), m)                                   (* ErrDomainAlreadyExist *)
        else
          if free_or_mine m c then (set_pc c RChecked, m) else (set_pc c (RDone false), m)
    | RChecked => (set_pc c (RDone true), upd_name m (c_name c) (Some (c_map c)))   (* insert, no re-check *)
    | RDone _ => (c, m)
    end.

  Definition rrun (m : regmap) (cs : list claimant) (sched : list nat) : regmap * list claimant :=
    run _ _ rstep (m, cs) sched.
End R.

(* LookupByHost: the same suffix stripping as the proxy's extractDomain, then the map *)
Definition reg_lookup (m : regmap) (host : name) : option N := m (extractDomain host).

Definition claim (n : name) (i : N) : claimant := {| c_name := n; c_map := i; c_pc := RIdle |}.

(* Model/CrossEndpoint.v — ONE FrameStream as a whole (stream.go): the read side (Read) and the write side (Write /
   CloseWrite / Close) of the same object, driven by an arbitrary script that mixes them.  The read side consumes the bytes
   the peer has sent so far (e_in); the write side emits frames.  In the code the only coupling between the two sides is
   that Read looks at writeEOF (to decide whether a decode error marks the connection broken); Close / CloseWrite / Write
   look at writeEOF only.
   `skip = true` is the variant "Close sends nothing once readEOF is set" (readEOF is set by the peer's HALF-close too);
   kept only to state what goes wrong with it.  Definitions only. *)
From TX Require Export Model.CrossFrame.
Open Scope N_scope.

Inductive eop := EWrite (p : list byte) | ECloseWrite | EClose | ERead (cap : nat).
Record ep := { e_weof : bool; e_rst : rstate; e_in : rd }.

Definition with_weof (st : rstate) (w : bool) : rstate :=
  {| r_buf := r_buf st; r_off := r_off st; r_eof := r_eof st; r_weof := w; r_broken := r_broken st |}.
Definition ep_init (incoming : rd) : ep := {| e_weof := false; e_rst := rinit false; e_in := incoming |}.
(* more bytes from the peer arrive on the connection *)
Definition ep_feed (s : ep) (b : list byte) : ep :=
  {| e_weof := e_weof s; e_rst := e_rst s;
     e_in := {| rest := rest (e_in s) ++ b; cuts := cuts (e_in s); endk := endk (e_in s); carry := carry (e_in s) |} |}.

Section Endpoint.
  Variable MaxFrame : N.
  Variable skip : bool.

  Definition ep_write (tid : list byte) (s : ep) (op : wop) : ep * list frame * wres :=
    let '(w', fs, res) := fs_write MaxFrame tid (e_weof s) op in
    ({| e_weof := w'; e_rst := e_rst s; e_in := e_in s |}, fs, res).

  (* one call on the FrameStream: new state, frames put on the wire, result of a Read *)
  Definition ep_step (tid : list byte) (s : ep) (op : eop) : ep * list frame * option rres :=
    match op with
    | ERead cap =>
      let '(res, st', r') := fs_read MaxFrame tid cap (with_weof (e_rst s) (e_weof s)) (e_in s) in
      ({| e_weof := e_weof s; e_rst := st'; e_in := r' |}, [], Some res)
    | EWrite p => let '(s', fs, _) := ep_write tid s (WWrite p) in (s', fs, None)
    | ECloseWrite => let '(s', fs, _) := ep_write tid s WCloseWrite in (s', fs, None)
    | EClose =>
      if skip && r_eof (e_rst s) && negb (e_weof s)
      then ({| e_weof := true; e_rst := e_rst s; e_in := e_in s |}, [], None)
      else let '(s', fs, _) := ep_write tid s WClose in (s', fs, None)
    end.

  Fixpoint ep_frames (tid : list byte) (s : ep) (ops : list eop) : list frame :=
    match ops with
    | [] => []
    | op :: t => let '(s', fs, _) := ep_step tid s op in fs ++ ep_frames tid s' t
    end.
End Endpoint.

(* the write-side calls of a script, in order *)
Fixpoint wops (ops : list eop) : list wop :=
  match ops with
  | [] => []
  | EWrite p :: t => WWrite p :: wops t
  | ECloseWrite :: t => WCloseWrite :: wops t
  | EClose :: t => WClose :: wops t
  | ERead _ :: t => wops t
  end.
Definition is_end_frame (tid : list byte) (f : frame) : bool :=
  bytes_eqb (f_tid f) tid && ((f_ty f =? T_EOF) || (f_ty f =? T_Close)).
Close Scope N_scope.

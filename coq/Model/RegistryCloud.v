(* Model/RegistryCloud.v — C07: the cloud-control notifications the session manager makes, with their RESULTS made explicit
   (definitions only).  Transcribed from /repo/internal/protocol/session:
     control_connection_mgr.go RemoveControlConnection (lines 75-103): GetByConnID; clientRegistry.Remove; then, for an
        authenticated connection with ClientID > 0 and a configured cloud control, DisconnectClientIfMatch whose three
        outcomes (error / disconnected / skipped) are only logged;
     control_connection_mgr.go cleanupStaleConnections closeFn (lines 157-176): DisconnectClientIfMatch (logged), then CloseConnection;
     connection_lifecycle.go CloseConnection; command_integration.go handleHeartbeat: EnsureClientOnline (error logged).
   `step_calls` lists the calls an operation makes (method, client id, connection) — the harness's cloud-control double records the
   real ones and Corr/C07.v compares them — and the *_cc functions thread an arbitrary result through the method. *)
From Coq Require Import List NArith Bool.
From TX Require Import Model.Registry.
Import ListNotations.
Open Scope N_scope.

Inductive cres := CErr | COk (disconnected : bool).

(* cc = None: no cloud control configured (or the call is not made) *)
Definition remove_control_connection_cc (cc : option cres) (c : N) (s : st) : st :=
  let '(clientID, authenticated) := match get c (reg s) with Some r => (c_cid r, c_auth r) | None => (0, false) end in
  let s1 := registry_remove c s in                                  (* 从注册表移除 *)
  if authenticated && (0 <? clientID) then
    match cc with
    | Some CErr => s1                                               (* Warnf *)
    | Some (COk true) => s1                                         (* Infof disconnected *)
    | Some (COk false) => s1                                        (* Infof skipped *)
    | None => s1
    end
  else s1.

Definition close_connection_cc (cc : option cres) (c : N) (s : st) : st :=
  let s1 := if mem c (sess s) then with_closed (with_sess s (rem c (sess s))) (add c (closed s)) else s in
  tunnel_remove c (remove_control_connection_cc cc c s1).

(* the variant seeded as C07-7: notify first, keep the registry entry when the notification fails *)
Definition remove_control_connection_notify_first (cc : option cres) (c : N) (s : st) : st :=
  let '(clientID, authenticated) := match get c (reg s) with Some r => (c_cid r, c_auth r) | None => (0, false) end in
  if authenticated && (0 <? clientID) then
    match cc with
    | Some CErr => s
    | _ => registry_remove c s
    end
  else registry_remove c s.
Definition close_connection_notify_first (cc : option cres) (c : N) (s : st) : st :=
  let s1 := if mem c (sess s) then with_closed (with_sess s (rem c (sess s))) (add c (closed s)) else s in
  tunnel_remove c (remove_control_connection_notify_first cc c s1).

(* one stale connection of the sweep: closeFn = notify (result ignored) then CloseConnection; then stream.Close *)
Definition sweep_one_cc (cc : option cres) (s : st) (e : N * ctl) : st :=
  let '(c, r) := e in
  let s1 := with_reg (with_idx s (unindex c r (idx s))) (del c (reg s)) in
  let s2 := match cc with Some CErr => close_connection_cc None c s1 | _ => close_connection_cc None c s1 end in
  with_closed s2 (add c (closed s2)).

(* handleHeartbeat: UpdateActivity; EnsureClientOnline (error only logged) *)
Definition heartbeat_cc (failed : bool) (c : N) (s : st) : st :=
  match get c (reg s) with
  | Some r =>
      let s1 := with_reg s (set c {| c_cid := c_cid r; c_auth := c_auth r; c_seq := c_seq r; c_last := now s |} (reg s)) in
      if 0 <? c_cid r then (if failed then s1 else s1) else s1
  | None => s
  end.

(* the cloud-control calls operation o makes from state s: (1 = DisconnectClientIfMatch | 2 = EnsureClientOnline, client id, connection) *)
Definition disc_call (c : N) (s : st) : list (N * N * N) :=
  match get c (reg s) with
  | Some r => if c_auth r && (0 <? c_cid r) then [(1, c_cid r, c)] else []
  | None => []
  end.
Definition step_calls (k : cfg) (s : st) (o : op) : list (N * N * N) :=
  match o with
  | CloseConn c => disc_call c s
  | RemoveCtl c => disc_call c s
  | Sweep => flat_map (fun e => if c_auth (snd e) && (0 <? c_cid (snd e)) then [(1, c_cid (snd e), fst e)] else []) (stale_entries k s)
  | Heartbeat c => match get c (reg s) with Some r => if 0 <? c_cid r then [(2, c_cid r, c)] else [] | None => [] end
  | _ => []
  end.
Close Scope N_scope.

(* Model/Registry.v — executable model of the server's control-connection bookkeeping (C07).
   Transcribed from /repo/internal/protocol/session:
     client_registry.go      ClientRegistry {connMap, clientIDMap}: Register / UpdateAuth / ReconcileIndex / Remove /
                             Unregister / KickOldConnection / CleanupStale / removeConnectionLocked / findOldestConnectionLocked
     control_connection_mgr.go  RemoveControlConnection / KickOldControlConnection / cleanupStaleConnections
     connection_lifecycle.go CreateConnection / AcceptConnection / CloseConnection / GetConnectionStats
     packet_handler_handshake.go handleHandshake (get-or-create, auth handler, reconcile, response, old-connection cleanup, UpdateAuth)
     command_integration.go  handleHeartbeat
     tunnel_registry.go      TunnelRegistry {connMap, tunnelMap}: Register / Remove
     connection/types.go     ControlConnection {ClientID, Authenticated, CreatedAt, LastActiveAt}, IsStale
     stream/manager.go       StreamManager.CreateStream (an id can be used once; streams are never removed)
   Definitions only, no proofs.  Ids (connection, client, tunnel), logical time and counters are N.
   A ControlConnection object is identified with its ConnID (the registry never holds two objects with one ConnID
   as long as the invariant of Proofs/Registry.v holds; the harness checks pointer identity on the real code).
   `variant`: Current = the tree with fixes/C07-reauth-stale-index.diff (index reconciled after every
   re-authentication), Pinned = the tree before it. *)
From Coq Require Import List NArith Bool.
Import ListNotations.
Open Scope N_scope.

(* ---- association maps with N keys (Go maps; iteration order is never observable) ---- *)
Section AMap.
  Context {V : Type}.
  Definition amap := list (N * V).
  Fixpoint get (k : N) (m : amap) : option V :=
    match m with
    | [] => None
    | (k', v) :: t => if k =? k' then Some v else get k t
    end.
  Fixpoint del (k : N) (m : amap) : amap :=
    match m with
    | [] => []
    | (k', v) :: t => if k =? k' then del k t else (k', v) :: del k t
    end.
  Definition set (k : N) (v : V) (m : amap) : amap := (k, v) :: del k m.
  Definition keys (m : amap) : list N := map fst m.
  Definition size (m : amap) : N := N.of_nat (length m).
End AMap.
Arguments amap : clear implicits.

(* ---- finite sets of ids ---- *)
Fixpoint mem (x : N) (s : list N) : bool :=
  match s with [] => false | y :: t => (x =? y) || mem x t end.
Definition add (x : N) (s : list N) : list N := if mem x s then s else x :: s.
Fixpoint rem (x : N) (s : list N) : list N :=
  match s with [] => [] | y :: t => if x =? y then rem x t else y :: rem x t end.

(* Pinned: before 5522a98 (no index reconciliation).  Head: /repo as it is (5522a98, 58d6be9).
   Current: Head + fixes/C07-register-replace-shared-stream.diff (Register of an existing ConnID whose replacement wraps
   the same stream drops the old record without closing that stream, and a replacement never triggers limit eviction).
   Head2: Head + c61cb06 (the tree as it is now).  Current additionally has fixes/C07-updateauth-evicts-atomically.diff:
   UpdateAuth removes, in its own critical section, the connection the client id resolves to before indexing the new one. *)
Inductive variant := Pinned | Current | Head | Head2.
Definition reconciles (v : variant) : bool := match v with Pinned => false | _ => true end.
Definition keeps_shared (v : variant) : bool := match v with Current | Head2 => true | _ => false end.
Definition evicts (v : variant) : bool := match v with Current => true | _ => false end.

(* connection/types.go ControlConnection (the fields the registry reads) *)
Record ctl := { c_cid : N; c_auth : bool; c_seq : N (* CreatedAt order *); c_last : N (* LastActiveAt *) }.

(* SessionConfig: MaxConnections, MaxControlConnections, HeartbeatTimeout (logical hours) *)
Record cfg := { maxConn : N; maxCtl : N; hbTimeout : N }.

Record st := {
  streams : list N;      (* StreamManager.streams: ids ever accepted *)
  sess : list N;         (* SessionManager.connMap *)
  reg : amap ctl;        (* ClientRegistry.connMap *)
  idx : amap N;          (* ClientRegistry.clientIDMap: client id -> ConnID of the indexed connection *)
  tun : amap N;          (* TunnelRegistry.connMap: conn -> tunnel id (0 = "") *)
  tmap : amap N;         (* TunnelRegistry.tunnelMap *)
  closed : list N;       (* transports on which Close has been called *)
  wfail : list N;        (* transports whose writes fail although they are not closed *)
  now : N;
  nseq : N }.

Definition init : st :=
  {| streams := []; sess := []; reg := []; idx := []; tun := []; tmap := []; closed := []; wfail := []; now := 0; nseq := 0 |}.

Definition with_reg (s : st) r := {| streams := streams s; sess := sess s; reg := r; idx := idx s; tun := tun s; tmap := tmap s;
  closed := closed s; wfail := wfail s; now := now s; nseq := nseq s |}.
Definition with_idx (s : st) i := {| streams := streams s; sess := sess s; reg := reg s; idx := i; tun := tun s; tmap := tmap s;
  closed := closed s; wfail := wfail s; now := now s; nseq := nseq s |}.
Definition with_closed (s : st) c := {| streams := streams s; sess := sess s; reg := reg s; idx := idx s; tun := tun s; tmap := tmap s;
  closed := c; wfail := wfail s; now := now s; nseq := nseq s |}.
Definition with_sess (s : st) x := {| streams := streams s; sess := x; reg := reg s; idx := idx s; tun := tun s; tmap := tmap s;
  closed := closed s; wfail := wfail s; now := now s; nseq := nseq s |}.

(* "只有在映射确实指向这个连接时才移除": delete clientIDMap[conn.ClientID] only if it points at this ConnID *)
Definition unindex (c : N) (r : ctl) (i : amap N) : amap N :=
  if c_auth r && (0 <? c_cid r) then
    match get (c_cid r) i with
    | Some c' => if c' =? c then del (c_cid r) i else i
    | None => i
    end
  else i.

(* removeConnectionLocked: close the stream, un-index, delete from connMap *)
Definition remove_locked (c : N) (r : ctl) (s : st) : st :=
  with_reg (with_idx (with_closed s (add c (closed s))) (unindex c r (idx s))) (del c (reg s)).

(* Remove(connID) *)
Definition registry_remove (c : N) (s : st) : st :=
  match get c (reg s) with Some r => remove_locked c r s | None => s end.

(* Unregister(connID): as Remove but the stream stays open *)
Definition registry_unregister (c : N) (s : st) : st :=
  match get c (reg s) with
  | Some r => with_reg (with_idx s (unindex c r (idx s))) (del c (reg s))
  | None => s
  end.

(* findOldestConnectionLocked: the entry with the smallest CreatedAt *)
Fixpoint find_oldest (m : amap ctl) : option (N * ctl) :=
  match m with
  | [] => None
  | (c, r) :: t =>
      match find_oldest t with
      | Some (c', r') => if c_seq r' <? c_seq r then Some (c', r') else Some (c, r)
      | None => Some (c, r)
      end
  end.

(* Register(conn) *)
Definition registry_register (k : cfg) (c : N) (r : ctl) (s : st) : st :=
  let limit := (0 <? maxCtl k) && (maxCtl k <=? size (reg s)) in
  match (if limit then match find_oldest (reg s) with
                       | Some (o, ro) => Some (remove_locked o ro s)
                       | None => None            (* "connection limit reached" error; unreachable: the map is non-empty *)
                       end
         else Some s) with
  | None => s
  | Some s1 =>
      let s2 := match get c (reg s1) with Some r' => remove_locked c r' s1 | None => s1 end in
      let s3 := with_reg s2 (set c r (reg s2)) in
      if c_auth r && (0 <? c_cid r) then with_idx s3 (set (c_cid r) c (idx s3)) else s3
  end.

(* Register(conn) when conn.ConnID may already have a record and conn wraps the SAME stream as that record (what the server's
   call sites produce: NewControlConnection(sessionConn.ID, sessionConn.Stream, ...)).
   Head: the code above — limit eviction first, then removeConnectionLocked(existing), which closes the shared stream.
   Current: a replacement does not evict, and the existing record is dropped like Unregister (stream stays open). *)
Definition no_limit (k : cfg) : cfg := {| maxConn := maxConn k; maxCtl := 0; hbTimeout := hbTimeout k |}.
Definition registry_rereg (v : variant) (k : cfg) (c : N) (r : ctl) (s : st) : st :=
  if keeps_shared v then
    match get c (reg s) with
    | Some _ => registry_register (no_limit k) c r (registry_unregister c s)
    | None => registry_register k c r s
    end
  else registry_register k c r s.

(* dropStaleIndexLocked(conn): delete every index entry that points at conn under an id that is not its current identity *)
Definition drop_stale (c : N) (r : ctl) (i : amap N) : amap N :=
  filter (fun e => negb (snd e =? c) || (c_auth r && (fst e =? c_cid r))) i.

(* ReconcileIndex(connID) — Current variant only *)
Definition reconcile (v : variant) (c : N) (s : st) : st :=
  if reconciles v then
    match get c (reg s) with Some r => with_idx s (drop_stale c r (idx s)) | None => s end
  else s.

(* UpdateAuth(connID, clientID, userID): fields, dropStaleIndexLocked, index *)
Definition update_auth_core (v : variant) (c x : N) (s : st) : st :=
  match get c (reg s) with
  | None => s
  | Some r =>
      let r' := {| c_cid := x; c_auth := true; c_seq := c_seq r; c_last := c_last r |} in
      let i := if reconciles v then drop_stale c r' (idx s) else idx s in
      with_idx (with_reg s (set c r' (reg s))) (set x c i)
  end.
(* the connection client id x currently resolves to, if it is not c, is removed (removeConnectionLocked) *)
Definition evict_holder (x c : N) (s : st) : st :=
  match get x (idx s) with
  | Some o => if o =? c then s else registry_remove o s
  | None => s
  end.
(* Current: eviction of the previous holder and indexing of the new connection are ONE critical section *)
Definition update_auth (v : variant) (c x : N) (s : st) : st :=
  match get c (reg s) with
  | None => s
  | Some _ => update_auth_core v c x (if evicts v then evict_holder x c s else s)
  end.

Definition bump (s : st) : st := {| streams := streams s; sess := sess s; reg := reg s; idx := idx s; tun := tun s; tmap := tmap s;
  closed := closed s; wfail := wfail s; now := now s; nseq := nseq s + 1 |}.
(* a record that carries a ClientID without being authenticated (no production caller builds one; Register must not index it) *)
Definition claim_ctl (s : st) (x : N) : ctl := {| c_cid := x; c_auth := false; c_seq := nseq s; c_last := now s |}.
Definition new_ctl (s : st) (x : N) : ctl := {| c_cid := x; c_auth := 0 <? x; c_seq := nseq s; c_last := now s |}.

(* TunnelRegistry.Remove *)
Definition tunnel_remove (c : N) (s : st) : st :=
  match get c (tun s) with
  | Some t => {| streams := streams s; sess := sess s; reg := reg s; idx := idx s; tun := del c (tun s);
                 tmap := if 0 <? t then del t (tmap s) else tmap s;
                 closed := closed s; wfail := wfail s; now := now s; nseq := nseq s |}
  | None => s
  end.

(* CloseConnection(connID) *)
Definition close_conn (c : N) (s : st) : st :=
  let s1 := if mem c (sess s) then with_closed (with_sess s (rem c (sess s))) (add c (closed s)) else s in
  tunnel_remove c (registry_remove c s1).

Inductive op :=
| Accept (c : N)
| Handshake (c kind x : N) (isCtl : bool)   (* kind: 0 authenticate as x, 1 challenge, other reject *)
| Heartbeat (c : N)
| CloseConn (c : N)
| RemoveCtl (c : N)
| Unregister (c : N)
| Kick (x newc : N)
| Sweep
| Tick (d : N)
| RegRaw (c pre : N)
| AuthRaw (c x : N)
| ToTunnel (c t : N)
| BreakWrites (c : N)
| ReReg (c pre : N)      (* RegisterControlConnection(NewControlConnection(session conn c)) whether or not c has a record *)
| RegClaim (c x : N).     (* the same with a record whose ClientID is pre-filled with x but which is NOT authenticated *)

(* what an operation returns: error flag and a count (sweep) *)
Definition res := (bool * N)%type.

(* handleHandshake *)
Definition handshake (v : variant) (k : cfg) (c kind x : N) (isCtl : bool) (s : st) : st * res :=
  (* get or create the control connection *)
  let found :=
    match get c (reg s) with
    | Some _ => Some s
    | None => if mem c (sess s) then Some (bump (registry_register k c (new_ctl s 0) s)) else None
    end in
  match found with
  | None => (s, (true, 0))                                     (* "connection not found" *)
  | Some s1 =>
      match get c (reg s1) with
      | None => (s1, (true, 0))                                (* Register failed; unreachable *)
      | Some r =>
          let ok_kind := (kind =? 0) && (0 <? x) in
          (* the auth handler mutates the registered object directly: SetClientID / SetAuthenticated *)
          let r' := if ok_kind then {| c_cid := x; c_auth := true; c_seq := c_seq r; c_last := c_last r |} else r in
          let s2 := reconcile v c (with_reg s1 (set c r' (reg s1))) in
          let rejected := negb ok_kind && negb (kind =? 1) in
          if rejected then (s2, (true, 0))
          else if mem c (closed s2) || mem c (wfail s2) then (s2, (true, 0))   (* sendHandshakeResponse fails *)
          (* 58d6be9: only a handshake that ends with Success updates the registry (a challenge on an already
             authenticated connection does not) *)
          else if ok_kind && isCtl && c_auth r' && (0 <? c_cid r') then
            let X := c_cid r' in
            let s3 := match get X (idx s2) with
                      | Some o => if o =? c then s2 else registry_remove o s2
                      | None => s2
                      end in
            (update_auth v c X s3, (false, 0))
          else (s2, (false, 0))
      end
  end.

(* cleanupStaleConnections -> CleanupStale(timeout, closeFn = CloseConnection) *)
Definition is_stale (k : cfg) (s : st) (r : ctl) : bool := hbTimeout k <? now s - c_last r.
Definition sweep_one (s : st) (e : N * ctl) : st :=
  let '(c, r) := e in
  let s1 := with_reg (with_idx s (unindex c r (idx s))) (del c (reg s)) in
  let s2 := close_conn c s1 in
  with_closed s2 (add c (closed s2)).
Definition stale_entries (k : cfg) (s : st) : list (N * ctl) := filter (fun e => is_stale k s (snd e)) (reg s).
Definition sweep (k : cfg) (s : st) : st * res :=
  let l := stale_entries k s in
  (fold_left sweep_one l s, (false, N.of_nat (length l))).

(* KickOldConnection(clientID, newConnID) *)
Definition kick (x newc : N) (s : st) : st :=
  match get x (idx s) with
  | Some o =>
      if o =? newc then s
      else match get o (reg s) with
           | Some r => with_closed (with_reg (with_idx s (unindex o r (idx s))) (del o (reg s))) (add o (closed s))
           | None => with_closed s (add o (closed s))   (* dangling index entry: only reachable in the Pinned variant *)
           end
  | None => s
  end.

Definition step (v : variant) (k : cfg) (s : st) (o : op) : st * res :=
  match o with
  | Accept c =>
      if (0 <? maxConn k) && (maxConn k <=? N.of_nat (length (sess s))) then (s, (true, 0))
      else if mem c (streams s) then (s, (true, 0))
      else ({| streams := c :: streams s; sess := c :: sess s; reg := reg s; idx := idx s; tun := tun s; tmap := tmap s;
               closed := closed s; wfail := wfail s; now := now s; nseq := nseq s |}, (false, 0))
  | Handshake c kind x isCtl => handshake v k c kind x isCtl s
  | Heartbeat c =>
      match get c (reg s) with
      | Some r => (with_reg s (set c {| c_cid := c_cid r; c_auth := c_auth r; c_seq := c_seq r; c_last := now s |} (reg s)), (false, 0))
      | None => (s, (false, 0))
      end
  | CloseConn c => (close_conn c s, (false, 0))
  | RemoveCtl c => (registry_remove c s, (false, 0))
  | Unregister c => (registry_unregister c s, (false, 0))
  | Kick x newc => (kick x newc s, (false, 0))
  | Sweep => sweep k s
  | Tick d => ({| streams := streams s; sess := sess s; reg := reg s; idx := idx s; tun := tun s; tmap := tmap s;
                  closed := closed s; wfail := wfail s; now := now s + d; nseq := nseq s |}, (false, 0))
  | RegRaw c pre =>
      (* the server registers a control connection only for a live session connection that has none yet
         (packet_handler_handshake.go:41-63, packet_handler_tunnel_ops.go:56-77) *)
      if mem c (sess s) && negb (mem c (closed s)) && (match get c (reg s) with None => true | Some _ => false end)
      then (bump (registry_register k c (new_ctl s pre) s), (false, 0))
      else (s, (false, 0))
  | AuthRaw c x =>
      if (0 <? x) && negb (mem c (closed s)) then
        (update_auth v c x s, (match get c (reg s) with None => true | Some _ => false end, 0))
      else (s, (false, 0))
  | ToTunnel c t =>
      if mem c (sess s) then
        let s1 := registry_unregister c s in
        ({| streams := streams s1; sess := sess s1; reg := reg s1; idx := idx s1; tun := set c t (tun s1);
            tmap := if 0 <? t then set t c (tmap s1) else tmap s1;
            closed := closed s1; wfail := wfail s1; now := now s1; nseq := nseq s1 |}, (false, 0))
      else (s, (false, 0))
  | ReReg c pre =>
      if mem c (sess s) && negb (mem c (closed s))
      then (bump (registry_rereg v k c (new_ctl s pre) s), (false, 0))
      else (s, (false, 0))
  | RegClaim c x =>
      if mem c (sess s) && negb (mem c (closed s))
      then (bump (registry_rereg v k c (claim_ctl s x) s), (false, 0))
      else (s, (false, 0))
  | BreakWrites c =>
      if mem c (streams s) then
        ({| streams := streams s; sess := sess s; reg := reg s; idx := idx s; tun := tun s; tmap := tmap s;
            closed := closed s; wfail := add c (wfail s); now := now s; nseq := nseq s |}, (false, 0))
      else (s, (false, 0))
  end.

Definition run (v : variant) (k : cfg) (s : st) (ops : list op) : st :=
  fold_left (fun s o => fst (step v k s o)) ops s.

(* states and results after every operation *)
Fixpoint trace (v : variant) (k : cfg) (s : st) (ops : list op) : list (st * res) :=
  match ops with
  | [] => []
  | o :: t => let sr := step v k s o in sr :: trace v k (fst sr) t
  end.

(* the lookups the server offers *)
Definition by_client (s : st) (x : N) : option N := get x (idx s).                 (* GetControlConnectionByClientID *)
Definition by_conn (s : st) (c : N) : option ctl := get c (reg s).                 (* GetControlConnection *)
Definition counts (s : st) : N * N * N := (N.of_nat (length (sess s)), size (reg s), size (tun s)).  (* GetConnectionStats *)
Close Scope N_scope.

(* Model/TunnelOpen.v — executable model of the server's TunnelOpen dispatcher (property C04).
   Definitions only.  Transcribed from
     internal/protocol/session/packet_handler_tunnel.go        handleTunnelOpen, findOrCreateControlConnection, isSourceClient
     internal/protocol/session/packet_handler_tunnel_bridge.go handleExistingBridge, handleSourceBridge, handleTargetBridge
     internal/protocol/session/cross_node_session.go           handleCrossNodeTargetConnection, processCrossNodeForward,
                                                               handleLocalBridgeWait, forwardToSourceNode
     internal/app/server/tunnel_handler.go                     ServerTunnelHandler.HandleTunnelOpen, resumeTunnel
     internal/cloud/services/conncode/activation.go            ValidateMapping
     internal/cloud/models/port_mapping_helpers.go             IsValid, CanBeAccessedBy
     internal/protocol/session/tunnel/bridge_connection.go     SetSourceConnection / SetTargetConnection (attachment points)

   Identifiers are numbers: client ids, mapping ids, secrets, tunnel ids, connection ids, node ids are N; the empty
   string / the zero client id is 0.  Transport assumption (stated in the evidence): the connection is a stream
   connection whose reader carries no identity of its own (TCP and the like): extractClientID(stream) = 0 and the reader
   cannot create a temporary control connection.

   Two variants of the code are modelled:
     pinned  = the tree as found: existing-bridge and routing branches BEFORE any credential check; secret path never
               looks at IsValid
     current = the repaired tree (fixes/C04-validate-before-attach.diff + fixes/C04-secret-path-isvalid.diff) *)
From Coq Require Import List NArith Bool.
Import ListNotations.
Open Scope N_scope.

Definition client := N.
Definition key := N.
Definition mid := N.
Definition tid := N.
Definition connref := N.
Definition node := N.

(* models.PortMapping, the fields the dispatcher looks at *)
Record mapping := {
  m_listen : client;
  m_target : client;
  m_secret : key;
  m_revoked : bool;
  m_expired : bool;     (* ExpiresAt != nil && now.After(ExpiresAt) *)
  m_active : bool }.    (* Status == MappingStatusActive *)

(* PortMapping.IsValid *)
Definition is_valid (m : mapping) : bool :=
  if m_revoked m then false else if m_expired m then false else if negb (m_active m) then false else true.

(* PortMapping.CanBeAccessedBy *)
Definition can_be_accessed_by (m : mapping) (c : client) : bool :=
  if negb (is_valid m) then false else N.eqb (m_listen m) c.

Definition db := mid -> option mapping.
(* GetPortMapping: the empty id names nothing *)
Definition get_mapping (d : db) (m : mid) : option mapping := if N.eqb m 0 then None else d m.

(* what the session manager knows about the requesting connection when the packet arrives *)
Record conn_id := {
  c_registered : bool;   (* getControlConnectionByConnID(connID) != nil: some handshake packet was processed on it *)
  c_client : client }.   (* ControlConnection.ClientID; 0 until authentication completed *)

Record request := {
  r_mid : mid;           (* MappingID ("" = 0) *)
  r_tid : tid;           (* TunnelID *)
  r_secret : key;        (* SecretKey ("" = 0) *)
  r_resume : bool }.     (* ResumeToken != "" *)

Record variant := {
  v_validate_first : bool;   (* credentials (and tunnel/mapping agreement) checked before ANY branch of the dispatcher *)
  v_secret_isvalid : bool;   (* the secret-key path refuses revoked / expired / inactive mappings *)
  v_wait_agree : bool }.     (* handleLocalBridgeWait compares the mapping of the bridge that APPEARS during its wait with the request's *)
Definition pinned : variant := {| v_validate_first := false; v_secret_isvalid := false; v_wait_agree := false |}.
Definition current : variant := {| v_validate_first := true; v_secret_isvalid := true; v_wait_agree := true |}.

(* ServerTunnelHandler.HandleTunnelOpen: true = nil error.
   resume_supported: does the installed cloud control implement ValidateTunnelResumeToken (regenerated: Gen/C04.v
   ResumeSupported = false; with false, resumeTunnel always fails with "tunnel resumption not supported"). The model of the
   supported case is the conservative "refuse": the side condition ResumeSupported = false is re-proved on every run. *)
Definition validate (v : variant) (d : db) (c : client) (r : request) : bool :=
  if r_resume r then false
  else if N.eqb c 0 then false
  else if negb (N.eqb (r_mid r) 0) && N.eqb (r_secret r) 0 then
    (* ValidateMapping *)
    match get_mapping d (r_mid r) with
    | None => false
    | Some m => can_be_accessed_by m c
    end
  else if negb (N.eqb (r_secret r) 0) then
    match get_mapping d (r_mid r) with
    | None => false
    | Some m =>
        if negb (N.eqb (m_secret m) (r_secret r)) then false
        else if v_secret_isvalid v && negb (is_valid m) then false
        else if negb (N.eqb (m_listen m) c) && negb (N.eqb (m_target m) c) then false
        else true
    end
  else false.

(* tunnelBridges[tunnelID] *)
Record bridge := {
  b_mid : mid;
  b_src : option connref;
  b_tgt : option connref }.

(* routing table entry of a tunnel waiting on some node *)
Record route := { ro_node : node; ro_mid : mid }.

Record config := {
  cfg_self : node;          (* s.nodeID *)
  cfg_crossnode : bool;     (* tunnelConnMgr != nil || crossNodePool != nil *)
  cfg_routing : bool }.     (* tunnelRouting != nil *)

Inductive outcome :=
| Refuse (failure_ack : bool)   (* error returned; failure_ack = a TunnelOpenAck{Success:false} was written first *)
| AttachSource                  (* existing bridge: SetSourceConnection(requester); success ack *)
| AttachTarget                  (* existing bridge: SetTargetConnection(requester); success ack *)
| NewBridge                     (* startSourceBridge: a new bridge with the requester as source; success ack *)
| Forward                       (* forwardToSourceNode: success ack, dedicated connection to the tunnel's node, io.Copy both ways *)
| WaitLocal                     (* handleLocalBridgeWait: routing says the bridge is on THIS node; SetTargetConnection once it appears *)
| AckNoAttach                   (* success ack, but no bridge anywhere to attach to (handleTargetBridge fails afterwards) *)
| Parked.                       (* success ack, then handleTargetBridge -> handleCrossNodeTargetConnection -> lookupTunnelRouting
                                   POLLS the routing table (up to 10 s) for the tunnel id: the request waits for a tunnel
                                   that does not exist yet; resolved later by [EResolve] *)

(* handleExistingBridge: extractClientID(stream) = 0 on a stream transport, so "source" only if the mapping's listen id is 0 *)
Definition existing (d : db) (r : request) : outcome :=
  let is_source :=
    if N.eqb (r_mid r) 0 then false
    else match get_mapping d (r_mid r) with
         | Some m => N.eqb 0 (m_listen m)
         | None => false
         end in
  if is_source then AttachSource else AttachTarget.

(* handleCrossNodeTargetConnection -> lookupTunnelRouting (found at once) -> processCrossNodeForward *)
Definition cross (v : variant) (cfg : config) (ro : route) (r : request) : outcome :=
  if negb (cfg_crossnode cfg) then Refuse false
  else if v_validate_first v && negb (N.eqb (ro_mid ro) (r_mid r)) then Refuse false
  else if N.eqb (ro_node ro) (cfg_self cfg) then WaitLocal
  else Forward.

(* after validation, no bridge here and no routing entry: success ack, then source / target handling *)
Definition fresh (cfg : config) (d : db) (c : conn_id) (r : request) : outcome :=
  let is_source :=
    if N.eqb (r_mid r) 0 then false
    else match get_mapping d (r_mid r) with
         | Some m => N.eqb (c_client c) (m_listen m)   (* clientConn.GetClientID() when the stream has none *)
         | None => false
         end in
  if is_source then
    match get_mapping d (r_mid r) with       (* startSourceBridge looks the mapping up again *)
    | Some _ => NewBridge
    | None => AckNoAttach
    end
  else if cfg_routing cfg && cfg_crossnode cfg then Parked   (* handleTargetBridge: no bridge here; poll the routing table *)
  else AckNoAttach.                           (* routing table or cross-node transport not configured: error after the ack *)

(* handleTunnelOpen *)
Definition open (v : variant) (cfg : config) (d : db) (tun : tid -> option bridge) (rt : tid -> option route)
                (c : conn_id) (r : request) : outcome :=
  if v_validate_first v then
    if negb (c_registered c) then Refuse true            (* findOrCreateControlConnection: failure ack, nil *)
    else if negb (validate v d (c_client c) r) then Refuse true
    else match tun (r_tid r) with
         | Some b => if N.eqb (b_mid b) (r_mid r) then existing d r else Refuse true
         | None =>
             match rt (r_tid r) with
             | Some ro => if N.eqb (ro_mid ro) (r_mid r) then cross v cfg ro r else Refuse true
             | None => fresh cfg d c r
             end
         end
  else
    match tun (r_tid r) with
    | Some b => existing d r
    | None =>
        match rt (r_tid r) with
        | Some ro => cross v cfg ro r
        | None =>
            if negb (c_registered c) then Refuse true
            else if negb (validate v d (c_client c) r) then Refuse true
            else fresh cfg d c r
        end
    end.

Definition attaches (o : outcome) : bool :=
  match o with
  | AttachSource | AttachTarget | NewBridge | Forward | WaitLocal | Parked => true
  | Refuse _ | AckNoAttach => false
  end.

Definition refused (o : outcome) : bool := match o with Refuse _ => true | _ => false end.

(* ------------------------------------------------------------------------------------------------
   The specification: who is entitled to a tunnel of mapping [tm] (independent of the code above).
   ------------------------------------------------------------------------------------------------ *)
Definition entitledb (d : db) (c : conn_id) (r : request) (tm : mid) : bool :=
  c_registered c && negb (N.eqb (c_client c) 0) && N.eqb (r_mid r) tm && negb (N.eqb tm 0) &&
  match d tm with
  | None => false
  | Some m =>
      is_valid m &&
      ((N.eqb (m_listen m) (c_client c) && N.eqb (r_secret r) 0)
       || ((N.eqb (m_listen m) (c_client c) || N.eqb (m_target m) (c_client c))
           && N.eqb (m_secret m) (r_secret r) && negb (N.eqb (r_secret r) 0)))
  end.

(* the mapping a tunnel id belongs to at arrival: the local bridge's, else the waiting tunnel's, else (a tunnel that
   does not exist yet) the mapping the request itself names *)
Definition tunnel_mid (tun : tid -> option bridge) (rt : tid -> option route) (r : request) : mid :=
  match tun (r_tid r) with
  | Some b => b_mid b
  | None => match rt (r_tid r) with
            | Some ro => ro_mid ro
            | None => r_mid r
            end
  end.

(* ------------------------------------------------------------------------------------------------
   Histories: the session manager's tunnel state under arbitrary sequences of events.
   ------------------------------------------------------------------------------------------------ *)
Record sys := mkSys {
  s_db : db;
  s_tun : tid -> option bridge;
  s_rt : tid -> option route;
  s_fwd : list (connref * tid);            (* cross-node forwards (or local waits) in progress: requester, tunnel *)
  s_log : list (connref * tid * bool);     (* ghost: every attachment ever made, with "was entitled at that moment" *)
  s_park : list (connref * request * bool);   (* requests polling the routing table (Parked), with "was entitled on arrival" *)
  s_wait : list (connref * request * bool) }. (* requests inside handleLocalBridgeWait: the record said "on THIS node", they poll
                                                  tunnelBridges (up to 5 s) for a bridge to appear under the tunnel id *)

Inductive event :=
| EOpen (cr : connref) (c : conn_id) (r : request)   (* a TunnelOpen packet on connection cr, whose registry state is c *)
| ESetMapping (m : mid) (x : option mapping)         (* any change of the mapping store: create / update / revoke / expire / delete *)
| ESetRoute (t : tid) (x : option route)             (* another node registers / removes a waiting tunnel *)
| ECloseBridge (t : tid)                             (* bridge lifecycle ends: removed from tunnelBridges *)
| EEndForward (cr : connref) (t : tid)               (* a cross-node forward finishes *)
| EResolve (cr : connref)                            (* the routing poll of the parked request of connection cr fires *)
| ETimeout (cr : connref)                            (* ... or gives up (10 s / 5 s) *)
| EWaitResolve (cr : connref).                       (* the tunnelBridges poll of a request inside handleLocalBridgeWait fires *)

Definition upd {A} (f : N -> option A) (k : N) (x : option A) : N -> option A :=
  fun k' => if N.eqb k' k then x else f k'.

(* startSourceBridge registers the new tunnel in the routing table (when one is configured); runBridgeLifecycle removes it *)
Definition rt_register (cfg : config) (rt : tid -> option route) (t : tid) (m : mid) : tid -> option route :=
  if cfg_routing cfg then upd rt t (Some {| ro_node := cfg_self cfg; ro_mid := m |}) else rt.
Definition rt_remove (cfg : config) (rt : tid -> option route) (t : tid) : tid -> option route :=
  if cfg_routing cfg then upd rt t None else rt.

Definition parked_of (cr : connref) (p : connref * request * bool) : bool := N.eqb (fst (fst p)) cr.
Definition unpark (cr : connref) (l : list (connref * request * bool)) := filter (fun p => negb (parked_of cr p)) l.

Definition step (v : variant) (cfg : config) (s : sys) (e : event) : sys :=
  match e with
  | EOpen cr c r =>
      let o := open v cfg (s_db s) (s_tun s) (s_rt s) c r in
      let ok := entitledb (s_db s) c r (tunnel_mid (s_tun s) (s_rt s) r) in
      let t := r_tid r in
      match o with
      | AttachSource =>
          match s_tun s t with
          | Some b => mkSys (s_db s) (upd (s_tun s) t (Some {| b_mid := b_mid b; b_src := Some cr; b_tgt := b_tgt b |}))
                            (s_rt s) (s_fwd s) ((cr, t, ok) :: s_log s) (s_park s) (s_wait s)
          | None => s
          end
      | AttachTarget =>
          match s_tun s t with
          | Some b => mkSys (s_db s) (upd (s_tun s) t (Some {| b_mid := b_mid b; b_src := b_src b; b_tgt := Some cr |}))
                            (s_rt s) (s_fwd s) ((cr, t, ok) :: s_log s) (s_park s) (s_wait s)
          | None => s
          end
      | NewBridge =>
          mkSys (s_db s) (upd (s_tun s) t (Some {| b_mid := r_mid r; b_src := Some cr; b_tgt := None |}))
                (rt_register cfg (s_rt s) t (r_mid r)) (s_fwd s) ((cr, t, ok) :: s_log s) (s_park s) (s_wait s)
      | Forward =>
          mkSys (s_db s) (s_tun s) (s_rt s) ((cr, t) :: s_fwd s) ((cr, t, ok) :: s_log s) (s_park s) (s_wait s)
      | WaitLocal =>                                    (* no acknowledgement yet: the request polls tunnelBridges *)
          mkSys (s_db s) (s_tun s) (s_rt s) (s_fwd s) (s_log s) (s_park s) (s_wait s ++ [(cr, r, ok)])
      | Parked =>
          mkSys (s_db s) (s_tun s) (s_rt s) (s_fwd s) (s_log s) (s_park s ++ [(cr, r, ok)]) (s_wait s)
      | Refuse _ | AckNoAttach => s
      end
  | ESetMapping m x => mkSys (upd (s_db s) m x) (s_tun s) (s_rt s) (s_fwd s) (s_log s) (s_park s) (s_wait s)
  | ESetRoute t x => mkSys (s_db s) (s_tun s) (upd (s_rt s) t x) (s_fwd s) (s_log s) (s_park s) (s_wait s)
  | ECloseBridge t =>
      match s_tun s t with      (* runBridgeLifecycle of an existing bridge: out of the map, routing record removed *)
      | Some _ => mkSys (s_db s) (upd (s_tun s) t None) (rt_remove cfg (s_rt s) t) (s_fwd s) (s_log s) (s_park s) (s_wait s)
      | None => s
      end
  | EEndForward cr t =>
      mkSys (s_db s) (s_tun s) (s_rt s) (filter (fun p => negb (N.eqb (fst p) cr && N.eqb (snd p) t)) (s_fwd s)) (s_log s) (s_park s) (s_wait s)
  | EResolve cr =>
      (* lookupTunnelRouting finds a record -> processCrossNodeForward; credentials were checked on arrival only *)
      match find (parked_of cr) (s_park s) with
      | None => s
      | Some (_, r, ok) =>
          let t := r_tid r in
          match s_rt s t with
          | None => s                                   (* nothing yet: keeps polling *)
          | Some ro =>
              let ok' := ok && N.eqb (ro_mid ro) (r_mid r) in
              match cross v cfg ro r with
              | Forward => mkSys (s_db s) (s_tun s) (s_rt s) ((cr, t) :: s_fwd s) ((cr, t, ok') :: s_log s) (unpark cr (s_park s)) (s_wait s)
              | WaitLocal =>                            (* the record says "this node": go on polling tunnelBridges *)
                  mkSys (s_db s) (s_tun s) (s_rt s) (s_fwd s) (s_log s) (unpark cr (s_park s)) (s_wait s ++ [(cr, r, ok')])
              | _ => mkSys (s_db s) (s_tun s) (s_rt s) (s_fwd s) (s_log s) (unpark cr (s_park s)) (s_wait s)
              end
          end
      end
  | ETimeout cr => mkSys (s_db s) (s_tun s) (s_rt s) (s_fwd s) (s_log s) (unpark cr (s_park s)) (unpark cr (s_wait s))
  | EWaitResolve cr =>
      (* handleLocalBridgeWait finds a bridge registered under the tunnel id — whichever request created it, under whichever
         mapping: the record that sent the request here may be gone or stale by now *)
      match find (parked_of cr) (s_wait s) with
      | None => s
      | Some (_, r, ok) =>
          let t := r_tid r in
          match s_tun s t with
          | None => s                                   (* nothing yet: keeps polling *)
          | Some b =>
              if v_wait_agree v && negb (N.eqb (b_mid b) (r_mid r)) then
                mkSys (s_db s) (s_tun s) (s_rt s) (s_fwd s) (s_log s) (s_park s) (unpark cr (s_wait s))       (* "tunnel does not belong to the presented mapping" *)
              else
                mkSys (s_db s) (upd (s_tun s) t (Some {| b_mid := b_mid b; b_src := b_src b; b_tgt := Some cr |}))
                      (s_rt s) (s_fwd s) ((cr, t, ok && N.eqb (b_mid b) (r_mid r)) :: s_log s) (s_park s) (unpark cr (s_wait s))
          end
      end
  end.

Definition run (v : variant) (cfg : config) (s : sys) (es : list event) : sys := fold_left (step v cfg) es s.

(* a fresh session manager: no bridges, no forwards; any mapping store, any routing table *)
Definition init (d : db) (rt : tid -> option route) : sys :=
  {| s_db := d; s_tun := fun _ => None; s_rt := rt; s_fwd := []; s_log := []; s_park := []; s_wait := [] |}.

(* connection cr has a request polling the routing table *)
Definition parked (s : sys) (cr : connref) : Prop := exists r ok, In (cr, r, ok) (s_park s) \/ In (cr, r, ok) (s_wait s).

(* connection cr receives tunnel traffic of tunnel t in state s *)
Definition holds (s : sys) (cr : connref) (t : tid) : Prop :=
  (exists b, s_tun s t = Some b /\ (b_src b = Some cr \/ b_tgt b = Some cr)) \/ In (cr, t) (s_fwd s).

(* every TunnelOpen of connection cr in the history was refused (evaluated along the run) *)
Fixpoint all_refused (v : variant) (cfg : config) (s : sys) (es : list event) (cr : connref) : Prop :=
  match es with
  | [] => True
  | e :: es' =>
      match e with
      | EOpen cr' c r =>
          (cr' = cr -> attaches (open v cfg (s_db s) (s_tun s) (s_rt s) c r) = false)
      | _ => True
      end /\ all_refused v cfg (step v cfg s e) es' cr
  end.

(* ------------------------------------------------------------------------------------------------
   The finite table the harness drives through the real SessionManager.HandlePacket (lib/props/c04.py):
   identity x named mapping x secret x resume x state of the named mapping x tunnel state.
   ------------------------------------------------------------------------------------------------ *)
Inductive t_id := IdNone | IdHalf | IdListen | IdTarget | IdStranger.
Inductive t_mid := MidNone | MidTunnel | MidOther.
(* boundary secrets: unrelated string, first character, all but the last character, all but the first, right+1 character,
   case flipped, last character changed, the right secret of ANOTHER mapping — all are simply "not the mapping's secret" *)
Inductive t_secret := SNone | SRight | SWrong | SPrefix1 | SPrefixAll | SSuffix | SPlus | SCase | SOneChar | SOther.
(* MExp25s .. MExp1ms: ExpiresAt 25 s / 10 s / 2 s / 1 ms BEFORE the request (expired, however recently: no tolerance);
   MSoon60s: ExpiresAt 60 s AFTER the request (still valid) *)
Inductive t_mstate := MActive | MRevoked | MExpired | MInactive | MMissing | MExp25s | MExp10s | MExp2s | MExp1ms | MSoon60s.
Inductive t_tstate := TNone | TWaiting | TServed | TRemote.
(* who the parties of the mappings are: two clients (PNormal), or a SERVER-SIDE LISTENER: stored listening client id 0 (PListen0, e.g.
   HTTP-domain mappings created through the management API), or no target client: stored target client id 0 (PTarget0).
   An unauthenticated connection also carries client id 0 — it must never count as "the party with id 0". *)
Inductive t_party := PNormal | PListen0 | PTarget0 | PNoSecret.   (* PNoSecret: the mappings store NO secret (connection-code mappings) *)
Record cell := { ce_id : t_id; ce_mid : t_mid; ce_secret : t_secret; ce_resume : bool; ce_mstate : t_mstate; ce_tstate : t_tstate;
                 ce_party : t_party }.

(* concrete names used for the abstraction of a cell: clients L=11 T=12 S=13 X=14; mappings M1=1 (the tunnel's), M2=2
   (another one, on which the requester is the listening client); secrets K1=101 K2=102, wrong=999; tunnel 7; nodes 1 (self) 2 *)
Definition cell_client (c : cell) : client :=
  match ce_id c with IdNone | IdHalf => 0 | IdListen => 11 | IdTarget => 12 | IdStranger => 13 end.
Definition cell_conn (c : cell) : conn_id :=
  {| c_registered := match ce_id c with IdNone => false | _ => true end; c_client := cell_client c |}.
Definition mk_mapping (l t : client) (k : key) (st : t_mstate) : option mapping :=
  match st with
  | MMissing => None
  | _ => Some {| m_listen := l; m_target := t; m_secret := k;
                 m_revoked := match st with MRevoked => true | _ => false end;
                 m_expired := match st with MExpired | MExp25s | MExp10s | MExp2s | MExp1ms => true | _ => false end;
                 m_active := match st with MInactive => false | _ => true end |}
  end.
Definition cell_db (c : cell) : db :=
  let named_other := match ce_mid c with MidOther => true | _ => false end in
  let own := match ce_id c with IdNone | IdHalf => 13 | _ => cell_client c end in
  let lis (l : client) := match ce_party c with PListen0 => 0 | _ => l end in
  let tgt (t : client) := match ce_party c with PTarget0 => 0 | _ => t end in
  let key (k : key) := match ce_party c with PNoSecret => 0 | _ => k end in
  fun m => if N.eqb m 1 then mk_mapping (lis 11) (tgt 12) (key 101) (if named_other then MActive else ce_mstate c)
           else if N.eqb m 2 then mk_mapping (lis own) (tgt 14) (key 102) (if named_other then ce_mstate c else MActive)
           else None.
Definition cell_req (c : cell) : request :=
  {| r_mid := match ce_mid c with MidNone => 0 | MidTunnel => 1 | MidOther => 2 end;
     r_tid := 7;
     r_secret := match ce_secret c with SNone => 0 | SWrong => 999
                 | SPrefix1 => 991 | SPrefixAll => 992 | SSuffix => 993 | SPlus => 994 | SCase => 995 | SOneChar => 996
                 | SOther => match ce_party c with PNoSecret => 0 | _ => match ce_mid c with MidOther => 101 | _ => 102 end end
                 | SRight => match ce_party c with PNoSecret => 0 | _ => match ce_mid c with MidOther => 102 | _ => 101 end end
                 end;
     r_resume := ce_resume c |}.
Definition cell_tun (c : cell) : tid -> option bridge :=
  match ce_tstate c with
  | TWaiting => fun t => if N.eqb t 7 then Some {| b_mid := 1; b_src := Some 1000; b_tgt := None |} else None
  | TServed => fun t => if N.eqb t 7 then Some {| b_mid := 1; b_src := Some 1000; b_tgt := Some 1001 |} else None
  | _ => fun _ => None
  end.
Definition cell_rt (c : cell) : tid -> option route :=
  match ce_tstate c with
  | TRemote => fun t => if N.eqb t 7 then Some {| ro_node := 2; ro_mid := 1 |} else None
  | _ => fun _ => None
  end.
Definition cell_cfg (c : cell) : config :=
  {| cfg_self := 1; cfg_crossnode := match ce_tstate c with TRemote => true | _ => false end;
     cfg_routing := match ce_tstate c with TRemote => true | _ => false end |}.

Definition cell_open (v : variant) (c : cell) : outcome :=
  open v (cell_cfg c) (cell_db c) (cell_tun c) (cell_rt c) (cell_conn c) (cell_req c).
Definition cell_entitled (c : cell) : bool :=
  entitledb (cell_db c) (cell_conn c) (cell_req c) (tunnel_mid (cell_tun c) (cell_rt c) (cell_req c)).

Definition all_ids := [IdNone; IdHalf; IdListen; IdTarget; IdStranger].
Definition all_mids := [MidNone; MidTunnel; MidOther].
Definition all_secrets := [SNone; SRight; SWrong; SPrefix1; SPrefixAll; SSuffix; SPlus; SCase; SOneChar; SOther].
Definition all_mstates := [MActive; MRevoked; MExpired; MInactive; MMissing; MExp25s; MExp10s; MExp2s; MExp1ms; MSoon60s].
Definition all_tstates := [TNone; TWaiting; TServed; TRemote].
Definition cells_of (p : t_party) (ids : list t_id) (mids : list t_mid) (secs : list t_secret) (ress : list bool)
                    (mss : list t_mstate) (tss : list t_tstate) : list cell :=
  flat_map (fun i => flat_map (fun m => flat_map (fun s => flat_map (fun r => flat_map (fun ms =>
    map (fun ts => {| ce_id := i; ce_mid := m; ce_secret := s; ce_resume := r; ce_mstate := ms; ce_tstate := ts; ce_party := p |}) tss)
    mss) ress) secs) mids) ids.
(* the full table for ordinary mappings, plus the party dimension on a sub-table (4 secrets, 3 mapping states, no resume token,
   tunnel states none / waiting / remote) *)
Definition party_secrets := [SNone; SRight; SWrong; SPrefix1].
Definition party_mstates := [MActive; MRevoked; MMissing].
Definition party_tstates := [TNone; TWaiting; TRemote].
Definition all_cells : list cell :=
  cells_of PNormal all_ids all_mids all_secrets [false; true] all_mstates all_tstates ++
  cells_of PListen0 all_ids all_mids party_secrets [false] party_mstates party_tstates ++
  cells_of PTarget0 all_ids all_mids party_secrets [false] party_mstates party_tstates ++
  cells_of PNoSecret all_ids all_mids [SNone; SWrong] [false] party_mstates party_tstates.

(* the specification's verdict on a cell: an attachment needs entitlement, and whoever is not entitled gets a failure ack *)
Definition cell_ok (v : variant) (c : cell) : bool :=
  let o := cell_open v c in
  (negb (attaches o) || cell_entitled c) &&
  (cell_entitled c || match o with Refuse true => true | _ => false end).
Close Scope N_scope.

(* Model/ConnStateThreads.v — the connstate.Store methods at STORAGE-CALL granularity (C08, interleavings).
   Each connstate.Store method (internal/protocol/session/connstate/store.go, repaired code) is a thread program over
   Base/Threads.v whose every step is exactly ONE call of the shared storage (Get / Set / Delete), in the order the Go
   code issues them:
     FindClientNode      Get client_conn:x ; Get conn_state:c
     RegisterConnection  Set conn_state:c ; Set client_conn:x            (index only for control connections, x > 0)
     UnregisterConnection Get conn_state:c ; Get client_conn:x ; Delete client_conn:x (only if it names c) ; Delete conn_state:c
     RefreshConnection   Get conn_state:c ; Set conn_state:c (the record it read) ; Get client_conn:x ; Set client_conn:x (only if it names c)
   SessionManager.handleHeartbeat / CloseConnection / handleHandshake reach the store only through these methods.
   `cas` selects the code: true = the tree with fixes/C08-atomic-client-index-cas.diff (+ C08-hybrid-compare-and-swap.diff), where the
   "read the index, then delete / re-set it" pair of UnregisterConnection / RefreshConnection is ONE storage call
   (CompareAndSwap(index, c -> tombstone) resp. CompareAndSwap(index, c -> c); a tombstone reads as "absent"):
     UnregisterConnection Get conn_state:c ; CAS client_conn:x ; Delete conn_state:c
     RefreshConnection   Get conn_state:c ; Set conn_state:c ; CAS client_conn:x
   false = the tree before it (two calls, as listed above).
   No time passes inside a concurrent phase: deadlines play no role here (Model/ConnState.v has them).
   Definitions only, no proofs. *)
From TX Require Import Base.Threads.
From Coq Require Import NArith Bool List.
Import ListNotations.
Open Scope N_scope.

(* conn_state record: client, node, control? *)
Definition crec := (N * N * bool)%type.
Record tstore := { tcs : N -> option crec; tci : N -> option N }.
Definition tempty : tstore := {| tcs := fun _ => None; tci := fun _ => None |}.

Definition tupd {A} (f : N -> option A) (k : N) (v : option A) : N -> option A := fun k' => if k' =? k then v else f k'.

Inductive tres := TFound (n c : N) | TAbsent.

Inductive tprog :=
| TFind (x : N) | TFind2 (c : N) | TFindDone (r : tres)
| TReg (n c x : N) (ctl : bool) | TReg2 (c x : N)
| TUnreg (c : N) | TUnreg2 (c x : N) | TUnreg3 (c x : N) | TUnregC (c x : N) | TUnreg4 (c : N)
| TRefresh (c : N) | TRefresh2 (c : N) (r : crec) | TRefresh3 (c x : N) | TRefresh4 (c x : N) | TRefreshC (c x : N)
| TDone.

Definition indexed (r : crec) : bool := let '(x, _, ctl) := r in ctl && (0 <? x).
Definition opt_eqb (o : option N) (c : N) : bool := match o with Some c' => c' =? c | None => false end.

(* one storage call of one method invocation *)
Definition tstep (cas : bool) (lo : tprog) (sh : tstore) : tprog * tstore :=
  match lo with
  | TFind x => (match tci sh x with Some c => TFind2 c | None => TFindDone TAbsent end, sh)
  | TFind2 c => (match tcs sh c with Some (_, n, _) => TFindDone (TFound n c) | None => TFindDone TAbsent end, sh)
  | TFindDone r => (TFindDone r, sh)
  | TReg n c x ctl =>
      (if indexed (x, n, ctl) then TReg2 c x else TDone, {| tcs := tupd (tcs sh) c (Some (x, n, ctl)); tci := tci sh |})
  | TReg2 c x => (TDone, {| tcs := tcs sh; tci := tupd (tci sh) x (Some c) |})
  | TUnreg c =>
      (match tcs sh c with
       | Some (x, n, ctl) => if indexed (x, n, ctl) then (if cas then TUnregC c x else TUnreg2 c x) else TUnreg4 c
       | None => TUnreg4 c
       end, sh)
  | TUnreg2 c x => (if opt_eqb (tci sh x) c then TUnreg3 c x else TUnreg4 c, sh)
  | TUnreg3 c x => (TUnreg4 c, {| tcs := tcs sh; tci := tupd (tci sh) x None |})
  | TUnregC c x => (TUnreg4 c, if opt_eqb (tci sh x) c then {| tcs := tcs sh; tci := tupd (tci sh) x None |} else sh)
  | TUnreg4 c => (TDone, {| tcs := tupd (tcs sh) c None; tci := tci sh |})
  | TRefresh c => (match tcs sh c with Some r => TRefresh2 c r | None => TDone end, sh)
  | TRefresh2 c r =>
      (if indexed r then (if cas then TRefreshC c (fst (fst r)) else TRefresh3 c (fst (fst r))) else TDone, {| tcs := tupd (tcs sh) c (Some r); tci := tci sh |})
  | TRefresh3 c x => (if opt_eqb (tci sh x) c then TRefresh4 c x else TDone, sh)
  | TRefresh4 c x => (TDone, {| tcs := tcs sh; tci := tupd (tci sh) x (Some c) |})
  | TRefreshC c x => (TDone, if opt_eqb (tci sh x) c then {| tcs := tcs sh; tci := tupd (tci sh) x (Some c) |} else sh)
  | TDone => (TDone, sh)
  end.

Definition tstate := st tstore tprog.
Definition trun (cas : bool) (s : tstate) (sched : list nat) : tstate := run tstore tprog (tstep cas) s sched.

Definition is_find (lo : tprog) : bool :=
  match lo with TFind _ | TFind2 _ | TFindDone _ => true | _ => false end.

(* the same system in which no lookup ever runs: every lookup thread replaced by one that has already returned *)
Definition mask_find (lo : tprog) : tprog := if is_find lo then TFindDone TAbsent else lo.
Definition without_lookups (s : tstate) : tstate := (fst s, map mask_find (snd s)).

(* sequential lookup on a quiescent store *)
Definition tfind (sh : tstore) (x : N) : tres :=
  match tci sh x with
  | Some c => match tcs sh c with Some (_, n, _) => TFound n c | None => TAbsent end
  | None => TAbsent
  end.

(* an invariant shape for "lookups only return registered pairs": P c r = "record r may legitimately be stored for connection c" *)
Definition prog_ok (P : N -> crec -> Prop) (lo : tprog) : Prop :=
  match lo with
  | TReg n c x ctl => P c (x, n, ctl)
  | TRefresh2 c r => P c r
  | TFindDone (TFound n c) => exists x ctl, P c (x, n, ctl)
  | _ => True
  end.
Definition store_ok (P : N -> crec -> Prop) (sh : tstore) : Prop := forall c r, tcs sh c = Some r -> P c r.
Definition sys_ok (P : N -> crec -> Prop) (s : tstate) : Prop := store_ok P (fst s) /\ Forall (prog_ok P) (snd s).

(* the residual windows of the repaired code (client 7: old connection 1 on node 1, new connection 2 on node 2) *)
Definition window_store : tstore :=
  {| tcs := tupd (fun _ => None) 1 (Some (7, 1, true)); tci := tupd (fun _ => None) 7 (Some 1) |}.
Definition unregister_window : tstate := (window_store, [TUnreg 1; TReg 2 2 7 true]).
Definition refresh_window : tstate := (window_store, [TRefresh 1; TReg 2 2 7 true]).
Definition all_done (s : tstate) : bool :=
  forallb (fun lo => match lo with TDone | TFindDone _ => true | _ => false end) (snd s).

(* all interleavings of a steps of thread 0 with b steps of thread 1 *)
Fixpoint interleave (a b : nat) : list (list nat) :=
  match a with
  | O => [repeat 1%nat b]
  | S a' =>
      (fix inner (b : nat) : list (list nat) :=
         match b with
         | O => [repeat 0%nat (S a')]
         | S b' => map (cons 0%nat) (interleave a' (S b')) ++ map (cons 1%nat) (inner b')
         end) b
  end.

(* thread 1's second step (the new registration's index write) falls when thread 0 has done exactly k steps *)
Fixpoint second_of_1_after (k : nat) (sched : list nat) (u r : nat) : bool :=
  match sched with
  | [] => false
  | i :: rest =>
      match i with
      | O => second_of_1_after k rest (S u) r
      | _ => if Nat.eqb r 1 then Nat.eqb u k else second_of_1_after k rest u (S r)
      end
  end.

(* ---- vocabulary of "X's registration (B, new) survives everything else" (Proofs: registration_stable) ----
   R = the record of the new connection; a thread program is `safe` when it is not an un-registration of `new`, and any
   registration it performs for client X or for connection `new` is exactly the registration (B, new, X);
   no invocation is inside the legacy two-call sequence (the repaired code has no such state) *)
Definition safe_prog (X B new : N) (lo : tprog) : Prop :=
  match lo with
  | TReg n c x ctl => (c = new \/ (x = X /\ indexed (x, n, ctl) = true)) -> (n = B /\ c = new /\ x = X /\ ctl = true)
  | TReg2 c x => (c = new \/ x = X) -> (c = new /\ x = X)
  | TUnreg c | TUnregC c _ | TUnreg4 c => c <> new
  | TRefresh2 c r => c = new -> r = (X, B, true)
  | TUnreg2 _ _ | TUnreg3 _ _ | TRefresh3 _ _ | TRefresh4 _ _ => False   (* states of the two-call code only *)
  | _ => True
  end.
Definition established (X B new : N) (sh : tstore) : Prop := tci sh X = Some new /\ tcs sh new = Some (X, B, true).

(* invariant carried through every schedule: i0 = the invocation RegisterConnection(B, new, X), j = a lookup of X that is
   only started once that registration has completed (j = None: no lookup tracked) *)
Definition reg_inv (X B new : N) (i0 : nat) (s : tstate) : Prop :=
  Forall (safe_prog X B new) (snd s)
  /\ (tcs (fst s) new = None \/ tcs (fst s) new = Some (X, B, true))
  /\ match nth_error (snd s) i0 with
     | Some (TReg n c x ctl) => n = B /\ c = new /\ x = X /\ ctl = true
     | Some (TReg2 c x) => c = new /\ x = X /\ tcs (fst s) new = Some (X, B, true)
     | Some TDone => established X B new (fst s)
     | _ => False
     end.

Definition lookup_inv (X B new : N) (i0 j : nat) (s : tstate) : Prop :=
  reg_inv X B new i0 s /\ nth_error (snd s) i0 = Some TDone
  /\ match nth_error (snd s) j with
     | Some (TFind x) => x = X
     | Some (TFind2 c) => c = new
     | Some (TFindDone r) => r = TFound B new
     | _ => False
     end.

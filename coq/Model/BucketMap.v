(* Model/BucketMap.v — bucket creation in internal/security/rate_limiter.go `allow` as the lock sections it is:
     (1) mu.RLock: bucket, exists = buckets[key]                        -> one atomic step
     (2) if !exists: mu.Lock: re-check; create a FULL bucket; store it   -> one atomic step
     (3) bucket.Take(n) under bucket.mu on the bucket the thread holds   -> one atomic step
   Buckets live in a heap indexed by allocation number (a thread holds a pointer = an index); the clock is
   frozen (the concurrent FIRST requests of an address: no refill, no garbage collection), tokens unscaled.
   recheck = true is the code; recheck = false (allocate and store unconditionally) is kept to state the
   refuted variant.  Definitions only; proofs in Proofs/BucketMap.v. *)
From Coq Require Export ZArith.
From TX Require Export Base.Threads.
Open Scope Z_scope.

Record bsh := { bmap : N -> option nat;     (* buckets[key] *)
                hkey : nat -> N;            (* heap: key a bucket was created for *)
                htok : nat -> Z;            (* heap: tokens *)
                next : nat;                 (* number of buckets ever created *)
                adm : N -> Z }.             (* tokens granted per key *)

Inductive blo :=
| A0 (k : N) (n : Z)                       (* about to look the key up *)
| ANeed (k : N) (n : Z)                    (* saw no bucket, about to take the write lock *)
| AHave (k : N) (n : Z) (id : nat)         (* holds a bucket, about to Take *)
| ADone (ok : bool).

Definition updN {A} (m : N -> A) (k : N) (v : A) : N -> A := fun x => if N.eqb x k then v else m x.
Definition updn {A} (m : nat -> A) (k : nat) (v : A) : nat -> A := fun x => if Nat.eqb x k then v else m x.

Definition bstep (recheck : bool) (burst : Z) (l : blo) (s : bsh) : blo * bsh :=
  match l with
  | A0 k n => (match bmap s k with Some id => AHave k n id | None => ANeed k n end, s)
  | ANeed k n =>
      match (if recheck then bmap s k else None) with
      | Some id => (AHave k n id, s)
      | None =>
          let id := next s in
          (AHave k n id,
           {| bmap := updN (bmap s) k (Some id); hkey := updn (hkey s) id k; htok := updn (htok s) id burst;
              next := S id; adm := adm s |})
      end
  | AHave k n id =>
      if htok s id >=? n
      then (ADone true, {| bmap := bmap s; hkey := hkey s; htok := updn (htok s) id (htok s id - n);
                           next := next s; adm := updN (adm s) k (adm s k + n) |})
      else (ADone false, s)
  | ADone ok => (l, s)
  end.

Definition binit : bsh :=
  {| bmap := fun _ => None; hkey := fun _ => 0%N; htok := fun _ => 0; next := O; adm := fun _ => 0 |}.

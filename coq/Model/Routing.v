(* Model/Routing.v — executable model of the waiting-tunnel routing table
   (internal/protocol/session/tunnel/routing.go) on top of an abstract TTL key-value store that stands for
   memory.Storage, redis.Storage and hybrid.Storage (internal/core/storage/{memory,redis,hybrid}).
   Definitions only; proofs are in Proofs/Routing.v.

   Conventions
   * strings are byte lists; time is an instant in nanoseconds (N); client ids / ports are Z (Go int64 / int).
   * There are two clocks: [now] is what time.Now() returns on the nodes (RegisterWaitingTunnel stamps with it,
     LookupWaitingTunnel compares ExpiresAt with it); [bnow] is the clock the SHARED backend uses to expire keys
     (the Redis server's clock; for memory.Storage it is the same process clock, and then every Tick advances both
     by the same amount).  Node-local caches (hybrid without shared cache) expire on [now].
   * A backend returns an entry at least until its deadline; what it does with an entry whose deadline has passed
     is the arbitrary function [keep] (memory.Storage: lazily hidden, Redis: dropped, a sloppy cache: still there).
   * Go's encoding/json on WaitingState is the section pair enc/dec (redis.Storage.Set marshals, the string case of
     LookupWaitingTunnel unmarshals); memory.Storage hands back the stored *WaitingState itself (SPtr). *)
From Coq Require Import List NArith ZArith Bool.
Import ListNotations.
From TX Require Import Base.Val.
Open Scope N_scope.

Definition str := list N.
Definition key := list N.

(* tunnel.WaitingState — the ten fields, in declaration order *)
Record waiting := mkW {
  w_tunnel : str;      (* TunnelID *)
  w_mapping : str;     (* MappingID *)
  w_secret : str;      (* SecretKey *)
  w_node : str;        (* SourceNodeID *)
  w_src : Z;           (* SourceClientID int64 *)
  w_dst : Z;           (* TargetClientID int64 *)
  w_host : str;        (* TargetHost *)
  w_port : Z;          (* TargetPort int *)
  w_created : N;       (* CreatedAt *)
  w_expires : N }.     (* ExpiresAt *)

(* RegisterWaitingTunnel: state.CreatedAt = now; state.ExpiresAt = now.Add(t.ttl) *)
Definition stamp (r : waiting) (c e : N) : waiting :=
  mkW (w_tunnel r) (w_mapping r) (w_secret r) (w_node r) (w_src r) (w_dst r) (w_host r) (w_port r) c e.

(* ---- hybrid.Storage: which cache a key goes to (hybrid.go getCategory / getCacheForKey) *)
Fixpoint is_prefix (p k : list N) : bool :=
  match p, k with
  | [], _ => true
  | a :: p', b :: k' => N.eqb a b && is_prefix p' k'
  | _ :: _, [] => false
  end.
Definition has_prefix (ps : list (list N)) (k : key) : bool := existsb (fun p => is_prefix p k) ps.
(* true = the shared cache (Redis) serves the key, false = the node's local cache.
   (shared-persistent keys also go to the shared cache but involve the persistent store as well; the side
   condition Proofs/SideC09.v shows the routing keys are never in that category) *)
Definition hybrid_route (has_shared_cache : bool) (shared_persistent shared : list (list N)) (k : key) : bool :=
  has_shared_cache && (has_prefix shared_persistent k || has_prefix shared k).
Definition hybrid_pure_shared (shared_persistent shared : list (list N)) (k : key) : bool :=
  negb (has_prefix shared_persistent k) && has_prefix shared k.

(* two byte strings that differ at a position both have: no extensions of them are ever equal *)
Fixpoint diverge (p q : list N) : bool :=
  match p, q with
  | a :: p', b :: q' => if N.eqb a b then diverge p' q' else true
  | _, _ => false
  end.

(* ---- configuration of one deployment *)
Record cfg := mkCfg {
  c_ttl : N;              (* RoutingTable.ttl, ns (NewRoutingTable never leaves it 0) *)
  c_addr_ttl : N;         (* NodeAddressTTL *)
  c_wpre : str;           (* makeKey: "tunnox:tunnel_waiting:" ++ id *)
  c_npre : str;           (* "tunnox:node:" ++ id ++ ":addr" *)
  c_nsuf : str;
  c_route : key -> bool;  (* true: the key lives in the store shared by all nodes; false: in the node's own store *)
  c_shared_ident : bool;  (* the shared store hands back what was stored (memory.Storage) instead of its JSON text *)
  c_del_expired : bool    (* LookupWaitingTunnel deletes the key of a record it found expired (the tree as found: true;
                             with fixes/C09-lookup-does-not-delete.diff: false, the backend's TTL cleans up) *)
}.

(* NewRoutingTable: ttl == 0 -> 30 s *)
Definition new_table_ttl (default ttl : N) : N := if N.eqb ttl 0 then default else ttl.

Definition wait_key (c : cfg) (t : str) : key := c_wpre c ++ t.
Definition addr_key (c : cfg) (id : str) : key := c_npre c ++ id ++ c_nsuf c.

(* a storage cell: (None, k) = key k of the shared store, (Some n, k) = key k of node n's local store *)
Definition cell := (option nat * key)%type.
Definition loc_eqb (a b : option nat) : bool :=
  match a, b with
  | None, None => true
  | Some x, Some y => Nat.eqb x y
  | _, _ => false
  end.
Definition cell_eqb (a b : cell) : bool := loc_eqb (fst a) (fst b) && list_eqb (snd a) (snd b).
Definition cell_of (c : cfg) (n : nat) (k : key) : cell := (if c_route c k then None else Some n, k).

Inductive op :=
| ORegister (n : nat) (r : waiting)          (* node n: RegisterWaitingTunnel(&r) *)
| OLookup (n : nat) (t : str)                (* node n: LookupWaitingTunnel(t) *)
| ORemove (n : nat) (t : str)                (* node n: RemoveWaitingTunnel(t) *)
| OTick (dn db : N)                          (* node clock advances by dn, shared-backend clock by db *)
| ORegAddr (n : nat) (id addr : str)         (* node n: RegisterNodeAddress(id, addr) *)
| OGetAddr (n : nat) (id : str).             (* node n: GetNodeAddress(id) *)

Inductive res :=
| RUnit                  (* nil error *)
| RReg (r : waiting)     (* Register ok: the caller's struct after the call *)
| RInvalid               (* "tunnel_id is required" *)
| ROk (r : waiting)      (* Lookup ok *)
| RNotFound              (* tunnel.ErrNotFound *)
| RExpired               (* tunnel.ErrExpired *)
| RDecodeErr             (* "failed to unmarshal tunnel state" *)
| RBadType               (* "unexpected value type" *)
| RAddr (a : str)
| RAddrNotFound
| RAddrBad.              (* "invalid address format" *)

Section Model.
  (* the Go string type as far as the model needs it: JSON texts of records and node addresses *)
  Variable gstr : Type.
  Variable enc : waiting -> gstr.             (* json.Marshal of the WaitingState pointer *)
  Variable dec : gstr -> option waiting.      (* json.Unmarshal(..., &WaitingState) *)
  Variable decm : gstr -> option waiting.     (* map[string]interface{} -> Marshal -> Unmarshal (no shipped backend) *)
  Variable of_addr : str -> gstr.
  Variable to_addr : gstr -> str.
  Variable keep : cell -> N -> bool.          (* does the backend still return this cell at this time, past its deadline? *)

  (* what Storage.Get can hand to the type switch of LookupWaitingTunnel *)
  Inductive sval :=
  | SPtr (r : waiting)     (* *WaitingState  (memory.Storage returns the stored pointer) *)
  | SVal (r : waiting)     (* WaitingState *)
  | SStr (g : gstr)        (* string (redis.Storage) *)
  | SBytes (g : gstr)      (* []byte *)
  | SMap (g : gstr)        (* map[string]interface{} *)
  | SOther.

  Record entry := mkE { e_val : sval; e_dl : option N }.   (* deadline on the cell's clock; None = never *)

  Record state := mkS { now : N; bnow : N; mem : cell -> option entry }.
  Definition init : state := mkS 0 0 (fun _ => None).

  Definition clk (s : state) (cl : cell) : N := match fst cl with None => bnow s | Some _ => now s end.

  Definition m_set (m : cell -> option entry) (cl : cell) (e : entry) : cell -> option entry :=
    fun x => if cell_eqb x cl then Some e else m x.
  Definition m_del (m : cell -> option entry) (cl : cell) : cell -> option entry :=
    fun x => if cell_eqb x cl then None else m x.

  (* memory.Get: !Expiration.IsZero() && now.After(Expiration) -> not found ; Redis: gone after the ttl *)
  Definition st_get (s : state) (cl : cell) : option sval :=
    match mem s cl with
    | None => None
    | Some e =>
        match e_dl e with
        | None => Some (e_val e)
        | Some d => if (clk s cl <=? d) || keep cl (clk s cl) then Some (e_val e) else None
        end
    end.
  (* memory.Set / redis.Set: ttl <= 0 means no expiry *)
  Definition st_set (s : state) (cl : cell) (v : sval) (ttl : N) : state :=
    mkS (now s) (bnow s) (m_set (mem s) cl (mkE v (if N.eqb ttl 0 then None else Some (clk s cl + ttl)))).
  Definition st_del (s : state) (cl : cell) : state := mkS (now s) (bnow s) (m_del (mem s) cl).
  Definition st_del_if (b : bool) (s : state) (cl : cell) : state := if b then st_del s cl else s.

  (* the value shape a cell's backend stores for a *WaitingState: local caches are memory.Storage *)
  Definition put_waiting (c : cfg) (cl : cell) (r : waiting) : sval :=
    match fst cl with
    | None => if c_shared_ident c then SPtr r else SStr (enc r)
    | Some _ => SPtr r
    end.

  (* the type switch of LookupWaitingTunnel *)
  Inductive decoded := DOk (r : waiting) | DDecodeErr | DBadType.
  Definition decode (v : sval) : decoded :=
    match v with
    | SPtr r | SVal r => DOk r
    | SStr g | SBytes g => match dec g with Some r => DOk r | None => DDecodeErr end
    | SMap g => match decm g with Some r => DOk r | None => DDecodeErr end
    | SOther => DBadType
    end.

  Definition is_nil (s : str) : bool := match s with [] => true | _ => false end.

  Definition step (c : cfg) (s : state) (o : op) : state * res :=
    match o with
    | ORegister n r =>
        if is_nil (w_tunnel r) then (s, RInvalid) else
        let r' := stamp r (now s) (now s + c_ttl c) in
        let cl := cell_of c n (wait_key c (w_tunnel r)) in
        (st_set s cl (put_waiting c cl r') (c_ttl c), RReg r')
    | OLookup n t =>
        if is_nil t then (s, RInvalid) else
        let cl := cell_of c n (wait_key c t) in
        match st_get s cl with
        | None => (s, RNotFound)
        | Some v =>
            match decode v with
            | DDecodeErr => (s, RDecodeErr)
            | DBadType => (s, RBadType)
            | DOk r =>
                (* time.Now().After(state.ExpiresAt) -> Delete(key); ErrExpired *)
                if w_expires r <? now s then (st_del_if (c_del_expired c) s cl, RExpired) else (s, ROk r)
            end
        end
    | ORemove n t =>
        if is_nil t then (s, RInvalid) else (st_del s (cell_of c n (wait_key c t)), RUnit)
    | OTick dn db => (mkS (now s + dn) (bnow s + db) (mem s), RUnit)
    | ORegAddr n id addr =>
        (st_set s (cell_of c n (addr_key c id)) (SStr (of_addr addr)) (c_addr_ttl c), RUnit)
    | OGetAddr n id =>
        match st_get s (cell_of c n (addr_key c id)) with
        | None => (s, RAddrNotFound)
        | Some (SStr g) | Some (SBytes g) => if is_nil (to_addr g) then (s, RAddrBad) else (s, RAddr (to_addr g))
        | Some _ => (s, RAddrBad)
        end
    end.

  Fixpoint run (c : cfg) (s : state) (h : list op) : state * list res :=
    match h with
    | [] => (s, [])
    | o :: h' => let (s1, r) := step c s o in let (s2, rs) := run c s1 h' in (s2, r :: rs)
    end.

  Definition final (c : cfg) (s : state) (h : list op) : state := fst (run c s h).
  Definition lookup (c : cfg) (s : state) (n : nat) (t : str) : res := snd (step c s (OLookup n t)).
End Model.

Arguments SPtr {gstr}. Arguments SVal {gstr}. Arguments SStr {gstr}. Arguments SBytes {gstr}.
Arguments SMap {gstr}. Arguments SOther {gstr}.

(* ---- the specification the routing table refines: a map tunnel id -> record with an expiry instant *)
Record spec := mkSp { sp_now : N; sp_map : str -> option waiting }.
Definition sp_init : spec := mkSp 0 (fun _ => None).
Definition sp_upd (m : str -> option waiting) (t : str) (v : option waiting) : str -> option waiting :=
  fun x => if list_eqb x t then v else m x.

(* observable answers: the two "gone" errors are one answer, addresses are not part of this spec *)
Definition proj (r : res) : res :=
  match r with
  | RExpired => RNotFound
  | RAddr _ | RAddrNotFound | RAddrBad => RUnit
  | x => x
  end.

Definition spec_step (ttl : N) (sp : spec) (o : op) : spec * res :=
  match o with
  | ORegister _ r =>
      if is_nil (w_tunnel r) then (sp, RInvalid) else
      let r' := stamp r (sp_now sp) (sp_now sp + ttl) in
      (mkSp (sp_now sp) (sp_upd (sp_map sp) (w_tunnel r) (Some r')), RReg r')
  | OLookup _ t =>
      if is_nil t then (sp, RInvalid) else
      match sp_map sp t with
      | Some r => if w_expires r <? sp_now sp then (sp, RNotFound) else (sp, ROk r)
      | None => (sp, RNotFound)
      end
  | ORemove _ t => if is_nil t then (sp, RInvalid) else (mkSp (sp_now sp) (sp_upd (sp_map sp) t None), RUnit)
  | OTick dn _ => (mkSp (sp_now sp + dn) (sp_map sp), RUnit)
  | ORegAddr _ _ _ | OGetAddr _ _ => (sp, RUnit)
  end.

Fixpoint spec_run (ttl : N) (sp : spec) (h : list op) : spec * list res :=
  match h with
  | [] => (sp, [])
  | o :: h' => let (s1, r) := spec_step ttl sp o in let (s2, rs) := spec_run ttl s1 h' in (s2, r :: rs)
  end.

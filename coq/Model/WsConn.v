(* Model/WsConn.v — the WebSocket message->stream adapters (protocol/adapter/websocket_conn.go
   wsServerConn.Read / wsClientConn.Read, client/transport/websocket.go WebSocketStreamConn.Read):
   a Read first serves the buffered tail of the previous message, otherwise takes the next binary message,
   copies what fits into the caller's buffer and keeps the rest in readBuf. Definitions only. *)
From TX Require Export Base.Chunks.

Record wsconn := { w_buf : list byte;               (* readBuf: unread tail of the last message *)
                   w_msgs : list (list byte) }.     (* binary messages still to arrive, in order *)

Definition ws_bytes (w : wsconn) : list byte := w_buf w ++ concat (w_msgs w).

(* one Read(p) with len(p) = cap > 0; None = no more messages (the real conn then blocks or reports EOF) *)
Definition ws_read (cap : N) (w : wsconn) : option (list byte * wsconn) :=
  match w_buf w with
  | _ :: _ =>
      let k := N.to_nat (N.min cap (lenN (w_buf w))) in
      Some (firstn k (w_buf w), {| w_buf := skipn k (w_buf w); w_msgs := w_msgs w |})
  | [] =>
      match w_msgs w with
      | [] => None
      | m :: ms =>
          let k := N.to_nat (N.min cap (lenN m)) in
          Some (firstn k m, {| w_buf := skipn k m; w_msgs := ms |})
      end
  end.

(* the chunk oracle that IS this adapter: cuts = (remaining buffered tail, if any) followed by the message
   lengths, with carry = true (an unconsumed part of a cut stays for the next Read) *)
Definition ws_abs (w : wsconn) : rd :=
  {| rest := ws_bytes w;
     cuts := (match w_buf w with [] => [] | _ => [length (w_buf w)] end) ++ map (@length byte) (w_msgs w);
     endk := 0; carry := true |}.

Definition ws_wf (w : wsconn) : Prop := Forall (fun m => m <> []) (w_msgs w).

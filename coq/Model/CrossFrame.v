(* Model/CrossFrame.v — executable model of internal/protocol/session/crossnode/frame.go
   (WriteFrame / WriteFrameToWriter / ReadFrameFromReader / TunnelIDFromString / TunnelIDToString)
   and stream.go (FrameStream.Read / Write / CloseWrite / Close).
   Definitions only; proofs are in Proofs/CrossFrame.v.
   The transport is the chunk oracle of Base/Chunks.v: a *net.TCPConn is an io.Reader over the
   bytes the peer wrote, delivered in pieces chosen by the oracle. *)
From TX Require Export Base.Bytes Base.Chunks.

Open Scope N_scope.

(* frame type bytes that FrameStream.Read interprets (frame.go constants; Proofs/SideC10.v re-checks
   them against the regenerated values on every run) *)
Definition T_Data : N := 1.
Definition T_Close : N := 3.
Definition T_EOF : N := 9.
Definition HeaderSize : N := 21.      (* TunnelID(16) + FrameType(1) + Length(4) *)

Record frame := { f_tid : list byte; f_ty : N; f_data : list byte }.

Fixpoint bytes_eqb (a b : list byte) : bool :=
  match a, b with
  | [], [] => true
  | x :: a', y :: b' => (x =? y) && bytes_eqb a' b'
  | _, _ => false
  end.

(* TunnelIDFromString: first 16 bytes of the string, zero padded ([16]byte + copy) *)
Definition wire_id (s : list byte) : list byte := firstn 16 s ++ repeat 0 (16 - length s).
(* TunnelIDFromString after fixes/C10-wire-id-hash.diff: ids of at most 16 bytes verbatim (zero padded), longer ids get 16
   bytes derived from the WHOLE string by a hash H (first 16 bytes of SHA-256 in the patch; an oracle here) *)
Definition wire_id_h (H : list byte -> list byte) (s : list byte) : list byte :=
  if (length s <=? 16)%nat then wire_id s else H s.
(* TunnelIDToString: the bytes before the first zero byte *)
Fixpoint id_to_string (id : list byte) : list byte :=
  match id with
  | [] => []
  | b :: t => if b =? 0 then [] else b :: id_to_string t
  end.

(* decoder results *)
Inductive ferr :=
| FEof        (* io.EOF: the stream ended exactly at a frame boundary *)
| FShortHdr   (* "failed to read frame header": 1..20 bytes then end of stream *)
| FTooLarge   (* "frame too large": declared length > MaxFrameSize *)
| FShortData  (* "failed to read frame data": end of stream inside the payload *)
| FFuel.      (* model artefact, excluded by decode_frame_total *)
Inductive dres := DOk (f : frame) | DErr (e : ferr).

(* what FrameStream.Read does with a decoder error: isConnectionClosedError(err) is true for io.EOF and for
   every error whose text contains "EOF" (the wrapped io.ErrUnexpectedEOF of a truncated frame) *)
Definition err_is_closed (e : ferr) : bool :=
  match e with FEof | FShortHdr | FShortData => true | FTooLarge | FFuel => false end.

Inductive rres := RData (d : list byte) | REof | RErr | RFuel.
Inductive wres := WOk (n : N) | WClosedPipe | WNil.
Inductive wop := WWrite (p : list byte) | WCloseWrite | WClose.

(* FrameStream fields *)
Record rstate := { r_buf : list byte;   (* readBuf (nil = []) *)
                   r_off : nat;         (* readOff *)
                   r_eof : bool;        (* readEOF *)
                   r_weof : bool;       (* writeEOF of the same FrameStream (read by Read) *)
                   r_broken : bool }.   (* conn.broken *)
Definition rinit (weof : bool) : rstate :=
  {| r_buf := []; r_off := 0; r_eof := false; r_weof := weof; r_broken := false |}.
(* the bytes Read still owes the caller: readBuf[readOff:] *)
Definition pending (st : rstate) : list byte := skipn (r_off st) (r_buf st).

Inductive Interleave {A : Type} : list A -> list A -> list A -> Prop :=
| il_nil : Interleave [] [] []
| il_l a x y m : Interleave x y m -> Interleave (a :: x) y (a :: m)
| il_r b x y m : Interleave x y m -> Interleave x (b :: y) (b :: m).

Section CrossFrame.
  Variable MaxFrame : N.

  (* ---- WriteFrame / WriteFrameToWriter ---- *)
  Definition header (tid : list byte) (ty : N) (n : N) : list byte := tid ++ ty :: be32 n.
  Definition encode_frame (f : frame) : option (list byte) :=
    if MaxFrame <? lenN (f_data f) then None   (* "frame too large": nothing is written *)
    else Some (header (f_tid f) (f_ty f) (lenN (f_data f)) ++ f_data f).
  Definition frame_bytes (f : frame) : list byte :=
    match encode_frame f with Some b => b | None => [] end.
  Definition encode_all (fs : list frame) : list byte := flat_map frame_bytes fs.

  (* ---- ReadFrameFromReader over a chunk oracle; second component = sizes passed to make([]byte, n) ---- *)
  Definition decode_frame (r : rd) : dres * list N * rd :=
    match read_full (length (rest r)) HeaderSize r with
    | RFFuel => (DErr FFuel, [HeaderSize], r)
    | RFEnd part r1 => (DErr (match part with [] => FEof | _ => FShortHdr end), [HeaderSize], r1)
    | RFOk h r1 =>
      let n := de32 (skipn 17 h) in
      if MaxFrame <? n then (DErr FTooLarge, [HeaderSize], r1)       (* checked BEFORE the allocation *)
      else if n =? 0 then (DOk {| f_tid := firstn 16 h; f_ty := nth 16 h 0; f_data := [] |}, [HeaderSize], r1)
      else match read_full (length (rest r1)) n r1 with
           | RFOk d r2 => (DOk {| f_tid := firstn 16 h; f_ty := nth 16 h 0; f_data := d |}, [HeaderSize; n], r2)
           | RFEnd _ r2 => (DErr FShortData, [HeaderSize; n], r2)
           | RFFuel => (DErr FFuel, [HeaderSize; n], r1)
           end
    end.

  (* repeated decoding until the first error (what the harness does with ReadFrameFromReader) *)
  Fixpoint decode_all (fuel : nat) (r : rd) : list frame * ferr * N :=   (* frames, final error, max allocation of one call *)
    match fuel with
    | O => ([], FFuel, 0)
    | S f => match decode_frame r with
             | (DOk fr, al, r') => let '(fs, e, m) := decode_all f r' in (fr :: fs, e, N.max (fold_right N.add 0 al) m)
             | (DErr e, al, _) => ([], e, fold_right N.add 0 al)
             end
    end.
  Definition decode_stream (s : list byte) (c : list nat) : list frame * ferr * N :=
    decode_all (S (length s)) (mkrd s c).

  (* ---- the same decoder without an oracle ---- *)
  Definition parse_frame (s : list byte) : dres * list N * list byte :=
    if lenN s <? HeaderSize then (DErr (match s with [] => FEof | _ => FShortHdr end), [HeaderSize], []) else
    let h := firstn 21 s in
    let s1 := skipn 21 s in
    let n := de32 (skipn 17 h) in
    if MaxFrame <? n then (DErr FTooLarge, [HeaderSize], s1)
    else if n =? 0 then (DOk {| f_tid := firstn 16 h; f_ty := nth 16 h 0; f_data := [] |}, [HeaderSize], s1)
    else if lenN s1 <? n then (DErr FShortData, [HeaderSize; n], [])
    else (DOk {| f_tid := firstn 16 h; f_ty := nth 16 h 0; f_data := firstn (N.to_nat n) s1 |}, [HeaderSize; n],
          skipn (N.to_nat n) s1).

  Fixpoint parse_all (fuel : nat) (s : list byte) : list frame * ferr * N :=
    match fuel with
    | O => ([], FFuel, 0)
    | S f => match parse_frame s with
             | (DOk fr, al, s') => let '(fs, e, m) := parse_all f s' in (fr :: fs, e, N.max (fold_right N.add 0 al) m)
             | (DErr e, al, _) => ([], e, fold_right N.add 0 al)
             end
    end.
  Definition parse_stream (s : list byte) : list frame * ferr * N := parse_all (S (length s)) s.

  (* the frame sequence a byte string consists of, and the error that ends it *)
  Inductive Parses : list byte -> list frame -> ferr -> Prop :=
  | parses_err s e al s' : parse_frame s = (DErr e, al, s') -> Parses s [] e
  | parses_ok s fr al s' fs e : parse_frame s = (DOk fr, al, s') -> Parses s' fs e -> Parses s (fr :: fs) e.

  (* ---- FrameStream.Read ---- *)
  Definition set_buf (st : rstate) (b : list byte) (o : nat) : rstate :=
    {| r_buf := b; r_off := o; r_eof := r_eof st; r_weof := r_weof st; r_broken := r_broken st |}.
  Definition set_eof (st : rstate) : rstate :=
    {| r_buf := r_buf st; r_off := r_off st; r_eof := true; r_weof := r_weof st; r_broken := r_broken st |}.
  Definition mark_broken (st : rstate) : rstate :=
    {| r_buf := r_buf st; r_off := r_off st; r_eof := r_eof st; r_weof := r_weof st; r_broken := true |}.

  (* the `for { ReadFrame ... }` loop; cap = len(p) *)
  Fixpoint next_frame_loop (fuel : nat) (tid : list byte) (cap : nat) (st : rstate) (r : rd) : rres * rstate * rd :=
    match fuel with
    | O => (RFuel, st, r)
    | S f =>
      match decode_frame r with
      | (DErr e, _, r1) =>
        let st1 := if negb (r_weof st) && negb (err_is_closed e) then mark_broken st else st in
        if err_is_closed e then (REof, set_eof st1, r1)
        else (match e with FFuel => RFuel | _ => RErr end, st1, r1)
      | (DOk fr, _, r1) =>
        if negb (bytes_eqb (f_tid fr) tid) then next_frame_loop f tid cap st r1   (* other tunnel: dropped *)
        else if f_ty fr =? T_Data then
          match f_data fr with
          | [] => next_frame_loop f tid cap st r1
          | d => let n := Nat.min cap (length d) in                             (* n = copy(p, readBuf) *)
                 (RData (firstn cap d), if (length d <=? n)%nat then set_buf st [] 0 else set_buf st d n, r1)
          end
        else if (f_ty fr =? T_EOF) || (f_ty fr =? T_Close) then (REof, set_eof st, r1)
        else next_frame_loop f tid cap st r1                                     (* unknown type: dropped *)
      end
    end.

  Definition fs_read (tid : list byte) (cap : nat) (st : rstate) (r : rd) : rres * rstate * rd :=
    if r_eof st then (REof, st, r)
    else if (r_off st <? length (r_buf st))%nat then
      let got := firstn cap (skipn (r_off st) (r_buf st)) in     (* n = copy(p, readBuf[readOff:]) *)
      let off := (r_off st + length got)%nat in
      (RData got, if (length (r_buf st) <=? off)%nat then set_buf st [] 0 else set_buf st (r_buf st) off, r)
    else next_frame_loop (S (length (rest r))) tid cap st r.

  (* a consumer reading with buffer sizes caps (then dcap for ever) until the first non-data result *)
  Fixpoint read_loop (fuel : nat) (tid : list byte) (caps : list nat) (dcap : nat) (st : rstate) (r : rd)
    : list rres * rstate * rd :=
    match fuel with
    | O => ([RFuel], st, r)
    | S f =>
      match fs_read tid (hd dcap caps) st r with
      | (RData d, st', r') => let '(l, st'', r'') := read_loop f tid (tl caps) dcap st' r' in (RData d :: l, st'', r'')
      | (x, st', r') => ([x], st', r')
      end
    end.
  Definition read_stream (tid : list byte) (weof : bool) (caps : list nat) (dcap : nat) (s : list byte) (c : list nat)
    : list rres * rstate * rd :=
    read_loop (S (length s)) tid caps dcap (rinit weof) (mkrd s c).

  Definition data_of (l : list rres) : list byte :=
    flat_map (fun x => match x with RData d => d | _ => [] end) l.

  (* ---- FrameStream.Write / CloseWrite / Close ---- *)
  Definition data_frame (tid : list byte) (d : list byte) : frame := {| f_tid := tid; f_ty := T_Data; f_data := d |}.
  Fixpoint segments (fuel : nat) (p : list byte) : list (list byte) :=
    match fuel with
    | O => []
    | S f => match p with
             | [] => []
             | _ => firstn (N.to_nat MaxFrame) p :: segments f (skipn (N.to_nat MaxFrame) p)
             end
    end.
  (* returns the new writeEOF, the frames handed to WriteFrame, and the call's result *)
  Definition fs_write (tid : list byte) (weof : bool) (op : wop) : bool * list frame * wres :=
    match op with
    | WWrite p =>
      if weof then (weof, [], WClosedPipe)
      else match p with
           | [] => (weof, [], WOk 0)
           | _ => if MaxFrame <? lenN p
                  then (weof, map (data_frame tid) (segments (length p) p), WOk (lenN p))
                  else (weof, [data_frame tid p], WOk (lenN p))
           end
    | WCloseWrite => if weof then (true, [], WNil) else (true, [{| f_tid := tid; f_ty := T_EOF; f_data := [] |}], WNil)
    | WClose => if weof then (true, [], WNil) else (true, [{| f_tid := tid; f_ty := T_Close; f_data := [] |}], WNil)
    end.
  Fixpoint script_frames (tid : list byte) (weof : bool) (ops : list wop) : list frame :=
    match ops with
    | [] => []
    | op :: t => let '(w', fs, _) := fs_write tid weof op in fs ++ script_frames tid w' t
    end.
  (* the bytes the application handed to Write calls that succeeded *)
  Fixpoint accepted (ops : list wop) : list byte :=
    match ops with
    | [] => []
    | WWrite p :: t => p ++ accepted t
    | _ :: _ => []
    end.
  Definition has_close (ops : list wop) : bool :=
    existsb (fun o => match o with WWrite _ => false | _ => true end) ops.

  (* ---- frame-level specification of what a reader of tunnel tid is owed ---- *)
  Definition term_of (e : ferr) : rres :=
    if err_is_closed e then REof else match e with FFuel => RFuel | _ => RErr end.
  Fixpoint deliver (tid : list byte) (fs : list frame) (e : ferr) : list byte * rres :=
    match fs with
    | [] => ([], term_of e)
    | fr :: t =>
      if negb (bytes_eqb (f_tid fr) tid) then deliver tid t e
      else if f_ty fr =? T_Data then (f_data fr ++ fst (deliver tid t e), snd (deliver tid t e))
      else if (f_ty fr =? T_EOF) || (f_ty fr =? T_Close) then ([], REof)
      else deliver tid t e
    end.
  (* frames a reader of tid reacts to at all *)
  Definition relevant (tid : list byte) (fr : frame) : bool :=
    bytes_eqb (f_tid fr) tid && ((f_ty fr =? T_Data) || (f_ty fr =? T_EOF) || (f_ty fr =? T_Close)).
End CrossFrame.
Close Scope N_scope.

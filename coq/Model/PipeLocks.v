(* Model/PipeLocks.v — C02: the mutexes of tunnel.Bridge as resources.  A path is the sequence of acquire / release operations a
   method performs on sourceConnMu (0) and tunnelConnMu (1), in source order — Gen/C02.lock_path_* are read from the syntax
   tree of bridge.go / bridge_connection.go / bridge_forward.go on every run.  Any number of threads, each running one path;
   one step = one Lock (taken only if free; otherwise the thread stays where it is) or one Unlock.  RLock is treated as Lock
   (conservative: it can only add waiting).  Definitions only. *)
From TX Require Export Base.Threads.

Definition lock_op := (bool * nat)%type.          (* (true, l) = acquire l ; (false, l) = release l *)
Record lkthread := { k_tag : nat; k_ops : list lock_op }.
Definition holders := nat -> option nat.           (* lock -> tag of the thread that holds it *)
Definition hset (h : holders) (l : nat) (x : option nat) : holders := fun k => if Nat.eqb k l then x else h k.

Definition lkstep (t : lkthread) (h : holders) : lkthread * holders :=
  match k_ops t with
  | [] => (t, h)
  | (true, l) :: r =>
      match h l with
      | None => ({| k_tag := k_tag t; k_ops := r |}, hset h l (Some (k_tag t)))
      | Some _ => (t, h)                                  (* blocked *)
      end
  | (false, l) :: r => ({| k_tag := k_tag t; k_ops := r |}, hset h l None)
  end.

Definition lk_unfinished (t : lkthread) : bool := match k_ops t with [] => false | _ => true end.
Definition lk_blocked (t : lkthread) (h : holders) : bool :=
  match k_ops t with
  | (true, l) :: _ => match h l with Some _ => true | None => false end
  | _ => false
  end.
(* some thread still has work, and every such thread waits for a lock somebody holds *)
Definition deadlock (s : holders * list lkthread) : Prop :=
  (exists t, In t (snd s) /\ lk_unfinished t = true) /\
  (forall t, In t (snd s) -> lk_unfinished t = true -> lk_blocked t (fst s) = true).

(* a path that never acquires while it holds: Lock l; Unlock l; Lock l'; Unlock l'; ... *)
Fixpoint single_hold (ops : list lock_op) : bool :=
  match ops with
  | [] => true
  | (true, l) :: (false, l') :: r => Nat.eqb l l' && single_hold r
  | _ => false
  end.

Fixpoint lk_threads_from (i : nat) (paths : list (list lock_op)) : list lkthread :=
  match paths with
  | [] => []
  | p :: r => {| k_tag := i; k_ops := p |} :: lk_threads_from (S i) r
  end.
Definition lk_init (paths : list (list lock_op)) : holders * list lkthread := (fun _ => None, lk_threads_from 0 paths).
Definition lk_run (paths : list (list lock_op)) (sched : list nat) : holders * list lkthread :=
  run _ _ lkstep (lk_init paths) sched.

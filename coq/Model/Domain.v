(* Model/Domain.v — C19: HTTP domain ownership.
   Transcribes
     internal/cloud/repos/http_domain_mapping_repository.go  CreateMapping / DeleteMapping / UpdateMapping /
                                                             LookupByDomain / GetMapping / removeMappingKeys
     internal/cloud/repos/http_domain_mapping.go             IsExpired / IsActive / Validate
     internal/httpservice/modules/domainproxy/mapping_lookup.go  lookupMapping / lookupFromRepositoryWithRepo / extractDomain
     internal/httpservice/domain_registry.go                 LookupByHost (same suffix stripping as extractDomain)
   One thread step = ONE storage call of the repository (the granularity the property names); every storage
   call may fail (per-thread fault list).  The shared state is the store, split by key class (side condition
   SideC19.key_classes_disjoint): counter, index, records, per-client lists, removal guards.
   Variants:  dfix = true  : removal of a mapping goes through removeMappingKeys (rguard + "index still mine" test),
                             the repaired code (fixes/C19-delete-releases-later-owners-index.diff);
              dfix = false : the pinned code, unconditional index delete in DeleteMapping and in the rollbacks.
              atomic_incr = true : CounterStore.Incr is one atomic action (memory.Storage, Redis);
              atomic_incr = false: hybrid.Storage.Incr as it was before d88dca0 = cache.Get then cache.Set (two actions).
              cfix = true : generateMappingID first creates the counter key without a deadline (SetNX, ttl 0), then Incr
                            (fixes/C19-id-counter-never-expires.diff); cfix = false: Incr alone — the counter store gives a
                            counter it creates the 24 h default data TTL, after which ids restart at 1.
              ifirst = true: removeMappingKeys deletes the index entry first and the record last (the code's order: a failure in
                             between leaves the record, so a retry finds it and finishes); ifirst = false: record first —
                             a failure in between leaves an index entry nobody can ever remove.
              estop = true : in lookupMapping a failed repository read (storage error) ends the lookup with that error; estop = false:
                             it falls through to the legacy registry / cloud control like "not found".
              ucheck = true: UpdateMapping compares the payload's client_id with the stored one (immutable); ucheck = false: only the
                             name fields are compared.
   `own` and `log` are ghost fields (never read by the step function's decisions).
   Definitions only. *)
From TX Require Export Base.Threads.
From Coq Require Export NArith ZArith.
Local Open Scope N_scope.

Definition name := list N.          (* byte string *)
Definition id := N.                 (* the N of "hdm_N" *)
Definition client := Z.             (* int64 client id as it reaches the repository: 0 / negative = no real client *)
Bind Scope Z_scope with client.

Fixpoint name_eqb (a b : name) : bool :=
  match a, b with
  | [], [] => true
  | x :: a', y :: b' => N.eqb x y && name_eqb a' b'
  | _, _ => false
  end.

(* ---- extractDomain (mapping_lookup.go): cut at the LAST ':' if there is one ---- *)
Definition colon : N := 58%N.
Fixpoint cut_last_colon (r : list N) : option (list N) :=      (* r = the host reversed *)
  match r with
  | [] => None
  | c :: t => if N.eqb c colon then Some t else cut_last_colon t
  end.
Definition extractDomain (h : name) : name :=
  match cut_last_colon (rev h) with Some t => rev t | None => h end.

(* ---- records ---- *)
Inductive status := StActive | StInactive | StExpired.
Record mrec := { r_name : name; r_client : client; r_target : N; r_status : status; r_exp : Z }.      (* r_exp: int64 Unix instant, 0 = never; may be NEGATIVE *)

(* HTTPDomainMapping.IsExpired / IsActive; now and r_exp in seconds; ONLY r_exp = 0 means "never": any other instant before
   now — a negative one included — is expired *)
Definition is_expired (r : mrec) (now : N) : bool := negb (Z.eqb (r_exp r) 0) && Z.ltb (r_exp r) (Z.of_N now).

(* the expiry the create adapter stores: time.Now().Unix() + int64(ttl) in two's-complement int64 (wraps) *)
Definition two63 : Z := 9223372036854775808%Z.
Definition wrap64 (z : Z) : Z := ((z + two63) mod (2 * two63) - two63)%Z.
Definition adapter_expiry (now : N) (ttl : Z) : Z := wrap64 (Z.of_N now + ttl).
Definition is_active (r : mrec) (now : N) : bool :=
  match r_status r with StActive => negb (is_expired r now) | _ => false end.

(* legacy PortMapping as seen by stages 2 and 3 of lookupMapping *)
Record pmap := { p_id : N; p_client : client; p_target : N; p_active : bool; p_revoked : bool; p_exp : N }.

(* ---- error codes (projection of coreerrors codes) ---- *)
Definition EValidation : N := 2%N.
Definition EStorage : N := 3%N.
Definition EExists : N := 4%N.
Definition EForbidden : N := 5%N.
Definition EConflict : N := 6%N.
Definition ENotFound : N := 7%N.
Definition EInvalidReq : N := 8%N.
Definition EUnavailable : N := 10%N.

Inductive res :=
| RCreated (i : id)
| RDeleted
| RUpdated
| RRouted (src : N) (h : name) (i : id) (c : client) (t : N)    (* src 1 repository, 2 registry, 3 cloud control; h = the Host looked up *)
| RReset
| RCleaned (n : N)                          (* CleanupExpiredMappings: number of mappings reported as cleaned *)
| RErr (code : N).

(* ---- ghost events ---- *)
Inductive ev :=
| EvClaim (n : name) (i : id) (c : client)       (* SetNX on the index of n succeeded for mapping i of client c *)
| EvRelease (n : name) (i : id) (c : client)     (* the index entry of n was deleted on behalf of mapping i by client c *)
| EvWrite (i : id) (c : client) (t : N).         (* record of mapping i written by client c with target t *)

Fixpoint holder (n : name) (l : list ev) : option id :=     (* newest first *)
  match l with
  | [] => None
  | EvClaim n' i _ :: r => if name_eqb n n' then Some i else holder n r
  | EvRelease n' _ _ :: r => if name_eqb n n' then None else holder n r
  | EvWrite _ _ _ :: r => holder n r
  end.

Record shared := {
  next : N;                              (* tunnox:http_domain:next_id (0 when the key does not exist) *)
  cexists : bool;                        (* the counter key exists *)
  cttl : bool;                           (* ... and carries a deadline *)
  idx : name -> option id;               (* tunnox:http_domain:index:<full domain> *)
  recs : id -> option mrec;              (* tunnox:http_domain:mapping:<id> *)
  lists : client -> list id;             (* tunnox:http_domain:client:<client> *)
  glist : list id;                       (* tunnox:http_domain:mappings:list (auxiliary index read by the expiry cleanup) *)
  rguard : id -> bool;                    (* tunnox:http_domain:removing:<id> *)
  own : id -> option (client * name);    (* ghost: who drew this id, for which name *)
  log : list ev }.                       (* ghost: newest first *)

Definition upd_name {A} (m : name -> A) (k : name) (v : A) : name -> A := fun x => if name_eqb x k then v else m x.
Definition upd_n {A} (m : N -> A) (k : N) (v : A) : N -> A := fun x => if N.eqb x k then v else m x.
Definition upd_z {A} (m : Z -> A) (k : Z) (v : A) : Z -> A := fun x => if Z.eqb x k then v else m x.

(* ---- scripts ---- *)
Inductive idref := Mine (k : nat) | Abs (i : id).
Inductive op :=
| OCreate (sub base : name) (tgt : N)
| ODelete (r : idref)
| OUpdate (k : nat) (st : status) (exp : Z) (tgt : N)
| OLookup (host : name) (now : N)
| OCleanup (now : N)                      (* CleanupExpiredMappings: an internal deleter acting with each expired mapping's own client id *)
| OResetCounter
| OUpdateF (i : id) (vc : option client) (vn : option name) (st : status) (exp : Z) (tgt : N).
    (* repository-level update with a forged payload: GetMapping(i), then UpdateMapping of that struct with the client id
       (vc) and / or a name field (vn) replaced *)                          (* environment: the counter key disappears (24h TTL of memory.Storage.IncrBy, restart of a cache-only counter) *)

Inductive rmkind := KRoll | KDel | KClean (rest : list (id * client)) (cnt : N).
Inductive rmstage := RmGuard | RmGetIdx | RmDelIdx | RmDelRec | RmRelease.

Inductive pcT :=
| Idle
| PCIncr (sub base : name) (tgt : N)                   (* counter key ensured, Incr pending *)
| PCIncrW (v : N) (sub base : name) (tgt : N)                 (* non-atomic Incr: value read, write pending *)
| PCSetNX (i : id) (n : name) (tgt : N)
| PCSetRec (i : id) (n : name) (tgt : N)
| PCAppend (i : id) (n : name)
| PCRm (k : rmkind) (who : client) (i : id) (n : name) (st : rmstage) (err : option N)   (* who = the client id DeleteMapping was called with *)
| PCRbRec (i : id) (n : name)                          (* pinned rollback: Delete record *)
| PCRbIdx (i : id) (n : name)                          (* pinned rollback: Delete index (unconditional) *)
| PCDIdx (i : id) (n : name)                           (* pinned DeleteMapping: Delete index (unconditional) *)
| PCDRec (i : id)
| PCDList (i : id)
| PCUSet (i : id) (n : name) (who : client) (st : status) (exp : Z) (tgt : N)   (* who = the client id in the payload *)
| PCLRec (h : name) (n : name) (i : id) (now : N)
| PCClScan (now : N) (todo : list id) (acc : list (id * client))      (* ListAllMappings: GetMapping of the next listed id *)
| PCClDGet (dels : list (id * client)) (cnt : N)                      (* DeleteMapping(id, snapshot's client): Get record *)
| PCClDList (c : client) (i : id) (rest : list (id * client)) (cnt : N)
| PCUFGet (i : id) (n : name) (c : client) (st : status) (exp : Z) (tgt : N).   (* forged payload built; UpdateMapping's Get pending *)

Record thr := {
  cl : client;
  ops : list op;
  faults : list bool;            (* one flag per storage call of this thread: true = the call fails *)
  pc : pcT;
  held : list (id * name);       (* mappings this caller created successfully (its copies of the structs), newest first *)
  out : list res }.              (* results, newest first *)

(* ---- atomic actions on the store ---- *)
Inductive act :=
| ANone
| AIncr (c : client) (n : name)
| ASetNext (v : N) (c : client) (n : name)      (* non-atomic Incr: write v, ghost-own v *)
| AReset
| AEnsure                                      (* SetNX(counter key, 0, never expires) *)
| AClaim (n : name) (i : id) (c : client)
| AWrite (i : id) (r : mrec)
| AAppend (c : client) (i : id)
| ARemove (c : client) (i : id)
| AGRemove (i : id)                            (* RemoveFromList on the global list only *)
| ATake (i : id)
| ADrop (i : id)
| AUnidx (n : name) (i : id) (c : client)
| ADelRec (i : id).

Definition remove_id (i : id) (l : list id) : list id := filter (fun x => negb (N.eqb x i)) l.

Definition exec (a : act) (s : shared) : shared :=
  match a with
  | ANone => s
  | AIncr c n =>
      {| next := next s + 1; cexists := true; cttl := (if cexists s then cttl s else true); glist := glist s; idx := idx s; recs := recs s; lists := lists s; rguard := rguard s;
         own := upd_n (own s) (next s + 1) (Some (c, n)); log := log s |}
  | ASetNext v c n =>
      {| next := v; cexists := true; cttl := true; glist := glist s; idx := idx s; recs := recs s; lists := lists s; rguard := rguard s;
         own := upd_n (own s) v (Some (c, n)); log := log s |}
  | AReset =>
      (* the clock passes every deadline of the counter key: it vanishes only if it has one *)
      if cexists s && cttl s
      then {| next := 0; cexists := false; cttl := false; glist := glist s; idx := idx s; recs := recs s; lists := lists s; rguard := rguard s;
              own := own s; log := log s |}
      else s
  | AEnsure =>
      if cexists s then s
      else {| next := next s; cexists := true; cttl := false; glist := glist s; idx := idx s; recs := recs s; lists := lists s; rguard := rguard s;
              own := own s; log := log s |}
  | AClaim n i c =>
      {| next := next s; cexists := cexists s; cttl := cttl s; glist := glist s; idx := upd_name (idx s) n (Some i); recs := recs s; lists := lists s; rguard := rguard s;
         own := own s; log := EvClaim n i c :: log s |}
  | AWrite i r =>
      {| next := next s; cexists := cexists s; cttl := cttl s; glist := glist s; idx := idx s; recs := upd_n (recs s) i (Some r); lists := lists s; rguard := rguard s;
         own := own s; log := EvWrite i (r_client r) (r_target r) :: log s |}
  | AAppend c i =>
      {| next := next s; cexists := cexists s; cttl := cttl s; glist := glist s ++ [i]; idx := idx s; recs := recs s; lists := upd_z (lists s) c (lists s c ++ [i]); rguard := rguard s;
         own := own s; log := log s |}
  | ARemove c i =>
      {| next := next s; cexists := cexists s; cttl := cttl s; glist := remove_id i (glist s); idx := idx s; recs := recs s; lists := upd_z (lists s) c (remove_id i (lists s c)); rguard := rguard s;
         own := own s; log := log s |}
  | AGRemove i =>
      {| next := next s; cexists := cexists s; cttl := cttl s; glist := remove_id i (glist s); idx := idx s; recs := recs s; lists := lists s;
         rguard := rguard s; own := own s; log := log s |}
  | ATake i =>
      {| next := next s; cexists := cexists s; cttl := cttl s; glist := glist s; idx := idx s; recs := recs s; lists := lists s; rguard := upd_n (rguard s) i true;
         own := own s; log := log s |}
  | ADrop i =>
      {| next := next s; cexists := cexists s; cttl := cttl s; glist := glist s; idx := idx s; recs := recs s; lists := lists s; rguard := upd_n (rguard s) i false;
         own := own s; log := log s |}
  | AUnidx n i c =>
      {| next := next s; cexists := cexists s; cttl := cttl s; glist := glist s; idx := upd_name (idx s) n None; recs := recs s; lists := lists s; rguard := rguard s;
         own := own s; log := EvRelease n i c :: log s |}
  | ADelRec i =>
      {| next := next s; cexists := cexists s; cttl := cttl s; glist := glist s; idx := idx s; recs := upd_n (recs s) i None; lists := lists s; rguard := rguard s;
         own := own s; log := log s |}
  end.

Definition dot : N := 46%N.
Definition full_domain (sub base : name) : name := sub ++ dot :: base.

Definition next_fault (t : thr) : bool * list bool :=
  match faults t with [] => (false, []) | f :: fs => (f, fs) end.

Definition goto (t : thr) (fs : list bool) (p : pcT) : thr :=
  {| cl := cl t; ops := ops t; faults := fs; pc := p; held := held t; out := out t |}.
Definition finish (t : thr) (fs : list bool) (r : res) : thr :=
  {| cl := cl t; ops := tl (ops t); faults := fs; pc := Idle; held := held t; out := r :: out t |}.
Definition finish_created (t : thr) (fs : list bool) (i : id) (n : name) : thr :=
  {| cl := cl t; ops := tl (ops t); faults := fs; pc := Idle; held := (i, n) :: held t; out := RCreated i :: out t |}.

Definition resolve (t : thr) (r : idref) : id :=
  match r with Abs i => i | Mine k => fst (nth k (held t) (0%N, [])) end.

Section D.
  Variable dfix : bool.                         (* repaired removal path *)
  Variable atomic_incr : bool.
  Variable cfix : bool.                         (* the counter key is created without a deadline before Incr *)
  Variable ifirst : bool.                       (* removeMappingKeys deletes the index entry BEFORE the record (the code's order) *)
  Variable estop : bool.                        (* lookupMapping: a repository error other than MAPPING_NOT_FOUND ends the lookup (the code) *)
  Variable ucheck : bool.                       (* UpdateMapping refuses a payload whose client_id differs from the stored one (the code) *)
  Variables reg cloud : name -> option pmap.    (* DomainRegistry / CloudControl contents (static environment) *)

  (* status checks shared by stages 2 and 3 of lookupMapping *)
  Definition legacy_result (src : N) (h : name) (p : pmap) (now : N) : res :=
    if negb (p_active p) then RErr EUnavailable
    else if p_revoked p then RErr EForbidden
    else if negb (N.eqb (p_exp p) 0) && N.ltb (p_exp p) now then RErr EForbidden
    else RRouted src h (p_id p) (p_client p) (p_target p).

  Definition fallback (h n : name) (now : N) : res :=
    match reg n with
    | Some p => legacy_result 2 h p now
    | None => match cloud n with
              | Some p => legacy_result 3 h p now
              | None => RErr ENotFound
              end
    end.

  (* HTTPDomainMapping.Validate on what CreateMapping / UpdateMapping build *)
  Definition valid_create (c : client) (sub : name) (tgt : N) : bool :=
    Z.ltb 0 c && negb (match sub with [] => true | _ => false end) && negb (N.eqb tgt 0).

  Definition after_incr (t : thr) (fs : list bool) (i : id) (sub base : name) (tgt : N) : thr :=
    if valid_create (cl t) sub tgt then goto t fs (PCSetNX i (full_domain sub base) tgt)
    else finish t fs (RErr EValidation).

  (* where a removal ends: rollbacks always report the storage error of the create; DeleteMapping reports its own *)
  (* CleanupExpiredMappings: next mapping to delete, or the end of the run *)
  Definition cl_del (t : thr) (fs : list bool) (dels : list (id * client)) (cnt : N) : thr :=
    match dels with [] => finish t fs (RCleaned cnt) | _ => goto t fs (PCClDGet dels cnt) end.
  Definition cl_scan_next (t : thr) (fs : list bool) (now : N) (todo : list id) (acc : list (id * client)) : thr :=
    match todo with [] => cl_del t fs (rev acc) 0 | _ => goto t fs (PCClScan now todo acc) end.

  Definition rm_end (t : thr) (fs : list bool) (k : rmkind) (who : client) (i : id) (err : option N) : thr :=
    match k, err with
    | KRoll, _ => finish t fs (RErr EStorage)
    | KDel, Some e => finish t fs (RErr e)
    | KDel, None => goto t fs (PCDList i)
    | KClean rest cnt, Some _ => cl_del t fs rest cnt                  (* the error is swallowed, the mapping is not counted *)
    | KClean rest cnt, None => goto t fs (PCClDList who i rest cnt)
    end.

  Definition rollback_after_setrec (t : thr) (fs : list bool) (i : id) (n : name) : thr :=
    if dfix then goto t fs (PCRm KRoll (cl t) i n RmGuard None) else goto t fs (PCRbIdx i n).
  Definition rollback_after_append (t : thr) (fs : list bool) (i : id) (n : name) : thr :=
    if dfix then goto t fs (PCRm KRoll (cl t) i n RmGuard None) else goto t fs (PCRbRec i n).

  (* CounterStore.Incr *)
  Definition incr_step (t : thr) (fs : list bool) (f : bool) (s : shared) (sub base : name) (tgt : N) : thr * act :=
    if atomic_incr then
      if f then (finish t fs (RErr EStorage), ANone)
      else (after_incr t fs (next s + 1) sub base tgt, AIncr (cl t) (full_domain sub base))
    else
      (* the former hybrid.Incr: cache.Get *)
      if f then (finish t fs (RErr EStorage), ANone)
      else (goto t fs (PCIncrW (next s) sub base tgt), ANone).

  Definition decide (t : thr) (s : shared) : thr * act :=
    let '(f, fs) := next_fault t in
    match pc t with
    | Idle =>
        match ops t with
        | [] => (t, ANone)
        | OCreate sub base tgt :: _ =>
            if cfix then
              (* SetNX(counter key, 0, ttl 0) *)
              if f then (finish t fs (RErr EStorage), ANone) else (goto t fs (PCIncr sub base tgt), AEnsure)
            else incr_step t fs f s sub base tgt
        | ODelete r :: _ =>
            let i := resolve t r in
            if f then (finish t fs (RErr EStorage), ANone)
            else match recs s i with
                 | None => (finish t fs RDeleted, ANone)                         (* already gone: success *)
                 | Some m =>
                     if negb (Z.eqb (r_client m) (cl t)) then (finish t fs (RErr EForbidden), ANone)
                     else if dfix then (goto t fs (PCRm KDel (cl t) i (r_name m) RmGuard None), ANone)
                     else (goto t fs (PCDIdx i (r_name m)), ANone)
                 end
        | OUpdate k st exp tgt :: _ =>
            let '(i, n) := nth k (held t) (0%N, []) in
            if f then (finish t fs (RErr EStorage), ANone)
            else match recs s i with
                 | None => (finish t fs (RErr ENotFound), ANone)
                 | Some m =>
                     if negb (name_eqb (r_name m) n && Z.eqb (r_client m) (cl t)) then (finish t fs (RErr EInvalidReq), ANone)
                     else if N.eqb tgt 0 then (finish t fs (RErr EValidation), ANone)
                     else (goto t fs (PCUSet i n (cl t) st exp tgt), ANone)
                 end
        | OLookup h now :: _ =>
            let n := extractDomain h in
            if f then (finish t fs (if estop then RErr EStorage else fallback h n now), ANone)
            else match idx s n with
                 | None => (finish t fs (fallback h n now), ANone)
                 | Some i => (goto t fs (PCLRec h n i now), ANone)
                 end
        | OCleanup now :: _ =>
            (* ListAllMappings: GetList of the global list *)
            if f then (finish t fs (RErr EStorage), ANone)
            else (cl_scan_next t fs now (glist s) [], ANone)
        | OResetCounter :: _ => (finish t fs RReset, AReset)
        | OUpdateF i vc vn st exp tgt :: _ =>
            (* GetMapping(i): the caller's copy of the struct, with the forged field(s) *)
            if f then (finish t fs (RErr EStorage), ANone)
            else match recs s i with
                 | None => (finish t fs (RErr ENotFound), ANone)
                 | Some m => (goto t fs (PCUFGet i (match vn with Some n2 => n2 | None => r_name m end)
                                                   (match vc with Some c2 => c2 | None => r_client m end) st exp tgt), ANone)
                 end
        end
    | PCIncr sub base tgt => incr_step t fs f s sub base tgt
    | PCIncrW v sub base tgt =>
        (* hybrid.Incr: cache.Set(count+1) *)
        if f then (finish t fs (RErr EStorage), ANone)
        else (after_incr t fs (v + 1) sub base tgt, ASetNext (v + 1) (cl t) (full_domain sub base))
    | PCSetNX i n tgt =>
        if f then (finish t fs (RErr EStorage), ANone)
        else match idx s n with
             | Some _ => (finish t fs (RErr EExists), ANone)
             | None => (goto t fs (PCSetRec i n tgt), AClaim n i (cl t))
             end
    | PCSetRec i n tgt =>
        if f then (rollback_after_setrec t fs i n, ANone)
        else (goto t fs (PCAppend i n),
              AWrite i {| r_name := n; r_client := cl t; r_target := tgt; r_status := StActive; r_exp := 0 |})
    | PCAppend i n =>
        if f then (rollback_after_append t fs i n, ANone)
        else (finish_created t fs i n, AAppend (cl t) i)
    (* ---- removeMappingKeys (repaired code) ---- *)
    | PCRm k who i n RmGuard _ =>
        if f then (rm_end t fs k who i (Some EStorage), ANone)
        else if rguard s i then (rm_end t fs k who i (Some EConflict), ANone)
        else (goto t fs (PCRm k who i n (if ifirst then RmGetIdx else RmDelRec) None), ATake i)
    | PCRm k who i n RmGetIdx _ =>
        if f then (goto t fs (PCRm k who i n RmRelease (Some EStorage)), ANone)
        else match idx s n with
             | Some j => if N.eqb j i then (goto t fs (PCRm k who i n RmDelIdx None), ANone)
                         else (goto t fs (PCRm k who i n (if ifirst then RmDelRec else RmRelease) None), ANone)
             | None => (goto t fs (PCRm k who i n (if ifirst then RmDelRec else RmRelease) None), ANone)
             end
    | PCRm k who i n RmDelIdx _ =>
        if f then (goto t fs (PCRm k who i n RmRelease (Some EStorage)), ANone)
        else (goto t fs (PCRm k who i n (if ifirst then RmDelRec else RmRelease) None), AUnidx n i who)
    | PCRm k who i n RmDelRec _ =>
        if f then (goto t fs (PCRm k who i n RmRelease (Some EStorage)), ANone)
        else (goto t fs (PCRm k who i n (if ifirst then RmRelease else RmGetIdx) None), ADelRec i)
    | PCRm k who i n RmRelease err =>
        (* deferred Delete of the rguard; its error is ignored (the rguard then stays until its TTL) *)
        if f then (rm_end t fs k who i err, ANone)
        else (rm_end t fs k who i err, ADrop i)
    (* ---- pinned code ---- *)
    | PCRbRec i n =>
        if f then (goto t fs (PCRbIdx i n), ANone) else (goto t fs (PCRbIdx i n), ADelRec i)
    | PCRbIdx i n =>
        if f then (finish t fs (RErr EStorage), ANone) else (finish t fs (RErr EStorage), AUnidx n i (cl t))
    | PCDIdx i n =>
        if f then (finish t fs (RErr EStorage), ANone) else (goto t fs (PCDRec i), AUnidx n i (cl t))
    | PCDRec i =>
        if f then (finish t fs (RErr EStorage), ANone) else (goto t fs (PCDList i), ADelRec i)
    | PCDList i =>
        (* RemoveFromList; an error is ignored *)
        if f then (finish t fs RDeleted, AGRemove i) else (finish t fs RDeleted, ARemove (cl t) i)
    | PCUSet i n who st exp tgt =>
        if f then (finish t fs (RErr EStorage), ANone)
        else (finish t fs RUpdated,
              AWrite i {| r_name := n; r_client := who; r_target := tgt; r_status := st; r_exp := exp |})
    | PCLRec h n i now =>
        if f then (finish t fs (if estop then RErr EStorage else fallback h n now), ANone)
        else match recs s i with
             | None => (finish t fs (fallback h n now), ANone)                  (* MAPPING_NOT_FOUND: next stages *)
             | Some m =>
                 if is_active m now then (finish t fs (RRouted 1 h i (r_client m) (r_target m)), ANone)
                 else if is_expired m now then (finish t fs (RErr EForbidden), ANone)
                 else (finish t fs (RErr EUnavailable), ANone)
             end
    (* ---- CleanupExpiredMappings ---- *)
    | PCClScan now todo acc =>
        match todo with
        | [] => (cl_del t fs (rev acc) 0, ANone)
        | i :: rest =>
            if f then (cl_scan_next t fs now rest acc, ANone)                         (* other errors: skipped *)
            else match recs s i with
                 | None => (cl_scan_next t fs now rest acc, AGRemove i)               (* stale list entry: dropped *)
                 | Some m => (cl_scan_next t fs now rest (if is_expired m now then (i, r_client m) :: acc else acc), ANone)
                 end
        end
    | PCClDGet dels cnt =>
        match dels with
        | [] => (finish t fs (RCleaned cnt), ANone)
        | (i, c) :: rest =>
            if f then (cl_del t fs rest cnt, ANone)
            else match recs s i with
                 | None => (cl_del t fs rest (cnt + 1), ANone)                        (* already gone: counted as cleaned *)
                 | Some m =>
                     if negb (Z.eqb (r_client m) c) then (cl_del t fs rest cnt, ANone)
                     else (goto t fs (PCRm (KClean rest cnt) c i (r_name m) RmGuard None), ANone)   (* repaired removal path only *)
                 end
        end
    | PCClDList c i rest cnt =>
        if f then (cl_del t fs rest (cnt + 1), AGRemove i) else (cl_del t fs rest (cnt + 1), ARemove c i)
    (* ---- UpdateMapping with a caller-built payload {id i, name n, client c} ---- *)
    | PCUFGet i n c st exp tgt =>
        if f then (finish t fs (RErr EStorage), ANone)
        else match recs s i with
             | None => (finish t fs (RErr ENotFound), ANone)
             | Some m =>
                 (* immutable fields: subdomain / base domain / full domain (one name here) and client_id *)
                 if negb (name_eqb (r_name m) n && (if ucheck then Z.eqb (r_client m) c else true))
                 then (finish t fs (RErr EInvalidReq), ANone)
                 else if N.eqb tgt 0 || negb (Z.ltb 0 c) then (finish t fs (RErr EValidation), ANone)
                 else (goto t fs (PCUSet i n c st exp tgt), ANone)
             end
    end.

  Definition dstep (t : thr) (s : shared) : thr * shared :=
    let '(t', a) := decide t s in (t', exec a s).

  Definition drun (s : shared) (ts : list thr) (sched : list nat) : shared * list thr :=
    run _ _ dstep (s, ts) sched.

  (* the whole lookup evaluated on one state (both reads at once) *)
  Definition lookup_now (s : shared) (h : name) (now : N) : res :=
    let n := extractDomain h in
    match idx s n with
    | None => fallback h n now
    | Some i =>
        match recs s i with
        | None => fallback h n now
        | Some m =>
            if is_active m now then RRouted 1 h i (r_client m) (r_target m)
            else if is_expired m now then RErr EForbidden else RErr EUnavailable
        end
    end.
End D.

Definition empty_store : shared :=
  {| next := 0; cexists := false; cttl := false; glist := []; idx := fun _ => None; recs := fun _ => None; lists := fun _ => []; rguard := fun _ => false;
     own := fun _ => None; log := [] |}.
Definition init_thr (c : client) (o : list op) (f : list bool) : thr :=
  {| cl := c; ops := o; faults := f; pc := Idle; held := []; out := [] |}.

(* ids whose removal guard a thread holds *)
Definition guards_of (t : thr) : list id :=
  match pc t with
  | PCRm _ _ i _ RmGuard _ => []
  | PCRm _ _ i _ _ _ => [i]
  | _ => []
  end.
Definition all_guards (ls : list thr) : list id := flat_map guards_of ls.

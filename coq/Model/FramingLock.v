(* Model/FramingLock.v — concurrent WritePacket callers on one StreamProcessor (stream_processor_write.go):
   a packet goes out as several transport writes (type | length | body) made while holding writeLock
   (acquireWriteLock ... defer Unlock).  One thread step = one lock operation or one transport write.
   `locked = false` models a writer that skips the lock (the shape of seeded change C01-6). Definitions only. *)
From TX Require Export Base.Threads Base.Bytes.

Record wth := {
  w_locked : bool;                     (* does this caller take writeLock? (true in the real code, always) *)
  w_todo : list (list (list byte));    (* packets still to write, each as its list of transport writes *)
  w_cur : list (list byte);            (* remaining transport writes of the packet being written *)
  w_pkt : list byte;                   (* ghost: full encoding of the packet being written *)
  w_written : list byte;               (* ghost: bytes of it already on the wire *)
  w_holds : bool }.                    (* inside WritePacket (holding writeLock when w_locked) *)

Record wsh := { lock : bool; wire : list byte;
                g_done : list (list byte);   (* ghost: packets completed so far, in completion order *)
                g_all : list (list byte) }.  (* ghost: encodings of all packets ever started, for the statement *)

Definition wstep (t : wth) (s : wsh) : wth * wsh :=
  if w_holds t then
    match w_cur t with
    | c :: cs =>  (* one transport write *)
        ({| w_locked := w_locked t; w_todo := w_todo t; w_cur := cs; w_pkt := w_pkt t;
            w_written := w_written t ++ c; w_holds := true |},
         {| lock := lock s; wire := wire s ++ c; g_done := g_done s; g_all := g_all s |})
    | [] =>       (* return: release the lock *)
        ({| w_locked := w_locked t; w_todo := w_todo t; w_cur := []; w_pkt := []; w_written := []; w_holds := false |},
         {| lock := if w_locked t then false else lock s; wire := wire s;
            g_done := g_done s ++ [w_pkt t]; g_all := g_all s |})
    end
  else
    match w_todo t with
    | [] => (t, s)
    | p :: ps =>
        if w_locked t && lock s then (t, s)        (* blocked on writeLock *)
        else ({| w_locked := w_locked t; w_todo := ps; w_cur := p; w_pkt := concat p; w_written := []; w_holds := true |},
              {| lock := if w_locked t then true else lock s; wire := wire s; g_done := g_done s;
                 g_all := g_all s ++ [concat p] |})
    end.

Definition winit (locked : bool) (pkts : list (list (list byte))) : wth :=
  {| w_locked := locked; w_todo := pkts; w_cur := []; w_pkt := []; w_written := []; w_holds := false |}.
Definition wsh0 : wsh := {| lock := false; wire := []; g_done := []; g_all := [] |}.

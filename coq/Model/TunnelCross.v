(* Model/TunnelCross.v — the cluster-wide waiting-tunnel record as shared state (property C04, two nodes).  Definitions only.
   Node A holds the bridges; the routing table (shared storage) holds one record per tunnel id: "tunnel T waits on node A
   for mapping m".  A target arriving on ANOTHER node B is validated for the mapping it names, compared with the RECORD
   (handleTunnelOpen routing branch / processCrossNodeForward) and forwarded; node A's CrossNodeListener.handleTargetReady
   wires it into whatever bridge is registered under T — node A trusts node B, it compares nothing.
   So everything rests on: the record of T names the mapping of the bridge registered under T on that node.
   Threads (one TunnelOpen each), atomic actions at the granularity of server_bridge.go startSourceBridge:
     source-side request on node A (listening client):
        XLookup  validate; tunnelBridges[T] and routing lookup (present -> the create path is not taken)
        HEAD order (rec_first = false):   XStep1  bridge-exists check + insert     XStep2  write the record
        rec_first = true:                 XStep1  write the record                 XStep2  bridge-exists check + insert
     target-side request on node B:
        XLookup  validate; look the record up; mapping agreement
        XStep1   forward: node A attaches it to the bridge registered under T *)
From TX Require Import Base.Threads Model.TunnelOpen Model.TunnelRace.
From Coq Require Import List NArith Bool.
Import ListNotations.
Open Scope N_scope.

Record xvariant := { rec_first : bool }.
Definition x_head : xvariant := {| rec_first := false |}.
Definition x_record_before_check : xvariant := {| rec_first := true |}.

Record xshared := {
  x_tun : tid -> option bridge;            (* node A: tunnelBridges *)
  x_rec : tid -> option mid;               (* routing table: records pointing at node A *)
  x_log : list (connref * tid * bool) }.   (* ghost: attachments, with "entitled to THIS bridge's mapping" *)

Inductive xkind := KSource | KRemote.
Inductive xpc := XLookup | XStep1 | XStep2 | XDone.
Record xlocal := { xl_kind : xkind; xl_pc : xpc; xl_cr : connref; xl_conn : conn_id; xl_req : request }.

Definition xset (lo : xlocal) (pc : xpc) : xlocal :=
  {| xl_kind := xl_kind lo; xl_pc := pc; xl_cr := xl_cr lo; xl_conn := xl_conn lo; xl_req := xl_req lo |}.

Definition xvalid (d : db) (lo : xlocal) : bool :=
  c_registered (xl_conn lo) && validate current d (c_client (xl_conn lo)) (xl_req lo).

Definition xinsert (sh : xshared) (lo : xlocal) (ok : bool) : xshared :=
  let r := xl_req lo in
  {| x_tun := upd (x_tun sh) (r_tid r) (Some {| b_mid := r_mid r; b_src := Some (xl_cr lo); b_tgt := None |});
     x_rec := x_rec sh; x_log := (xl_cr lo, r_tid r, ok) :: x_log sh |}.
Definition xrecord (sh : xshared) (lo : xlocal) : xshared :=
  {| x_tun := x_tun sh; x_rec := upd (x_rec sh) (r_tid (xl_req lo)) (Some (r_mid (xl_req lo))); x_log := x_log sh |}.

Definition xstep (xv : xvariant) (d : db) (lo : xlocal) (sh : xshared) : xlocal * xshared :=
  let c := xl_conn lo in let r := xl_req lo in let t := r_tid r in
  let ok := entitledb d c r (r_mid r) in
  match xl_kind lo, xl_pc lo with
  | _, XDone => (lo, sh)
  | KSource, XLookup =>
      if negb (xvalid d lo) then (xset lo XDone, sh)
      else if negb (is_listen d c r) then (xset lo XDone, sh)          (* target-side requests on node A: Model/TunnelRace.v *)
      else match x_tun sh t, x_rec sh t with
           | None, None => (xset lo XStep1, sh)
           | _, _ => (xset lo XDone, sh)                                 (* bridge or record present: not the create path *)
           end
  | KSource, XStep1 =>
      if rec_first xv then (xset lo XStep2, xrecord sh lo)
      else match x_tun sh t with
           | Some _ => (xset lo XDone, sh)                               (* "tunnel already exists" *)
           | None => (xset lo XStep2, xinsert sh lo ok)
           end
  | KSource, XStep2 =>
      if rec_first xv then
        match x_tun sh t with
        | Some _ => (xset lo XDone, sh)                                  (* "tunnel already exists" — after the record was overwritten *)
        | None => (xset lo XDone, xinsert sh lo ok)
        end
      else (xset lo XDone, xrecord sh lo)
  | KRemote, XLookup =>
      if negb (xvalid d lo) then (xset lo XDone, sh)
      else match x_rec sh t with
           | Some m => if N.eqb m (r_mid r) then (xset lo XStep1, sh) else (xset lo XDone, sh)
           | None => (xset lo XDone, sh)
           end
  | KRemote, XStep1 =>
      match x_tun sh t with
      | Some b => (xset lo XDone,
                   {| x_tun := upd (x_tun sh) t (Some {| b_mid := b_mid b; b_src := b_src b; b_tgt := Some (xl_cr lo) |});
                      x_rec := x_rec sh; x_log := (xl_cr lo, t, ok && N.eqb (b_mid b) (r_mid r)) :: x_log sh |})
      | None => (xset lo XDone, sh)
      end
  | KRemote, XStep2 => (xset lo XDone, sh)
  end.

Definition xstate := st xshared xlocal.
Definition xrun (xv : xvariant) (d : db) (s : xstate) (sched : list nat) : xstate := Threads.run xshared xlocal (xstep xv d) s sched.
Definition xthread (k : xkind) (cr : connref) (c : conn_id) (r : request) : xlocal :=
  {| xl_kind := k; xl_pc := XLookup; xl_cr := cr; xl_conn := c; xl_req := r |}.
Definition xinit (ths : list xlocal) : xstate := ({| x_tun := fun _ => None; x_rec := fun _ => None; x_log := [] |}, ths).

(* the bridge registered under t belongs to mapping m *)
Definition xhas (sh : xshared) (t : tid) (m : mid) : Prop := exists b, x_tun sh t = Some b /\ b_mid b = m.
Close Scope N_scope.

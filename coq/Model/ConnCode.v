(* Model/ConnCode.v — C06: connection codes (executable definitions only).

   Transcribed from
     internal/cloud/services/conncode/activation.go   ActivateConnectionCode / RevokeConnectionCode
     internal/cloud/repos/connection_code_repository.go   GetByCode / Update / Claim / ReleaseClaim
     internal/cloud/models/tunnel_connection_code.go   IsValidForActivation / Activate / Revoke / TimeRemaining
     internal/cloud/services/port_mapping_service.go   CreatePortMapping / DeletePortMapping
     internal/cloud/repos/mapping_repository.go   CreatePortMapping / DeletePortMapping / GetClientPortMappings

   One thread = one call (ActivateConnectionCode, RevokeConnectionCode) on its own service instance ("node"),
   all over one shared store; `KTick` is the clock passing the code's ActivationExpiresAt (the code keys and the
   claim key carry TTL = remaining activation time, so they vanish at the same instant).
   One step = ONE storage call followed by the local computation up to the next storage call
   (Base/Threads.v); the pc names the storage call the thread is parked at.
   Granularity notes: reads of a mapping's own main record (quota scan, create-existence check, first line of
   DeletePortMapping) are merged into the preceding action; id generation is abstracted to "caller i gets the
   fresh id i" (uniqueness of generated ids is C15).
   Faults: `l_fault = Some k` makes the k-th FORWARD write of the thread (Set / SetNX / AppendToList) fail;
   rollback, cleanup and release calls (RemoveFromList / Delete) do not fail (single-fault hypothesis).

   Two variants of the code are modelled:
     Current = the tree with fixes/C06-atomic-claim.diff and fixes/C06-create-rollback-main-record.diff applied
              and with the per-client quota admission marker of commit 6d9c096 (fixes/C17-quota-per-client-admission.diff):
              SetNX on the admission-marker key of the listen client (KeyPrefixRuntimeConnectionCodeAdmission + "mappings:<client>") right before the quota scan, Delete when
              the activation ends with any outcome (deferred; runs after the deferred claim release)
     Pinned  = the tree as found (no claim; no admission marker; main record left behind when the global-list append fails).
   The three repairs are independent flags of `cfg`, so intermediate trees are described as well. *)
From Coq Require Import List Arith NArith Bool.
Import ListNotations.

Record cfg := { use_claim : bool; create_cleanup : bool; use_adm : bool;
                purge_revoked : bool;  (* NOT a tree variant: the listing's clean-up also purges revoked codes (refuted below) *)
                claim_lease : option N (* NOT a tree variant: Some L = the claim marker lives at most L seconds (refuted below);
                                          None = it lives for the code's remaining activation window *) }.
Definition Current : cfg := {| use_claim := true; create_cleanup := true; use_adm := true; purge_revoked := false; claim_lease := None |}.
Definition Pinned : cfg := {| use_claim := false; create_cleanup := false; use_adm := false; purge_revoked := false; claim_lease := None |}.
Definition PurgeRevoked : cfg := {| use_claim := true; create_cleanup := true; use_adm := true; purge_revoked := true; claim_lease := None |}.
Definition Lease30 : cfg :=
  {| use_claim := true; create_cleanup := true; use_adm := true; purge_revoked := false; claim_lease := Some 30%N |}.

(* static scenario parameters *)
Record params := {
  p_tgt : N;                 (* the code's TargetClientID *)
  p_taddr : N;               (* the code's TargetAddress (an opaque name) *)
  p_qmax : nat;              (* maxActiveMappingsPerClient *)
  p_pre : N -> nat;          (* active mappings a client already listens on (never change during the run) *)
  p_win : N                  (* the code's activation window in seconds (ActivationTTL) *)
}.

(* error classes (coreerrors codes as mapped by the harness) *)
Definition ENotFound : N := 1.  Definition EForbidden : N := 2.  Definition EConflict : N := 3.
Definition EExpired : N := 4.   Definition EQuota : N := 5.      Definition EStorage : N := 6.
Definition EInternal : N := 7.  Definition EInvalid : N := 8.    Definition EMissing : N := 10.

(* code record as stored under ...:code:<code> and ...:id:<id> *)
Record crec := { c_act : bool; c_rev : bool; c_by : N; c_map : nat (* 0 = none, S i = mapping of caller i *) }.
Definition fresh_code : crec := {| c_act := false; c_rev := false; c_by := 0; c_map := 0 |}.

(* port mapping main record *)
Record mrec := { m_id : nat; m_listen : N; m_laddr : N; m_target : N; m_taddr : N }.

Record sh := {
  expired : bool;                (* the clock is past ActivationExpiresAt *)
  by_code : option crec;
  by_id : option crec;
  claim : bool;                  (* ...:claim:<code> present *)
  admk : list (N * N);                (* admission marker of <client> (scope "mappings") present (30 s TTL, independent of the code's expiry) *)
  mains : list mrec;             (* tunnox:port_mapping:<id> *)
  glob : list nat;               (* tunnox:mappings:list (ids of the entries) *)
  cidx : list (N * nat);         (* tunnox:client_mappings:<client> entries *)
  tidx : bool;                   (* the code's id is in tunnox:index:conncode:target:<target> (no TTL tied to the code) *)
  now : N;                       (* seconds since the code was created (one clock: the store's TTLs and the callers' time.Now) *)
  claim_dl : N                   (* deadline of the claim marker (meaningful while claim = true) *)
}.

(* RRevoked: the revocation wrote the revoked record under both keys.  RGone: RevokeConnectionCode returned nil through
   repo.Update's delete branch because the code had already expired and vanished — nothing was written. *)
Inductive res := ROk (m : nat) | RRevoked | RGone | RTick | RErr (e : N) | RUnmodelled | RListed.

Inductive pc :=
| PGet | PQuota | PClaim | PMain | PGlob | PCleanup | PIdxL | PIdxT | PUpdCode | PUpdId
| PRbL | PRbT | PRbGlob | PRbMain | PRelease (e : N) | PDelGet | PDone (r : res)
| PAdm                 (* parked at SetNX admission marker *)
| PRelAdm (r : res)      (* parked at Delete admission marker; r is what the call then returns *)
(* ListConnectionCodesByTargetClient (its first call, GetList of the target's index, is PGet of a KList thread) *)
| PLGet                  (* repo.ListByTargetClient: GetByID of the indexed id *)
| PLRm                   (* ... RemoveFromList of a dangling index entry *)
| PPGet | PPDelCode | PPDelId | PPDelClaim | PPRmIdx.   (* the asynchronous clean-up: connCodeRepo.Delete(id) *)

(* KAct listen laddr laddr_ok *)
Inductive kind := KAct (l : N) (la : N) (ok : bool) | KRev | KTick | KList
| KStall (d : N).   (* d seconds pass (a caller stalls, the clock goes on): markers and records whose ttl has run out vanish *)

Record lo := {
  l_me : nat;
  l_kind : kind;
  l_pc : pc;
  l_snap : crec;                 (* local copy of the code record after GetByCode *)
  l_fault : option nat;
  l_err : N                      (* error to return once the rollback is through *)
}.

Definition set_pc (t : lo) (p : pc) : lo :=
  {| l_me := l_me t; l_kind := l_kind t; l_pc := p; l_snap := l_snap t; l_fault := l_fault t; l_err := l_err t |}.
Definition set_snap (t : lo) (r : crec) : lo :=
  {| l_me := l_me t; l_kind := l_kind t; l_pc := l_pc t; l_snap := r; l_fault := l_fault t; l_err := l_err t |}.
Definition set_fault (t : lo) (f : option nat) : lo :=
  {| l_me := l_me t; l_kind := l_kind t; l_pc := l_pc t; l_snap := l_snap t; l_fault := f; l_err := l_err t |}.
Definition set_err (t : lo) (e : N) : lo :=
  {| l_me := l_me t; l_kind := l_kind t; l_pc := l_pc t; l_snap := l_snap t; l_fault := l_fault t; l_err := e |}.
Definition finish (t : lo) (r : res) : lo := set_pc t (PDone r).

Definition set_expired (s : sh) : sh :=   (* TTL: code keys and claim vanish *)
  {| expired := true; by_code := None; by_id := None; claim := false; admk := admk s; mains := mains s; glob := glob s; cidx := cidx s; tidx := tidx s; now := now s; claim_dl := claim_dl s |}.
Definition set_by_code (s : sh) (r : option crec) : sh :=
  {| expired := expired s; by_code := r; by_id := by_id s; claim := claim s; admk := admk s; mains := mains s; glob := glob s; cidx := cidx s; tidx := tidx s; now := now s; claim_dl := claim_dl s |}.
Definition set_by_id (s : sh) (r : option crec) : sh :=
  {| expired := expired s; by_code := by_code s; by_id := r; claim := claim s; admk := admk s; mains := mains s; glob := glob s; cidx := cidx s; tidx := tidx s; now := now s; claim_dl := claim_dl s |}.
Definition set_claim (s : sh) (b : bool) : sh :=
  {| expired := expired s; by_code := by_code s; by_id := by_id s; claim := b; admk := admk s; mains := mains s; glob := glob s; cidx := cidx s; tidx := tidx s; now := now s; claim_dl := claim_dl s |}.
Definition set_mains (s : sh) (m : list mrec) : sh :=
  {| expired := expired s; by_code := by_code s; by_id := by_id s; claim := claim s; admk := admk s; mains := m; glob := glob s; cidx := cidx s; tidx := tidx s; now := now s; claim_dl := claim_dl s |}.
Definition set_glob (s : sh) (g : list nat) : sh :=
  {| expired := expired s; by_code := by_code s; by_id := by_id s; claim := claim s; admk := admk s; mains := mains s; glob := g; cidx := cidx s; tidx := tidx s; now := now s; claim_dl := claim_dl s |}.
Definition set_cidx (s : sh) (c : list (N * nat)) : sh :=
  {| expired := expired s; by_code := by_code s; by_id := by_id s; claim := claim s; admk := admk s; mains := mains s; glob := glob s; cidx := c; tidx := tidx s; now := now s; claim_dl := claim_dl s |}.
Definition set_tidx (s : sh) (b : bool) : sh :=
  {| expired := expired s; by_code := by_code s; by_id := by_id s; claim := claim s; admk := admk s; mains := mains s; glob := glob s; cidx := cidx s; tidx := b; now := now s; claim_dl := claim_dl s |}.
Definition set_claim_dl (s : sh) (b : bool) (d : N) : sh :=
  {| expired := expired s; by_code := by_code s; by_id := by_id s; claim := b; admk := admk s; mains := mains s; glob := glob s; cidx := cidx s; tidx := tidx s; now := now s; claim_dl := d |}.
Definition set_clock (s : sh) (n : N) (c : bool) (a : list (N * N)) : sh :=
  {| expired := expired s; by_code := by_code s; by_id := by_id s; claim := c; admk := a; mains := mains s; glob := glob s; cidx := cidx s; tidx := tidx s; now := n; claim_dl := claim_dl s |}.
Definition adm_ttl : N := 30.    (* quotaAdmissionTTL, seconds (side condition: equals the regenerated value) *)
Definition set_adm (s : sh) (a : list (N * N)) : sh :=
  {| expired := expired s; by_code := by_code s; by_id := by_id s; claim := claim s; admk := a; mains := mains s; glob := glob s; cidx := cidx s; tidx := tidx s; now := now s; claim_dl := claim_dl s |}.

(* one forward write: does it fail, and the remaining fault budget *)
Definition tick_fault (f : option nat) : bool * option nat :=
  match f with
  | Some 0 => (true, None)
  | Some (S k) => (false, Some k)
  | None => (false, None)
  end.

Definition has_main (s : sh) (i : nat) : bool := existsb (fun m => Nat.eqb (m_id m) i) (mains s).
Definition del_main (s : sh) (i : nat) : sh := set_mains s (filter (fun m => negb (Nat.eqb (m_id m) i)) (mains s)).
Definition idx_is (c : N) (i : nat) (e : N * nat) : bool := N.eqb (fst e) c && Nat.eqb (snd e) i.

(* GetClientPortMappings + the counting loop of the quota check: distinct ids in the client's index whose
   main record exists (all mappings made here are active, unrevoked, unexpired) + the pre-existing ones *)
Definition quota_count (P : params) (s : sh) (l : N) : nat :=
  p_pre P l +
  length (nodup Nat.eq_dec (filter (has_main s) (map snd (filter (fun e => N.eqb (fst e) l) (cidx s))))).

(* TunnelConnectionCode.Activate on the local copy *)
Definition mark_activated (r : crec) (l : N) (i : nat) : crec :=
  {| c_act := true; c_rev := c_rev r; c_by := l; c_map := S i |}.
Definition mark_revoked (r : crec) : crec :=
  {| c_act := c_act r; c_rev := true; c_by := c_by r; c_map := c_map r |}.

Section Step.
  Variable C : cfg.
  Variable P : params.

  (* where a failed activation / revocation goes once nothing of it is left: release the claim if one is held *)
  (* how an activation returns r once it holds the admission marker: the deferred ReleaseAdmission runs last *)
  Definition fin (r : res) : pc := if use_adm C then PRelAdm r else PDone r.
  Definition leave (e : N) : pc := if use_claim C then PRelease e else fin (RErr e).
  Definition adm_held (s : sh) (l : N) : bool := existsb (fun e => N.eqb (fst e) l) (admk s).
  (* lifetime of a claim marker taken now: the remaining activation window, or the lease if one is configured *)
  Definition claim_ttl (s : sh) : N :=
    match claim_lease C with None => (p_win P - now s)%N | Some L => N.min L (p_win P - now s)%N end.

  Definition act_step (l la : N) (la_ok : bool) (t : lo) (s : sh) : lo * sh :=
    let me := l_me t in
    match l_pc t with
    | PGet =>                                           (* connCodeRepo.GetByCode + validity + address parsing *)
        match by_code s with
        | None => (finish t (RErr ENotFound), s)
        | Some r =>
            if c_rev r then (finish t (RErr EForbidden), s)
            else if c_act r then (finish t (RErr EConflict), s)
            else if expired s then (finish t (RErr EExpired), s)
            else if negb la_ok then (finish t (RErr EInvalid), s)
            else (set_pc (set_snap t r) (if use_adm C then PAdm else PQuota), s)
        end
    | PAdm =>                                         (* the service's admission helper: SetNX admission marker of the listen client *)
        let '(f, fl) := tick_fault (l_fault t) in
        let t := set_fault t fl in
        if f then (finish t (RErr EStorage), s)
        else if adm_held s l then (finish t (RErr EConflict), s)      (* same client already in admission *)
        else (set_pc t PQuota, set_adm s ((l, (now s + adm_ttl)%N) :: admk s))
    | PQuota =>                                         (* GetClientPortMappings + quota *)
        if p_qmax P <=? quota_count P s l then (set_pc t (fin (RErr EQuota)), s)
        else if use_claim C
             then (if expired s then (set_pc t (fin (RErr EConflict)), s)   (* Claim: TimeRemaining <= 0 *)
                   else (set_pc t PClaim, s))
             else (set_pc t PMain, s)
    | PClaim =>                                         (* SetNX claim *)
        let '(f, fl) := tick_fault (l_fault t) in
        let t := set_fault t fl in
        if f then (set_pc t (fin (RErr EStorage)), s)
        else if claim s then (set_pc t (fin (RErr EConflict)), s)
        else (set_pc t PMain, set_claim_dl s true (now s + claim_ttl s)%N)
    | PMain =>                                          (* repo.Create: Set main record *)
        let '(f, fl) := tick_fault (l_fault t) in
        let t := set_fault t fl in
        if f then (set_pc t (leave EStorage), s)
        else (set_pc t PGlob,
              set_mains s ({| m_id := me; m_listen := l; m_laddr := la; m_target := p_tgt P; m_taddr := p_taddr P |} :: mains s))
    | PGlob =>                                          (* AddMappingToList *)
        let '(f, fl) := tick_fault (l_fault t) in
        let t := set_fault t fl in
        if f then (if create_cleanup C then (set_pc t PCleanup, s) else (set_pc t (leave EStorage), s))
        else (set_pc t PIdxL, set_glob s (glob s ++ [me]))
    | PCleanup =>                                       (* repaired repo.CreatePortMapping: Delete main *)
        (set_pc t (leave EStorage), del_main s me)
    | PIdxL =>                                          (* AddMappingToClient(listen): failure only logged *)
        let '(f, fl) := tick_fault (l_fault t) in
        let t := set_fault t fl in
        (set_pc t PIdxT, if f then s else set_cidx s (cidx s ++ [(l, me)]))
    | PIdxT =>                                          (* AddMappingToClient(target); then connCode.Activate *)
        let '(f, fl) := tick_fault (l_fault t) in
        let t := set_fault t fl in
        let s' := if f then s else set_cidx s (cidx s ++ [(p_tgt P, me)]) in
        if expired s then (set_pc (set_err t EInternal) PRbL, s')
        else (set_pc t PUpdCode, s')
    | PUpdCode =>                                       (* repo.Update: Set by code *)
        let '(f, fl) := tick_fault (l_fault t) in
        let t := set_fault t fl in
        if f then (set_pc (set_err t EStorage) PRbL, s)
        else (set_pc t PUpdId, set_by_code s (Some (mark_activated (l_snap t) l me)))
    | PUpdId =>                                         (* repo.Update: Set by id *)
        let '(f, fl) := tick_fault (l_fault t) in
        let t := set_fault t fl in
        if f then (set_pc (set_err t EStorage) PRbL, s)
        else (set_pc t (fin (ROk me)), set_by_id s (Some (mark_activated (l_snap t) l me)))
    | PRbL =>                                           (* DeletePortMapping: RemoveFromList listen index *)
        (set_pc t (if N.eqb l (p_tgt P) then PRbGlob else PRbT),
         set_cidx s (filter (fun e => negb (idx_is l me e)) (cidx s)))
    | PRbT => (set_pc t PRbGlob, set_cidx s (filter (fun e => negb (idx_is (p_tgt P) me e)) (cidx s)))
    | PRbGlob => (set_pc t PRbMain, set_glob s (filter (fun i => negb (Nat.eqb i me)) (glob s)))
    | PRbMain => (set_pc t (leave (l_err t)), del_main s me)
    | PRelease e => (set_pc t (fin (RErr e)), set_claim s false)
    | PRelAdm r => (finish t r, set_adm s (filter (fun e => negb (N.eqb (fst e) l)) (admk s)))   (* ReleaseAdmission *)
    | PDelGet => (finish t RUnmodelled, s)
    | PDone _ => (t, s)
    | _ => (finish t RUnmodelled, s)
    end.

  Definition rleave (e : N) : pc := if use_claim C then PRelease e else PDone (RErr e).

  Definition rev_step (t : lo) (s : sh) : lo * sh :=
    match l_pc t with
    | PGet =>                                           (* GetByCode + connCode.Revoke *)
        match by_code s with
        | None => (finish t (RErr ENotFound), s)
        | Some r =>
            if c_act r then (finish t (RErr EInternal), s)
            else if c_rev r then (finish t (RErr EInternal), s)
            else let t := set_snap t (mark_revoked r) in
                 if use_claim C
                 then (if expired s then (finish t (RErr EConflict), s) else (set_pc t PClaim, s))
                 else (if expired s then (set_pc t PDelGet, s)         (* Update: TimeRemaining <= 0 -> Delete *)
                       else (set_pc t PUpdCode, s))
        end
    | PClaim =>
        let '(f, fl) := tick_fault (l_fault t) in
        let t := set_fault t fl in
        if f then (finish t (RErr EConflict), s)
        else if claim s then (finish t (RErr EConflict), s)
        else (set_pc t (if expired s then PDelGet else PUpdCode), set_claim_dl s true (now s + claim_ttl s)%N)
    | PDelGet =>                                        (* repo.Update on an expired code: Delete -> GetByID *)
        match by_id s with
        | None => (finish t RGone, s)                   (* "already deleted" counts as success; nothing written *)
        | Some _ => (finish t RUnmodelled, s)           (* deletion of a re-written record: not modelled *)
        end
    | PUpdCode =>
        let '(f, fl) := tick_fault (l_fault t) in
        let t := set_fault t fl in
        if f then (set_pc t (rleave EStorage), s)
        else (set_pc t PUpdId, set_by_code s (Some (l_snap t)))
    | PUpdId =>
        let '(f, fl) := tick_fault (l_fault t) in
        let t := set_fault t fl in
        if f then (set_pc t (rleave EStorage), s)
        else (finish t RRevoked, set_by_id s (Some (l_snap t)))
    | PRelease e => (finish t (RErr e), set_claim s false)
    | PDone _ => (t, s)
    | _ => (finish t RUnmodelled, s)
    end.

  (* ListConnectionCodesByTargetClient by the code's owner (query.go) over repo.ListByTargetClient, followed by the
     asynchronous clean-up goroutine (connCodeRepo.Delete) for a code that is expired and not activated.  The call itself
     returns after PLGet / PLRm; the clean-up's storage calls are further steps of the same thread. *)
  Definition list_step (t : lo) (s : sh) : lo * sh :=
    match l_pc t with
    | PGet => if tidx s then (set_pc t PLGet, s) else (finish t RListed, s)          (* GetList index *)
    | PLGet =>
        match by_id s with
        | None => (set_pc t PLRm, s)                                                  (* expired/deleted: drop the index entry *)
        | Some r => if purge_revoked C && c_rev r then (set_pc t PPGet, s)           (* only in the refuted variant *)
                    else if expired s                                                 (* IsExpired() && !IsActivated: *)
                         then (if c_act r then (finish t RListed, s)
                               else (set_pc t PPGet, s))                              (* filtered out, clean-up spawned *)
                         else (finish t RListed, s)
        end
    | PLRm => (finish t RListed, set_tidx s false)
    | PPGet => match by_id s with                                                     (* Delete: GetByID *)
               | None => (finish t RListed, s)
               | Some _ => (set_pc t PPDelCode, s)
               end
    | PPDelCode => (set_pc t PPDelId, set_by_code s None)
    | PPDelId => (set_pc t (if use_claim C then PPDelClaim else PPRmIdx), set_by_id s None)
    | PPDelClaim => (set_pc t PPRmIdx, set_claim s false)                             (* Delete releases the claim marker *)
    | PPRmIdx => (finish t RListed, set_tidx s false)
    | PDone _ => (t, s)
    | _ => (finish t RUnmodelled, s)
    end.

  Definition tstep (t : lo) (s : sh) : lo * sh :=
    match l_kind t with
    | KAct l la ok => act_step l la ok t s
    | KList => list_step t s
    | KStall d => match l_pc t with
                  | PDone _ => (t, s)
                  | _ => let n := (now s + d)%N in
                         if (p_win P <=? n)%N
                         then (finish t RTick, set_expired (set_clock s n (claim s) (filter (fun e => (n <? snd e)%N) (admk s))))
                         else (finish t RTick, set_clock s n (claim s && (n <? claim_dl s)%N) (filter (fun e => (n <? snd e)%N) (admk s)))
                  end
    | KRev => rev_step t s
    | KTick => match l_pc t with
               | PDone _ => (t, s)
               | _ => (finish t RTick, set_expired s)
               end
    end.
End Step.

(* a caller about to start: parameter validation happens before the first storage call *)
Definition init_lo (me : nat) (k : kind) (nocode : bool) (f : option nat) : lo :=
  {| l_me := me; l_kind := k;
     l_pc := match k with
             | KAct l _ _ => if nocode || N.eqb l 0 then PDone (RErr EMissing) else PGet
             | KRev => PGet        (* the harness never revokes with an empty code *)
             | KTick => PGet
             | KList => PGet
             | KStall _ => PGet
             end;
     l_snap := fresh_code; l_fault := f; l_err := 0 |}.

Definition init_sh (code : option crec) : sh :=
  {| expired := false; by_code := code; by_id := code; claim := false; admk := []; mains := []; glob := []; cidx := []; tidx := true; now := 0; claim_dl := 0 |}.

(* gate-op code of the storage call a thread is parked at (harness/cmd/c06/main.go op* constants) *)
Definition pc_code (p : pc) : nat :=
  match p with
  | PGet => 1 | PQuota => 2 | PClaim => 3 | PMain => 4 | PGlob => 5 | PIdxL => 6 | PIdxT => 7
  | PUpdCode => 8 | PUpdId => 9 | PRbL => 10 | PRbT => 11 | PRbGlob => 12 | PRbMain => 13 | PCleanup => 13
  | PRelease _ => 14 | PDelGet => 15 | PAdm => 16 | PRelAdm _ => 17 | PDone _ => 0
  | PLGet => 15 | PLRm => 21 | PPGet => 15 | PPDelCode => 18 | PPDelId => 19 | PPDelClaim => 14 | PPRmIdx => 21
  end.

(* the first call of a listing is the GetList of the target's code index (gate-op 22), everything else as pc_code *)
Definition op_code (k : kind) (p : pc) : nat :=
  match k, p with
  | KList, PGet => 22
  | _, _ => pc_code p
  end.

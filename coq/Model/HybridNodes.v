(* Model/HybridNodes.v — C14, several nodes: every node is a hybrid.Storage with a PRIVATE local cache; all nodes share
   the persistent tier and (if configured) the shared cache.  A cross-node history is sequential: the operation of node
   i runs to completion, its write-back included (Model/Hybrid.v exec_op), on the world made of node i's local cache and
   the common tiers.  A node index beyond the list is a node with a cold local cache (restart, expiry, a node that never
   saw the key); its cache is discarded afterwards.  Definitions only. *)
From TX Require Export Model.Hybrid.

Record mworld := { m_locals : list store; m_shared : store; m_pers : store }.

Definition node_world (m : mworld) (i : nat) : world :=
  init_world (nth i (m_locals m) empty_store) (m_shared m) (m_pers m).

Section Nodes.
  Variable T : tables.
  Variable c : cfg.

  Definition mexec (m : mworld) (i : nat) (o : op) : mworld * option res :=
    let '(w', r) := exec_op T c (node_world m i) o in
    ({| m_locals := upd_nth i (w_local w') (m_locals m); m_shared := w_shared w'; m_pers := w_pers w' |}, r).

  Fixpoint mexec_seq (m : mworld) (steps : list (nat * op)) : mworld * list (option res) :=
    match steps with
    | [] => (m, [])
    | (i, o) :: r => let '(m1, x) := mexec m i o in let '(m2, xs) := mexec_seq m1 r in (m2, x :: xs)
    end.
End Nodes.

(* "cache entry lost": TTL expiry, eviction or restart of a cache tier drops the key's copy from a node's local cache and from the
   shared cache (MDrop i k), or from every local cache and the shared cache (MDropAll k).  The persistent tier is never touched. *)
Inductive mstep := MOp (i : nat) (o : op) | MDrop (i : nat) (k : kbytes) | MDropAll (k : kbytes).

Definition mdrop (m : mworld) (i : option nat) (k : kbytes) : mworld :=
  {| m_locals := map (fun js => match i with
                                | Some i0 => if Nat.eqb (fst js) i0 then supd (snd js) k None else snd js
                                | None => supd (snd js) k None end)
                     (combine (seq 0 (length (m_locals m))) (m_locals m));
     m_shared := supd (m_shared m) k None; m_pers := m_pers m |}.

Fixpoint mrun (T : tables) (c : cfg) (m : mworld) (steps : list mstep) : mworld * list (option res) :=
  match steps with
  | [] => (m, [])
  | MOp i o :: r => let '(m1, x) := mexec T c m i o in let '(m2, xs) := mrun T c m1 r in (m2, x :: xs)
  | MDrop i k :: r => let '(m2, xs) := mrun T c (mdrop m (Some i) k) r in (m2, Some ROk :: xs)
  | MDropAll k :: r => let '(m2, xs) := mrun T c (mdrop m None k) r in (m2, Some ROk :: xs)
  end.

(* the single-node view of the same event: the key's copies in the local and the shared cache are gone *)
Definition drop_cache (w : world) (k : kbytes) : world := tset (tset w TLocal k None) TShared k None.

(* a key is visible across nodes iff its class has a common tier: the persistent tier, or the shared cache *)
Definition cross_visible (T : tables) (c : cfg) (k : kbytes) : bool :=
  two_tier T c k || tier_eqb (cache_tier_for_key T c k) TShared.

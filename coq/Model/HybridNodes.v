(* Model/HybridNodes.v — C14, several nodes: every node is a hybrid.Storage with a PRIVATE local cache; all nodes share
   the persistent tier and (if configured) the shared cache.  A cross-node history is sequential: the operation of node
   i runs to completion, its write-back included (Model/Hybrid.v exec_op), on the world made of node i's local cache and
   the common tiers.  A node index beyond the list is a node with a cold local cache (restart, expiry, a node that never
   saw the key); its cache is discarded afterwards.  Definitions only. *)
From TX Require Export Model.Hybrid.

Record mworld := { m_locals : list store; m_shared : store; m_pers : store }.

Definition node_world (m : mworld) (i : nat) : world :=
  init_world (nth i (m_locals m) empty_store) (m_shared m) (m_pers m).

Section Nodes.
  Variable T : tables.
  Variable c : cfg.

  Definition mexec (m : mworld) (i : nat) (o : op) : mworld * option res :=
    let '(w', r) := exec_op T c (node_world m i) o in
    ({| m_locals := upd_nth i (w_local w') (m_locals m); m_shared := w_shared w'; m_pers := w_pers w' |}, r).

  Fixpoint mexec_seq (m : mworld) (steps : list (nat * op)) : mworld * list (option res) :=
    match steps with
    | [] => (m, [])
    | (i, o) :: r => let '(m1, x) := mexec m i o in let '(m2, xs) := mexec_seq m1 r in (m2, x :: xs)
    end.
End Nodes.

(* a key is visible across nodes iff its class has a common tier: the persistent tier, or the shared cache *)
Definition cross_visible (T : tables) (c : cfg) (k : kbytes) : bool :=
  two_tier T c k || tier_eqb (cache_tier_for_key T c k) TShared.

(* Corr/C19.v — replays an observed schedule of create / delete / update / lookup callers on the Domain model
   (variant flags as observed on the tree: repaired or pinned removal path, atomic or get-then-set Incr) and
   compares per-caller results, the final store (index, records, per-client lists, removal guards, counter)
   and the quiescent lookup of every name. *)
From TX Require Import Base.Val Model.Domain.
Local Open Scope N_scope.

(* client ids are integers; they travel as naturals: 2z for z >= 0, -2z-1 for z < 0 *)
Definition vz (v : tval) : Z :=
  let n := vn v in if N.even n then Z.of_N (N.div2 n) else Z.opp (Z.of_N (N.div2 (n + 1))).
Definition enc_z (z : Z) : N := if Z.ltb z 0 then Z.to_N (Z.opp z * 2 - 1) else Z.to_N (z * 2).

(* case = [ [dfix; atomic_incr; now; cfix; index_first; error_stops_lookup; update_checks_client] ; threads ; sched ; reg ; cloud ; obs ]
   thread = [ client ; ops ; faults ; results ]
   op = [0; sub; base; tgt] | [1; is_mine; k_or_id] | [2; k; st; exp; tgt] | [3; host; now] | [4] | [5; now] (cleanup) | [6; id; client?; name?; st; exp; tgt] (forged update)
   result = [kind; a; b; c; d]   0 created id | 1 deleted | 2 updated | 3 routed from_repo id client tgt | 4 reset | 5 error code
   legacy entry = [name; id; client; tgt; active; revoked; exp]
   obs = [ idx [[name; id]..] ; recs [[id; name; client; tgt; st; exp]..] ; lists [[client; [ids]]..] ; guards [ids] ; next ; finals [[name; result]..] ;
           counter_has_deadline ; global_list [ids] ] *)

Definition dec_status (v : tval) : status :=
  match vn v with 0 => StActive | 1 => StInactive | _ => StExpired end.
Definition enc_status (s : status) : N := match s with StActive => 0 | StInactive => 1 | StExpired => 2 end.

Definition dec_op (v : tval) : op :=
  match vn (vnth 0 v) with
  | 0 => OCreate (vb (vnth 1 v)) (vb (vnth 2 v)) (vn (vnth 3 v))
  | 1 => ODelete (if vbool (vnth 1 v) then Mine (vnat (vnth 2 v)) else Abs (vn (vnth 2 v)))
  | 2 => OUpdate (vnat (vnth 1 v)) (dec_status (vnth 2 v)) (vz (vnth 3 v)) (vn (vnth 4 v))
  | 3 => OLookup (vb (vnth 1 v)) (vn (vnth 2 v))
  | 5 => OCleanup (vn (vnth 1 v))
  | 6 => OUpdateF (vn (vnth 1 v)) (match vopt (vnth 2 v) with Some x => Some (vz x) | None => None end)
                  (match vopt (vnth 3 v) with Some x => Some (vb x) | None => None end)
                  (dec_status (vnth 4 v)) (vz (vnth 5 v)) (vn (vnth 6 v))
  | _ => OResetCounter
  end.
Definition dec_thread (v : tval) : thr :=
  init_thr (vz (vnth 0 v)) (map dec_op (vl (vnth 1 v))) (map vbool (vl (vnth 2 v))).

Definition dec_legacy (v : tval) : name * pmap :=
  (vb (vnth 0 v), {| p_id := vn (vnth 1 v); p_client := vz (vnth 2 v); p_target := vn (vnth 3 v);
                     p_active := vbool (vnth 4 v); p_revoked := vbool (vnth 5 v); p_exp := vn (vnth 6 v) |}).
Definition tbl (l : list (name * pmap)) (n : name) : option pmap :=
  match find (fun e => name_eqb (fst e) n) l with Some e => Some (snd e) | None => None end.

Definition res_matches (r : res) (v : tval) : bool :=
  let k := vn (vnth 0 v) in
  match r with
  | RCreated i => N.eqb k 0 && N.eqb (vn (vnth 1 v)) i
  | RDeleted => N.eqb k 1
  | RUpdated => N.eqb k 2
  | RRouted src _ i c t =>
      N.eqb k 3 && Bool.eqb (N.eqb src 1) (vbool (vnth 1 v)) && N.eqb (vn (vnth 2 v)) i
      && Z.eqb (vz (vnth 3 v)) c && N.eqb (vn (vnth 4 v)) t
  | RReset => N.eqb k 4
  | RCleaned n => N.eqb k 6 && N.eqb (vn (vnth 1 v)) n
  | RErr code => N.eqb k 5 && N.eqb (vn (vnth 1 v)) code
  end.
Definition enc_res (r : res) : tval :=
  match r with
  | RCreated i => VL [VN 0; VN i]
  | RDeleted => VL [VN 1]
  | RUpdated => VL [VN 2]
  | RRouted src _ i c t => VL [VN 3; VN (if N.eqb src 1 then 1 else 0); VN i; VN (enc_z c); VN t]
  | RReset => VL [VN 4]
  | RCleaned n => VL [VN 6; VN n]
  | RErr code => VL [VN 5; VN code]
  end.

Definition model_run (v : tval) : shared * list thr :=
  let fl := vnth 0 v in
  drun (vbool (vnth 0 fl)) (vbool (vnth 1 fl)) (vbool (vnth 3 fl)) (vbool (vnth 4 fl)) (vbool (vnth 5 fl)) (vbool (vnth 6 fl))
       (tbl (map dec_legacy (vl (vnth 3 v)))) (tbl (map dec_legacy (vl (vnth 4 v))))
       empty_store (map dec_thread (vl (vnth 1 v))) (map vnat (vl (vnth 2 v))).

Definition opt_id_eqb (a b : option id) : bool :=
  match a, b with Some x, Some y => N.eqb x y | None, None => true | _, _ => false end.

Fixpoint ids_eqb (a b : list id) : bool :=
  match a, b with [] , [] => true | x :: a', y :: b' => N.eqb x y && ids_eqb a' b' | _, _ => false end.

Definition rec_matches (m : option mrec) (o : option tval) : bool :=
  match m, o with
  | None, None => true
  | Some r, Some v =>
      name_eqb (r_name r) (vb (vnth 1 v)) && Z.eqb (r_client r) (vz (vnth 2 v)) && N.eqb (r_target r) (vn (vnth 3 v))
      && N.eqb (enc_status (r_status r)) (vn (vnth 4 v)) && Z.eqb (r_exp r) (vz (vnth 5 v))
  | _, _ => false
  end.

Definition op_names (o : op) : list name :=
  match o with OCreate sub base _ => [full_domain sub base] | OLookup h _ => [extractDomain h] | _ => [] end.

Definition check (v : tval) : bool :=
  let '(s, ts) := model_run v in
  let fl := vnth 0 v in
  let obs := vnth 5 v in
  let o_idx := vl (vnth 0 obs) in
  let o_recs := vl (vnth 1 obs) in
  let o_lists := vl (vnth 2 obs) in
  let o_guards := map vn (vl (vnth 3 obs)) in
  let o_next := vn (vnth 4 obs) in
  let names := flat_map (fun t => flat_map op_names (ops t)) (map dec_thread (vl (vnth 1 v)))
               ++ map (fun e => vb (vnth 0 e)) o_idx in
  let ids := map N.of_nat (seq 0 (N.to_nat (next s) + N.to_nat o_next + 3)) ++ map (fun e => vn (vnth 0 e)) o_recs ++ o_guards in
  let clients := map (fun t => cl t) ts ++ map (fun e => vz (vnth 0 e)) o_lists ++ map (fun e => vz (vnth 2 e)) o_recs in
  let reg := tbl (map dec_legacy (vl (vnth 3 v))) in
  let cloud := tbl (map dec_legacy (vl (vnth 4 v))) in
  (* per-caller results, and every caller has finished its script in the model as well *)
  all2 (fun t tv => all2 res_matches (rev (out t)) (vl (vnth 3 tv))) ts (vl (vnth 1 v))
  && forallb (fun t => match ops t with [] => true | _ => false end) ts
  (* final store *)
  && forallb (fun n => opt_id_eqb (idx s n)
                (match find (fun e => name_eqb (vb (vnth 0 e)) n) o_idx with Some e => Some (vn (vnth 1 e)) | None => None end)) names
  && forallb (fun i => rec_matches (recs s i) (find (fun e => N.eqb (vn (vnth 0 e)) i) o_recs)) ids
  && forallb (fun c => ids_eqb (lists s c)
                (match find (fun e => Z.eqb (vz (vnth 0 e)) c) o_lists with Some e => map vn (vl (vnth 1 e)) | None => [] end)) clients
  && forallb (fun i => Bool.eqb (rguard s i) (existsb (N.eqb i) o_guards)) ids
  && N.eqb (next s) o_next
  && Bool.eqb (cexists s && cttl s) (vbool (vnth 6 obs))
  && ids_eqb (glist s) (map vn (vl (vnth 7 obs)))
  (* quiescent lookups *)
  && forallb (fun e => res_matches (lookup_now reg cloud s (vb (vnth 0 e)) (vn (vnth 2 fl))) (vnth 1 e))
             (vl (vnth 5 obs)).

Definition predict (v : tval) : tval :=
  let '(s, ts) := model_run v in
  let obs := vnth 5 v in
  let names := flat_map (fun t => flat_map op_names (ops t)) (map dec_thread (vl (vnth 1 v))) in
  VL [VL (map (fun t => VL (map enc_res (rev (out t)))) ts);
      VL (map (fun n => VL [VB n; match idx s n with Some i => VL [VN i] | None => VL [] end]) names);
      VN (next s);
      VL (map (fun t => VN (N.of_nat (length (ops t)))) ts)].

(* Corr/C16.v — replays the histories / schedules realised by the harness on the Shutdown models and compares the
   projected observables (invocation counts, run order, error indices, final state, reported totals). *)
From TX Require Import Base.Val Model.Shutdown Gen.C16.
From Coq Require Import ZArith.

Definition dec_h (v : tval) : hnd := {| h_id := vnat (vnth 0 v); h_fail := vbool (vnth 1 v) |}.
Definition nat_list_eqb (a b : list nat) : bool := all2 Nat.eqb a b.

(* ---- kind 0: Dispose history ---- *)
Definition dispose_model (v : tval) : dsh * list dpc :=
  let hs := map dec_h (vl (vnth 1 v)) in
  let nc := vnat (vnth 2 v) in
  let adds := map dec_h (vl (vnth 3 v)) in
  drun hs (repeat DStart nc ++ map AAdd adds) (map vnat (vl (vnth 4 v))).

Definition closer_matches (t : dpc) (obs : tval) : bool :=
  match t, vopt obs with
  | DDone r _, Some l => nat_list_eqb r (map vnat (vl l))
  | DStart, None => true
  | _, _ => false
  end.

Definition check_dispose (v : tval) : bool :=
  let '(sh, ls) := dispose_model v in
  let nc := vnat (vnth 2 v) in
  nat_list_eqb (d_runlog sh) (map vnat (vl (vnth 5 v)))
  && all2 closer_matches (firstn nc ls) (vl (vnth 6 v))
  && nat_list_eqb (d_errors sh) (map vnat (vl (vnth 7 v))).

(* ---- kinds 1, 2: Tunnel.Close ---- *)
Definition notify_of_reason (r : nat) : bool := nth r NotifyTable true.

Definition tunnel_obs (sh : tsh) : list nat :=
  [tcount ACallback (t_trace sh); tcount AUnreg (t_trace sh); tcount ANotify (t_trace sh);
   tcount ACloseLocal (t_trace sh); tcount ACloseRWC (t_trace sh); t_state sh].

Definition dec_tth (v : tval) : tth :=
  {| t_notify := notify_of_reason (vnat (vnth 1 v)); t_pc := if vbool (vnth 0 v) then TStartCas else TLoad |}.

(* an observed 9 means "not compared" (connection close counts of a started tunnel: the copy loop closes them too) *)
Definition obs_eqb (model obs : list nat) : bool := all2 (fun x y => Nat.eqb y 9 || Nat.eqb x y) model obs.

Definition check_tunnel_sched (v : tval) : bool :=
  let s := trun (vbool (vnth 1 v)) (vnat (vnth 2 v)) (map dec_tth (vl (vnth 3 v))) (map vnat (vl (vnth 4 v))) in
  obs_eqb (tunnel_obs (fst s)) (map vnat (vl (vnth 5 v))).

(* run thread i until `stop` holds of it (or fuel runs out) *)
Fixpoint run_until (fixed : bool) (stop : tth -> bool) (fuel : nat) (i : nat) (s : tsh * list tth) : tsh * list tth :=
  match fuel with
  | 0 => s
  | S f => match nth_error (snd s) i with
           | Some t => if stop t then s else run_until fixed stop f i (sys_step _ _ (tstep fixed) s i)
           | None => s
           end
  end.

(* phase 1: closers start one after the other; closer i runs until it is about to CAS (if parks[i]) or has returned.
   phase 2: parked closers are released in `order`, each running to completion; then whoever is still parked. *)
Definition park_scenario (fixed : bool) (st0 : nat) (reasons : list nat) (parks : list bool) (order : list nat) : tsh * list tth :=
  let ts := map (fun r => {| t_notify := notify_of_reason r; t_pc := TLoad |}) reasons in
  let k := length ts in
  let s1 := fold_left (fun s i => run_until fixed (fun t => t_returned t || (nth i parks false && t_parked_at_cas t)) 40 i s)
                      (seq 0 k) ({| t_state := st0; t_trace := [] |}, ts) in
  let s2 := fold_left (fun s i => run_until fixed t_returned 40 i s) order s1 in
  fold_left (fun s i => run_until fixed t_returned 40 i s) (seq 0 k) s2.

Definition check_tunnel_park (v : tval) : bool :=
  let s := park_scenario (vbool (vnth 1 v)) (vnat (vnth 2 v)) (map vnat (vl (vnth 3 v))) (map vbool (vl (vnth 4 v)))
                         (map vnat (vl (vnth 5 v))) in
  obs_eqb (tunnel_obs (fst s)) (map vnat (vl (vnth 6 v))).

(* ---- kind 3: traffic report ---- *)
Definition dec_z (v : tval) : Z := if vbool (vnth 0 v) then Z.opp (Z.of_N (vn (vnth 1 v))) else Z.of_N (vn (vnth 1 v)).
Definition z_list_eqb (a b : list Z) : bool := all2 Z.eqb a b.

Definition traffic_model (v : tval) : rsh * list rpc :=
  let adds := map dec_z (vl (vnth 2 v)) in
  rrun (vbool (vnth 1 v)) 0 (CAdd adds :: repeat RLock (S (vnat (vnth 3 v)))) (map vnat (vl (vnth 4 v))).

Definition check_traffic (v : tval) : bool :=
  let '(sh, ls) := traffic_model v in
  Z.eqb (r_stats sh) (dec_z (vnth 5 v)) && z_list_eqb (r_calls sh) (map dec_z (vl (vnth 6 v)))
  && Z.eqb (r_last sh) (dec_z (vnth 7 v))
  (* every reporter that was started has returned in the model as well (never-started ones are still at RLock) *)
  && forallb (fun t => r_finished t || match t with RLock => true | _ => false end) ls.

(* ---- kind 4: StreamProcessor read against Close ---- *)
(* [4; uses; fixed; obs_result (0 ok, 1 error, 2 panic); obs_after_err]
   the op performs `uses` reader calls, Close runs to completion, the op performs one more; separately an op started after
   the Close *)
Definition stream_model (v : tval) : psh * list ppc :=
  let uses := vnat (vnth 1 v) in
  run _ _ (pstep (vbool (vnth 2 v)) (S uses)) (pinit, [OStart; PClose; OStart])
      (repeat 0 (3 + uses) ++ repeat 1 5 ++ [0] ++ repeat 2 3).
Definition op_result (t : option ppc) : nat :=
  match t with Some (ORet true) => 0 | Some (ORet false) => 1 | Some OPanicked => 2 | _ => 3 end.
Definition check_stream (v : tval) : bool :=
  let s := stream_model v in
  Nat.eqb (op_result (nth_error (snd s) 0)) (vnat (vnth 3 v))
  && Bool.eqb (Nat.eqb (op_result (nth_error (snd s) 2)) 1) (vbool (vnth 4 v))
  && Nat.eqb (p_rclose (fst s)) 1.

(* ---- kind 5: a complete Close at a point inside Start ---- *)
(* [5; ctx_first; spawns; steps_done; obs [state; onClosed; start_ok; monitors_alive]] *)
Definition life_model (v : tval) : esh * list epc :=
  let cf := vbool (vnth 1 v) in let sp := vnat (vnth 2 v) in
  erun cf sp [e_start_pc cf; ELoad] (repeat 0 (vnat (vnth 3 v)) ++ repeat 1 6 ++ repeat 0 (sp + 4)).
Definition life_obs (s : esh * list epc) : list nat :=
  [e_state (fst s); e_cb (fst s);
   match nth_error (snd s) 0 with Some (EStartRet true) => 1 | _ => 0 end;
   if e_monitors_alive (fst s) then 1 else 0].
Definition check_life (v : tval) : bool := nat_list_eqb (life_obs (life_model v)) (map vnat (vl (vnth 4 v))).

(* ---- kind 6: k Close calls while a forwarding write is blocked on a stalled peer ---- *)
(* [6; hold; k; obs_close_returned] *)
Definition stall_model (v : tval) : fsh * list fth :=
  let k := vnat (vnth 2 v) in
  run _ _ (fstep (vbool (vnth 1 v)) true)
      (finit, {| f_stall := true; f_starved := false; f_pc := WLock |} :: repeat {| f_stall := false; f_starved := false; f_pc := KLock |} k)
      ([0; 0; 0] ++ concat (repeat (seq 0 (S k)) 8)).
Definition check_stall (v : tval) : bool :=
  Bool.eqb (forallb (fun t => negb (f_close_pending t)) (snd (stall_model v))) (vbool (vnth 3 v)).

(* ---- kind 14: k Close calls while a copy step waits for bandwidth tokens ---- *)
(* [14; cancellable; k; obs_close_returned; obs_start_returned] *)
Definition throttle_model (v : tval) : fsh * list fth :=
  let k := vnat (vnth 2 v) in
  run _ _ (fstep false (vbool (vnth 1 v)))
      (finit, {| f_stall := false; f_starved := true; f_pc := WThrottle |} :: repeat {| f_stall := false; f_starved := false; f_pc := KLock |} k)
      ([0] ++ concat (repeat (seq 0 (S k)) 8)).
Definition check_throttle (v : tval) : bool :=
  let s := throttle_model v in
  Bool.eqb (forallb (fun t => negb (f_close_pending t)) (snd s)) (vbool (vnth 3 v))
  && Bool.eqb (forallb f_finished (snd s)) (vbool (vnth 4 v)).

(* ---- kind 7: B queued on the lock behind A while Close runs ---- *)
(* [7; lockfirst; closable; obs_b_err; obs_b_called] *)
Definition queue_model (v : tval) : qsh * list qpc :=
  run _ _ (qstep (vbool (vnth 1 v)) 1) (qinit, [QStart; QStart; QClose]) [0; 0; 1; 1; 2; 2; 0; 0; 1; 1; 1; 1].
Definition check_queue (v : tval) : bool :=
  let s := queue_model v in
  Bool.eqb (0 <? q_late (fst s)) (vbool (vnth 4 v))
  && (vbool (vnth 2 v)   (* a closable reader fails the late call: the result is an error either way *)
      || Bool.eqb (match nth_error (snd s) 1 with Some (QRet false) => true | _ => false end) (vbool (vnth 3 v))).

(* ---- kind 8: composite clean-up body with failing sub-components ---- *)
(* [8; early; subs [[id; fail]]; obs counts (aligned with subs)] *)
Definition check_body (v : tval) : bool :=
  let subs := map (fun x => {| s_id := vnat (vnth 0 x); s_fail := vbool (vnth 1 x) |}) (vl (vnth 2 v)) in
  let ran := fst (run_body (vbool (vnth 1 v)) subs) in
  nat_list_eqb (map (fun s => count_occ Nat.eq_dec ran (s_id s)) subs) (map vnat (vl (vnth 3 v))).

(* ---- kind 9: attach / close history of one side of a bridge, ended by the lifecycle's Close ---- *)
(* [9; fastpath; events (0 = close, 1 = attach); obs closes per attached connection, in attach order] *)
Fixpoint attach_threads (evs : list bool) (next : nat) : list bpc :=
  match evs with [] => [] | true :: r => BAttach next :: attach_threads r (S next) | false :: r => BClose :: attach_threads r next end.
Definition attach_model (v : tval) : bsh * list bpc :=
  let evs := map vbool (vl (vnth 2 v)) ++ [false] in
  run _ _ (bstep (vbool (vnth 1 v))) (binit, attach_threads evs 0) (flat_map (fun i => [i; i; i]) (seq 0 (length evs))).
Definition check_attach (v : tval) : bool :=
  let s := attach_model v in
  nat_list_eqb (map (fun c => cnt c (b_closedlog (fst s))) (seq 0 (length (b_attached (fst s))))) (map vnat (vl (vnth 3 v))).

(* ---- kind 10: closer A parked inside the stream Close of a session connection while k more closers run ---- *)
(* [10; remove_first; a_kind (0 CloseConnection, 1 manager Close); others [kinds]; obs stream closes] *)
Definition ipc_of (k : bool) : ipc := if k then IMgrClose else ILookup.
Definition overlap_model (v : tval) : ish * list ipc :=
  let others := map (fun x => ipc_of (vbool x)) (vl (vnth 3 v)) in
  let n := length others in
  (* A looks the entry up (and, manager: does everything); the others run to completion; A finishes *)
  run _ _ (istep (vbool (vnth 1 v))) (iinit, ipc_of (vbool (vnth 2 v)) :: others)
      ([0] ++ flat_map (fun i => [i; i; i]) (seq 1 n) ++ [0; 0; 0]).
Definition check_overlap (v : tval) : bool :=
  let s := overlap_model v in Nat.eqb (i_released (fst s)) (vnat (vnth 4 v)) && forallb i_done (snd s).

(* ---- kind 11: sequential ResourceManager history ---- *)
(* [11; ops [[kind; id; fail]]; obs dispose log; obs results (0 ok / 1 refused / error count of a DisposeAll)] *)
Definition dec_rmop (x : tval) : rmop :=
  match vnat (vnth 0 x) with 0 => RmRegister (vnat (vnth 1 x)) (vbool (vnth 2 x)) | 1 => RmUnregister (vnat (vnth 1 x)) | _ => RmDisposeAll end.
Definition check_resmgr (v : tval) : bool :=
  let s := rm_run (map dec_rmop (vl (vnth 1 v))) in
  nat_list_eqb (rm_log s) (map vnat (vl (vnth 2 v))) && nat_list_eqb (rm_results s) (map vnat (vl (vnth 3 v))).

(* ---- kind 12: DisposeWithTimeout on the timeout path: is the helper gone after the slow resource finished? ---- *)
(* [12; buffered; obs_helper_left] *)
Definition check_timeout (v : tval) : bool :=
  let s := run _ _ (tstep2 (vbool (vnth 1 v))) (tinit2, [HRun; CSelect true; TFire; GOpen]) [2; 1; 3; 0; 0; 0] in
  Bool.eqb (match nth_error (snd s) 0 with Some HDone => false | _ => true end) (vbool (vnth 2 v)).

(* ---- kind 13: Register calls made while a DisposeAll runs ---- *)
(* [13; alias; l0; events after the start of DisposeAll (VN 0 = a Dispose was entered, VL [id] = Register id succeeded);
        obs dispose log of this DisposeAll; obs names registered afterwards] *)
Fixpoint reg_ids (evs : list tval) : list nat :=
  match evs with [] => [] | e :: r => match e with VL [x] => vnat x :: reg_ids r | _ => reg_ids r end end.
Fixpoint during_sched (evs : list tval) (next : nat) : list nat :=
  match evs with [] => [] | e :: r => match e with VL [_] => next :: during_sched r (S next) | _ => 0 :: during_sched r next end end.
Definition during_model (v : tval) : ash * list apc :=
  let l0 := map vnat (vl (vnth 2 v)) in let evs := vl (vnth 3 v) in
  run _ _ (astep (vbool (vnth 1 v))) (ainit l0, ALoopStart :: map AReg (reg_ids evs))
      ([0] ++ during_sched evs 1 ++ repeat 0 (length l0 + 2)).
Definition check_during (v : tval) : bool :=
  let s := during_model v in
  nat_list_eqb (a_disposed (fst s)) (map vnat (vl (vnth 4 v))) && nat_list_eqb (a_live (fst s)) (map vnat (vl (vnth 5 v))).

(* ---- kind 15: a periodic stats report parked in its upload while Stop runs the final report ---- *)
(* [15; swap; a; b; fail_first; obs uploaded; obs local (sign, abs)] : add a; reporter 1 takes and parks in its upload; add b;
   reporter 2 (the final report) runs completely; reporter 1 finishes (failing if fail_first); reporter 3 flushes *)
Definition stats_model (v : tval) : ksh * list kpc :=
  let a := Z.of_N (vn (vnth 2 v)) in let b := Z.of_N (vn (vnth 3 v)) in
  run _ _ (kstep (vbool (vnth 1 v))) (kinit, [KAdd [a; b]; KTake (vbool (vnth 4 v)); KTake false; KTake false])
      [0; 1; 0; 2; 2; 2; 1; 1; 3; 3; 3].
Definition check_stats (v : tval) : bool :=
  let s := stats_model v in
  Z.eqb (k_up (fst s)) (dec_z (vnth 5 v)) && Z.eqb (k_cnt (fst s)) (dec_z (vnth 6 v)).

(* ---- kind 16: Close of a bridge while the statistics backend does not answer ---- *)
(* [16; guarded; obs_close_returned] *)
Definition check_hung (v : tval) : bool :=
  let s := run _ _ (lstep (vbool (vnth 1 v))) (linit, [LSpawn; LReport; LTimer; LBackend]) [0; 1; 0; 2; 0; 0; 0; 1] in
  Bool.eqb (match nth_error (snd s) 0 with Some LDone => true | _ => false end) (vbool (vnth 2 v)).

(* ---- kind 17: CopyWithControl leaving through the context check / at EOF ---- *)
(* [17; ctx_flush; tail_flush; defer_flush; threshold; chunk; delivered reads; via_ctx; obs counter; obs total] *)
Definition check_copy (v : tval) : bool :=
  let s := cp_run (vbool (vnth 1 v)) (vbool (vnth 2 v)) (vbool (vnth 3 v)) (vn (vnth 4 v))
                  (repeat (vn (vnth 5 v)) (vnat (vnth 6 v))) (vbool (vnth 7 v)) in
  N.eqb (cp_counter s) (vn (vnth 8 v)) && N.eqb (cp_total s) (vn (vnth 9 v)).

Definition check (v : tval) : bool :=
  match vnat (vnth 0 v) with
  | 0 => check_dispose v
  | 1 => check_tunnel_sched v
  | 2 => check_tunnel_park v
  | 3 => check_traffic v
  | 4 => check_stream v
  | 5 => check_life v
  | 6 => check_stall v
  | 7 => check_queue v
  | 8 => check_body v
  | 9 => check_attach v
  | 10 => check_overlap v
  | 11 => check_resmgr v
  | 12 => check_timeout v
  | 13 => check_during v
  | 14 => check_throttle v
  | 15 => check_stats v
  | 16 => check_hung v
  | 17 => check_copy v
  | _ => false
  end.

Definition vnats (l : list nat) : tval := VL (map (fun n => VN (N.of_nat n)) l).
Definition venc_z (z : Z) : tval := VL [vN_of_bool (Z.ltb z 0); VN (Z.to_N (Z.abs z))].

Definition predict (v : tval) : tval :=
  match vnat (vnth 0 v) with
  | 0 => let '(sh, ls) := dispose_model v in
         VL [vnats (d_runlog sh); vnats (d_errors sh);
             VL (map (fun t => match t with DDone r _ => VL [vnats r] | _ => VL [] end) (firstn (vnat (vnth 2 v)) ls))]
  | 1 => vnats (tunnel_obs (fst (trun (vbool (vnth 1 v)) (vnat (vnth 2 v)) (map dec_tth (vl (vnth 3 v))) (map vnat (vl (vnth 4 v))))))
  | 2 => vnats (tunnel_obs (fst (park_scenario (vbool (vnth 1 v)) (vnat (vnth 2 v)) (map vnat (vl (vnth 3 v)))
                                               (map vbool (vl (vnth 4 v))) (map vnat (vl (vnth 5 v))))))
  | 3 => let '(sh, ls) := traffic_model v in VL [venc_z (r_stats sh); VL (map venc_z (r_calls sh)); venc_z (r_last sh)]
  | 4 => let s := stream_model v in vnats [op_result (nth_error (snd s) 0); op_result (nth_error (snd s) 2); p_panics (fst s)]
  | 5 => vnats (life_obs (life_model v))
  | 6 => vnats [if forallb (fun t => negb (f_close_pending t)) (snd (stall_model v)) then 1 else 0]
  | 7 => let s := queue_model v in vnats [q_late (fst s); match nth_error (snd s) 1 with Some (QRet false) => 1 | _ => 0 end]
  | 9 => let s := attach_model v in vnats (map (fun c => cnt c (b_closedlog (fst s))) (seq 0 (length (b_attached (fst s)))))
  | 10 => vnats [i_released (fst (overlap_model v))]
  | 11 => let s := rm_run (map dec_rmop (vl (vnth 1 v))) in VL [vnats (rm_log s); vnats (rm_results s)]
  | 13 => let s := during_model v in VL [vnats (a_disposed (fst s)); vnats (a_live (fst s))]
  | 15 => let s := stats_model v in VL [venc_z (k_up (fst s)); venc_z (k_cnt (fst s))]
  | _ => VL []
  end.

(* Corr/C08.v — correspondence glue: runs Model/ConnState.v on a history that the Go harness drove through the real
   connstate.Store / SessionManager instances of several nodes over one shared storage, and compares FindClientNode
   for every client, as answered on every node, after EVERY event.
   case value: [ variant [guard; refresh_idx; hb; ptr; cas (mode 2 only: index test-and-write is one CompareAndSwap); scas (mode 3 only: the client-state service uses CompareAndSwap); tomb_ms (0 = a tombstone does not block the heartbeat's rebuild;
                 otherwise the tombstone's ttl in ms, during which the rebuild is blocked)] ; backend [ptr; incl] ; ttl ; mode (0 store | 1 session) ;
                 clients [x ...] ; ops [[code; a; b; c; d] ...] ; obs [ per op: [ per node: [ per client: [kind; n; c] ] ] ] ]
   kind: 0 = not found / expired, 1 = found (n, c), 2 = any other error.  Tick durations are in ms.
   Session codes 8 / 9: a forwarding path (SendCommandToClient / SendHTTPProxyRequest) that only READS the location: no event
   (8), resp. exactly the handshake that completes inside its lookup (9 = code 1's AuthOK; harness hook store).
   Session code 16: a phase-1 handshake message (no proof; answered with a challenge, Success = false) on any connection — also one that
   was authenticated earlier, by a control or a tunnel-typed handshake — is NOT a successful handshake: the event AuthFail.
   Session code 13: a handshake that authenticates but whose response cannot be written is NOT a successful handshake: handleHandshake
   returns before any registration = the event AuthFail for the lookup (the runtime-state record is not compared on such histories).
   Session code 7 (StaleSweep n c: the node's periodic sweep finds control connection c silent beyond the heartbeat
   timeout) is not an event of its own: ClientRegistry.CleanupStale removes c from the registry and calls
   CloseConnection, i.e. it IS the event Close n c when c is a registered control connection, and nothing otherwise. *)
From TX Require Import Base.Val Model.ConnState Model.ConnStateThreads Model.ClientState.
Open Scope N_scope.

Definition dec_variant (v : tval) : variant :=
  {| v_guard := vbool (vnth 0 v); v_refresh_idx := vbool (vnth 1 v); v_hb := vbool (vnth 2 v); v_ptr := vbool (vnth 3 v) |}.
Definition dec_backend (v : tval) : backend := {| b_ptr := vbool (vnth 0 v); b_incl := vbool (vnth 1 v) |}.

Definition dec_event (v : tval) : event :=
  let a := vn (vnth 1 v) in let b := vn (vnth 2 v) in let c := vn (vnth 3 v) in
  match vn (vnth 0 v) with
  | 0 => Connect a b
  | 1 | 9 => if shape_is_control (vn (vnth 4 v)) then AuthOK a b c else AuthFail a b
  | 8 | 14 | 15 => AuthFail a 0
  | 13 | 16 => AuthFail a b
  | 2 => AuthFail a b
  | 3 => Kick a b c
  | 4 => Heartbeat a b
  | 5 => Close a b
  | _ => Tick a
  end.

Definition dec_sop (v : tval) : sop :=
  let a := vn (vnth 1 v) in let b := vn (vnth 2 v) in let c := vn (vnth 3 v) in
  match vn (vnth 0 v) with
  | 10 => SReg a b c (vbool (vnth 4 v))
  | 11 => SUnreg a b
  | 12 => SRefresh a b
  | _ => STick a
  end.

Definition fres_eqb (f : fres) (o : tval) : bool :=
  match f with
  | Found n c => (vn (vnth 0 o) =? 1) && (vn (vnth 1 o) =? n) && (vn (vnth 2 o) =? c)
  | Absent => vn (vnth 0 o) =? 0
  | FErr => vn (vnth 0 o) =? 2
  end.

(* every node gives the model's answer for every client *)
Definition obs_ok (answers : list fres) (o : tval) : bool :=
  forallb (fun node_obs => all2 fres_eqb answers (vl node_obs)) (vl o).

(* Session code 14 (NodeShutdown n: SessionManager.Close()): the control registry is emptied and every stream closed, without
   any store or cloud call = for every client the registry-only removal that `Kick n x 0` performs (connection 0 does not
   exist); the adapters' deferred CloseConnection calls follow as ordinary Close events.  Code 15 (cloud-control fault): no event. *)
Definition sess_step (v : variant) (b : backend) (ttl : N) (w : world) (op : tval) : world :=
  if vn (vnth 0 op) =? 14
  then fold_left (fun w' x => step v b ttl w' (Kick (vn (vnth 1 op)) (vn x) 0)) (vl (vnth 2 op)) w else
  if vn (vnth 0 op) =? 7
  then match w_ctl w (vn (vnth 1 op)) (vn (vnth 2 op)) with
       | Some _ => step v b ttl w (Close (vn (vnth 1 op)) (vn (vnth 2 op)))
       | None => w
       end
  else step v b ttl w (dec_event op).

(* the client runtime-state record, observed on every node after every event: element 7 of the case value
   ([] when not observed); same events, same desugaring of the stale sweep *)
Definition enc_fres_rs (f : fres) : tval :=
  match f with Found n c => VL [VN 1; VN n; VN c] | Absent => VL [VN 0; VN 0; VN 0] | FErr => VL [VN 2; VN 0; VN 0] end.
Definition rs_of (o : option (N * N)) : fres := match o with Some (n, c) => Found n c | None => Absent end.

Definition sess_rs_step (tomb_ms : N) (v : variant) (b : backend) (ttl : N) (w : world) (st : rstate * (N -> option N)) (op : tval)
  : rstate * (N -> option N) :=
  if vn (vnth 0 op) =? 7
  then match w_ctl w (vn (vnth 1 op)) (vn (vnth 2 op)) with
       | Some _ => rs_event_tomb tomb_ms w st (Close (vn (vnth 1 op)) (vn (vnth 2 op)))
       | None => st
       end
  else rs_event_tomb tomb_ms w st (dec_event op).

Fixpoint check_session_rs (tomb_ms : N) (v : variant) (b : backend) (ttl : N) (clients : list N) (w : world)
         (st : rstate * (N -> option N)) (ops obs : list tval) : bool :=
  match ops, obs with
  | [], [] => true
  | op :: ops', o :: obs' =>
      let st' := sess_rs_step tomb_ms v b ttl w st op in
      let w' := sess_step v b ttl w op in
      obs_ok (map (fun x => rs_of (fst st' x)) clients) o && check_session_rs tomb_ms v b ttl clients w' st' ops' obs'
  | _, _ => false
  end.

Fixpoint predict_session_rs (tomb_ms : N) (v : variant) (b : backend) (ttl : N) (clients : list N) (w : world)
         (st : rstate * (N -> option N)) (ops : list tval) : list tval :=
  match ops with
  | [] => []
  | op :: ops' =>
      let st' := sess_rs_step tomb_ms v b ttl w st op in
      let w' := sess_step v b ttl w op in
      VL (map (fun x => enc_fres_rs (rs_of (fst st' x))) clients) :: predict_session_rs tomb_ms v b ttl clients w' st' ops'
  end.

Fixpoint check_session (v : variant) (b : backend) (ttl : N) (clients : list N) (w : world) (ops obs : list tval) : bool :=
  match ops, obs with
  | [], [] => true
  | op :: ops', o :: obs' =>
      let w' := sess_step v b ttl w op in
      obs_ok (map (fun x => find v b w' 0 x) clients) o && check_session v b ttl clients w' ops' obs'
  | _, _ => false
  end.

Fixpoint check_store (v : variant) (b : backend) (ttl : N) (clients : list N) (ns : N * store) (ops obs : list tval) : bool :=
  match ops, obs with
  | [], [] => true
  | op :: ops', o :: obs' =>
      let ns' := sstep v b ttl ns (dec_sop op) in
      obs_ok (map (fun x => store_find v b (fst ns') (snd ns') x) clients) o && check_store v b ttl clients ns' ops' obs'
  | _, _ => false
  end.

(* ---- mode 2: a concurrent phase replayed at storage-call granularity (Model/ConnStateThreads.v) ----
   ops = [ setup [[10|11|12; n; c; x; ctl] ...] ; threads [[0; n; x] | [1; n; c; x; ctl] | [2; n; c] | [3; n; c] ...] ; schedule [i ...] ]
   obs = [ per thread: [kind; n; c] for lookups, [] otherwise ; per node: per client: [kind; n; c] after the phase ]
   the schedule is the one the gated storage double actually executed (one entry = one storage call of that thread) *)
Definition dec_prog (v : tval) : tprog :=
  let a := vn (vnth 1 v) in let b := vn (vnth 2 v) in let c := vn (vnth 3 v) in
  match vn (vnth 0 v) with
  | 0 => TFind b
  | 1 | 10 => TReg a b c (vbool (vnth 4 v))
  | 2 | 11 => TUnreg b
  | 3 | 12 => TRefresh b
  | _ => TDone
  end.

(* one method invocation alone, to completion (at most 4 storage calls) *)
Definition tseq (cas : bool) (sh : tstore) (p : tprog) : tstore :=
  let '(p1, s1) := tstep cas p sh in let '(p2, s2) := tstep cas p1 s1 in
  let '(p3, s3) := tstep cas p2 s2 in let '(_, s4) := tstep cas p3 s3 in s4.

Definition tres_ok (r : tres) (o : tval) : bool :=
  match r with
  | TFound n c => (vn (vnth 0 o) =? 1) && (vn (vnth 1 o) =? n) && (vn (vnth 2 o) =? c)
  | TAbsent => vn (vnth 0 o) =? 0
  end.

Definition thread_ok (lo : tprog) (o : tval) : bool :=
  match lo with
  | TFindDone r => tres_ok r o
  | TDone => true
  | _ => false      (* the phase must have run every invocation to completion *)
  end.

Definition conc_final (cas : bool) (ops : tval) : tstate :=
  let sh0 := fold_left (tseq cas) (map dec_prog (vl (vnth 0 ops))) tempty in
  trun cas (sh0, map dec_prog (vl (vnth 1 ops))) (map vnat (vl (vnth 2 ops))).

Definition check_conc (cas : bool) (clients : list N) (ops obs : tval) : bool :=
  let s := conc_final cas ops in
  all2 thread_ok (snd s) (vl (vnth 0 obs))
  && forallb (fun node_obs => all2 tres_ok (map (tfind (fst s)) clients) (vl node_obs)) (vl (vnth 1 obs)).

Definition enc_tres (r : tres) : tval :=
  match r with TFound n c => VL [VN 1; VN n; VN c] | TAbsent => VL [VN 0; VN 0; VN 0] end.
Definition predict_conc (cas : bool) (clients : list N) (ops : tval) : tval :=
  let s := conc_final cas ops in
  VL [VL (map (fun lo => match lo with TFindDone r => enc_tres r | TDone => VL [] | _ => VL [VN 9] end) (snd s));
      VL (map (fun x => enc_tres (tfind (fst s) x)) clients)].

(* ---- mode 3: a concurrent phase of the client runtime-state service (Model/ClientState.v rstep; one schedule entry = one
   GetState / SetState / DeleteState of that invocation).
   ops = [ setup [[4; n; c; x] ...] (sequential ConnectClient) ; threads [[4|5|6; n; c; x] ...] ; executed schedule ]
   obs = per node: per client: [kind; n; c] read from the record after the phase *)
Definition dec_rprog (v : tval) : rprog :=
  let n := vn (vnth 1 v) in let c := vn (vnth 2 v) in let x := vn (vnth 3 v) in
  match vn (vnth 0 v) with
  | 4 => RConnect x n c
  | 5 => REnsure x n c 0
  | 6 => RDisc x n c 0
  | _ => RDone
  end.
Fixpoint rseq_fuel (k : nat) (cas rot : bool) (p : rprog) (sh : rshared) : rshared :=
  match k with
  | O => sh
  | S k' => let '(p', sh') := rstep cas rot p sh in rseq_fuel k' cas rot p' sh'
  end.
Definition rseq (cas rot : bool) (sh : rshared) (p : rprog) : rshared := rseq_fuel 9 cas rot p sh.
Definition state_final (cas rot : bool) (ops : tval) : rshared :=
  let sh0 := fold_left (rseq cas rot) (map dec_rprog (vl (vnth 0 ops))) rsh_empty in
  fst (rrun cas rot (sh0, map dec_rprog (vl (vnth 1 ops))) (map vnat (vl (vnth 2 ops)))).
Definition check_state_conc (cas rot : bool) (clients : list N) (ops obs : tval) : bool :=
  let sh := state_final cas rot ops in
  forallb (fun node_obs => all2 fres_eqb (map (fun x => rs_of (rloc sh x)) clients) (vl node_obs)) (vl obs).

Definition check (c : tval) : bool :=
  let v := dec_variant (vnth 0 c) in
  let b := dec_backend (vnth 1 c) in
  let ttl := vn (vnth 2 c) in
  let clients := map vn (vl (vnth 4 c)) in
  if vn (vnth 3 c) =? 3 then check_state_conc (vbool (vnth 5 (vnth 0 c))) (vn (vnth 6 (vnth 0 c)) =? 0) clients (vnth 5 c) (vnth 6 c) else
  if vn (vnth 3 c) =? 2 then check_conc (vbool (vnth 4 (vnth 0 c))) clients (vnth 5 c) (vnth 6 c) else
  if vn (vnth 3 c) =? 0
  then check_store v b ttl clients (0, empty_store) (vl (vnth 5 c)) (vl (vnth 6 c))
  else check_session v b ttl clients init (vl (vnth 5 c)) (vl (vnth 6 c))
       && match vl (vnth 7 c) with
          | [] => true
          | rsobs => check_session_rs (vn (vnth 6 (vnth 0 c))) v b ttl clients init (rs_empty, fun _ => None) (vl (vnth 5 c)) rsobs
          end.

Definition enc_fres (f : fres) : tval :=
  match f with Found n c => VL [VN 1; VN n; VN c] | Absent => VL [VN 0; VN 0; VN 0] | FErr => VL [VN 2; VN 0; VN 0] end.

Fixpoint predict_session (v : variant) (b : backend) (ttl : N) (clients : list N) (w : world) (ops : list tval) : list tval :=
  match ops with
  | [] => []
  | op :: ops' =>
      let w' := sess_step v b ttl w op in
      VL (map (fun x => enc_fres (find v b w' 0 x)) clients) :: predict_session v b ttl clients w' ops'
  end.

Fixpoint predict_store (v : variant) (b : backend) (ttl : N) (clients : list N) (ns : N * store) (ops : list tval) : list tval :=
  match ops with
  | [] => []
  | op :: ops' =>
      let ns' := sstep v b ttl ns (dec_sop op) in
      VL (map (fun x => enc_fres (store_find v b (fst ns') (snd ns') x)) clients) :: predict_store v b ttl clients ns' ops'
  end.

Definition predict (c : tval) : tval :=
  let v := dec_variant (vnth 0 c) in
  let b := dec_backend (vnth 1 c) in
  let ttl := vn (vnth 2 c) in
  let clients := map vn (vl (vnth 4 c)) in
  if vn (vnth 3 c) =? 3 then VL (map (fun x => enc_fres_rs (rs_of (rloc (state_final (vbool (vnth 5 (vnth 0 c))) (vn (vnth 6 (vnth 0 c)) =? 0) (vnth 5 c)) x))) clients) else
  if vn (vnth 3 c) =? 2 then predict_conc (vbool (vnth 4 (vnth 0 c))) clients (vnth 5 c) else
  if vn (vnth 3 c) =? 0
  then VL (predict_store v b ttl clients (0, empty_store) (vl (vnth 5 c)))
  else VL [VL (predict_session v b ttl clients init (vl (vnth 5 c)));
           VL (predict_session_rs (vn (vnth 6 (vnth 0 c))) v b ttl clients init (rs_empty, fun _ => None) (vl (vnth 5 c)))].

(* Corr/C18.v — correspondence glue: runs the Lockout model on a timed script observed on the real code.
   value = [ [cond_unban; keep_stronger; late_goroutines; anon_resets; first_match] ; [maxf; window; band; perm; rate; burst; ttl; tps] ;
             [ [t; opcode; ip; arg] ... ] ; [observed result ...] ; [mask ...] ]
   times/durations in the same unit (the harness uses nanoseconds, tps = 10^9).
   opcode: 0 fail 1 succ 2 query 3 ban(arg=dur) 4 unban 5 cleanup 6 bladd(arg=dur) 7 blrm 8 wladd 9 wlrm
           10 allowed 11 blcleanup 12 allowip(arg=n) 13 rlcleanup 14 handshake(arg: 0 bad id, 1 ClientID 0 registering token ok, 2 same with failing credential generation,
                        3 ClientID 0 with a token that does not register; 4+10c phase 1 on connection c; 5+10c / 6+10c wrong / correct
                        phase-2 response on connection c; the driver maps (kind, token form) through the probed table)
           15 restart (all components rebuilt over the same storage);  ip >= 1000 is a CIDR key (see Model/Lockout.v keys_of)
   A step is compared only where its mask is 1 (the driver masks the steps whose model answer is not the same
   under all perturbed time lines). *)
From TX Require Import Base.Val Model.Lockout.
Open Scope Z_scope.

Definition vz (v : tval) : Z := Z.of_N (vn v).

Definition dec_variant (v : tval) : variant :=
  {| cond_unban := vbool (vnth 0 v); keep_stronger := vbool (vnth 1 v); anon_resets := vbool (vnth 3 v);
     skip_gate_p2 := false; first_match := vn (vnth 4 v) |}.
Definition dec_cfg (v : tval) : cfg :=
  {| maxf := vz (vnth 0 v); window := vz (vnth 1 v); band := vz (vnth 2 v); perm := vz (vnth 3 v);
     rate := vz (vnth 4 v); burst := vz (vnth 5 v); ttl := vz (vnth 6 v); tps := vz (vnth 7 v) |}.
Definition dec_kind (a : N) : hkind :=
  match (a mod 10)%N with
  | 0%N => HBad | 1%N => HAnonOk | 2%N => HAnonFail | 3%N => HZeroJunk
  | 4%N => HP1 (a / 10) | 5%N => HP2 (a / 10) false | _ => HP2 (a / 10) true
  end.
Definition dec_call (code ip arg : N) : call :=
  match code with
  | 0%N => CFail ip | 1%N => CSucc ip | 2%N => CQuery ip | 3%N => CBan ip (Z.of_N arg) | 4%N => CUnban ip
  | 5%N => CCleanup | 6%N => CBlAdd ip (Z.of_N arg) | 7%N => CBlRm ip | 8%N => CWlAdd ip | 9%N => CWlRm ip
  | 10%N => CAllowed ip | 11%N => CBlCleanup | 12%N => CAllowIP ip (Z.of_N arg) | 13%N => CRlCleanup
  | 14%N => CHs ip (dec_kind arg)
  | _ => CRestart
  end.
Definition dec_op (v : tval) : Z * call :=
  (vz (vnth 0 v), dec_call (vn (vnth 1 v)) (vn (vnth 2 v)) (vn (vnth 3 v))).

Definition model_log (v : tval) : list N :=
  snd (exec_script (dec_variant (vnth 0 v)) (dec_cfg (vnth 1 v)) (vbool (vnth 2 (vnth 0 v)))
                   (map dec_op (vl (vnth 2 v)))).

Fixpoint agree (model obs mask : list N) : bool :=
  match model, obs, mask with
  | [], [], _ => true
  | m :: model', o :: obs', k :: mask' => (N.eqb k 0 || N.eqb m o) && agree model' obs' mask'
  | m :: model', o :: obs', [] => N.eqb m o && agree model' obs' []
  | _, _, _ => false
  end.

Definition check (v : tval) : bool :=
  agree (model_log v) (map vn (vl (vnth 3 v))) (map vn (vl (vnth 4 v))).
Definition predict (v : tval) : tval := VL (map VN (model_log v)).

(* Corr/C01.v — correspondence glue: evaluates the Framing model on a case observed on the real code. *)
From TX Require Import Base.Val Model.Framing Gen.C01.

(* what the harness reports per ReadPacket call: ok ty body consumed | error consumed.
   Error kinds are compared by the number of bytes consumed (messages are not observables). *)
Inductive obs := OOk (ty : N) (body : list N) (n : N) | OErr (n : N).

Definition pres_matches (m : pres) (o : obs) : bool :=
  match m, o with
  | POk ty b c, OOk ty' b' c' => N.eqb ty ty' && list_eqb b b' && N.eqb c c'
  | PErr EFuel _, _ => false
  | PErr _ c, OErr c' => N.eqb c c'
  | _, _ => false
  end.

Record c01case := {
  c_pkts : option (list (bool * packet));       (* pk mode: what was handed to WritePacket *)
  c_wire : list N;                              (* bytes the real writer produced / raw input *)
  c_cuts : list nat;
  c_defl : list (list N * list N);              (* oracle tables from Go's gzip / json *)
  c_infl : list (list N * option (list N));
  c_json : list (list N * option (list N));
  c_obs : list obs;
  c_carry : bool }.                             (* message transport (WebSocket adapter): cuts are message lengths *)

Definition tbl_deflate (c : c01case) (b : list N) : list N :=
  match lookup (c_defl c) b with Some z => z | None => [] end.
Definition tbl_inflate (c : c01case) (b : list N) : option (list N) :=
  match lookup (c_infl c) b with Some r => r | None => None end.
Definition tbl_json (c : c01case) (b : list N) : option (list N) :=
  match lookup (c_json c) b with Some r => r | None => None end.

Definition model_obs (c : c01case) : list pres :=
  read_all current_variant MaxPacketBodySize (tbl_inflate c) (tbl_json c) (S (length (c_wire c)))
           {| rest := c_wire c; cuts := c_cuts c; endk := 0; carry := c_carry c |}.

Definition check_case (c : c01case) : bool :=
  all2 pres_matches (model_obs c) (c_obs c)
  && match c_pkts c with
     | None => true
     | Some ps => list_eqb (encode_all current_variant (tbl_deflate c) ps) (c_wire c)
     end.

(* ---- decoding of the universal value:
   [ pkts? ; wire ; cuts ; defl ; infl ; json ; obs ]
   pkts = VL [] | VL [VL [ VL [compress; ty; body] ... ]]
   obs  = VL [ VL [1; ty; body; n] | VL [0; n] ... ] *)
Definition dec_pkt (v : tval) : bool * packet :=
  (vbool (vnth 0 v), {| p_ty := vn (vnth 1 v); p_body := vb (vnth 2 v) |}).
Definition dec_optb (v : tval) : option (list N) :=
  match vopt v with Some x => Some (vb x) | None => None end.
Definition dec_obs (v : tval) : obs :=
  if vbool (vnth 0 v) then OOk (vn (vnth 1 v)) (vb (vnth 2 v)) (vn (vnth 3 v)) else OErr (vn (vnth 1 v)).
Definition dec_case (v : tval) : c01case :=
  {| c_pkts := match vopt (vnth 0 v) with Some ps => Some (map dec_pkt (vl ps)) | None => None end;
     c_wire := vb (vnth 1 v);
     c_cuts := map vnat (vl (vnth 2 v));
     c_defl := map (fun e => (vb (vnth 0 e), vb (vnth 1 e))) (vl (vnth 3 v));
     c_infl := map (fun e => (vb (vnth 0 e), dec_optb (vnth 1 e))) (vl (vnth 4 v));
     c_json := map (fun e => (vb (vnth 0 e), dec_optb (vnth 1 e))) (vl (vnth 5 v));
     c_obs := map dec_obs (vl (vnth 6 v));
     c_carry := vbool (vnth 7 v) |}.

Definition check (v : tval) : bool := check_case (dec_case v).

Definition enc_pres (p : pres) : tval :=
  match p with
  | POk ty b c => VL [VN 1; VN ty; VB b; VN c]
  | PErr e c => VL [VN 0; VN c; VN (match e with EEnd => 0 | EShortLen => 1 | ETooLarge => 2 | EShortBody => 3
                                               | EEncrypted => 4 | EInflate => 5 | EJson => 6 | EFuel => 7 end)]
  end.
Definition predict (v : tval) : tval := VL (map enc_pres (model_obs (dec_case v))).

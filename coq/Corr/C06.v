(* Corr/C06.v — replays the schedule the harness executed on the real conncode services on the ConnCode model
   (variant = the one the harness probed in the tree) and compares: per-caller result class, returned mapping,
   sequence of storage calls (gate-op codes), and the final storage contents (mapping main records with their
   fields, global list, client indexes, both code records, claim key). *)
From TX Require Import Base.Val Base.Threads Model.ConnCode.
Open Scope N_scope.

(* case = [ claim? ; cleanup? ; qmax ; pre [[client;count]] ; state ; target ; taddr ;
            threads [[kind ; listen ; laddr+1 ; fault+1 ; nocode]] ; sched ;
            obs_threads [[res ; map+2 ; trace]] ; mains [[owner;listen;target;taddr+1;laddr+1]] ; glob ;
            cidx [[client;owner]] ; bycode [5] ; byid [5] ; claimset ; ticked ; admk? ; admission markers left ] *)
Definition dec_cfg (v : tval) : cfg :=
  {| use_claim := vbool (vnth 0 v); create_cleanup := vbool (vnth 1 v); use_adm := vbool (vnth 17 v); purge_revoked := false; claim_lease := None |}.
Definition dec_params (v : tval) : params :=
  let pre := map (fun e => (vn (vnth 0 e), vnat (vnth 1 e))) (vl (vnth 3 v)) in
  {| p_tgt := vn (vnth 5 v); p_taddr := vn (vnth 6 v); p_qmax := vnat (vnth 2 v);
     p_pre := fun c => match find (fun e => N.eqb (fst e) c) pre with Some e => snd e | None => 0%nat end;
     p_win := 600 |}.   (* stall cells run on a 10-minute code; in the other cells the clock never moves *)
Definition dec_code (v : tval) : option crec :=
  match vn (vnth 4 v) with
  | 0 => Some fresh_code
  | 1 => Some {| c_act := false; c_rev := true; c_by := 0; c_map := 0 |}
  | 2 => Some {| c_act := true; c_rev := false; c_by := 999001; c_map := 99 |}
  | _ => None
  end.
Definition dec_kind (e : tval) : kind :=
  match vn (vnth 0 e) with
  | 0 => KAct (vn (vnth 1 e)) (vn (vnth 2 e) - 1) (negb (N.eqb (vn (vnth 2 e)) 0))
  | 1 => KRev
  | 3 => KList
  | 4 => KStall (vn (vnth 1 e))
  | _ => KTick
  end.
Definition dec_fault (e : tval) : option nat :=
  match vnat (vnth 3 e) with O => None | S k => Some k end.
Fixpoint dec_threads (i : nat) (l : list tval) : list lo :=
  match l with
  | [] => []
  | e :: r => init_lo i (dec_kind e) (vbool (vnth 4 e)) (dec_fault e) :: dec_threads (S i) r
  end.

(* run, logging (thread, gate-op code) for every entry that performs a storage call *)
Definition step_log (C : cfg) (P : params) (acc : st sh lo * list (nat * nat)) (i : nat) : st sh lo * list (nat * nat) :=
  let '(s, lg) := acc in
  let lg' := match nth_error (snd s) i with
             | Some t => match l_kind t, op_code (l_kind t) (l_pc t) with
                         | KTick, _ => lg
                         | KStall _, _ => lg
                         | _, O => lg
                         | _, c => (i, c) :: lg
                         end
             | None => lg
             end in
  (sys_step sh lo (tstep C P) s i, lg').

Definition model_run (v : tval) : st sh lo * list (nat * nat) :=
  let C := dec_cfg v in
  let P := dec_params v in
  (* a code revoked / activated during setup went through the real calls: with the claim patch its claim key is set *)
  let claimed0 := use_claim C && (N.eqb (vn (vnth 4 v)) 1 || N.eqb (vn (vnth 4 v)) 2) in
  fold_left (step_log C P) (map vnat (vl (vnth 8 v)))
            ((set_tidx (set_claim_dl (init_sh (dec_code v)) claimed0 600) (negb (N.eqb (vn (vnth 4 v)) 3)), dec_threads 0 (vl (vnth 7 v))), []).

Definition res_code (t : lo) : N :=
  match l_pc t with
  | PDone (ROk _) => 0 | PDone RRevoked => 0 | PDone RGone => 0 | PDone RListed => 0 | PDone RTick => 100 | PDone (RErr e) => e | PDone RUnmodelled => 999
  | _ => match l_kind t with KTick => 0 | KStall _ => 0 | _ => 998 end
  end.
Definition res_map (t : lo) : N :=        (* map + 2 *)
  match l_kind t, l_pc t with
  | KAct _ _ _, PDone (ROk m) => N.of_nat m + 2
  | _, _ => 1
  end.

Fixpoint insert {A} (le : A -> A -> bool) (x : A) (l : list A) : list A :=
  match l with
  | [] => [x]
  | y :: r => if le x y then x :: l else y :: insert le x r
  end.
Definition isort {A} (le : A -> A -> bool) (l : list A) : list A := fold_right (insert le) [] l.
Definition pair_le (a b : N * nat) : bool :=
  N.ltb (fst a) (fst b) || (N.eqb (fst a) (fst b) && Nat.leb (snd a) (snd b)).

Definition enc_rec (r : option crec) : list N :=
  match r with
  | None => [0;0;0;0;0]
  | Some r => [1; if c_act r then 1 else 0; if c_rev r then 1 else 0; c_by r; N.of_nat (c_map r)]
  end.
Definition enc_main (m : mrec) : list N :=
  [N.of_nat (m_id m); m_listen m; m_target m; m_taddr m + 1; m_laddr m + 1].
Definition main_le (a b : mrec) : bool := Nat.leb (m_id a) (m_id b).

Definition trace_of (lg : list (nat * nat)) (i : nat) : list N :=
  map (fun e => N.of_nat (snd e)) (filter (fun e => Nat.eqb (fst e) i) (rev lg)).

Definition nl (v : tval) : list N := map vn (vl v).

Definition check (v : tval) : bool :=
  let '(s, lg) := model_run v in
  let ticked := vbool (vnth 16 v) in
  let ths := snd s in
  let sh := fst s in
  let idxs := seq 0 (length ths) in
  (* per caller: result class, mapping, trace *)
  all2 (fun it ov =>
          let '(i, t) := it in
          (if ticked then Bool.eqb (N.eqb (res_code t) 0) (N.eqb (vn (vnth 0 ov)) 0) || match l_kind t with KTick => true | KStall _ => true | _ => false end
           else N.eqb (res_code t) (vn (vnth 0 ov)))
          && N.eqb (res_map t) (vn (vnth 1 ov))
          && match l_kind t with KTick => true | KStall _ => true | _ => list_eqb (trace_of lg i) (nl (vnth 2 ov)) end)
       (combine idxs ths) (vl (vnth 9 v))
  && all2 (fun m ov => list_eqb (enc_main m) (nl ov)) (isort main_le (mains sh)) (vl (vnth 10 v))
  && list_eqb (map N.of_nat (isort Nat.leb (glob sh))) (nl (vnth 11 v))
  && all2 (fun e ov => list_eqb [fst e; N.of_nat (snd e)] (nl ov)) (isort pair_le (cidx sh)) (vl (vnth 12 v))
  && (ticked || (list_eqb (enc_rec (by_code sh)) (nl (vnth 13 v))
                 && list_eqb (enc_rec (by_id sh)) (nl (vnth 14 v))
                 && Bool.eqb (claim sh) (vbool (vnth 15 v))))
  && N.eqb (N.of_nat (length (admk sh))) (vn (vnth 18 v))
  && Bool.eqb (tidx sh) (vbool (vnth 19 v)).

Definition predict (v : tval) : tval :=
  let '(s, lg) := model_run v in
  let ths := snd s in
  let sh := fst s in
  VL [ VL (map (fun it => VL [VN (res_code (snd it)); VN (res_map (snd it)); VL (map VN (trace_of lg (fst it)))])
               (combine (seq 0 (length ths)) ths));
       VL (map (fun m => VL (map VN (enc_main m))) (isort main_le (mains sh)));
       VL (map (fun i => VN (N.of_nat i)) (isort Nat.leb (glob sh)));
       VL (map (fun e => VL [VN (fst e); VN (N.of_nat (snd e))]) (isort pair_le (cidx sh)));
       VL (map VN (enc_rec (by_code sh))); VL (map VN (enc_rec (by_id sh))); vN_of_bool (claim sh);
       VN (N.of_nat (length (admk sh))); vN_of_bool (tidx sh) ].

(* Corr/C15.v — replays an observed schedule on the IdGen model with the candidate slots the real
   generators actually drew, and compares per-caller result logs and the store's final markers. *)
From TX Require Import Base.Val Model.IdGen Gen.C15.

(* case = [ threads ; sched ; pre ; slots ; markers_observed ]
   thread = [ ops (0=G,1=R) ; cands ; faults ; log_observed ]   log entry = [kind ; slot] (0 Got,1 Exhausted,2 Released) *)
Definition dec_ops (v : tval) : list gop := map (fun x => if vbool x then OpRel else OpGen) (vl v).
Definition dec_thread (v : tval) : gen :=
  init_gen MaxAttempts (dec_ops (vnth 0 v)) (map vn (vl (vnth 1 v))) (map vbool (vl (vnth 2 v))).
Definition enc_res (r : gres) : N * N :=
  match r with Got i => (0, i) | Exhausted => (1, 0) | Released i => (2, i) end%N.
Definition dec_log (v : tval) : list (N * N) := map (fun e => (vn (vnth 0 e), vn (vnth 1 e))) (vl v).
Definition pair_eqb (a b : N * N) : bool := N.eqb (fst a) (fst b) && N.eqb (snd a) (snd b).

Definition model_run (v : tval) : markers * list gen :=
  let pre := map vn (vl (vnth 2 v)) in
  grun MaxAttempts (fun k => existsb (N.eqb k) pre) (map dec_thread (vl (vnth 0 v))) (map vnat (vl (vnth 1 v))).

(* uuid case = [ 9 ; n ; draws ; observed ]   draw = [] (the read failed) | [idx] ; observed = idx per returned id *)
Definition dec_draw (v : tval) : option id := match vopt v with Some x => Some (vn x) | None => None end.
Definition uuid_model (v : tval) : list id := ugen false (vnat (vnth 1 v)) (map dec_draw (vl (vnth 2 v))).
Definition check_uuid (v : tval) : bool := all2 N.eqb (uuid_model v) (map vn (vl (vnth 3 v))).
Definition is_uuid_case (v : tval) : bool := match vnth 0 v with VN 9 => true | _ => false end.

(* node case = [ 8 ; threads ; sched ; free ; markers_observed ]: the NodeIDAllocator history in the same vocabulary.  Candidates = the
   range in order, attempts = the size of the range, ids taken beforehand = every slot of the range not listed in `free`. *)
Definition node_range : nat := N.to_nat (NodeIDMax - NodeIDMin + 1).
Definition node_pre (free : list N) : markers :=
  fun k => N.leb NodeIDMin k && N.leb k NodeIDMax && negb (existsb (N.eqb k) free).
Definition dec_thread_node (v : tval) : gen :=
  init_gen node_range (dec_ops (vnth 0 v)) (map vn (vl (vnth 1 v))) (map vbool (vl (vnth 2 v))).
Definition is_node_case (v : tval) : bool := match vnth 0 v with VN 8 => true | _ => false end.
Definition node_run (v : tval) : markers * list gen :=
  grun node_range (node_pre (map vn (vl (vnth 3 v)))) (map dec_thread_node (vl (vnth 1 v))) (map vnat (vl (vnth 2 v))).
Definition check_node (v : tval) : bool :=
  let '(m, ts) := node_run v in
  all2 (fun g tv => all2 pair_eqb (rev (map enc_res (log g))) (dec_log (vnth 3 tv))) ts (vl (vnth 1 v))
  && forallb (fun k => Bool.eqb (m (N.of_nat k)) (existsb (N.eqb (N.of_nat k)) (map vn (vl (vnth 4 v)))))
             (seq 0 (S (N.to_nat NodeIDMax)))
  && forallb (fun g => match skip_noops (ops g) (held g) with [] => true | _ => false end) ts.

Definition check (v : tval) : bool :=
  if is_uuid_case v then check_uuid v else
  if is_node_case v then check_node v else
  let '(m, ts) := model_run v in
  all2 (fun g tv => all2 pair_eqb (rev (map enc_res (log g))) (dec_log (vnth 3 tv))) ts (vl (vnth 0 v))
  && forallb (fun k => Bool.eqb (m (N.of_nat k)) (existsb (N.eqb (N.of_nat k)) (map vn (vl (vnth 4 v)))))
             (seq 0 (vnat (vnth 3 v)))
  (* every caller has finished its script in the model as well *)
  && forallb (fun g => match skip_noops (ops g) (held g) with [] => true | _ => false end) ts.

Definition predict (v : tval) : tval :=
  if is_uuid_case v then VL (map VN (uuid_model v)) else
  if is_node_case v then
    let '(m, ts) := node_run v in
    VL [VL (map (fun g => VL (map (fun r => VL [VN (fst (enc_res r)); VN (snd (enc_res r))]) (rev (log g)))) ts);
        VL (map (fun k => VN (N.of_nat k)) (filter (fun k => m (N.of_nat k)) (seq 0 (S (N.to_nat NodeIDMax)))))] else
  let '(m, ts) := model_run v in
  VL [VL (map (fun g => VL (map (fun r => VL [VN (fst (enc_res r)); VN (snd (enc_res r))]) (rev (log g)))) ts);
      VL (map (fun k => VN (N.of_nat k)) (filter (fun k => m (N.of_nat k)) (seq 0 (vnat (vnth 3 v)))))].

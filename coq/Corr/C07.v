(* Corr/C07.v — correspondence glue: runs Model/Registry.v on an operation sequence that the Go harness drove
   through the real SessionManager/ClientRegistry and compares the projected state after EVERY operation.
   case value:  [ variant(0 = Pinned, 1 = Current) ; [maxConn; maxCtl; tmo] ; [ [code; a; b; c; d; at+1; jcode; ja; jb; jc; jd] ... ] ;
                 (at+1 = 0: plain operation; otherwise operation j runs at interleaving point `at` of the host operation) [ VL [VN ..] flat_obs ... ] ]
   flat_obs  =  err n fired |sess| sess.. |reg| (c cid auth stale).. |idx| (x c).. |closed| closed.. |tun| (c t).. |tmap| (t c)..
                total control tunnel |la| la..      (every collection sorted by its first component) *)
From TX Require Import Base.Val Model.Registry Model.RegistryMicro Model.RegistryCloud.
Open Scope N_scope.

Fixpoint insert_by {A} (key : A -> N) (x : A) (l : list A) : list A :=
  match l with
  | [] => [x]
  | y :: t => if key x <=? key y then x :: l else y :: insert_by key x t
  end.
Definition sort_by {A} (key : A -> N) (l : list A) : list A := fold_right (insert_by key) [] l.

Definition lenN {A} (l : list A) : N := N.of_nat (length l).
Definition b2n (b : bool) : N := if b then 1 else 0.

Definition flat_state (k : cfg) (srf : st * res * bool) : list N :=
  let sr := fst srf in
  let s := fst sr in
  let sessL := sort_by (fun x => x) (sess s) in
  let regL := sort_by fst (reg s) in
  let idxL := sort_by fst (idx s) in
  let closedL := sort_by (fun x => x) (closed s) in
  let tunL := sort_by fst (tun s) in
  let tmapL := sort_by fst (tmap s) in
  let laL := map fst (filter (fun e => c_auth (snd e)) regL) in
  [b2n (fst (snd sr)); snd (snd sr); b2n (snd srf)]
  ++ lenN sessL :: sessL
  ++ lenN regL :: flat_map (fun e => [fst e; c_cid (snd e); b2n (c_auth (snd e)); b2n (is_stale k s (snd e))]) regL
  ++ lenN idxL :: flat_map (fun e => [fst e; snd e]) idxL
  ++ lenN closedL :: closedL
  ++ lenN tunL :: flat_map (fun e => [fst e; snd e]) tunL
  ++ lenN tmapL :: flat_map (fun e => [fst e; snd e]) tmapL
  ++ [lenN (sess s); size (reg s); size (tun s)]
  ++ lenN laL :: laL.

Definition dec_op_at (off : nat) (v : tval) : op :=
  let a := vn (vnth (off + 1) v) in let b := vn (vnth (off + 2) v) in let c := vn (vnth (off + 3) v) in let d := vn (vnth (off + 4) v) in
  match vn (vnth off v) with
  | 0 => Accept a
  | 1 => Handshake a b c (negb (d =? 0))
  | 2 => Heartbeat a
  | 3 => CloseConn a
  | 4 => RemoveCtl a
  | 5 => Unregister a
  | 6 => Kick a b
  | 7 => Sweep
  | 8 => Tick a
  | 9 => RegRaw a b
  | 10 => AuthRaw a b
  | 11 => ToTunnel a b
  | 12 => BreakWrites a
  | 13 => ReReg a b
  | 15 => RegClaim a b
  | _ => Tick 0
  end.
Definition dec_op (v : tval) : op := dec_op_at 0 v.
Definition dec_inj (v : tval) : option (N * op) :=
  let a := vn (vnth 5 v) in if a =? 0 then None else Some (a - 1, dec_op_at 6 v).

Definition dec_variant (v : tval) : variant := if vn v =? 0 then Pinned else if vn v =? 2 then Head else if vn v =? 3 then Head2 else Current.
Definition dec_cfg (v : tval) : cfg := {| maxConn := vn (vnth 0 v); maxCtl := vn (vnth 1 v); hbTimeout := vn (vnth 2 v) |}.

(* cloud-control calls of every plain (not interleaved) step, predicted from the state BEFORE it; the 4th configuration entry
   says whether a cloud-control double is installed.  Appended to the flat observation as |calls| (method client conn).. *)
Definition flat_calls (on : bool) (k : cfg) (pre : st) (oi : op * option (N * op)) : list N :=
  match snd oi with
  | Some _ => [0]
  | None =>
      if on then let cs := sort_by (fun e => snd e) (step_calls k pre (fst oi)) in
                 lenN cs :: flat_map (fun e => [fst (fst e); snd (fst e); snd e]) cs
      else [0]
  end.

Definition model_obs (v : tval) : list (list N) :=
  let k := dec_cfg (vnth 1 v) in
  let on := negb (vn (vnth 3 (vnth 1 v)) =? 0) in
  let ops := map (fun o => (dec_op o, dec_inj o)) (vl (vnth 2 v)) in
  let tr := trace_inj (dec_variant (vnth 0 v)) k init ops in
  let pres := init :: map (fun r => fst (fst r)) tr in
  map (fun x => flat_state k (fst (fst x)) ++ flat_calls on k (snd (fst x)) (snd x)) (combine (combine tr pres) ops).

(* the first |obs| steps are compared (the driver truncates a sequence after a recorded defect of the tree shows).
   Fifth component 1 = lock-contention case: the operations of the last two positions ran concurrently on the real code, queued on
   the registry mutex; only the final state (without the result triple err/n/fired) is given and must equal the model's final state
   for the operation order of this case value (the driver tries both orders: each registry method is one critical section). *)
Definition check (v : tval) : bool :=
  let obs := map (fun o => map vn (vl o)) (vl (vnth 3 v)) in
  if vn (vnth 4 v) =? 1 then
    match obs with
    | [o] => list_eqb (skipn 3 (last (model_obs v) [])) (skipn 3 o)
    | _ => false
    end
  else all2 list_eqb (firstn (length obs) (model_obs v)) obs.

Definition predict (v : tval) : tval := VL (map (fun l => VL (map VN l)) (model_obs v)).
Close Scope N_scope.

(* Corr/C11.v — correspondence glue: runs the Commands model on a case observed on the real command stack. *)
From TX Require Import Base.Val Model.CmdContext Model.Pending Model.Commands.
Open Scope N_scope.

(* case value:
   [ flags ; world ; steps ]
   flags = [socks_fixed; traffic_fixed; dns_fixed; notify_fixed; aux]
   world = [ maps ; codes ; doms ; online ; bind([[conn;client]..]) ; cluster mode? ; clients connected on another node ]      maps = [[id;listen;target;socks;sent;recv]..]  codes = [[id;owner;act]..]  doms = [[id;owner]..]
   step  = [ connkind ; who ; cmd ; resp ; obj? ; tgt? ; dir ; sent ; recv ; valid ; claim ; observed ]
           connkind 0 unknown / 1 fresh / 2 pending / 3 long-lived connection #who
           | [ 4 ; conn ; client ; ... ; observed ]   registry event: connection re-authenticates as client
           | [ 5 ; conn ; ... ; observed ]            registry event: connection leaves the registry
           | [ 6 ; mapping ; ... ] record deleted | [ 7 ; mapping ; target side? ; client ; ... ] party rewritten | [ 8 ; mapping ; active? ; ... ]
   observed = [ ok ; maps([[id;l;t;sent;recv]..]) ; codes ; doms ; online ; dm ; dc ; dd ; deliv([[client;type;stamp]..]) ; bind ] *)

Definition dec_map (v : tval) : mapping :=
  {| m_id := vn (vnth 0 v); m_listen := vn (vnth 1 v); m_target := vn (vnth 2 v); m_socks := vbool (vnth 3 v);
     m_sent := vn (vnth 4 v); m_recv := vn (vnth 5 v); m_active := vbool (vnth 6 v) |}.
Definition dec_code (v : tval) : code := {| c_id := vn (vnth 0 v); c_owner := vn (vnth 1 v); c_act := vn (vnth 2 v) |}.
Definition dec_dom (v : tval) : domain := {| d_id := vn (vnth 0 v); d_owner := vn (vnth 1 v) |}.
Definition lenN {A} (l : list A) : N := N.of_nat (length l).
Definition dec_world (v : tval) : world :=
  let ms := map dec_map (vl (vnth 0 v)) in
  let cs := map dec_code (vl (vnth 1 v)) in
  let ds := map dec_dom (vl (vnth 2 v)) in
  {| w_maps := ms; w_codes := cs; w_doms := ds; w_online := map vn (vl (vnth 3 v));
     w_bind := map (fun e => (vn (vnth 0 e), vn (vnth 1 e))) (vl (vnth 4 v));
     w_nm := lenN ms; w_nc := lenN cs; w_nd := lenN ds;
     w_xnode := vbool (vnth 5 v); w_remote := map vn (vl (vnth 6 v));
     w_index := map (fun e => (vn (vnth 0 e), vn (vnth 1 e))) (vl (vnth 7 v)) |}.
Definition dec_optn (v : tval) : option N := match vopt v with Some x => Some (vn x) | None => None end.
Definition dec_kind (v who : tval) : connkind :=
  match vn v with 0 => KUnknown | 1 => KFresh | 2 => KPending | _ => KConn (vn who) end.
Definition dec_cmd (v : tval) : cmd :=
  {| k_type := vn (vnth 2 v); k_resp := vbool (vnth 3 v); k_obj := dec_optn (vnth 4 v); k_tgt := dec_optn (vnth 5 v);
     k_dir := vn (vnth 6 v); k_sent := vn (vnth 7 v); k_recv := vn (vnth 8 v); k_valid := vbool (vnth 9 v) |}.
Definition dec_table (v : tval) : list row :=
  table_of (vbool (vnth 0 v)) (vbool (vnth 1 v)) (vbool (vnth 2 v)) (vbool (vnth 3 v)) (vbool (vnth 4 v)) (vbool (vnth 5 v)).

(* projections compared with the harness output *)
Definition proj_map (m : mapping) : list N := [m_id m; m_listen m; m_target m; m_sent m; m_recv m; if m_active m then 1 else 0].
Definition proj_code (c : code) : list N := [c_id c; c_owner c; c_act c].
Definition proj_dom (d : domain) : list N := [d_id d; d_owner d].
Definition proj_deliv (x : cid * N * cid) : list N := let '(t, ty, s) := x in [t; ty; s].
Definition proj_bind (x : N * cid) : list N := [fst x; snd x].
Definition rows_eqb (a : list (list N)) (b : list tval) : bool := all2 (fun x y => list_eqb x (map vn (vl y))) a b.

Definition obs_matches (r : result) (o : tval) : bool :=
  Bool.eqb (res_ok r) (vbool (vnth 0 o))
  && rows_eqb (map proj_map (w_maps (res_world r))) (vl (vnth 1 o))
  && rows_eqb (map proj_code (w_codes (res_world r))) (vl (vnth 2 o))
  && rows_eqb (map proj_dom (w_doms (res_world r))) (vl (vnth 3 o))
  && list_eqb (w_online (res_world r)) (map vn (vl (vnth 4 o)))
  && list_eqb (res_dm r) (map vn (vl (vnth 5 o)))
  && list_eqb (res_dc r) (map vn (vl (vnth 6 o)))
  && list_eqb (res_dd r) (map vn (vl (vnth 7 o)))
  && rows_eqb (map proj_deliv (res_deliv r)) (vl (vnth 8 o))
  && rows_eqb (map proj_bind (w_bind (res_world r))) (vl (vnth 9 o)).

Definition step_result (tbl : list row) (w : world) (s : tval) : result :=
  match vn (vnth 0 s) with
  | 4 => mk true (apply_event (EvReauth (vn (vnth 1 s)) (vn (vnth 2 s))) w)
  | 5 => mk true (apply_event (EvRemove (vn (vnth 1 s))) w)
  | 6 => mk true (apply_event (EvDelMap (vn (vnth 1 s))) w)
  | 7 => mk true (apply_event (EvSetParty (vn (vnth 1 s)) (vbool (vnth 2 s)) (vn (vnth 3 s))) w)
  | 8 => mk true (apply_event (EvSetActive (vn (vnth 1 s)) (vbool (vnth 2 s))) w)
  | _ =>
      (* element 12 (optional): k > 0 = the k-th storage call made while the command was handled failed *)
      match vnat (vnth 12 s) with
      | O => exec tbl w (dec_kind (vnth 0 s) (vnth 1 s)) (vn (vnth 10 s)) (dec_cmd s)
      | S p => exec_faulty false tbl w (dec_kind (vnth 0 s) (vnth 1 s)) (vn (vnth 10 s)) (dec_cmd s) p
      end
  end.

(* concurrent pair  [ 9 ; stepA ; stepB ; ... ; observed(at 11) ] with observed = [okA ; maps ; codes ; doms ; online ; okB ; ... ; bind(at 9)]:
   the real outcome must be the outcome of ONE of the two sequential orders of the model (the handlers keep no state of
   their own between a command's steps, so a pair of commands is linearizable) *)
(* traffic counters are left out: two parties' concurrent reports are a read-modify-write race on the counters (a lost update is
   an accounting matter between the two parties, not an identity matter) *)
Definition map_row_eqb (m : mapping) (o : tval) : bool :=
  (m_id m =? vn (vnth 0 o)) && (m_listen m =? vn (vnth 1 o)) && (m_target m =? vn (vnth 2 o)) && Bool.eqb (m_active m) (vbool (vnth 5 o)).
Definition world_matches (w : world) (o : tval) : bool :=
  all2 map_row_eqb (w_maps w) (vl (vnth 1 o))
  && rows_eqb (map proj_code (w_codes w)) (vl (vnth 2 o))
  && rows_eqb (map proj_dom (w_doms w)) (vl (vnth 3 o))
  && list_eqb (w_online w) (map vn (vl (vnth 4 o)))
  && rows_eqb (map proj_bind (w_bind w)) (vl (vnth 9 o)).
Definition pair_eval (tbl : list row) (w : world) (s : tval) : world * bool :=
  let a := vnth 1 s in let b := vnth 2 s in let o := vnth 11 s in
  let okA := vbool (vnth 0 o) in let okB := vbool (vnth 5 o) in
  let ra := step_result tbl w a in let rb := step_result tbl (res_world ra) b in
  let rb' := step_result tbl w b in let ra' := step_result tbl (res_world rb') a in
  (* the final store is the one of a sequential order; each success flag is the one that command has in SOME order (two
     authorised commands racing on one object may both report success: the second delete of a record the first one has read) *)
  let flags := (Bool.eqb (res_ok ra) okA || Bool.eqb (res_ok ra') okA) && (Bool.eqb (res_ok rb) okB || Bool.eqb (res_ok rb') okB) in
  if world_matches (res_world rb) o then (res_world rb, flags)
  else if world_matches (res_world ra') o then (res_world ra', flags)
  else (res_world rb, false).

Fixpoint run_steps (tbl : list row) (w : world) (ss : list tval) : bool :=
  match ss with
  | [] => true
  | s :: ss' =>
      if vn (vnth 0 s) =? 9 then let '(w', ok) := pair_eval tbl w s in ok && run_steps tbl w' ss'
      else let r := step_result tbl w s in obs_matches r (vnth 11 s) && run_steps tbl (res_world r) ss'
  end.

(* overlapping commands (Model/CmdContext.v):  [ 9 ; threads ; schedule ; observed ]
   thread = [conn; client; tag; script([0 = look | 1 = Execute returns ...])]   schedule = thread indices
   observed = per thread the [conn; client; tag] rows its handler saw *)
Definition dec_action (v : tval) : action := if vbool v then AReturn else ALook.
Definition dec_thread (v : tval) : ctxval * list action :=
  ((vn (vnth 0 v), vn (vnth 1 v), vn (vnth 2 v)), map dec_action (vl (vnth 3 v))).
Definition proj_ctx (x : ctxval) : list N := let '(c, i, t) := x in [c; i; t].
Definition overlap_model (v : tval) : list (list ctxval) :=
  observations (ctx_run false (map dec_thread (vl (vnth 1 v))) (map vnat (vl (vnth 2 v)))).
Definition check_overlap (v : tval) : bool :=
  all2 (fun obs o => rows_eqb (map proj_ctx obs) (vl o)) (overlap_model v) (vl (vnth 3 v)).

(* pending-request tables (Model/Pending.v):  [ 8 ; events ; observed ]
   event = [0; id; request; responder] register | [1; id; from; payload] response | [2; id] unregister
   observed = per request (index order) the payloads its requester received *)
Definition dec_pev (v : tval) : pev :=
  match vn (vnth 0 v) with
  | 0 => PReg (vn (vnth 1 v)) (vn (vnth 2 v)) (vn (vnth 3 v))
  | 1 => PResp (vn (vnth 1 v)) (vn (vnth 2 v)) (vn (vnth 3 v))
  | _ => PUnreg (vn (vnth 1 v))
  end.
Definition pending_model (v : tval) : list (list N) :=
  let evs := map dec_pev (vl (vnth 1 v)) in
  map (fun q => got false evs (N.of_nat q)) (seq 0 (length (vl (vnth 2 v)))).
Definition check_pending (v : tval) : bool :=
  all2 (fun g o => list_eqb g (map vn (vl o))) (pending_model v) (vl (vnth 2 v)).

Definition check (v : tval) : bool :=
  if vn (vnth 0 v) =? 9 then check_overlap v
  else if vn (vnth 0 v) =? 8 then check_pending v
  else run_steps (dec_table (vnth 0 v)) (dec_world (vnth 1 v)) (vl (vnth 2 v)).

(* the model's outputs, step by step, for diagnostics *)
Definition enc_rows (l : list (list N)) : tval := VL (map (fun r => VL (map VN r)) l).
Definition enc_result (r : result) : tval :=
  VL [vN_of_bool (res_ok r); enc_rows (map proj_map (w_maps (res_world r))); enc_rows (map proj_code (w_codes (res_world r)));
      enc_rows (map proj_dom (w_doms (res_world r))); VL (map VN (w_online (res_world r)));
      VL (map VN (res_dm r)); VL (map VN (res_dc r)); VL (map VN (res_dd r)); enc_rows (map proj_deliv (res_deliv r));
      enc_rows (map proj_bind (w_bind (res_world r)))].
Fixpoint predict_steps (tbl : list row) (w : world) (ss : list tval) : list tval :=
  match ss with
  | [] => []
  | s :: ss' =>
      if vn (vnth 0 s) =? 9 then let '(w', _) := pair_eval tbl w s in enc_result (mk true w') :: predict_steps tbl w' ss'
      else let r := step_result tbl w s in enc_result r :: predict_steps tbl (res_world r) ss'
  end.
Definition predict (v : tval) : tval :=
  if vn (vnth 0 v) =? 9 then VL (map (fun obs => enc_rows (map proj_ctx obs)) (overlap_model v))
  else if vn (vnth 0 v) =? 8 then enc_rows (pending_model v)
  else VL (predict_steps (dec_table (vnth 0 v)) (dec_world (vnth 1 v)) (vl (vnth 2 v))).

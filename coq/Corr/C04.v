(* Corr/C04.v — correspondence glue: evaluates the TunnelOpen model on a table cell observed on the real code. *)
From TX Require Import Base.Threads Base.Val Model.TunnelOpen Model.TunnelRace Model.TunnelCross.

(* case value: [ [validate_first; secret_isvalid] ; [id; mid; secret; resume; mstate; tstate] ; [ack; role; entitled] ]
   ack: 0 none 1 success 2 failure;  role: 0 not attached, 1 source of the existing bridge, 2 target of the existing
   bridge, 3 source of a new bridge, 4 forwarded to the tunnel's node *)
Definition dec_variant (v : tval) : variant :=
  {| v_validate_first := vbool (vnth 0 v); v_secret_isvalid := vbool (vnth 1 v); v_wait_agree := true |}.
Definition dec_mstate (k : N) : t_mstate :=
  match k with 0 => MActive | 1 => MRevoked | 2 => MExpired | 3 => MInactive | 4 => MMissing | 5 => MExp25s | 6 => MExp10s
             | 7 => MExp2s | 8 => MExp1ms | 9 => MSoon60s
             | _ => MMissing    (* 10, 11: revoked / deactivated and then aged out of the store: the main record is gone *)
             end%N.
Definition dec_cell (v : tval) : cell :=
  {| ce_id := match vn (vnth 0 v) with 0 => IdNone | 1 => IdHalf | 2 => IdListen | 3 => IdTarget | _ => IdStranger end%N;
     ce_mid := match vn (vnth 1 v) with 0 => MidNone | 1 => MidTunnel | _ => MidOther end%N;
     ce_secret := match vn (vnth 2 v) with 0 => SNone | 1 => SRight | 2 => SWrong | 3 => SPrefix1 | 4 => SPrefixAll | 5 => SSuffix
                                          | 6 => SPlus | 7 => SCase | 8 => SOneChar | _ => SOther end%N;
     ce_resume := vbool (vnth 3 v);
     ce_mstate := dec_mstate (vn (vnth 4 v));
     ce_tstate := match vn (vnth 5 v) with 0 => TNone | 1 => TWaiting | 2 => TServed | _ => TRemote end%N;
     ce_party := match vn (vnth 6 v) with 0 => PNormal | 1 => PListen0 | 2 => PTarget0 | _ => PNoSecret end%N |}.

Definition expected (o : outcome) : N * N :=
  match o with
  | Refuse true => (2, 0)
  | Refuse false => (0, 0)
  | AttachSource => (1, 1)
  | AttachTarget => (1, 2)
  | NewBridge => (1, 3)
  | Forward => (1, 4)
  | WaitLocal => (0, 8)
  | AckNoAttach => (1, 0)
  | Parked => (1, 6)
  end%N.

Definition model_obs (v : tval) : N * N * bool :=
  let c := dec_cell (vnth 1 v) in
  (expected (cell_open (dec_variant (vnth 0 v)) c), cell_entitled c).

Open Scope N_scope.
(* ---- histories (harness/cmd/c04/hist.go) --------------------------------------------------------------------
   case value: [ [validate_first; secret_isvalid] ; [99; routing] ; steps ; obs ]
   step: open  [0; who (0 none 1 half 2 L 3 T 4 S 5 X); mid (0 none 1 m1 2 m2); secret (0 none 1 right 2 wrong); tun; registered;
                     connection (0 = a new one = step index + 1, else the connection of an earlier step that sends this request too)]
         setm  [1; m; state (0 active 1 revoked 2 expired 3 inactive 4 missing)]
         route [2; tun; node (0 remove, 1 the other node, 2 THIS node: a record without a local bridge); m]      close [3; tun]      sleep [4]
         srv   [5; tun]   the server itself starts a tunnel on mapping 3 (StartServerTunnel; source = the server's own connection 999)
   obs per step: [ack; role; snapshot]; snapshot = [b0; mid0; src0; tgt0; b1; mid1; src1; tgt1; forwarded tunnels; parked]
   connection of step i is connref i+1; tunnels are 7 and 8; clients L=11 T=12 S=13 X=14; M1=(11,12,101) M2=(13,14,102);
   after every step the routing poll of every parked request fires once (EResolve), as the harness awaits it *)
Definition h_client (who : N) : client := match who with 2 => 11 | 3 => 12 | 4 => 13 | 5 => 14 | _ => 0 end.
Definition h_state (k : N) : t_mstate := dec_mstate k.
Definition h_mapping (m : N) (st : t_mstate) : option mapping :=
  if N.eqb m 1 then mk_mapping 11 12 101 st else if N.eqb m 2 then mk_mapping 13 14 102 st
  else if N.eqb m 4 then mk_mapping 11 12 0 st   (* mapping 4: stores NO secret *)
  else mk_mapping 0 12 103 st.     (* mapping 3: SERVER-SIDE listener (stored listening client id 0), target client T *)
Definition h_db0 : db := fun m => if N.eqb m 1 then h_mapping 1 MActive else if N.eqb m 2 then h_mapping 2 MActive
                            else if N.eqb m 3 then h_mapping 3 MActive else if N.eqb m 4 then h_mapping 4 MActive else None.
Definition h_req (mid sec tun : N) : request :=
  {| r_mid := mid; r_tid := 7 + tun;
     r_secret := match sec with 0 => 0 | 1 => (if N.eqb mid 2 then 102 else if N.eqb mid 3 then 103 else if N.eqb mid 4 then 0 else 101) | 9 => (if N.eqb mid 2 then 101 else 102)
                                | k => 990 + k end; r_resume := false |}.
Definition h_cfg (routing : bool) : config := {| cfg_self := 1; cfg_crossnode := routing; cfg_routing := routing |}.

Definition resolve_all (v : variant) (cfg : config) (s : sys) : sys :=
  let s1 := fold_left (fun s' cr => step v cfg s' (EResolve cr)) (map (fun p => fst (fst p)) (s_park s)) s in
  fold_left (fun s' cr => step v cfg s' (EWaitResolve cr)) (map (fun p => fst (fst p)) (s_wait s1)) s1.

Definition optn (o : option N) : N := match o with Some x => x | None => 0 end.
Definition snap_tun (s : sys) (t : tid) : list N :=
  match s_tun s t with
  | Some b => [1; b_mid b; optn (b_src b); optn (b_tgt b)]
  | None => [0; 0; 0; 0]
  end.
Definition snapshot (s : sys) : list N :=
  snap_tun s 7 ++ snap_tun s 8 ++
  [ (if existsb (fun p => N.eqb (snd p) 7) (s_fwd s) then 1 else 0) + (if existsb (fun p => N.eqb (snd p) 8) (s_fwd s) then 1 else 0);
    N.of_nat (length (s_park s) + length (s_wait s)) ].

(* one history step: (ack, role) of an open as decided on the state before it, then the state after it and the polls *)
Definition h_step (v : variant) (cfg : config) (s : sys) (i : N) (st : tval) : (N * N) * sys :=
  let a := vn (vnth 1 st) in let b := vn (vnth 2 st) in let c := vn (vnth 3 st) in let d := vn (vnth 4 st) in
  match vn (vnth 0 st) with
  | 0 => let cid := {| c_registered := vbool (vnth 5 st); c_client := h_client a |} in
         let r := h_req b c d in
         (expected (open v cfg (s_db s) (s_tun s) (s_rt s) cid r),
          resolve_all v cfg (step v cfg s (EOpen (if N.eqb (vn (vnth 6 st)) 0 then i + 1 else vn (vnth 6 st)) cid r)))
  | 1 => ((0, 0), resolve_all v cfg (step v cfg s (ESetMapping a (h_mapping a (h_state b)))))
  | 2 => ((0, 0), resolve_all v cfg (step v cfg s (ESetRoute (7 + a) (if N.eqb b 0 then None else Some {| ro_node := (if N.eqb b 2 then 1 else 2); ro_mid := c |}))))
  | 3 => ((0, 0), resolve_all v cfg (step v cfg s (ECloseBridge (7 + a))))
  | 5 => ((0, 0), resolve_all v cfg (mkSys (s_db s) (upd (s_tun s) (7 + a) (Some {| b_mid := 3; b_src := Some 999; b_tgt := None |}))
                                            (rt_register cfg (s_rt s) (7 + a) 3) (s_fwd s) (s_log s) (s_park s) (s_wait s)))
  | _ => ((0, 0), s)
  end.

Fixpoint h_run (v : variant) (cfg : config) (s : sys) (i : N) (steps : list tval) : list ((N * N) * list N) :=
  match steps with
  | [] => []
  | st :: rest => let '(ar, s') := h_step v cfg s i st in (ar, snapshot s') :: h_run v cfg s' (i + 1) rest
  end.

Definition hist_model (v : tval) : list ((N * N) * list N) :=
  h_run (dec_variant (vnth 0 v)) (h_cfg (vbool (vnth 1 (vnth 1 v)))) (init h_db0 (fun _ => None)) 0 (vl (vnth 2 v)).

Fixpoint nlist_eqb (a b : list N) : bool :=
  match a, b with [], [] => true | x :: a', y :: b' => N.eqb x y && nlist_eqb a' b' | _, _ => false end.
Definition hist_obs_ok (m : (N * N) * list N) (o : tval) : bool :=
  let '((ack, role), snap) := m in
  N.eqb ack (vn (vnth 0 o)) && N.eqb role (vn (vnth 1 o)) && nlist_eqb snap (map vn (vl (vnth 2 o))).
Definition check_hist (v : tval) : bool := all2 hist_obs_ok (hist_model v) (vl (vnth 3 v)).
Definition predict_hist (v : tval) : tval :=
  VL (map (fun m => let '((ack, role), snap) := m in VL [VN ack; VN role; VL (map VN snap)]) (hist_model v)).
Definition is_hist (v : tval) : bool := N.eqb (vn (vnth 0 (vnth 1 v))) 99.

Close Scope N_scope.

(* ---- two-request interleavings (harness/cmd/c04/race.go) ------------------------------------------------------
   case value: [ [validate_first; secret_isvalid] ; [98; late_agree; source_reattach] ; [whoA; midA; secA] ; [whoB; midB; secB] ;
                 [sched: 0 = B entirely first, 1 = B looks up, A runs, B attaches, 2 = A entirely first] ; [mid_end; src; tgt] ]
   A is connection 1, B is connection 2, the tunnel id is 9 *)
Open Scope N_scope.
Definition race_thread (cr : N) (v : tval) : rlocal :=
  let who := vn (vnth 0 v) in
  request_thread cr {| c_registered := negb (N.eqb who 0); c_client := h_client who |} (h_req (vn (vnth 1 v)) (vn (vnth 2 v)) 2).
Definition race_model (v : tval) : list N :=
  let rv := {| late_agree := vbool (vnth 1 (vnth 1 v)); source_reattach := vbool (vnth 2 (vnth 1 v)); refetch_existing := false |} in
  let k := vn (vnth 0 (vnth 4 v)) in
  let sched := (if N.eqb k 0 then [1; 1; 0; 0] else if N.eqb k 1 then [1; 0; 0; 1] else [0; 0; 1; 1])%nat in
  let s := rrun rv h_db0 (rinit [race_thread 1 (vnth 2 v); race_thread 2 (vnth 3 v)]) sched in
  match sh_tun (fst s) 9 with
  | Some b => [b_mid b; optn (b_src b); optn (b_tgt b)]
  | None => [0; 0; 0]
  end.
(* bridge replacement: [ variant ; [96; late_agree] ; A ; B ; PRE ; [ended] ; [mid_end; src; tgt] ]
   PRE (connection 3) opens tunnel 9 first; B (connection 2) does its lookup and is parked at its ack write; with ended = 1 the
   bridge then ends; A (connection 1) runs to completion; B is released *)
Definition repl_model (v : tval) : list N :=
  let rv := {| late_agree := vbool (vnth 1 (vnth 1 v)); source_reattach := false; refetch_existing := false |} in
  let sched := (if vbool (vnth 0 (vnth 5 v)) then [2; 2; 1; 3; 0; 0; 1] else [2; 2; 1; 0; 0; 1])%nat in
  let s := rrun rv h_db0 (rinit [race_thread 1 (vnth 2 v); race_thread 2 (vnth 3 v); race_thread 3 (vnth 4 v); end_thread 9]) sched in
  match sh_tun (fst s) 9 with
  | Some b => [b_mid b; optn (b_src b); optn (b_tgt b)]
  | None => [0; 0; 0]
  end.
Definition is_repl (v : tval) : bool := N.eqb (vn (vnth 0 (vnth 1 v))) 96.
Definition check_repl (v : tval) : bool := nlist_eqb (repl_model v) (map vn (vl (vnth 6 v))).
Definition is_race (v : tval) : bool := N.eqb (vn (vnth 0 (vnth 1 v))) 98.
Definition check_race (v : tval) : bool := nlist_eqb (race_model v) (map vn (vl (vnth 5 v))).
Close Scope N_scope.

(* ---- two-node record race (harness/cmd/c04/xnode.go, fixed shape) ---------------------------------------------
   case value: [ [validate_first; secret_isvalid] ; [97; rec_first] ; P ; Q ; R ; [gated] ; [bridge mapping; bridge source; record mapping; R forwarded] ]
   P, Q = [who; mid; secret] source-side requests on node A for tunnel 9 (P is connection 1, Q is connection 2; with gated = 1 P is parked
   after its lookups while Q runs, else P runs entirely first); R = target-side request on node B (connection 3), after both *)
Open Scope N_scope.
Definition cross_thread (k : xkind) (cr : N) (v : tval) : xlocal :=
  let who := vn (vnth 0 v) in
  xthread k cr {| c_registered := negb (N.eqb who 0); c_client := h_client who |} (h_req (vn (vnth 1 v)) (vn (vnth 2 v)) 2).
Definition cross_model (v : tval) : list N :=
  let xv := {| rec_first := vbool (vnth 1 (vnth 1 v)) |} in
  let sched := (if vbool (vnth 0 (vnth 5 v)) then [0; 1; 1; 1; 0; 0; 2; 2] else [0; 0; 0; 1; 1; 1; 2; 2])%nat in
  let s := xrun xv h_db0 (xinit [cross_thread KSource 1 (vnth 2 v); cross_thread KSource 2 (vnth 3 v); cross_thread KRemote 3 (vnth 4 v)]) sched in
  let sh := fst s in
  match x_tun sh 9 with
  | Some b => [b_mid b; optn (b_src b); optn (x_rec sh 9); (if N.eqb (optn (b_tgt b)) 3 then 1 else 0)]
  | None => [0; 0; optn (x_rec sh 9); 0]
  end.
Definition is_cross (v : tval) : bool := N.eqb (vn (vnth 0 (vnth 1 v))) 97.
Definition check_cross (v : tval) : bool := nlist_eqb (cross_model v) (map vn (vl (vnth 6 v))).
Close Scope N_scope.

Definition check (v : tval) : bool :=
  if is_hist v then check_hist v else if is_race v then check_race v else if is_cross v then check_cross v else if is_repl v then check_repl v else
  let '((ack, role), ent) := model_obs v in
  let o := vnth 2 v in
  N.eqb ack (vn (vnth 0 o)) && N.eqb role (vn (vnth 1 o)) && Bool.eqb ent (vbool (vnth 2 o)).

Definition predict (v : tval) : tval :=
  if is_hist v then predict_hist v else if is_race v then VL (map VN (race_model v)) else if is_cross v then VL (map VN (cross_model v)) else if is_repl v then VL (map VN (repl_model v)) else
  let '((ack, role), ent) := model_obs v in VL [VN ack; VN role; vN_of_bool ent].

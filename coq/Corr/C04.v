(* Corr/C04.v — correspondence glue: evaluates the TunnelOpen model on a table cell observed on the real code. *)
From TX Require Import Base.Val Model.TunnelOpen.

(* case value: [ [validate_first; secret_isvalid] ; [id; mid; secret; resume; mstate; tstate] ; [ack; role; entitled] ]
   ack: 0 none 1 success 2 failure;  role: 0 not attached, 1 source of the existing bridge, 2 target of the existing
   bridge, 3 source of a new bridge, 4 forwarded to the tunnel's node *)
Definition dec_variant (v : tval) : variant :=
  {| v_validate_first := vbool (vnth 0 v); v_secret_isvalid := vbool (vnth 1 v) |}.
Definition dec_cell (v : tval) : cell :=
  {| ce_id := match vn (vnth 0 v) with 0 => IdNone | 1 => IdHalf | 2 => IdListen | 3 => IdTarget | _ => IdStranger end%N;
     ce_mid := match vn (vnth 1 v) with 0 => MidNone | 1 => MidTunnel | _ => MidOther end%N;
     ce_secret := match vn (vnth 2 v) with 0 => SNone | 1 => SRight | _ => SWrong end%N;
     ce_resume := vbool (vnth 3 v);
     ce_mstate := match vn (vnth 4 v) with 0 => MActive | 1 => MRevoked | 2 => MExpired | 3 => MInactive | _ => MMissing end%N;
     ce_tstate := match vn (vnth 5 v) with 0 => TNone | 1 => TWaiting | 2 => TServed | _ => TRemote end%N |}.

Definition expected (o : outcome) : N * N :=
  match o with
  | Refuse true => (2, 0)
  | Refuse false => (0, 0)
  | AttachSource => (1, 1)
  | AttachTarget => (1, 2)
  | NewBridge => (1, 3)
  | Forward => (1, 4)
  | WaitLocal => (0, 5)
  | AckNoAttach => (1, 0)
  end%N.

Definition model_obs (v : tval) : N * N * bool :=
  let c := dec_cell (vnth 1 v) in
  (expected (cell_open (dec_variant (vnth 0 v)) c), cell_entitled c).

Definition check (v : tval) : bool :=
  let '((ack, role), ent) := model_obs v in
  let o := vnth 2 v in
  N.eqb ack (vn (vnth 0 o)) && N.eqb role (vn (vnth 1 o)) && Bool.eqb ent (vbool (vnth 2 o)).

Definition predict (v : tval) : tval :=
  let '((ack, role), ent) := model_obs v in VL [VN ack; VN role; vN_of_bool ent].

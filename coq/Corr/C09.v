(* Corr/C09.v — correspondence glue: replays a history observed on the REAL tunnel.RoutingTable (harness/cmd/c09)
   on the Routing model and compares every answer field by field.

   case = VL [ kind ; ttl_ns ; VL ops ]
     kind 0 memory.Storage shared by all tables      (shared store, identity shape, one clock)
          1 redis.Storage clients of one miniredis     (shared store, JSON shape, virtual backend clock)
          2 hybrid.Storage per node + shared Redis     (routing by the REGENERATED prefix tables, JSON shape, virtual clock)
          3 one hybrid.Storage without shared cache    (as 0, through hybrid's local cache)
          4 hybrid.Storage per node, no shared cache   (routing by the tables with no shared cache: node-local cells)
          5 memory.Storage that never expires by itself (shared, identity shape, backend clock frozen)
     op   VL [1; n; rec8; created; obs]        RegisterWaitingTunnel; obs = VL [0; rec10] | VL [3]
          VL [2; n; tid; t0; t1; obs]          LookupWaitingTunnel;  obs = VL [0; rec10] | VL [1] notfound | VL [2] expired | VL [3] invalid | VL [4] other error
          VL [3; n; tid; t0; obs]              RemoveWaitingTunnel;  obs = VL [0] | VL [3]
          VL [4; d]                            backend time passes: miniredis.FastForward(d) / memory VerifAdvance(d)
          VL [5; n; id; addr; t0]              RegisterNodeAddress
          VL [6; n; id; t0; obs]               GetNodeAddress;        obs = VL [0; addr] | VL [1] not found | VL [2] bad
          VL [7; op]                           the same call while the shared tier fails (one-call outage)
     rec8 = VL [tunnel; mapping; secret; node; src+2^63; dst+2^63; host; port+2^63], rec10 = rec8 ++ [created; expires]

   Time: the routing table reads the real clock.  A Register is replayed at exactly the CreatedAt the code chose
   (reported in the caller's struct); a Lookup happened somewhere in [t0,t1] (clock readings around the call), so the
   model is evaluated at t0-eps and at t1+eps and the observation must equal one of the two answers.  When the two
   answers differ the step is "ambiguous" (counted by predict, never a mismatch by itself).  The model clock always
   stays a lower bound of the real time. *)
From Coq Require Import ZArith.
From TX Require Import Base.Val Model.RoutingForward Proofs.SideC09 Gen.C09.
Open Scope N_scope.

(* the codec instance and the deployment configurations are those of Proofs/SideC09.v (ex_codec: dec (enc r) = Some r) *)
Definition gstr := ex_gstr.
Definition mstate := state gstr.
Definition mstep := ex_step.

Definition eps : N := 5000000.
Definition two63 : Z := 9223372036854775808%Z.
Definition vz (v : tval) : Z := (Z.of_N (vn v) - two63)%Z.

Definition cfg_of (kind ttl : N) : cfg :=
  match kind with
  | 0 => cfg_direct ttl ShapeIdentMemory
  | 1 => cfg_direct ttl ShapeIdentRedis
  | 2 => cfg_hybrid true ttl
  | 3 => cfg_direct ttl ShapeIdentHybridLocal
  | 4 => cfg_hybrid false ttl
  | _ => cfg_direct ttl true
  end.

(* does the shared backend's clock follow the node clock? *)
Definition same_clock (kind : N) : bool := match kind with 0 | 3 | 4 => true | _ => false end.

Definition tick_to (kind : N) (c : cfg) (s : mstate) (t : N) : mstate :=
  let dn := t - now _ s in
  fst (mstep c s (OTick dn (if same_clock kind then dn else 0))).

Definition dec_rec8 (v : tval) : waiting :=
  mkW (vb (vnth 0 v)) (vb (vnth 1 v)) (vb (vnth 2 v)) (vb (vnth 3 v)) (vz (vnth 4 v)) (vz (vnth 5 v))
      (vb (vnth 6 v)) (vz (vnth 7 v)) 0 0.
Definition dec_rec10 (v : tval) : waiting := stamp (dec_rec8 v) (vn (vnth 8 v)) (vn (vnth 9 v)).

Definition waiting_eqb (a b : waiting) : bool :=
  list_eqb (w_tunnel a) (w_tunnel b) && list_eqb (w_mapping a) (w_mapping b) && list_eqb (w_secret a) (w_secret b)
  && list_eqb (w_node a) (w_node b) && Z.eqb (w_src a) (w_src b) && Z.eqb (w_dst a) (w_dst b)
  && list_eqb (w_host a) (w_host b) && Z.eqb (w_port a) (w_port b)
  && N.eqb (w_created a) (w_created b) && N.eqb (w_expires a) (w_expires b).

(* does the model's answer equal the observation?  merge_gone: the two "gone" errors are not told apart
   (memory.Storage's own deadline is a few microseconds after ExpiresAt) *)
Definition res_matches (merge_gone : bool) (r : res) (o : tval) : bool :=
  let code := vn (vnth 0 o) in
  match r with
  | RReg w | ROk w => N.eqb code 0 && waiting_eqb w (dec_rec10 (vnth 1 o))
  | RNotFound => N.eqb code 1 || (merge_gone && N.eqb code 2)
  | RExpired => N.eqb code 2 || (merge_gone && N.eqb code 1)
  | RInvalid => N.eqb code 3
  | RUnit => N.eqb code 0
  | RDecodeErr | RBadType => N.eqb code 4
  | RAddr a => N.eqb code 0 && list_eqb a (vb (vnth 1 o))
  | RAddrNotFound => N.eqb code 1
  | RAddrBad => N.eqb code 2
  end.

Definition res_code (r : res) : N :=
  match r with
  | RReg _ | ROk _ | RUnit | RAddr _ => 0
  | RNotFound | RAddrNotFound => 1
  | RExpired | RAddrBad => 2
  | RInvalid => 3
  | RDecodeErr | RBadType => 4
  end.

(* one observed operation: new model state, matched?, ambiguous?, (answer at lower bound, answer at upper bound) *)
Definition replay_op (kind : N) (c : cfg) (s : mstate) (o : tval) : mstate * bool * bool * (N * N) :=
  let merge := same_clock kind in
  match vn (vnth 0 o) with
  | 1 =>
      let s0 := tick_to kind c s (vn (vnth 3 o)) in
      let '(s1, r) := mstep c s0 (ORegister (vnat (vnth 1 o)) (dec_rec8 (vnth 2 o))) in
      (* the replay is exact only if the model clock could be set to the reported CreatedAt *)
      (s1, res_matches merge r (vnth 4 o), false, (res_code r, res_code r))
  | 2 =>
      let lk := OLookup (vnat (vnth 1 o)) (vb (vnth 2 o)) in
      let s_lo := tick_to kind c s (vn (vnth 3 o) - eps) in
      let s_hi := tick_to kind c s (vn (vnth 4 o) + eps) in
      let '(s_lo', r_lo) := mstep c s_lo lk in
      let '(s_hi', r_hi) := mstep c s_hi lk in
      let amb := negb (N.eqb (res_code (proj r_lo)) (res_code (proj r_hi))) in
      if res_matches merge r_lo (vnth 5 o) then (s_lo', true, amb, (res_code r_lo, res_code r_hi))
      else if res_matches merge r_hi (vnth 5 o)
           then (mkS _ (now _ s_lo') (bnow _ s_lo') (mem _ s_hi'), true, amb, (res_code r_lo, res_code r_hi))
           else (s_lo', false, amb, (res_code r_lo, res_code r_hi))
  | 3 =>
      let s0 := tick_to kind c s (vn (vnth 3 o)) in
      let '(s1, r) := mstep c s0 (ORemove (vnat (vnth 1 o)) (vb (vnth 2 o))) in
      (s1, res_matches merge r (vnth 4 o), false, (res_code r, res_code r))
  (* kind 5 is a backend that never expires anything: its clock stands still *)
  | 4 => (fst (mstep c s (OTick 0 (match kind with 5 => 0 | _ => vn (vnth 1 o) end))), true, false, (0, 0))
  | 5 =>
      let s0 := tick_to kind c s (vn (vnth 4 o)) in
      (fst (mstep c s0 (ORegAddr (vnat (vnth 1 o)) (vb (vnth 2 o)) (vb (vnth 3 o)))), true, false, (0, 0))
  | 6 =>
      let s0 := tick_to kind c s (vn (vnth 3 o)) in
      let '(s1, r) := mstep c s0 (OGetAddr (vnat (vnth 1 o)) (vb (vnth 2 o))) in
      (s1, res_matches merge r (vnth 4 o), false, (res_code r, res_code r))
  | 7 =>
      (* VL [7; inner]: the shared tier failed during this call (miniredis SetError for one call): Model/RoutingForward.v
         qstep with fallback = false.  A reported storage error is observation code 4 (2 for GetNodeAddress) *)
      let i := vnth 1 o in
      let n := vnat (vnth 1 i) in
      let '(mo, t, obs) :=
        match vn (vnth 0 i) with
        | 1 => (ORegister n (dec_rec8 (vnth 2 i)), vn (vnth 3 i), vnth 4 i)
        | 2 => (OLookup n (vb (vnth 2 i)), vn (vnth 3 i), vnth 5 i)
        | 3 => (ORemove n (vb (vnth 2 i)), vn (vnth 3 i), vnth 4 i)
        | 5 => (ORegAddr n (vb (vnth 2 i)) (vb (vnth 3 i)), vn (vnth 4 i), VL [VN 4])
        | _ => (OGetAddr n (vb (vnth 2 i)), vn (vnth 3 i), vnth 4 i)
        end in
      let s0 := tick_to kind c s t in
      let '(s1, r) := qstep ex_gstr ex_enc ex_dec ex_dec ex_of_addr ex_to_addr ex_keep false c s0 (QFault mo) in
      let ok := match r with
                | QR r' => res_matches merge r' obs
                | QStorageErr => let code := vn (vnth 0 obs) in
                                 match mo with OGetAddr _ _ => N.eqb code 2 | _ => N.eqb code 4 end
                end in
      (s1, ok, false, (match r with QR r' => res_code r' | QStorageErr => 4 end, 0))
  | _ => (s, false, false, (9, 9))
  end.

Fixpoint replay (kind : N) (c : cfg) (s : mstate) (ops : list tval) : list (bool * bool * (N * N)) :=
  match ops with
  | [] => []
  | o :: ops' => let '(s1, ok, amb, codes) := replay_op kind c s o in (ok, amb, codes) :: replay kind c s1 ops'
  end.

Definition replay_case (v : tval) : list (bool * bool * (N * N)) :=
  let kind := vn (vnth 0 v) in
  replay kind (cfg_of kind (vn (vnth 1 v))) (init gstr) (vl (vnth 2 v)).

Definition check (v : tval) : bool := forallb (fun x => fst (fst x)) (replay_case v).

(* diagnostics: per op [matched; ambiguous; model answer code at the lower bound; at the upper bound] *)
Definition predict (v : tval) : tval :=
  VL (map (fun x => VL [vN_of_bool (fst (fst x)); vN_of_bool (snd (fst x)); VN (fst (snd x)); VN (snd (snd x))])
          (replay_case v)).

(* Corr/C14.v — replays an observed schedule on the Hybrid model (prefix tables from Gen/C14.v) and compares
   per-caller result logs, the number of spawned write-backs and the final content of the three tiers; in
   `cat` mode compares category / getCacheForKey of arbitrary keys with the real functions. *)
From TX Require Import Base.Val Model.Hybrid Model.HybridNodes Gen.C14.

Definition GenTables : tables :=
  {| t_pers := PersistentPrefixes; t_shared := SharedPrefixes; t_sp := SharedPersistentPrefixes |}.

(* case = [ mode ; cfg ; keys ; init ; threads ; sched ; nwb ; observed ]
   cfg = [shared; pers; fix_incr; fix_setnx; fix_wb; fix_list; fix_cwf; fix_cre; exp_locked]      init entry = [tier; key index; value]
   thread = [ ops ; faults ; observed log ]       op = [code; key index; argument]
   value = [0; n] string | [1; [n..]] list | [2; n] counter        result = [code; payload]
   observed (sched) = [ [local; shared; pers] ; spawned ]   each tier = list of [key index; value]
   observed (cat)   = list of [category; cache-for-key-is-shared] *)
Definition dec_value (v : tval) : value :=
  match vn (vnth 0 v) with
  | 0%N => VStr (vn (vnth 1 v))
  | 1%N => VList (map vn (vl (vnth 1 v)))
  | _ => VInt (vn (vnth 1 v))
  end.
Definition dec_key (keys : list kbytes) (v : tval) : kbytes := nth (vnat v) keys [].
Definition dec_op (keys : list kbytes) (v : tval) : op :=
  let k := dec_key keys (vnth 1 v) in
  match vn (vnth 0 v) with
  | 0%N => OSet k (dec_value (vnth 2 v))
  | 1%N => OGet k
  | 2%N => ODel k
  | 3%N => OExists k
  | 4%N => OAppend k (vn (vnth 2 v))
  | 5%N => ORemove k (vn (vnth 2 v))
  | 6%N => OIncr k
  | 10%N => OSetExp k
  | _ => OSetNX k (dec_value (vnth 2 v))
  end.
Definition dec_res (v : tval) : res :=
  match vn (vnth 0 v) with
  | 0%N => ROk
  | 1%N => RErr
  | 2%N => RNotFound
  | 3%N => RVal (dec_value (vnth 1 v))
  | 4%N => RBool (vbool (vnth 1 v))
  | _ => RInt (vn (vnth 1 v))
  end.
Definition dec_tier (v : tval) : tier := match vn v with 0%N => TLocal | 1%N => TShared | _ => TPers end.
Definition dec_cfg (v : tval) : cfg :=
  {| has_shared := vbool (vnth 0 v); en_pers := vbool (vnth 1 v); fix_incr := vbool (vnth 2 v); fix_setnx := vbool (vnth 3 v);
     fix_wb := vbool (vnth 4 v); fix_list := vbool (vnth 5 v); fix_cwf := vbool (vnth 6 v); fix_cre := vbool (vnth 7 v); exp_locked := vbool (vnth 8 v) |}.

Fixpoint nlist_eqb (a b : list N) : bool :=
  match a, b with
  | [], [] => true
  | x :: a', y :: b' => N.eqb x y && nlist_eqb a' b'
  | _, _ => false
  end.
Definition value_eqb (a b : value) : bool :=
  match a, b with
  | VStr x, VStr y | VInt x, VInt y => N.eqb x y
  | VList x, VList y => nlist_eqb x y
  | _, _ => false
  end.
Definition ovalue_eqb (a b : option value) : bool :=
  match a, b with Some x, Some y => value_eqb x y | None, None => true | _, _ => false end.
Definition res_eqb (a b : res) : bool :=
  match a, b with
  | ROk, ROk | RErr, RErr | RNotFound, RNotFound => true
  | RVal x, RVal y => value_eqb x y
  | RBool x, RBool y => Bool.eqb x y
  | RInt x, RInt y => N.eqb x y
  | _, _ => false
  end.

Definition model_run (v : tval) : world * list thread :=
  let c := dec_cfg (vnth 1 v) in
  let keys := map vb (vl (vnth 2 v)) in
  let w0 := fold_left (fun w e => tset w (dec_tier (vnth 0 e)) (dec_key keys (vnth 1 e)) (Some (dec_value (vnth 2 e))))
                      (vl (vnth 3 v)) (init_world empty_store empty_store empty_store) in
  let callers := map (fun it => TCaller (init_caller (fst it) (map (dec_op keys) (vl (vnth 0 (snd it)))) (map vbool (vl (vnth 1 (snd it))))))
                     (combine (seq 0 (length (vl (vnth 4 v)))) (vl (vnth 4 v))) in
  hrun GenTables c w0 (callers ++ wb_workers (vnat (vnth 6 v))) (map vnat (vl (vnth 5 v))).

Definition tier_obs (keys : list kbytes) (w : world) (t : tier) (obs : tval) : bool :=
  forallb (fun ik => ovalue_eqb (tget w t (snd ik))
                       (match find (fun e => Nat.eqb (vnat (vnth 0 e)) (fst ik)) (vl obs) with
                        | Some e => Some (dec_value (vnth 1 e)) | None => None end))
          (combine (seq 0 (length keys)) keys).

Definition cat_code (x : cat) : N :=
  match x with CRuntime => CatRuntime | CPersistent => CatPersistent | CShared => CatShared | CSharedPersistent => CatSharedPersistent end.
Definition full_cfg : cfg := {| has_shared := true; en_pers := true; fix_incr := true; fix_setnx := true; fix_wb := true; fix_list := true; fix_cwf := true; fix_cre := true; exp_locked := true |}.

Definition check_sched (v : tval) : bool :=
  let keys := map vb (vl (vnth 2 v)) in
  let '(w, ts) := model_run v in
  let obs := vnth 7 v in
  all2 (fun t tv => match t with
                    | TCaller cl => all2 res_eqb (rev (log cl)) (map dec_res (vl (vnth 2 tv)))
                                    && match ops cl, cpc cl with [], PIdle => true | _, _ => false end
                    | _ => false end)
       (firstn (length (vl (vnth 4 v))) ts) (vl (vnth 4 v))
  && tier_obs keys w TLocal (vnth 0 (vnth 0 obs))
  && tier_obs keys w TShared (vnth 1 (vnth 0 obs))
  && tier_obs keys w TPers (vnth 2 (vnth 0 obs))
  && Nat.eqb (length (w_spawned w)) (vnat (vnth 1 obs)).

Definition check_cat (v : tval) : bool :=
  all2 (fun k o => N.eqb (cat_code (category GenTables k)) (vn (vnth 0 o))
                   && Bool.eqb (tier_eqb (cache_for_key GenTables full_cfg k) TShared) (vbool (vnth 1 o)))
       (map vb (vl (vnth 2 v))) (vl (vnth 7 v)).

(* nodes mode: case = [ 2 ; cfg ; keys ; init ; steps ; [] ; number of nodes ; observed ]
   init tier code: 2 persistent, 1 shared cache, 10+i local cache of node i      step = [node ; op]  (node = number of nodes: a fresh node)
   observed = [ results ; [local tier of node 0; ...] ; shared ; pers ] *)
Definition store_set (s : store) (k : kbytes) (x : value) : store := supd s k (Some x).
Definition nodes_init (v : tval) : mworld :=
  let keys := map vb (vl (vnth 2 v)) in
  fold_left (fun m e =>
               let k := dec_key keys (vnth 1 e) in let x := dec_value (vnth 2 e) in
               match vn (vnth 0 e) with
               | 2%N => {| m_locals := m_locals m; m_shared := m_shared m; m_pers := store_set (m_pers m) k x |}
               | 1%N => {| m_locals := m_locals m; m_shared := store_set (m_shared m) k x; m_pers := m_pers m |}
               | t => let i := N.to_nat (t - 10) in
                      {| m_locals := upd_nth i (store_set (nth i (m_locals m) empty_store) k x) (m_locals m); m_shared := m_shared m; m_pers := m_pers m |}
               end)
            (vl (vnth 3 v))
            {| m_locals := repeat empty_store (vnat (vnth 6 v)); m_shared := empty_store; m_pers := empty_store |}.
Definition nodes_run (v : tval) : mworld * list (option res) :=
  let keys := map vb (vl (vnth 2 v)) in
  mrun GenTables (dec_cfg (vnth 1 v)) (nodes_init v)
       (map (fun sv => match vn (vnth 0 (vnth 1 sv)) with
                       | 8%N => MDrop (vnat (vnth 0 sv)) (dec_key keys (vnth 1 (vnth 1 sv)))       (* op code 8: dropc, 9: dropall *)
                       | 9%N => MDropAll (dec_key keys (vnth 1 (vnth 1 sv)))
                       | _ => MOp (vnat (vnth 0 sv)) (dec_op keys (vnth 1 sv))
                       end) (vl (vnth 4 v))).
Definition store_obs (keys : list kbytes) (s : store) (obs : tval) : bool :=
  forallb (fun ik => ovalue_eqb (s (snd ik))
                       (match find (fun e => Nat.eqb (vnat (vnth 0 e)) (fst ik)) (vl obs) with
                        | Some e => Some (dec_value (vnth 1 e)) | None => None end))
          (combine (seq 0 (length keys)) keys).
Definition check_nodes (v : tval) : bool :=
  let keys := map vb (vl (vnth 2 v)) in
  let '(m, rs) := nodes_run v in
  let obs := vnth 7 v in
  all2 (fun r ov => match r with Some x => res_eqb x (dec_res ov) | None => false end) rs (vl (vnth 0 obs))
  && all2 (store_obs keys) (m_locals m) (vl (vnth 1 obs))
  && store_obs keys (m_shared m) (vnth 2 obs)
  && store_obs keys (m_pers m) (vnth 3 obs).

Definition check (v : tval) : bool :=
  match vn (vnth 0 v) with 0%N => check_sched v | 2%N => check_nodes v | _ => check_cat v end.

Definition enc_value (x : value) : tval :=
  match x with
  | VStr n => VL [VN 0; VN n] | VList l => VL [VN 1; VL (map VN l)] | VInt n => VL [VN 2; VN n] end.
Definition enc_res (r : res) : tval :=
  match r with
  | ROk => VL [VN 0] | RErr => VL [VN 1] | RNotFound => VL [VN 2] | RVal x => VL [VN 3; enc_value x]
  | RBool b => VL [VN 4; vN_of_bool b] | RInt n => VL [VN 5; VN n] end.
Definition enc_tier (keys : list kbytes) (w : world) (t : tier) : tval :=
  VL (flat_map (fun ik => match tget w t (snd ik) with Some x => [VL [VN (N.of_nat (fst ik)); enc_value x]] | None => [] end)
               (combine (seq 0 (length keys)) keys)).

Definition predict (v : tval) : tval :=
  let keys := map vb (vl (vnth 2 v)) in
  match vn (vnth 0 v) with
  | 2%N => let '(m, rs) := nodes_run v in
           VL [VL (map (fun r => match r with Some x => enc_res x | None => VL [VN 9] end) rs);
               VL (map (fun s => VL (flat_map (fun ik => match s (snd ik) with Some x => [VL [VN (N.of_nat (fst ik)); enc_value x]] | None => [] end)
                                              (combine (seq 0 (length keys)) keys))) (m_locals m ++ [m_shared m; m_pers m]))]
  | 0%N =>
      let '(w, ts) := model_run v in
      VL [VL (map (fun t => match t with TCaller cl => VL (map enc_res (rev (log cl))) | _ => VL [] end)
                  (firstn (length (vl (vnth 4 v))) ts));
          VL [enc_tier keys w TLocal; enc_tier keys w TShared; enc_tier keys w TPers];
          VN (N.of_nat (length (w_spawned w)))]
  | _ => VL (map (fun k => VL [VN (cat_code (category GenTables k));
                               vN_of_bool (tier_eqb (cache_for_key GenTables full_cfg k) TShared)]) keys)
  end.

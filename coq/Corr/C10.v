(* Corr/C10.v — correspondence glue: evaluates the CrossFrame model on a case observed on the real code
   (harness/cmd/c10).  Three kinds of cases, selected by the first element:
     0  decoder      [0; frames?; wire; cuts; obs]
     1  FrameStream  [1; reader_tid; reader_weof; writer_tids; ops; caps; dcap; wire; wres; reads; term; final; broken]
     2  tunnel ids   [2; string; wire id; TunnelIDToString(wire id)]
     3  forwarder    [3; upload chunks; download chunks; schedule; up_mid; down_mid; up_final; down_final; eof flags; counters]
     4  forwarder + chunk oracle + FrameStream  [4; data; cuts; eofl; answer; peer_got; local_got; counters ...]
     5  dialog: two FrameStreams of one tunnel, sequential script of calls on either end  [5; tid; steps; obs]
                     (gated replay of a schedule on the real runBidirectionalForward, Model/Forward.v) *)
From TX Require Import Base.Val Model.CrossFrame Model.CrossTracker Model.CrossEndpoint Model.Forward Gen.C10.
Open Scope N_scope.

Definition M := MaxFrameSize.

(* ---- decoder ---- *)
Fixpoint dec_loop (fuel : nat) (r : rd) : list (dres * N) :=
  match fuel with
  | O => []
  | S f => let '(res, _, r') := decode_frame M r in
           let k := lenN (rest r) - lenN (rest r') in
           match res with
           | DOk _ => (res, k) :: dec_loop f r'
           | DErr _ => [(res, k)]
           end
  end.

Definition dec_matches (m : dres * N) (o : tval) : bool :=
  match fst m with
  | DOk f => vbool (vnth 0 o) && bytes_eqb (f_tid f) (vb (vnth 1 o)) && (f_ty f =? vn (vnth 2 o))
             && bytes_eqb (f_data f) (vb (vnth 3 o)) && (snd m =? vn (vnth 4 o))
  | DErr FFuel => false
  | DErr e => negb (vbool (vnth 0 o)) && Bool.eqb (match e with FEof => true | _ => false end) (vbool (vnth 1 o))
              && (snd m =? vn (vnth 2 o))
  end.

Definition dec_frame (v : tval) : frame :=
  {| f_tid := vb (vnth 0 v); f_ty := vn (vnth 1 v); f_data := vb (vnth 2 v) |}.

Definition model_dec (v : tval) : list (dres * N) :=
  let wire := vb (vnth 2 v) in dec_loop (S (length wire)) (mkrd wire (map vnat (vl (vnth 3 v)))).

Definition check_dec (v : tval) : bool :=
  let wire := vb (vnth 2 v) in
  all2 dec_matches (model_dec v) (vl (vnth 4 v))
  && match vopt (vnth 1 v) with
     | None => true
     | Some fs => bytes_eqb (encode_all M (map dec_frame (vl fs))) wire
                  (* and the packaged decode_stream of Model agrees with the per-call loop *)
                  && (length (fst (fst (decode_stream M wire []))) + 1 =? length (model_dec v))%nat
     end.

(* ---- FrameStream ---- *)
Inductive cop := CW (w : nat) (op : wop) | CFrame (f : frame) | CRaw (b : list byte).

Definition dec_op (v : tval) : cop :=
  let k := vn (vnth 0 v) in
  if k =? 0 then CW (vnat (vnth 1 v)) (WWrite (vb (vnth 2 v)))
  else if k =? 1 then CW (vnat (vnth 1 v)) WCloseWrite
  else if k =? 2 then CW (vnat (vnth 1 v)) WClose
  else if k =? 3 then CFrame {| f_tid := vb (vnth 1 v); f_ty := vn (vnth 2 v); f_data := vb (vnth 3 v) |}
  else CRaw (vb (vnth 1 v)).

Fixpoint set_nth (i : nat) (b : bool) (l : list bool) : list bool :=
  match l, i with
  | [], _ => []
  | _ :: t, O => b :: t
  | x :: t, S j => x :: set_nth j b t
  end.

(* the connection script: returns the wire bytes and the per-op results (n, error kind) *)
Fixpoint run_ops (tids : list (list N)) (weofs : list bool) (ops : list cop) : list N * list (N * N) :=
  match ops with
  | [] => ([], [])
  | op :: t =>
    match op with
    | CW w o =>
      let '(w', fs, res) := fs_write M (nth w tids []) (nth w weofs false) o in
      let '(wire, rs) := run_ops tids (set_nth w w' weofs) t in
      (encode_all M fs ++ wire, match res with WOk n => (n, 0) | WClosedPipe => (0, 1) | WNil => (0, 0) end :: rs)
    | CFrame f =>
      let '(wire, rs) := run_ops tids weofs t in
      (frame_bytes M f ++ wire, (0, match encode_frame M f with Some _ => 0 | None => 2 end) :: rs)
    | CRaw b =>
      let '(wire, rs) := run_ops tids weofs t in (b ++ wire, (0, 0) :: rs)
    end
  end.

Definition rres_kind (x : rres) : N := match x with REof => 0 | RErr => 1 | RData _ => 2 | RFuel => 3 end.

Record sobs := { so_wire : list N; so_wres : list (N * N); so_reads : list (list N);
                 so_term : N; so_final : N; so_broken : bool }.

Definition model_stream (v : tval) : sobs :=
  let tid := vb (vnth 1 v) in
  let tids := map vb (vl (vnth 3 v)) in
  let '(wire, wres) := run_ops tids (map (fun _ => false) tids) (map dec_op (vl (vnth 4 v))) in
  (* elements 13 / 14: what the reader's tracker reports as closed at each Read / from then on (empty without a tracker) *)
  let cls := map (fun x => map vb (vl x)) (vl (vnth 13 v)) in
  let dcl := map vb (vl (vnth 14 v)) in
  let '(l, st, r) := read_stream_t M false tid (vbool (vnth 2 v)) (map vnat (vl (vnth 5 v))) (vnat (vnth 6 v)) cls dcl wire [] in
  let '(fin, st', _) := fs_read_t M false dcl tid 64 st r in
  {| so_wire := wire; so_wres := wres;
     so_reads := flat_map (fun x => match x with RData d => [d] | _ => [] end) l;
     so_term := rres_kind (last l RFuel); so_final := rres_kind fin; so_broken := r_broken st' |}.

Definition check_stream (v : tval) : bool :=
  let m := model_stream v in
  bytes_eqb (so_wire m) (vb (vnth 7 v))
  && all2 (fun a o => (fst a =? vn (vnth 0 o)) && (snd a =? vn (vnth 1 o))) (so_wres m) (vl (vnth 8 v))
  && all2 (fun a o => bytes_eqb a (vb o)) (so_reads m) (vl (vnth 9 v))
  && (so_term m =? vn (vnth 10 v)) && (so_final m =? vn (vnth 11 v))
  && Bool.eqb (so_broken m) (vbool (vnth 12 v)).

(* ---- tunnel-id strings ---- *)
Definition check_tid (v : tval) : bool :=
  let s := vb (vnth 1 v) in
  let id := vb (vnth 2 v) in
  (if (length s <=? 16)%nat || (wire_id_variant =? 0) then bytes_eqb (wire_id s) id   (* verbatim / truncating tree *)
   else (length id =? 16)%nat)                                                       (* hashing tree: H is an oracle *)
  && bytes_eqb (id_to_string id) (vb (vnth 3 v)).

(* ---- runBidirectionalForward under a schedule ----
   [3; up chunks; down chunks; schedule; up_mid; down_mid; up_final; down_final; up_eofl; down_eofl; counters?; sent; recv] *)
Definition fwd_mid (v : tval) : fsh * list flo :=
  frun false (finit_e (vbool (vnth 8 v)) (vbool (vnth 9 v)) [] [] (map vb (vl (vnth 1 v))) (map vb (vl (vnth 2 v))))
       (map vnat (vl (vnth 3 v))).
Definition drain (n : nat) : list nat := flat_map (fun _ => [0; 1]%nat) (seq 0 n).
Definition fwd_final (v : tval) : fsh * list flo :=
  frun false (fwd_mid v) (drain (2 * (length (vl (vnth 1 v)) + length (vl (vnth 2 v))) + 2)).
Definition both_done (s : fsh * list flo) : bool :=
  match phase_of 0 s, phase_of 1 s with PDone, PDone => true | _, _ => false end.
Definition check_fwd (v : tval) : bool :=
  bytes_eqb (sink_up (fwd_mid v)) (vb (vnth 4 v)) && bytes_eqb (sink_down (fwd_mid v)) (vb (vnth 5 v))
  && bytes_eqb (sink_up (fwd_final v)) (vb (vnth 6 v)) && bytes_eqb (sink_down (fwd_final v)) (vb (vnth 7 v))
  && both_done (fwd_final v)
  && (negb (vbool (vnth 10 v))
      || ((N.of_nat (sent_counter (fwd_final v)) =? vn (vnth 11 v)) && (N.of_nat (recv_counter (fwd_final v)) =? vn (vnth 12 v)))).

(* ---- oracle-chunked local source -> forwarder -> FrameStream -> peer, and the peer's answer back ----
   [4; data; cuts; eofl; peer's Write payloads; peer_got; local_got; counters?; sent; recv; tunnel id string]
   composition of both models: the local source is the chunk oracle read with io.Copy's 32 KB buffer; every chunk
   becomes one FrameStream.Write; the peer's FrameStream reads it; the answer travels the same way back *)
Definition copy_buf : N := 32768.
Record cutobs := { co_peer : list N; co_local : list N; co_sent : N; co_recv : N; co_done : bool }.
Definition model_fwdcut (v : tval) : cutobs :=
  let data := vb (vnth 1 v) in
  let tid := wire_id (vb (vnth 10 v)) in
  let upc := oracle_chunks (length data) copy_buf (mkrd data (map vnat (vl (vnth 2 v)))) in
  let wire_d := encode_all M (script_frames M tid false (map WWrite (map vb (vl (vnth 4 v))) ++ [WClose])) in
  let '(ld, _, _) := read_stream M tid true [] (N.to_nat copy_buf) wire_d [] in
  let downc := flat_map (fun x => match x with RData d => [d] | _ => [] end) ld in
  let fin := frun false (finit_e (vbool (vnth 3 v)) false [] [] upc downc) (drain (2 * (length upc + length downc) + 2)) in
  let wire_u := encode_all M (script_frames M tid false (map WWrite upc ++ [WCloseWrite])) in
  let '(lu, _, _) := read_stream M tid false [] 512 wire_u [] in
  {| co_peer := if bytes_eqb (sink_up fin) (concat upc) then data_of lu else [];
     co_local := sink_down fin; co_sent := N.of_nat (sent_counter fin); co_recv := N.of_nat (recv_counter fin);
     co_done := both_done fin |}.
Definition check_fwdcut (v : tval) : bool :=
  let m := model_fwdcut v in
  co_done m && bytes_eqb (co_peer m) (vb (vnth 5 v)) && bytes_eqb (co_local m) (vb (vnth 6 v))
  && (negb (vbool (vnth 7 v)) || ((co_sent m =? vn (vnth 8 v)) && (co_recv m =? vn (vnth 9 v)))).

(* ---- dialog: two FrameStreams of one tunnel on one connection, a sequential script of calls on either end ----
   [5; tid; steps; obs]   step = [who; kind; a; b]  kind 0 Write a | 1 CloseWrite | 2 Close | 3 read exactly a bytes with b-byte
   buffers | 4 read to end-of-stream with b-byte buffers;   obs = [n; errkind] for write-side calls, [bytes; term] for reads
   (term 0 got the bytes, 1 end-of-stream, 2 nothing to read and no end marker: the real Read would block, 3 error) *)
Definition ep_blocked (s : ep) : bool :=
  negb (r_eof (e_rst s)) && match pending (e_rst s), rest (e_in s) with [], [] => true | _, _ => false end.
Fixpoint ep_read_n (fuel : nat) (tid : list N) (s : ep) (n cap : nat) (acc : list N) : ep * list N * N :=
  match fuel with
  | O => (s, acc, 3)
  | S f =>
    if (n =? 0)%nat then (s, acc, 0) else
    if ep_blocked s then (s, acc, 2) else
    let '(s', _, res) := ep_step M false tid s (ERead (Nat.min cap n)) in
    match res with
    | Some (RData d) => ep_read_n f tid s' (n - length d) cap (acc ++ d)
    | Some REof => (s', acc, 1)
    | _ => (s', acc, 3)
    end
  end.
Fixpoint ep_read_all (fuel : nat) (tid : list N) (s : ep) (cap : nat) (acc : list N) : ep * list N * N :=
  match fuel with
  | O => (s, acc, 3)
  | S f =>
    if ep_blocked s then (s, acc, 2) else
    let '(s', _, res) := ep_step M false tid s (ERead cap) in
    match res with
    | Some (RData d) => ep_read_all f tid s' cap (acc ++ d)
    | Some REof => (s', acc, 1)
    | _ => (s', acc, 3)
    end
  end.
Definition wres_pair (r : wres) : N * N := match r with WOk n => (n, 0) | WClosedPipe => (0, 1) | WNil => (0, 0) end.

Inductive dobs := DW (n e : N) | DR (b : list N) (t : N).
Fixpoint run_dialog (tid : list N) (a b : ep) (steps : list tval) : list dobs :=
  match steps with
  | [] => []
  | st :: rest_steps =>
    let who := vbool (vnth 0 st) in
    let me := if who then b else a in
    let other := if who then a else b in
    let k := vn (vnth 1 st) in
    if k <? 3 then
      let op := if k =? 0 then WWrite (vb (vnth 2 st)) else if k =? 1 then WCloseWrite else WClose in
      let '(me', fs, res) := ep_write M tid me op in
      let other' := ep_feed other (encode_all M fs) in
      DW (fst (wres_pair res)) (snd (wres_pair res))
        :: (if who then run_dialog tid other' me' rest_steps else run_dialog tid me' other' rest_steps)
    else
      let '(me', got, t) :=
        if k =? 3 then ep_read_n (S (vnat (vnth 2 st))) tid me (vnat (vnth 2 st)) (vnat (vnth 3 st)) []
        else ep_read_all (S (length (rest (e_in me)) + length (pending (e_rst me)))) tid me (vnat (vnth 3 st)) [] in
      DR got t :: (if who then run_dialog tid other me' rest_steps else run_dialog tid me' other rest_steps)
  end.
Definition dobs_matches (m : dobs) (o : tval) : bool :=
  match m with
  | DW n e => (n =? vn (vnth 0 o)) && (e =? vn (vnth 1 o))
  | DR b t => bytes_eqb b (vb (vnth 0 o)) && (t =? vn (vnth 1 o))
  end.
(* the harness stops at the first failing step: compare what it observed with the model's prefix *)
Fixpoint prefix_match (m : list dobs) (o : list tval) : bool :=
  match o, m with
  | [], _ => true
  | x :: o', y :: m' => dobs_matches y x && prefix_match m' o'
  | _ :: _, [] => false
  end.
Definition model_dialog (v : tval) : list dobs :=
  run_dialog (vb (vnth 1 v)) (ep_init (mkrd [] [])) (ep_init (mkrd [] [])) (vl (vnth 2 v)).
Definition check_dialog (v : tval) : bool :=
  prefix_match (model_dialog v) (vl (vnth 3 v)) && (length (vl (vnth 3 v)) =? length (vl (vnth 2 v)))%nat.

Definition check (v : tval) : bool :=
  let k := vn (vnth 0 v) in
  if k =? 0 then check_dec v else if k =? 1 then check_stream v else if k =? 2 then check_tid v
  else if k =? 3 then check_fwd v else if k =? 4 then check_fwdcut v else if k =? 5 then check_dialog v else false.

Definition enc_dec (m : dres * N) : tval :=
  match fst m with
  | DOk f => VL [VN 1; VB (f_tid f); VN (f_ty f); VB (f_data f); VN (snd m)]
  | DErr e => VL [VN 0; VN (match e with FEof => 0 | FShortHdr => 1 | FTooLarge => 2 | FShortData => 3 | FFuel => 4 end); VN (snd m)]
  end.
Definition predict (v : tval) : tval :=
  let k := vn (vnth 0 v) in
  if k =? 0 then VL (map enc_dec (model_dec v))
  else if k =? 1 then
    let m := model_stream v in
    VL [VB (so_wire m); VL (map (fun a => VL [VN (fst a); VN (snd a)]) (so_wres m)); VL (map VB (so_reads m));
        VN (so_term m); VN (so_final m); vN_of_bool (so_broken m)]
  else if k =? 3 then VL [VB (sink_up (fwd_mid v)); VB (sink_down (fwd_mid v)); VB (sink_up (fwd_final v)); VB (sink_down (fwd_final v));
                          VN (N.of_nat (sent_counter (fwd_final v))); VN (N.of_nat (recv_counter (fwd_final v)))]
  else if k =? 4 then let m := model_fwdcut v in VL [VB (co_peer m); VB (co_local m); VN (co_sent m); VN (co_recv m)]
  else if k =? 5 then VL (map (fun d => match d with DW n e => VL [VN n; VN e] | DR b t => VL [VB b; VN t] end) (model_dialog v))
  else VL [VB (wire_id (vb (vnth 1 v))); VB (id_to_string (vb (vnth 2 v)))].
Close Scope N_scope.

(* Corr/C12.v — correspondence glue: evaluates the Relay model on a case observed on the real iocopy code. *)
From TX Require Import Base.Val Model.Relay Proofs.SideC12 Gen.C12.
Open Scope N_scope.

Definition dec_optn (v : tval) : option N := match vopt v with Some x => Some (vn x) | None => None end.
Definition dgrams_eqb (a b : list (list N)) : bool := all2 list_eqb a b.

(* kind 0 — tunnel -> UDP:  [0; stream; cuts; end; wd; wfail?; delivered; recv_err; recv_bytes; batch_path]
   batch_path = 1: the local side was a real *net.UDPConn (sendmmsg batch writer of the regenerated capacity) *)
Definition run_deframe (v : tval) : dres :=
  let s := vb (vnth 1 v) in
  deframe_on (if vbool (vnth 9 v) then Some UdpBatchWriterCap else None) (S (length s + length (vl (vnth 10 v)))) (ust0e s (map vnat (vl (vnth 2 v))) (vn (vnth 3 v)) (vbool (vnth 4 v)) (map vbool (vl (vnth 10 v))) (dec_optn (vnth 5 v))).
Definition check_deframe (v : tval) : bool :=
  match run_deframe v with
  | DFuel => false
  | DDone w e => dgrams_eqb (w_log w) (map vb (vl (vnth 6 v))) && (e =? vn (vnth 7 v)) && (w_bytes w =? vn (vnth 8 v))
  end.

(* kind 1 — UDP -> tunnel:  [1; dgrams; tunnel_out; sent; send_err; uend] *)
Definition run_encode (v : tval) : est :=
  encode_events UdpBatchBufSize (map (fun d => EvD (vb d)) (vl (vnth 1 v))).
Definition check_encode (v : tval) : bool :=
  let e := run_encode v in
  list_eqb (concat (e_out e)) (vb (vnth 2 v)) && (e_sent e =? vn (vnth 3 v))
  && ((if vn (vnth 5 v) =? 0 then 0 else 1) =? vn (vnth 4 v)).

(* kind 2 — Bidirectional:  [2; A; B; schedule; obs]
     A, B = [data; cuts; end; wd; wlimit?; wshort; wrap]   (an endpoint: what it sends, how it accepts writes,
                                                           how it is handed to the relay: SideC12.wrap_cfg)
     obs  = [to_b; to_a; sent; recv; send_err; recv_err; cw_a; cw_b; closes_a; closes_b; io_after_close; cwf_a; cwf_b] *)
Definition dec_dir (src dst : tval) : dirst :=
  dirwe (vb (vnth 0 src)) (map vnat (vl (vnth 1 src))) (vn (vnth 2 src)) (vbool (vnth 3 src)) (map vbool (vl (vnth 7 src)))
       (dec_optn (vnth 4 dst)) (vbool (vnth 5 dst)) (wrap_cfg (vn (vnth 6 dst))).
Definition run_tcp (v : tval) : st tsh (nat * tpc) :=
  run tsh (nat * tpc) (tstep CopyBufferSize false)
      (tcp_init (dec_dir (vnth 1 v) (vnth 2 v)) (dec_dir (vnth 2 v) (vnth 1 v)))
      (map vnat (vl (vnth 3 v))).
Definition check_tcp (v : tval) : bool :=
  let sh := fst (run_tcp v) in
  let o := vnth 4 v in
  sh_ret sh
  && list_eqb (d_out (sh_d0 sh)) (vb (vnth 0 o)) && list_eqb (d_out (sh_d1 sh)) (vb (vnth 1 o))
  && (d_bytes (sh_d0 sh) =? vn (vnth 2 o)) && (d_bytes (sh_d1 sh) =? vn (vnth 3 o))
  && (d_err (sh_d0 sh) =? vn (vnth 4 o)) && (d_err (sh_d1 sh) =? vn (vnth 5 o))
  && (d_cw (sh_d1 sh) =? vn (vnth 6 o)) && (d_cw (sh_d0 sh) =? vn (vnth 7 o))
  && (sh_ncl_a sh =? vn (vnth 8 o)) && (sh_ncl_b sh =? vn (vnth 9 o))
  && (sh_io_after_close sh =? vn (vnth 10 o))
  && (d_cwf (sh_d1 sh) =? vn (vnth 11 o)) && (d_cwf (sh_d0 sh) =? vn (vnth 12 o)).

(* kind 3 — UDP -> tunnel with a stalled tunnel Write:  [3; dgrams; schedule; tunnel_out]
   the ownership model under the given schedule of main loop / ticker steps must have finished and the tunnel
   must have consumed exactly what the real tunnel consumed *)
Definition run_own (v : tval) : st bsh (nat * bpc) :=
  own_run false false (map vb (vl (vnth 1 v))) (map vnat (vl (vnth 2 v))).
Definition main_done (s : st bsh (nat * bpc)) : bool :=
  match snd s with (_, BDone) :: _ => true | _ => false end.
Definition check_own (v : tval) : bool :=
  let s := run_own v in main_done s && list_eqb (b_out (fst s)) (vb (vnth 3 v)).

(* kind 4 — udpTunnelConn.ReceivePacket loop:  [4; stream; cuts; end; delivered] *)
Definition run_tc (v : tval) : list dgram :=
  let s := vb (vnth 1 v) in
  tc_recv_all (S (length s)) {| rest := s; cuts := map vnat (vl (vnth 2 v)); endk := vn (vnth 3 v); carry := false |}.
Definition check_tc (v : tval) : bool := dgrams_eqb (run_tc v) (map vb (vl (vnth 4 v))).

Definition check (v : tval) : bool :=
  match vn (vnth 0 v) with
  | 0 => check_deframe v
  | 1 => check_encode v
  | 2 => check_tcp v
  | 3 => check_own v
  | 4 => check_tc v
  | _ => false
  end.

Definition predict (v : tval) : tval :=
  match vn (vnth 0 v) with
  | 0 => match run_deframe v with
         | DFuel => VL [VN 99]
         | DDone w e => VL [VL (map VB (w_log w)); VN e; VN (w_bytes w)]
         end
  | 1 => let e := run_encode v in VL [VB (concat (e_out e)); VN (e_sent e)]
  | 2 => let sh := fst (run_tcp v) in
         VL [vN_of_bool (sh_ret sh); VB (d_out (sh_d0 sh)); VB (d_out (sh_d1 sh));
             VN (d_bytes (sh_d0 sh)); VN (d_bytes (sh_d1 sh)); VN (d_err (sh_d0 sh)); VN (d_err (sh_d1 sh));
             VN (d_cw (sh_d1 sh)); VN (d_cw (sh_d0 sh)); VN (sh_ncl_a sh); VN (sh_ncl_b sh); VN (sh_io_after_close sh);
             VN (d_cwf (sh_d1 sh)); VN (d_cwf (sh_d0 sh))]
  | 3 => let s := run_own v in VL [vN_of_bool (main_done s); VB (b_out (fst s))]
  | 4 => VL (map VB (run_tc v))
  | _ => VL []
  end.

(* Corr/C13.v — correspondence glue: replays a history observed on the real storage through the KV model.

   case  = VL [ VN mode ; variant ; VN tol ; VL ops ; VL outs ; VN scale? ]
     mode 0: the answers must be those of MemImpl in the given variant (the probed behaviour of the tree)
     mode 1: the answers must be those of the Spec (reference map; linearization witnesses of concurrent runs)
     mode 2: the answers must be those of the Spec with Redis' "an empty list/hash does not exist" (Redis-flavoured reference)
   variant = VL [6 flags]  (Proofs/SideC13.flags order)
   key    = VB bytes
   scalar = VL [VN 0; VB b] | VL [VN 1; VN neg; VN abs] | VL [VN 2]
   value  = VL [VN 0; scalar] | VL [VN 1; VL scalars] | VL [VN 2; VL [VL [VB field; scalar] ...]]
   op     = VL [VN tag; args ...]   (tags in dec_op)
   out    = VL [VN tag; args ...]   (tags in dec_out; tag 8 = anything the model never produces)
   Durations (GetExpiration) are compared up to tol; hashes as finite maps. *)
From TX Require Import Base.Val Model.KV Gen.C13.
Open Scope N_scope.

Definition dec_z (neg abs : tval) : Z :=
  if vbool neg then Z.opp (Z.of_N (vn abs)) else Z.of_N (vn abs).

Definition dec_scalar (v : tval) : scalar :=
  match vn (vnth 0 v) with
  | 0 => SStr (vb (vnth 1 v))
  | 1 => SInt (dec_z (vnth 1 v) (vnth 2 v))
  | _ => SNil
  end.

Definition dec_value (v : tval) : value :=
  match vn (vnth 0 v) with
  | 0 => VS (dec_scalar (vnth 1 v))
  | 1 => VList (map dec_scalar (vl (vnth 1 v)))
  | _ => VHash (map (fun e => (vb (vnth 0 e), dec_scalar (vnth 1 e))) (vl (vnth 1 v)))
  end.

Definition dec_op (v : tval) : op :=
  let k := vb (vnth 1 v) in
  match vn (vnth 0 v) with
  | 0 => KSet k (dec_value (vnth 2 v)) (vn (vnth 3 v))
  | 1 => KGet k
  | 2 => KDelete k
  | 3 => KExists k
  | 4 => KSetList k (map dec_scalar (vl (vnth 2 v))) (vn (vnth 3 v))
  | 5 => KGetList k
  | 6 => KAppend k (dec_scalar (vnth 2 v))
  | 7 => KRemove k (dec_scalar (vnth 2 v))
  | 8 => KSetHash k (vb (vnth 2 v)) (dec_scalar (vnth 3 v))
  | 9 => KGetHash k (vb (vnth 2 v))
  | 10 => KGetAllHash k
  | 11 => KDeleteHash k (vb (vnth 2 v))
  | 12 => KIncrBy k (dec_z (vnth 2 v) (vnth 3 v))
  | 13 => KSetExpiration k (vn (vnth 2 v))
  | 14 => KGetExpiration k
  | 15 => KSetNX k (dec_value (vnth 2 v)) (vn (vnth 3 v))
  | 16 => KCAS k (dec_scalar (vnth 2 v)) (dec_value (vnth 3 v)) (vn (vnth 4 v))
  | 17 => KCleanup
  | _ => KTick (vn (vnth 1 v))
  end.

(* observed answers; OOther never matches a model answer *)
Inductive oobs := OO (o : out) | OOther.

Definition dec_out (v : tval) : oobs :=
  match vn (vnth 0 v) with
  | 0 => OO OOk
  | 1 => OO (OVal (dec_value (vnth 1 v)))
  | 2 => OO (OBool (vbool (vnth 1 v)))
  | 3 => OO (OInt (dec_z (vnth 1 v) (vnth 2 v)))
  | 4 => OO (ODur (vn (vnth 1 v)))
  | 5 => OO ODurNeg
  | 6 => OO ONotFound
  | 7 => OO OInvalidType
  | _ => OOther
  end.

Definition dec_variant (v : tval) : kvariant :=
  {| v_cas_zero_guard := vbool (vnth 0 v); v_cas_ttl0_never := vbool (vnth 1 v);
     v_setexp_checks_expiry := vbool (vnth 2 v); v_setexp_ttl0_never := vbool (vnth 3 v);
     v_setnx_after := vbool (vnth 4 v); v_getexp_never0 := vbool (vnth 5 v) |}.

(* ---- comparison of answers ---- *)
Definition hash_sub (a b : hash) : bool :=
  forallb (fun e => match hget b (fst e) with Some y => scalar_eqb (snd e) y | None => false end) a.
Definition value_eqb (a b : value) : bool :=
  match a, b with
  | VS x, VS y => scalar_eqb x y
  | VList x, VList y => all2 scalar_eqb x y
  | VHash x, VHash y => Nat.eqb (length x) (length y) && hash_sub x y && hash_sub y x
  | _, _ => false
  end.
Definition out_matches (tol : N) (m : out) (o : oobs) : bool :=
  match o with
  | OOther => false
  | OO o =>
      match m, o with
      | OOk, OOk | ODurNeg, ODurNeg | ONotFound, ONotFound | OInvalidType, OInvalidType => true
      | OVal a, OVal b => value_eqb a b
      | OBool a, OBool b => Bool.eqb a b
      | OInt a, OInt b => Z.eqb a b
      | ODur a, ODur b => (a <=? b + tol) && (b <=? a + tol)
      | _, _ => false
      end
  end.

Definition NOW0 : N := 1000.

(* mode 2: the Spec as a Redis server shows it — a list / hash that becomes empty ceases to exist (Exists is false,
   its deadline is forgotten, the next Append / SetHash creates a new key).  Used to replay the harness' Redis-flavoured
   reference; on histories in which no collection becomes empty it coincides with the Spec. *)
Definition is_empty_collection (v : value) : bool :=
  match v with VList [] => true | VHash [] => true | _ => false end.
Definition drop_empty (s : kvmap) : kvmap :=
  fun k => match s k with
           | Some it => if is_empty_collection (val it) then None else Some it
           | None => None
           end.
Definition redis_spec_step (D : N) (s : kvmap) (now : N) (o : op) : out * kvmap * N :=
  let '(r, s1, now1) := spec_step D s now o in (r, drop_empty s1, now1).

(* D: DefaultDataTTL in the case's time unit.  The Redis runs use a virtual clock in which one model millisecond is
   [scale] real milliseconds (so that whole-second Redis lifetimes are exact): the regenerated constant is divided by the
   case's scale (absent / 0 = 1). *)
Definition model_outs (mode : N) (V : kvariant) (D : N) (h : list op) : list out :=
  match mode with
  | 0 => outs_of (mem_run D V empty NOW0 h)
  | 1 => outs_of (spec_run D empty NOW0 h)
  | _ => outs_of (run_with (redis_spec_step D) empty NOW0 h)
  end.

Definition case_D (v : tval) : N :=
  let sc := vn (vnth 5 v) in if sc =? 0 then DefaultDataTTL_ms else DefaultDataTTL_ms / sc.

Definition check (v : tval) : bool :=
  let mode := vn (vnth 0 v) in
  let V := dec_variant (vnth 1 v) in
  let tol := vn (vnth 2 v) in
  let h := map dec_op (vl (vnth 3 v)) in
  let os := map dec_out (vl (vnth 4 v)) in
  all2 (out_matches tol) (model_outs mode V (case_D v) h) os.

(* ---- predicted answers (diagnostics, and the Spec side of the Redis comparison) ---- *)
Definition enc_z (z : Z) : list tval :=
  [vN_of_bool (Z.ltb z 0); VN (Z.abs_N z)].
Definition enc_scalar (s : scalar) : tval :=
  match s with
  | SStr b => VL [VN 0; VB b]
  | SInt z => VL (VN 1 :: enc_z z)
  | SNil => VL [VN 2]
  end.
Definition enc_value (x : value) : tval :=
  match x with
  | VS s => VL [VN 0; enc_scalar s]
  | VList l => VL [VN 1; VL (map enc_scalar l)]
  | VHash h => VL [VN 2; VL (map (fun e => VL [VB (fst e); enc_scalar (snd e)]) h)]
  end.
Definition enc_out (o : out) : tval :=
  match o with
  | OOk => VL [VN 0]
  | OVal x => VL [VN 1; enc_value x]
  | OBool b => VL [VN 2; vN_of_bool b]
  | OInt z => VL (VN 3 :: enc_z z)
  | ODur d => VL [VN 4; VN d]
  | ODurNeg => VL [VN 5]
  | ONotFound => VL [VN 6]
  | OInvalidType => VL [VN 7]
  end.

(* [ answers of MemImpl in the case's variant ; answers of the Spec ] *)
Definition predict (v : tval) : tval :=
  let V := dec_variant (vnth 1 v) in
  let h := map dec_op (vl (vnth 3 v)) in
  VL [VL (map enc_out (model_outs 0 V (case_D v) h)); VL (map enc_out (model_outs 1 V (case_D v) h))].

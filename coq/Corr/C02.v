(* Corr/C02.v — correspondence glue: evaluates the Pipe model on a case observed on the real code.
   case = [ mode ; variant ; lim ; cancelled ; r0 ; w0 ; r1 ; w1 ; sched ; obs ]
     mode    0 = CopyWithControl alone, 1 = Bridge.Start under a gated schedule, 2 = bridge lifecycle / tunnel map
     variant 0 = pinned code (one WaitN(nr)), 1 = repaired code (burst-sized slices)   [probed on the tree by the driver]
     lim     [] | [burst]
     r*      [ [bytes ; e] ... ]   e: 0 nil, 1 temporary timeout, 2 fatal
     w*      [ [max ; err] ... ]
   mode 0 obs = [out ; total ; counter ; reads ; writes]
   mode 1 obs = [out0 ; out1 ; cnt0 ; cnt1 ; closer]
   mode 2: r0 = ids, w0 = ops [[kind ; caller] ...], obs = [[ok ; count] ...] *)
From TX Require Import Base.Val Model.Pipe Model.PipeClose Gen.C02.
Open Scope N_scope.

Definition dec_variant (v : tval) : variant := if vbool v then Sliced else Pinned.
Definition dec_lim (v : tval) : option N := match vopt v with Some b => Some (vn b) | None => None end.
Definition dec_rk (v : tval) : rkind := match vn v with 0 => RNone | 1 => RTimeout | _ => RFatal end.
Definition dec_reads (v : tval) : list rd := map (fun e => {| r_data := vb (vnth 0 e); r_end := dec_rk (vnth 1 e) |}) (vl v).
Definition dec_writes (v : tval) : list wr := map (fun e => {| w_max := vn (vnth 0 e); w_err := vbool (vnth 1 e) |}) (vl v).

(* ---- mode 0 ---- *)
Definition copy_model (c : tval) : xreason * cst :=
  copy_loop (dec_variant (vnth 1 c)) BatchUpdateThreshold ContextCheckInterval (dec_lim (vnth 2 c))
            (vbool (vnth 3 c)) (dec_reads (vnth 4 c)) (dec_writes (vnth 5 c)) cst0.
Definition copy_obs (c : tval) : tval :=
  let '(x, s) := copy_model c in
  VL [VB (c_out s); VN (a_total (c_acct s)); VN (a_counter (c_acct s)); VN (c_nrd s); VN (c_nwr s)].
Definition check_copy (c : tval) : bool :=
  let o := vnth 9 c in let m := copy_obs c in
  list_eqb (vb (vnth 0 m)) (vb (vnth 0 o)) && N.eqb (vn (vnth 1 m)) (vn (vnth 1 o)) &&
  N.eqb (vn (vnth 2 m)) (vn (vnth 2 o)) && N.eqb (vn (vnth 3 m)) (vn (vnth 3 o)) && N.eqb (vn (vnth 4 m)) (vn (vnth 4 o)).

(* ---- mode 1: the harness cannot park a goroutine between the end of its loop and its deferred closeBridge(), so a
   released step that ends the loop also runs the close: step, and step again if the thread stands at BFinish ---- *)
Section Br.
  Variables (v : variant) (lim : option N).
  Definition bst := (bshared * list bthread)%type.
  Definition mstep (s : bst) (i : nat) : bst :=
    let s1 := sys_step _ _ (bstep v BatchUpdateThreshold lim) s i in
    match nth_error (snd s1) i with
    | Some t => match b_pc t with BFinish _ => sys_step _ _ (bstep v BatchUpdateThreshold lim) s1 i | _ => s1 end
    | None => s1
    end.
  Definition mrun (s : bst) (sched : list nat) : bst := fold_left mstep sched s.
End Br.

Definition bridge_model (c : tval) : bst :=
  let v := dec_variant (vnth 1 c) in let lim := dec_lim (vnth 2 c) in
  mrun v lim (bridge_init (dec_reads (vnth 4 c)) (dec_writes (vnth 5 c)) (dec_reads (vnth 6 c)) (dec_writes (vnth 7 c)))
       (map vnat (vl (vnth 8 c))).
Definition thread_counter (s : bst) (i : nat) : N :=
  match nth_error (snd s) i with Some t => a_counter (b_acct t) | None => 0 end.
Definition thread_reason (s : bst) (i : nat) : option xreason :=
  match nth_error (snd s) i with Some t => b_done t | None => None end.
(* 0 / 1 = the direction that closed the bridge, 2 = not (yet) closed or undetermined *)
Definition closer_of (s : bst) : N :=
  match thread_reason s 0, thread_reason s 1 with
  | Some x, Some y => if negb (closed_kind x) && closed_kind y then 0 else if closed_kind x && negb (closed_kind y) then 1 else 2
  | Some x, None => if closed_kind x then 2 else 0
  | None, Some y => if closed_kind y then 2 else 1
  | None, None => 2
  end.
Definition reason_code (x : option xreason) : N :=
  match x with
  | None => 0 | Some XReadEnd => 1 | Some XWriteErr => 2 | Some XShortWrite => 3 | Some XLimiter => 4
  | Some XCtx => 5 | Some XClosedRead => 6 | Some XClosedWrite => 7
  end.
Definition bridge_obs (c : tval) : tval :=
  let s := bridge_model c in
  VL [VB (s_out0 (fst s)); VB (s_out1 (fst s)); VN (thread_counter s 0); VN (thread_counter s 1); VN (closer_of s);
      VN (reason_code (thread_reason s 0)); VN (reason_code (thread_reason s 1)); VN (N.of_nat (s_closes (fst s)))].
Definition check_bridge (c : tval) : bool :=
  let o := vnth 9 c in let m := bridge_obs c in
  list_eqb (vb (vnth 0 m)) (vb (vnth 0 o)) && list_eqb (vb (vnth 1 m)) (vb (vnth 1 o)) &&
  N.eqb (vn (vnth 2 m)) (vn (vnth 2 o)) && N.eqb (vn (vnth 3 m)) (vn (vnth 3 o)) &&
  N.eqb (vn (vnth 4 m)) (vn (vnth 4 o)) &&
  (* both directions are done when the harness reports: the model must agree *)
  negb (N.eqb (vn (vnth 5 m)) 0) && negb (N.eqb (vn (vnth 6 m)) 0) && N.eqb (vn (vnth 7 m)) 1.

(* ---- mode 2 ---- *)
Definition lst := (registry * list lthread)%type.
Fixpoint lsteps (k : nat) (s : lst) (i : nat) : lst :=
  match k with O => s | S k' => lsteps k' (sys_step _ _ lstep s i) i end.
Definition reg_count (ids : list N) (m : registry) : N :=
  N.of_nat (length (filter (fun k => match m k with Some _ => true | None => false end) (nodup N.eq_dec ids))).
Definition life_op (ids : list N) (acc : lst * list tval) (op : tval) : lst * list tval :=
  let '(s, out) := acc in
  let i := vnat (vnth 1 op) in
  match nth_error (snd s) i with
  | None => (s, out)
  | Some t =>
    if N.eqb (vn (vnth 0 op)) 0 then
      match l_pc t with
      | LStart => let s' := sys_step _ _ lstep s i in
                  let ok := match nth_error (snd s') i with Some t' => l_active t' | None => false end in
                  (s', out ++ [VL [vN_of_bool ok; VN (reg_count ids (fst s'))]])
      | _ => (s, out ++ [VL [VN 0; VN (reg_count ids (fst s))]])
      end
    else
      if l_active t then let s' := lsteps (l_tag t + 3) s i in (s', out ++ [VL [VN 1; VN (reg_count ids (fst s'))]])
      else (s, out ++ [VL [VN 0; VN (reg_count ids (fst s))]])
  end.
Definition life_obs (c : tval) : tval :=
  let ids := map vn (vl (vnth 4 c)) in
  VL (snd (fold_left (life_op ids) (vl (vnth 5 c)) ((reg_empty, l_init ids), []))).
Fixpoint tval_eqb (a b : tval) {struct a} : bool :=
  match a, b with
  | VN x, VN y => N.eqb x y
  | VB x, VB y => list_eqb x y
  | VL x, VL y => (fix go (p q : list tval) : bool :=
                     match p, q with
                     | [], [] => true
                     | u :: p', w :: q' => tval_eqb u w && go p' q'
                     | _, _ => false
                     end) x y
  | _, _ => false
  end.
Definition check_life (c : tval) : bool := tval_eqb (life_obs c) (vnth 9 c).

(* ---- mode 3: the stats backend is silent while the bridge closes.  case = [3; conns_first; patience [] | [k]; ...; obs]
   obs = [source closed while parked; target closed while parked; [] | [Close returned / tunnel forgotten while parked]]
   The closing thread alone runs k+6 steps; the backend thread never does. ---- *)
Definition stall_model (c : tval) : cshared * list cthread :=
  let o := if vbool (vnth 1 c) then ConnsFirst else HandlersFirst in
  let pat := match vopt (vnth 2 c) with Some k => Some (vnat k) | None => None end in
  close_run o pat (repeat 0%nat (match pat with Some k => k + 6 | None => 12 end)%nat).
Definition stall_obs (c : tval) : tval :=
  let s := stall_model c in
  VL [vN_of_bool (x_src_closed (fst s)); vN_of_bool (x_tgt_closed (fst s));
      vN_of_bool (match closer_pc s with Some CDone => true | _ => false end)].
Definition check_stall (c : tval) : bool :=
  let o := vnth 9 c in let m := stall_obs c in
  N.eqb (vn (vnth 0 m)) (vn (vnth 0 o)) && N.eqb (vn (vnth 1 m)) (vn (vnth 1 o)) &&
  match vopt (vnth 2 o) with Some r => N.eqb (vn (vnth 2 m)) (vn r) | None => true end.

(* ---- mode 4: source re-attach history.  case = [4; _; _; _; r1 (what the target end sends); w1; _; _; sched; obs]
   sched: 0 = one step of the target->source loop, 1 = SetSourceConnection(new end); obs = [bytes of end 0; bytes of end 1; ...] ---- *)
Definition reattach_model (c : tval) : qshared :=
  let sched := map vnat (vl (vnth 8 c)) in
  fst (reattach_run (dec_reads (vnth 4 c)) (dec_writes (vnth 5 c)) (length (filter (Nat.eqb 1) sched)) sched).
Definition reattach_obs (c : tval) : tval := VL (map VB (reattach_model c)).
Definition check_reattach (c : tval) : bool := all2 list_eqb (reattach_model c) (map vb (vl (vnth 9 c))).

Definition check (c : tval) : bool :=
  match vn (vnth 0 c) with
  | 0 => check_copy c
  | 1 => check_bridge c
  | 2 => check_life c
  | 3 => check_stall c
  | _ => check_reattach c
  end.
Definition predict (c : tval) : tval :=
  match vn (vnth 0 c) with
  | 0 => copy_obs c
  | 1 => bridge_obs c
  | 2 => life_obs c
  | 3 => stall_obs c
  | _ => reattach_obs c
  end.
Close Scope N_scope.

(* Corr/C17.v — replays what the Go harness drove through the real code on the Limits model and compares the
   occupancy after every step and the per-caller outcomes.
   case = [kind; ...]
     0 server : [0; variant; max; pre; closes; sched; counts; outcomes]      macro steps, see smacro
     1 reg    : [1; which(0 tunnel,1 control); max; ops; refused; keys; authevict]   ops = [0;id;created(;client)] | [1;id] | [2;id;client]
     2 mapseq : [2; variant; max; ops; counts; outcomes]                      ops = [0] open | [1;k] close k-th arrival
     3 quota  : [3; variant; max; pre; n; sched; counts; outcomes]            see quota_check
     4 qfault : [4; policy; max; nrecs; trace; outcomes]                      see qfault_check
     5 regsched : [5; max; ops; final keys]                                   see regsched_check
     6 qlist  : [6; max; pre; writes; counted; existing; extras; accepted]    see qlist_check *)
From TX Require Import Base.Val Model.Limits.
From Coq Require Import ZArith.

Definition dec_variant (v : tval) : variant := if vbool v then Current else Pinned.

Definition thread_at {Sh Lo} (s : Sh * list Lo) (i : nat) : option Lo := nth_error (snd s) i.

(* step caller i while `cont` holds of its local state, at most `fuel` times *)
Fixpoint step_while {Sh Lo} (tstep : Lo -> Sh -> Lo * Sh) (cont : Lo -> bool) (fuel : nat) (s : Sh * list Lo) (i : nat) : Sh * list Lo :=
  match fuel with
  | 0 => s
  | S f => match thread_at s i with
           | Some lo => if cont lo then step_while tstep cont f (sys_step _ _ tstep s i) i else s
           | None => s
           end
  end.

(* ---- server: macro step 1 = the count check; 2 = GetConnectionID..insert (and undo); 3 = CloseConnection *)
Definition s_in_flight (lo : sloc) : bool :=
  match s_pc lo with SChecked | SGotID | SStreamed | SUndo => true | _ => false end.
Definition smacro v max (s : ssh * list sloc) (i : nat) : ssh * list sloc :=
  match thread_at s i with
  | Some lo =>
      match s_pc lo with
      | SStart => sys_step _ _ (sstep v max) s i
      | SChecked => step_while (sstep v max) s_in_flight 5 s i
      | SAccepted => sys_step _ _ (sstep v max) s i
      | _ => s
      end
  | None => s
  end.
Definition s_outcome (lo : sloc) : N :=
  match s_pc lo with SAccepted => 1 | SRefused => 2 | SClosed => 3 | _ => 0 end%N.

Definition pair_ok (a b : N) (v : tval) : bool := N.eqb a (vn (vnth 0 v)) && N.eqb b (vn (vnth 1 v)).

Fixpoint s_replay v max (s : ssh * list sloc) (sched : list nat) (counts : list tval) : bool * (ssh * list sloc) :=
  match sched, counts with
  | [], [] => (true, s)
  | i :: rest, c :: cs =>
      let s' := smacro v max s i in
      if pair_ok (N.of_nat (conns (fst s'))) (N.of_nat (streams (fst s'))) c then s_replay v max s' rest cs else (false, s')
  | _, _ => (false, s)
  end.

Definition server_run (v : tval) :=
  let var := dec_variant (vnth 1 v) in
  let max := vnat (vnth 2 v) in
  let pre := vnat (vnth 3 v) in
  s_replay var max ({| conns := pre; streams := pre |}, map (fun b => s_new (vbool b)) (vl (vnth 4 v)))
           (map vnat (vl (vnth 5 v))) (vl (vnth 6 v)).
Definition server_check (v : tval) : bool :=
  let '(ok, s) := server_run v in
  ok && all2 (fun lo o => N.eqb (s_outcome lo) (vn o)) (snd s) (vl (vnth 7 v)).

(* ---- registries *)
(* ops: [0;id;created(;client)] Register (optionally of an already authenticated connection), [1;id] Remove,
        [2;id;client] UpdateAuth *)
Definition dec_rop (v : tval) : rop :=
  match vn (vnth 0 v) with
  | 0 => RReg (vn (vnth 1 v)) (vn (vnth 2 v))
  | 1 => RRem (vn (vnth 1 v))
  | _ => RAuth (vn (vnth 1 v)) (vn (vnth 2 v))
  end%N.
Definition keyset_eq (m : list (N * N)) (obs : list tval) : bool :=
  Nat.eqb (length m) (length obs) && forallb (fun k => has m (vn k)) obs.
Definition is_refused (r : rres) : bool := match r with RRefused => true | _ => false end.
Fixpoint r_replay (apply : rop -> list (N * N) -> rres * list (N * N)) (m : list (N * N))
         (ops refused keys : list tval) : bool :=
  match ops, refused, keys with
  | [], [], [] => true
  | o :: os, r :: rs, k :: ks =>
      let '(res, m') := apply (dec_rop o) m in
      Bool.eqb (is_refused res) (vbool r) && keyset_eq m' (vl k) && r_replay apply m' os rs ks
  | _, _, _ => false
  end.
(* control registry: identities matter (UpdateAuth removes the connection the client id resolved to when the tree has
   /repo eb41b39 — flag at position 6 of the case) *)
Definition dec_xop (v : tval) : xop :=
  match vn (vnth 0 v) with
  | 0 => XReg (vn (vnth 1 v)) (vn (vnth 2 v)) (vn (vnth 3 v))     (* a missing 4th element decodes as client 0 *)
  | 1 => XRem (vn (vnth 1 v))
  | _ => XAuth (vn (vnth 1 v)) (vn (vnth 2 v))
  end%N.
Fixpoint x_replay (b : bool) (max : nat) (r : cregx) (ops refused keys : list tval) : bool :=
  match ops, refused, keys with
  | [], [], [] => true
  | o :: os, f :: fs, k :: ks =>
      let '(res, r') := cregx_apply b max (dec_xop o) r in
      Bool.eqb (is_refused res) (vbool f) && keyset_eq (x_map r') (vl k) && x_replay b max r' os fs ks
  | _, _, _ => false
  end.
Definition reg_check (v : tval) : bool :=
  let max := vnat (vnth 2 v) in
  if vbool (vnth 1 v)
  then x_replay (vbool (vnth 6 v)) max x_empty (vl (vnth 3 v)) (vl (vnth 4 v)) (vl (vnth 5 v))
  else r_replay (treg_apply max) [] (vl (vnth 3 v)) (vl (vnth 4 v)) (vl (vnth 5 v)).

(* ---- client mapping, whole-connection histories
   ops: [0] open (carried through to a running tunnel, or refused), [1;k] the k-th arrival's connection ends,
        [2] open whose tunnel is closed by its peer between RegisterTunnel and Start (or refused),
        [3] open while the user-quota lookup fails (limit source = user quota),
        [4;k] the k-th arrival's tunnel is closed from outside and its localConn.Close() parks, [5;k] that Close returns,
        [6] the mapping's handler is stopped and replaced (config push) *)
Definition m_setting_up (pc : mpc) : bool :=
  match pc with MStart _ | MLoaded _ _ | MActive _ | MEarlyClosed => true | _ => false end.
Definition m_closing (pc : mpc) : bool := match pc with MLive | MClosing => true | _ => false end.
Definition m_outcome (pc : mpc) : N := match pc with MLive => 1 | MRefused => 2 | MDone => 3 | MClosing => 5 | _ => 0 end%N.
Definition op_kind (o : tval) : N := vn (vnth 0 o).
Fixpoint m_replay v max (s : msh * list mpc) (next : nat) (ops counts : list tval) : bool * (msh * list mpc) :=
  match ops, counts with
  | [], [] => (true, s)
  | o :: os, c :: cs =>
      let '(s', next') :=
        if N.eqb (op_kind o) 1
        then (match thread_at s (vnat (vnth 1 o)) with                      (* the connection ends: close begins and completes *)
              | Some MLive => step_while (mstep v max) m_closing 2 s (vnat (vnth 1 o))
              | _ => s
              end, next)
        else if N.eqb (op_kind o) 6
        then (* the handler is stopped (every connection of the mapping goes down with it) and replaced *)
             (fold_left (fun s0 i => step_while (mstep v max) m_closing 2 s0 i) (seq 0 (length (snd s))) s, next)
        else if N.eqb (op_kind o) 4
        then (match thread_at s (vnat (vnth 1 o)) with                      (* Tunnel.Close begins; localConn.Close() parked *)
              | Some MLive => sys_step _ _ (mstep v max) s (vnat (vnth 1 o))
              | _ => s
              end, next)
        else if N.eqb (op_kind o) 5
        then (match thread_at s (vnat (vnth 1 o)) with                      (* the parked Close returns *)
              | Some MClosing => sys_step _ _ (mstep v max) s (vnat (vnth 1 o))
              | _ => s
              end, next)
        else (* [3]: GetUserQuota() fails for this arrival — the limit is unknown to it: the "unlimited, only count" branch *)
             (step_while (mstep v (if N.eqb (op_kind o) 3 then 0 else max)) m_setting_up 8 s next, S next) in
      if pair_ok (Z.to_N (counter (fst s'))) (Z.to_N (live (fst s'))) c
         && (0 <=? counter (fst s'))%Z && (0 <=? live (fst s'))%Z
      then m_replay v max s' next' os cs else (false, s')
  | _, _ => (false, s)
  end.
Definition mapseq_check (v : tval) : bool :=
  let ops := vl (vnth 3 v) in
  let arrivals := map (fun o => MStart (N.eqb (op_kind o) 2))
                      (filter (fun o => N.eqb (op_kind o) 0 || N.eqb (op_kind o) 2 || N.eqb (op_kind o) 3) ops) in
  let '(ok, s) := m_replay (dec_variant (vnth 1 v)) (vnat (vnth 2 v)) ({| counter := 0; live := 0 |}, arrivals) 0 ops (vl (vnth 4 v)) in
  ok && all2 (fun pc o => N.eqb (m_outcome pc) (vn o)) (snd s) (vl (vnth 5 v)).

(* ---- k concurrent Registers of new connections on a FULL control registry whose evicted streams park in Close():
   [5; max; ops (pre-fill, then the new registrations); final keys] — the registry mutex linearises the calls and, for
   k <= max, the final key set does not depend on the order *)
Definition regsched_check (v : tval) : bool :=
  let max := vnat (vnth 1 v) in
  let '(_, m) := rseq (creg_apply max) (map dec_rop (vl (vnth 2 v))) [] in
  keyset_eq m (vl (vnth 3 v)).

(* ---- storage-level quotas: macro schedules of callers parked by the gated store.
   Pinned tree: one macro step = one model step (count, create).
   Repaired tree: macro 1 = up to the SetNX of the admission marker, macro 2 = SetNX .. count (.. Delete when refused / failed /
   busy), macro 3 = create .. Delete. *)
Definition q_outcome (pc : qpc) : N := match pc with QCreated => 1 | QRefused => 2 | _ => 0 end%N.
Fixpoint q_replay max (s : nat * list qpc) (sched : list nat) (counts : list tval) : bool * (nat * list qpc) :=
  match sched, counts with
  | [], [] => (true, s)
  | i :: rest, c :: cs =>
      let s' := sys_step _ _ (qstep max) s i in
      if N.eqb (N.of_nat (fst s')) (vn (vnth 0 c)) then q_replay max s' rest cs else (false, s')
  | _, _ => (false, s)
  end.

Definition l_in_admission (lo : lloc) : bool :=
  match l_pc lo with LStart | LHeld | LRefHeld | LFailHeld => true | _ => false end.
Definition l_in_create (lo : lloc) : bool := match l_pc lo with LCounted | LDoneHeld => true | _ => false end.
Definition lmacro max (s : lsh * list lloc) (i : nat) : lsh * list lloc :=
  match thread_at s i with
  | Some lo =>
      match l_pc lo with
      | LNew => sys_step _ _ (lstep max) s i
      | LStart => step_while (lstep max) l_in_admission 5 s i
      | LCounted => step_while (lstep max) l_in_create 3 s i
      | _ => s
      end
  | None => s
  end.
Definition l_outcome (lo : lloc) : N :=
  match l_pc lo with LCreated => 1 | LRefused => 2 | LFailed => 4 | LBusy => 5 | _ => 0 end%N.
Fixpoint l_replay max (s : lsh * list lloc) (sched : list nat) (counts : list tval) : bool * (lsh * list lloc) :=
  match sched, counts with
  | [], [] => (true, s)
  | i :: rest, c :: cs =>
      let s' := lmacro max s i in
      if N.eqb (N.of_nat (q_n (fst s'))) (vn (vnth 0 c)) then l_replay max s' rest cs else (false, s')
  | _, _ => (false, s)
  end.

(* [3; variant; max; pre; n; sched; counts; outcomes] *)
Definition quota_check (v : tval) : bool :=
  let max := vnat (vnth 2 v) in
  let pre := vnat (vnth 3 v) in
  let n := vnat (vnth 4 v) in
  let sched := map vnat (vl (vnth 5 v)) in
  match dec_variant (vnth 1 v) with
  | Pinned =>
      let '(ok, s) := q_replay max (pre, repeat QStart n) sched (vl (vnth 6 v)) in
      ok && all2 (fun pc o => N.eqb (q_outcome pc) (vn o)) (snd s) (vl (vnth 7 v))
  | Current =>
      let '(ok, s) := l_replay max ({| q_n := pre; q_lock := false |}, repeat (l_new false) n) sched (vl (vnth 6 v)) in
      ok && negb (q_lock (fst s)) && all2 (fun lo o => N.eqb (l_outcome lo) (vn o)) (snd s) (vl (vnth 7 v))
  end.

(* ---- single read faults at a full quota: [4; policy; max; nrecs; trace; outcomes]
   trace = class of every storage read of the request in order (0 index read, 1 by-id read of one of the client's records,
   2 any other read); outcomes[k] = what the request did when exactly read k failed (0 refused by the quota, 1 failed,
   2 ACCEPTED) *)
Definition dec_policy (v : tval) : fpolicy := match vn v with 0 => Abort | 1 => SkipRecord | _ => Open end%N.
Definition a_code (r : ares) : N := match r with ARefused => 0 | AFailed => 1 | ACreated => 2 end%N.
Definition class1_before (tr : list N) (k : nat) : nat := length (filter (N.eqb 1) (firstn k tr)).
Definition fault_outcome (p : fpolicy) (max nrecs : nat) (tr : list N) (k : nat) : N :=
  let recs := repeat true nrecs in
  match nth k tr 9%N with
  | 0 => a_code (fst (accept_once p max recs true []))
  | 1 => a_code (fst (accept_once p max recs false (repeat false (class1_before tr k) ++ [true])))
  | _ => 1
  end%N.
Definition qfault_check (v : tval) : bool :=
  let p := dec_policy (vnth 1 v) in
  let tr := map vn (vl (vnth 4 v)) in
  all2 (fun k o => N.eqb (fault_outcome p (vnat (vnth 2 v)) (vnat (vnth 3 v)) tr k) (vn o))
       (seq 0 (length tr)) (vl (vnth 5 v))
  (* the request reads the index once and every record once *)
  && Nat.eqb (length (filter (N.eqb 1) tr)) (vnat (vnth 3 v))
  && Nat.eqb (length (filter (N.eqb 0) tr)) 1.

(* ---- one Create of the client under test with a List run at every write it parks at, then sequential creates:
   [6; max; pre; writes; counted_after; existing_after; extras; accepted_extras]
   writes = class of every parked write of the Create in order (0 other, 1 by-id record, 2 index append) *)
Fixpoint i_replay (s : ish * list ipc) (writes : list N) : ish * list ipc :=
  match writes with
  | [] => s
  | w :: ws =>
      let s1 := sys_step _ _ (istep RecordFirst) s 1 in                 (* the List at this park point *)
      let s2 := match w with 1 | 2 => sys_step _ _ (istep RecordFirst) s1 0 | _ => s1 end%N in
      i_replay s2 ws
  end.
Definition qlist_check (v : tval) : bool :=
  let max := vnat (vnth 1 v) in
  let pre := vnat (vnth 2 v) in
  let writes := map vn (vl (vnth 3 v)) in
  let pre_ids := map (fun k => N.of_nat (100 + k)) (seq 0 pre) in
  let s := i_replay ({| i_stored := pre_ids; i_index := pre_ids |}, [ICreate 7 0; IList (length writes)]) writes in
  let counted := i_counted (fst s) in
  (* the code writes the record before the index entry *)
  list_eqb (filter (fun w => N.eqb w 1 || N.eqb w 2) writes) [1; 2]%N
  && Nat.eqb counted (vnat (vnth 4 v)) && Nat.eqb (length (i_stored (fst s))) (vnat (vnth 5 v))
  && Nat.eqb (Nat.min (vnat (vnth 6 v)) (max - counted)) (vnat (vnth 7 v)).

(* ---- a create of the client while an activation of one of its codes holds the claim:
   [7; max; outcomes] — the client is at its limit; ops in order: activation claims (parked before it writes the code back),
   create, activation finishes, create; outcomes of the two creates (1 accepted, 2 refused) and active counts after each op *)
Definition qclaim_check (v : tval) : bool :=
  let max := vnat (vnth 1 v) in
  let s := krun true max {| k_active := max; k_claimed := 0 |} [KActivate; KCreate; KCreate] [0; 1; 0; 2] in
  let code pc := match pc with KCreated => 1 | KRefusedK => 2 | _ => 0 end%N in
  all2 (fun pc o => N.eqb (code pc) (vn o)) (skipn 1 (snd s)) (vl (vnth 2 v))
  && Nat.eqb (k_active (fst s)) (vnat (vnth 3 v)).

Definition check (v : tval) : bool :=
  match vn (vnth 0 v) with
  | 0 => server_check v
  | 1 => reg_check v
  | 2 => mapseq_check v
  | 3 => quota_check v
  | 4 => qfault_check v
  | 5 => regsched_check v
  | 6 => qlist_check v
  | 7 => qclaim_check v
  | _ => false
  end%N.

(* the model's own account of the case: final occupancy and outcomes *)
Definition predict (v : tval) : tval :=
  match vn (vnth 0 v) with
  | 0 => let '(ok, s) := server_run v in
         VL [vN_of_bool ok; VN (N.of_nat (conns (fst s))); VN (N.of_nat (streams (fst s))); VL (map (fun lo => VN (s_outcome lo)) (snd s))]
  | _ => VL [vN_of_bool (check v)]
  end%N.

(* Corr/C03.v — correspondence glue: runs the Auth model on a history observed on the real code and
   compares the projected state and outputs after every event. *)
From TX Require Import Base.Val Model.Auth Gen.C03.
Open Scope N_scope.

(* HMAC abstraction for the correspondence run: responses are reported by the harness as
   (secret number, challenge number); the harness checks on every run that equal numbers <=> equal strings.
   0 is a response that is no HMAC of anything. *)
Definition hmac_corr (s c : N) : N := s * 65536 + c + 1.

Definition dec_ev (v : tval) : ev :=
  let a := fun i => vn (vnth i v) in
  match a 0%nat with
  | 0 => EMsg (a 1%nat) (Some {| h_cid := a 2%nat; h_new := vbool (vnth 3 v);
                                 h_resp := if vbool (vnth 4 v)
                                           then Some (if (a 5%nat =? 0) || (a 6%nat =? 0) then 0 else hmac_corr (a 5%nat) (a 6%nat))
                                           else None;
                                 h_tunnel := vbool (vnth 7 v) |})
  | 1 => EBan (a 1%nat) | 2 => EUnban (a 1%nat) | 3 => EBlack (a 1%nat) | 4 => EUnblack (a 1%nat)
  | 5 => EExpire (a 1%nat) | 6 => EDelete (a 1%nat) | 7 => ERate (vbool (vnth 1 v))
  | 8 => EClose (a 1%nat) | 9 => EOpen (a 1%nat) (a 2%nat) | 10 => ERekey (a 1%nat) | 11 => ERegister
  | 12 => EMsg (a 1%nat) None
  | 15 => ERestart (if a 1%nat =? 0 then None else Some (a 1%nat - 1))
  | 16 => EBlackC (a 1%nat) | 17 => EUnblackC (a 1%nat)
  | 18 => EBanLapse (a 1%nat) | 19 => EUnbanLands (a 1%nat)
  | 20 => ESetRecord (a 1%nat) (vbool (vnth 2 v)) (a 3%nat)
  | 21 => EWhite (a 1%nat) (vbool (vnth 2 v)) | 22 => EUnwhite (a 1%nat) (vbool (vnth 2 v))
  | 23 => EBody (a 1%nat) {| h_cid := a 2%nat; h_new := vbool (vnth 3 v);
                             h_resp := if vbool (vnth 4 v)
                                       then Some (if (a 5%nat =? 0) || (a 6%nat =? 0) then 0 else hmac_corr (a 5%nat) (a 6%nat))
                                       else None;
                             h_tunnel := vbool (vnth 7 v) |}
  | 25 => EBanPerm (a 1%nat) | 26 => ETempLapse (a 1%nat)
  | 27 => EBlackW (a 1%nat) | 28 => EUnblackW (a 1%nat) | 29 => EBlackLapse (a 1%nat) (a 2%nat)
  | 30 => ECleanup (a 1%nat)
  | 14 => ECorrupt (a 1%nat) (vbool (vnth 2 v))
  | _ => EDelAnon (a 1%nat)
  end.

Definition dec_variant (v : tval) : variant :=
  {| v_success_gate := vbool (vnth 0 v); v_anon_delete := vbool (vnth 1 v); v_first_keeps := vbool (vnth 2 v); v_ban_monotone := vbool (vnth 3 v) |}.

Definition b2n (b : bool) : N := if b then 1 else 0.
Definition on (o : option N) : N := match o with Some n => n | None => 0 end.

(* projection of the model state onto what the harness observes *)
Definition proj_conn (s : srv) (k : N) : list N :=
  match conns s k with
  | None => [0; 0; 0; 0; 0]
  | Some cn => match c_cc cn with
               | None => [1; 0; 0; 0; 0]
               | Some c => [1; 1; b2n (authed c); ccid c; on (pending c)]
               end
  end.
Fixpoint upto (n : nat) : list N := match n with O => [] | S n' => upto n' ++ [N.of_nat n] end.
Definition proj (slots addrs : list N) (so : srv * out) : tval :=
  let s := fst so in let o := snd so in
  let ncli := next_id s - 1 in
  VL [ VN (b2n (o_err o));
       VN (match o_wire o with WNone => 0 | WSuccess => 1 | WSuccessNew _ => 2 | WChallenge _ => 3 | WFail => 4 end);
       VN (match o_wire o with WSuccessNew i => i | WChallenge n => n | _ => 0 end);
       VL (map (fun k => VL (map VN (proj_conn s k))) slots);
       VL (map (fun x => VN (on (index s x))) (upto (N.to_nat ncli)));
       VL (map (fun a => VN (b2n (banned s a))) addrs);
       VL (map (fun a => VN (b2n (blocked s a))) addrs);
       VL (map (fun a => VN (fails s a)) addrs);
       VN ncli ].

Fixpoint tval_eqb (fuel : nat) (a b : tval) : bool :=
  match fuel with
  | O => false
  | S f =>
    match a, b with
    | VN x, VN y => x =? y
    | VB x, VB y => list_eqb x y
    | VL x, VL y => all2 (tval_eqb f) x y
    | _, _ => false
    end
  end.

(* case = [variant; slots; addrs; events; observations] *)
Definition model_obs (v : tval) : list tval :=
  let slots := map vn (vl (vnth 1 v)) in
  let addrs := map vn (vl (vnth 2 v)) in
  map (proj slots addrs)
      (trace hmac_corr MaxFailures PermanentBanAt (dec_variant (vnth 0 v)) init (map dec_ev (vl (vnth 3 v)))).

Definition check (v : tval) : bool := all2 (tval_eqb 8) (model_obs v) (vl (vnth 4 v)).
Definition predict (v : tval) : tval := VL (model_obs v).

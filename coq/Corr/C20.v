(* Corr/C20.v — correspondence glue: evaluates the Socks model on a case observed on the real code.
   Addresses are compared in canonical form: (1, 16-byte IP) or (0, name bytes); the Go side computes it from the
   host string it got (net.ParseIP(host).To16() or the raw bytes), the model from (ATYP, address bytes) and the
   net.ParseIP oracle table the harness supplies for every host text it saw. *)
From TX Require Import Base.Val Model.Socks.

Open Scope N_scope.

Definition tbl_t := list (list N * option (list N)).
Definition tbl_parse_ip (tbl : tbl_t) (t : list N) : option (list N) :=
  match lookup tbl t with Some r => r | None => None end.

Definition canon (tbl : tbl_t) (atyp : N) (addr : list N) : N * list N :=
  if atyp =? 1 then (1, v4mapped addr)
  else if atyp =? 4 then (1, addr)
  else match tbl_parse_ip tbl addr with Some ip => (1, ip) | None => (0, addr) end.

Definition canon_eqb (a b : N * list N) : bool := (fst a =? fst b) && list_eqb (snd a) (snd b).

Definition dec_tbl (v : tval) : tbl_t :=
  map (fun e => (vb (vnth 0 e), match vopt (vnth 1 e) with Some x => Some (vb x) | None => None end)) (vl v).
Definition dec_canon (v : tval) : N * list N := (vn (vnth 0 v), vb (vnth 1 v)).
Definition dec_auth (v : tval) : option (list N * list N) :=
  match vopt v with Some c => Some (vb (vnth 0 c), vb (vnth 1 c)) | None => None end.

Definition used_of (s left : list N) : N := lenN s - lenN left.

(* ---- kind 0: Listener.Handshake ---- *)
Definition listener_model (s : list N) (cuts : list nat) : option (option request * list N * N) :=
  match run_rd listener_handshake (mkrd s cuts) [] with
  | Some (res, r', out) => Some (res, out, used_of s (rest r'))
  | None => None
  end.

Definition req_matches (tbl : tbl_t) (with_cmd : bool) (m : option request) (ok : bool) (cmd : N)
           (cn : N * list N) (port : N) : bool :=
  match m with
  | None => negb ok
  | Some q => ok && (negb with_cmd || (q_cmd q =? cmd)) && canon_eqb (canon tbl (q_atyp q) (q_addr q)) cn
              && (q_port q =? port)
  end.

Definition check_listener (v : tval) : bool :=
  let s := vb (vnth 1 v) in
  let cuts := map vnat (vl (vnth 2 v)) in
  let o := vnth 3 v in
  let tbl := dec_tbl (vnth 4 v) in
  match listener_model s cuts with
  | None => false
  | Some (res, out, used) =>
    req_matches tbl true res (vbool (vnth 0 o)) (vn (vnth 1 o)) (dec_canon (vnth 2 o)) (vn (vnth 3 o))
    && list_eqb out (vb (vnth 4 o)) && (used =? vn (vnth 5 o))
  end.

(* ---- kind 1: adapter connection ---- *)
Definition check_adapter (v : tval) : bool :=
  let s := vb (vnth 1 v) in
  let cuts := map vnat (vl (vnth 2 v)) in
  let auth := dec_auth (vnth 3 v) in
  let pinned := vbool (vnth 4 v) in
  let o := vnth 5 v in
  let tbl := dec_tbl (vnth 6 v) in
  match adapter_session pinned auth (mkrd s cuts) with
  | None => false
  | Some a =>
    Bool.eqb (a_hs_ok a) (vbool (vnth 0 o)) && (used_of s (a_hs_left a) =? vn (vnth 1 o))
    && req_matches tbl false (a_req a) (vbool (vnth 2 o)) 1 (dec_canon (vnth 3 o)) (vn (vnth 4 o))
    && list_eqb (a_out a) (vb (vnth 5 o)) && (used_of s (a_left a) =? vn (vnth 6 o))
  end.

(* ---- kind 2: parseUDPHeader, then buildUDPHeader on what it returned, then parseUDPHeader again ---- *)
Definition check_udp (v : tval) : bool :=
  let d := vb (vnth 1 v) in
  let mn := if vbool (vnth 2 v) then udp_min_pinned else udp_min_current in
  let o := vnth 3 v in
  let tbl := dec_tbl (vnth 4 v) in
  match udp_parse mn d with
  | None => negb (vbool (vnth 0 o))
  | Some (atyp, addr, port, payload) =>
    vbool (vnth 0 o) && canon_eqb (canon tbl atyp addr) (dec_canon (vnth 1 o)) && (port =? vn (vnth 2 o))
    && list_eqb payload (vb (vnth 3 o))
    && (let built := udp_build (tbl_parse_ip tbl) (vb (vnth 4 o)) port payload in
        list_eqb built (vb (vnth 5 o))
        && match udp_parse mn built with
           | None => negb (vbool (vnth 6 o))
           | Some (a2, ad2, p2, pl2) =>
             vbool (vnth 6 o) && canon_eqb (canon tbl a2 ad2) (dec_canon (vnth 7 o)) && (p2 =? vn (vnth 8 o))
             && list_eqb pl2 (vb (vnth 9 o))
           end)
  end.

(* ---- kind 3: buildUDPHeader on an arbitrary destination ---- *)
Definition check_build (v : tval) : bool :=
  let tbl := dec_tbl (vnth 5 v) in
  list_eqb (udp_build (tbl_parse_ip tbl) (vb (vnth 1 v)) (vn (vnth 2 v)) (vb (vnth 3 v))) (vb (vnth 4 v)).

(* ---- kind 4: a history of operations on ONE relay; the observed values are the retained results as they read
        after the whole history (seq) / after the barrier (conc).  op = [0; host; port; payload; built]
        | [1; datagram; ok; canon; port; payload] ---- *)
Definition dec_uop (v : tval) : uop :=
  if vn (vnth 0 v) =? 0 then UBuild (vb (vnth 1 v)) (vn (vnth 2 v)) (vb (vnth 3 v)) else UParse (vb (vnth 1 v)).

Definition ures_matches (tbl : tbl_t) (m : ures) (v : tval) : bool :=
  match m with
  | RBuilt b => (vn (vnth 0 v) =? 0) && list_eqb b (vb (vnth 4 v))
  | RParsed None => (vn (vnth 0 v) =? 1) && negb (vbool (vnth 2 v))
  | RParsed (Some (atyp, addr, port, payload)) =>
    (vn (vnth 0 v) =? 1) && vbool (vnth 2 v) && canon_eqb (canon tbl atyp addr) (dec_canon (vnth 3 v))
    && (port =? vn (vnth 4 v)) && list_eqb payload (vb (vnth 5 v))
  end.

Definition check_history (v : tval) : bool :=
  let ops := vl (vnth 1 v) in
  let tbl := dec_tbl (vnth 2 v) in
  all2 (ures_matches tbl) (run_uops (tbl_parse_ip tbl) (map dec_uop ops)) ops.

Definition check (v : tval) : bool :=
  let k := vn (vnth 0 v) in
  if k =? 4 then check_history v else
  if k =? 0 then check_listener v
  else if k =? 1 then check_adapter v
  else if k =? 2 then check_udp v
  else if k =? 3 then check_build v
  else false.

(* ---- the model's own outputs, for diagnostics ---- *)
Definition enc_req (m : option request) : tval :=
  match m with
  | None => VL []
  | Some q => VL [VL [VN (q_cmd q); VN (q_atyp q); VB (q_addr q); VN (q_port q)]]
  end.

Definition predict (v : tval) : tval :=
  let k := vn (vnth 0 v) in
  if k =? 0 then
    match listener_model (vb (vnth 1 v)) (map vnat (vl (vnth 2 v))) with
    | None => VL [VN 99]
    | Some (res, out, used) => VL [enc_req res; VB out; VN used]
    end
  else if k =? 1 then
    let s := vb (vnth 1 v) in
    match adapter_session (vbool (vnth 4 v)) (dec_auth (vnth 3 v)) (mkrd s (map vnat (vl (vnth 2 v)))) with
    | None => VL [VN 99]
    | Some a => VL [vN_of_bool (a_hs_ok a); VN (used_of s (a_hs_left a)); enc_req (a_req a); VB (a_out a);
                    VN (used_of s (a_left a))]
    end
  else if k =? 2 then
    match udp_parse (if vbool (vnth 2 v) then udp_min_pinned else udp_min_current) (vb (vnth 1 v)) with
    | None => VL []
    | Some (atyp, addr, port, payload) => VL [VN atyp; VB addr; VN port; VB payload]
    end
  else if k =? 3 then
    VB (udp_build (tbl_parse_ip (dec_tbl (vnth 5 v))) (vb (vnth 1 v)) (vn (vnth 2 v)) (vb (vnth 3 v)))
  else VL [].
Close Scope N_scope.

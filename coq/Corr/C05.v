(* Corr/C05.v — the decoder correspondence is the C01 one (same model); in addition the model's
   allocation trace must respect the bound on every observed stream. *)
From TX Require Import Base.Val Model.Hostile Corr.C01 Gen.C05.

Definition alloc_ok (c : c01case) : bool :=
  forallb (fun a => N.leb a (MaxPacketBodySize + 1))
          (alloc_all current_variant MaxPacketBodySize (tbl_inflate c) (S (length (c_wire c))) (tbl_json c) (c_wire c)).

Definition check (v : tval) : bool :=
  let c := dec_case v in check_case c && alloc_ok c.
Definition predict (v : tval) : tval := Corr.C01.predict v.

From Coq Require Import Extraction ExtrOcamlBasic.
From TX Require Import Base.Val Corr.C19.
Extraction Language OCaml.
Extraction "model.ml" check predict.

From Coq Require Import Extraction ExtrOcamlBasic.
From TX Require Import Base.Val Corr.C04.
Extraction Language OCaml.
Extraction "model.ml" check predict.

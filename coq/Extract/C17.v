From Coq Require Import Extraction ExtrOcamlBasic.
From TX Require Import Base.Val Corr.C17.
Extraction Language OCaml.
Extraction "model.ml" check predict.

(* Threads.v — interleaving semantics used by every schedule-quantified property.
   A thread is a deterministic step function over (local, shared); each step is ONE atomic action at
   the granularity the property names (one storage call, one mutex-protected section, one atomic
   load/add/CAS).  A schedule is a list of thread indices; reachability = any schedule, any number
   of threads.  `run` is executable, so a schedule is a replayable artefact. *)
From Coq Require Export List Arith NArith Lia Bool.
Export ListNotations.

Section Sys.
  Variables (Sh Lo : Type).
  Variable tstep : Lo -> Sh -> Lo * Sh.          (* one atomic action of one thread *)

  Definition st := (Sh * list Lo)%type.

  Fixpoint upd_nth {A} (i : nat) (x : A) (l : list A) : list A :=
    match l, i with
    | [], _ => []
    | _ :: t, 0 => x :: t
    | h :: t, S j => h :: upd_nth j x t
    end.

  Definition sys_step (s : st) (i : nat) : st :=
    match nth_error (snd s) i with
    | None => s
    | Some lo => let '(lo', sh') := tstep lo (fst s) in (sh', upd_nth i lo' (snd s))
    end.

  Definition run (s : st) (sched : list nat) : st := fold_left sys_step sched s.

  Theorem inv_all_schedules (Inv : st -> Prop) :
    (forall s i, Inv s -> Inv (sys_step s i)) ->
    forall sched s, Inv s -> Inv (run s sched).
  Proof.
    intros Hstep sched. induction sched as [|i rest IH]; cbn; intros s Hs; [exact Hs|].
    apply IH, Hstep, Hs.
  Qed.

  Lemma run_app s a b : run s (a ++ b) = run (run s a) b.
  Proof. unfold run. apply fold_left_app. Qed.

  Lemma upd_nth_length {A} i (x : A) l : length (upd_nth i x l) = length l.
  Proof. revert i; induction l as [|h t IH]; intros [|j]; cbn; auto. Qed.

  Lemma nth_error_upd_nth_same {A} i (x : A) l : i < length l -> nth_error (upd_nth i x l) i = Some x.
  Proof. revert i; induction l as [|h t IH]; intros [|j] H; cbn in *; try lia; auto. apply IH; lia. Qed.

  Lemma nth_error_upd_nth_other {A} i j (x : A) l : i <> j -> nth_error (upd_nth i x l) j = nth_error l j.
  Proof.
    revert i j; induction l as [|h t IH]; intros [|i] [|j] H; cbn; auto; try congruence.
  Qed.

  Lemma sys_step_threads s i : length (snd (sys_step s i)) = length (snd s).
  Proof.
    unfold sys_step. destruct (nth_error (snd s) i); [|reflexivity].
    destruct (tstep l (fst s)). cbn. apply upd_nth_length.
  Qed.
End Sys.
Arguments upd_nth {A}.

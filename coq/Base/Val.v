(* Val.v — a universal tree value used to hand observed cases from the Go harness to the model
   (both to the extracted OCaml runner and to vm_compute).  Accessors are total with defaults;
   every Corr/Cnn.check function starts by destructuring a tval. *)
From Coq Require Export List NArith Bool.
Export ListNotations.

Inductive tval :=
| VN (n : N)
| VB (b : list N)
| VL (l : list tval).

Definition vn (v : tval) : N := match v with VN n => n | _ => 0%N end.
Definition vnat (v : tval) : nat := N.to_nat (vn v).
Definition vbool (v : tval) : bool := negb (N.eqb (vn v) 0).
Definition vb (v : tval) : list N := match v with VB b => b | _ => [] end.
Definition vl (v : tval) : list tval := match v with VL l => l | _ => [] end.
Definition vnth (i : nat) (v : tval) : tval := nth i (vl v) (VL []).
(* option encoding: VL [] = None, VL [x] = Some x *)
Definition vopt (v : tval) : option tval := match v with VL [x] => Some x | _ => None end.

Fixpoint list_eqb (a b : list N) : bool :=
  match a, b with
  | [], [] => true
  | x :: a', y :: b' => N.eqb x y && list_eqb a' b'
  | _, _ => false
  end.

Fixpoint all2 {A B} (f : A -> B -> bool) (a : list A) (b : list B) : bool :=
  match a, b with
  | [], [] => true
  | x :: a', y :: b' => f x y && all2 f a' b'
  | _, _ => false
  end.

Definition lookup {B} (tbl : list (list N * B)) (k : list N) : option B :=
  match find (fun e => list_eqb (fst e) k) tbl with Some e => Some (snd e) | None => None end.

Definition vN_of_bool (b : bool) : tval := VN (if b then 1 else 0)%N.

(* Bytes.v — bytes as N, big-endian 16/32-bit codecs and their round-trip lemmas. *)
From Coq Require Export List NArith Arith Lia Bool.
From Coq Require Import ZArith ZifyN ZifyNat ZifyBool.
Export ListNotations.
Ltac Zify.zify_post_hook ::= Z.div_mod_to_equations.

Definition byte := N.
Definition wf_byte (b : byte) : Prop := (b < 256)%N.
Definition wf_bytes (l : list byte) : Prop := Forall wf_byte l.
Definition wf_byteb (b : byte) : bool := (b <? 256)%N.
Definition wf_bytesb (l : list byte) : bool := forallb wf_byteb l.

Lemma wf_bytesb_ok l : wf_bytesb l = true <-> wf_bytes l.
Proof.
  unfold wf_bytesb, wf_bytes. rewrite forallb_forall, Forall_forall.
  split; intros H x Hx; specialize (H x Hx); unfold wf_byteb, wf_byte in *; lia.
Qed.

Lemma wf_bytes_app a b : wf_bytes (a ++ b) <-> wf_bytes a /\ wf_bytes b.
Proof. unfold wf_bytes. apply Forall_app. Qed.

Lemma wf_bytes_firstn n l : wf_bytes l -> wf_bytes (firstn n l).
Proof. unfold wf_bytes. intros H. rewrite <- (firstn_skipn n l) in H. apply Forall_app in H. tauto. Qed.
Lemma wf_bytes_skipn n l : wf_bytes l -> wf_bytes (skipn n l).
Proof. unfold wf_bytes. intros H. rewrite <- (firstn_skipn n l) in H. apply Forall_app in H. tauto. Qed.

Open Scope N_scope.

(* big-endian encoders: value is reduced modulo the field width exactly like Go's uint16()/uint32() casts *)
Definition be16 (n : N) : list byte := [ (n / 256) mod 256; n mod 256 ].
Definition be32 (n : N) : list byte :=
  [ (n / 16777216) mod 256; (n / 65536) mod 256; (n / 256) mod 256; n mod 256 ].

Definition de16 (l : list byte) : N :=
  match l with [a; b] => a * 256 + b | _ => 0 end.
Definition de32 (l : list byte) : N :=
  match l with [a; b; c; d] => a * 16777216 + b * 65536 + c * 256 + d | _ => 0 end.

Lemma be16_length n : length (be16 n) = 2%nat. Proof. reflexivity. Qed.
Lemma be32_length n : length (be32 n) = 4%nat. Proof. reflexivity. Qed.

Lemma be16_wf n : wf_bytes (be16 n).
Proof. unfold be16, wf_bytes, wf_byte. repeat constructor; lia. Qed.
Lemma be32_wf n : wf_bytes (be32 n).
Proof. unfold be32, wf_bytes, wf_byte. repeat constructor; lia. Qed.

Lemma de16_be16 n : n < 65536 -> de16 (be16 n) = n.
Proof. intros H. unfold de16, be16. lia. Qed.
Lemma de32_be32 n : n < 4294967296 -> de32 (be32 n) = n.
Proof. intros H. unfold de32, be32. lia. Qed.

(* what the cast does for out-of-range values (used by "length 65536 encodes as 0") *)
Lemma de16_be16_mod n : de16 (be16 n) = n mod 65536.
Proof. unfold de16, be16. lia. Qed.
Lemma de32_be32_mod n : de32 (be32 n) = n mod 4294967296.
Proof. unfold de32, be32. lia. Qed.

Lemma be16_de16 a b : a < 256 -> b < 256 -> be16 (de16 [a; b]) = [a; b].
Proof. intros Ha Hb. unfold de16, be16. repeat f_equal; lia. Qed.
Lemma be32_de32 a b c d : a < 256 -> b < 256 -> c < 256 -> d < 256 ->
  be32 (de32 [a; b; c; d]) = [a; b; c; d].
Proof. intros Ha Hb Hc Hd. unfold de32, be32. repeat f_equal; lia. Qed.

Lemma de16_range l : wf_bytes l -> de16 l < 65536.
Proof.
  intros H. destruct l as [|a [|b [|c l]]]; cbn; try lia.
  inversion H as [|? ? Ha H1]; subst. inversion H1 as [|? ? Hb H2]; subst.
  unfold wf_byte in *. lia.
Qed.
Lemma de32_range l : wf_bytes l -> de32 l < 4294967296.
Proof.
  intros H. destruct l as [|a [|b [|c [|d [|e l]]]]]; cbn; try lia.
  inversion H as [|? ? Ha H1]; subst. inversion H1 as [|? ? Hb H2]; subst.
  inversion H2 as [|? ? Hc H3]; subst. inversion H3 as [|? ? Hd H4]; subst.
  unfold wf_byte in *. lia.
Qed.

Definition lenN {A} (l : list A) : N := N.of_nat (length l).
Lemma lenN_app {A} (a b : list A) : lenN (a ++ b) = lenN a + lenN b.
Proof. unfold lenN. rewrite app_length. lia. Qed.
Close Scope N_scope.

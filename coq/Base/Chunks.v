(* Chunks.v — the transport model: a Go io.Reader over a finite byte stream whose chunking
   is chosen by an oracle.  Definitions are executable; the lemmas say that a full-read
   loop is independent of the oracle. *)
From TX Require Export Base.Bytes.
From Coq Require Import ZArith ZifyN ZifyNat ZifyBool.

(* rest : bytes not yet delivered;  cuts : for each future Read, the most the transport is
   willing to return (0 is treated as 1: a Read never returns (0,nil));  endk : what the
   stream ends with once empty (0 = io.EOF, other = some transport error);
   carry : what happens to the part of a cut that a Read with a smaller buffer did not take:
   false = forgotten (stream transports: the next Read is again limited only by the next cut),
   true  = it stays at the head of `cuts` (message transports: a WebSocket adapter buffers the unread tail
   of a message and serves it before touching the next message; Model/WsConn.v). *)
Record rd := { rest : list byte; cuts : list nat; endk : N; carry : bool }.

Definition mkrd (s : list byte) (c : list nat) : rd := {| rest := s; cuts := c; endk := 0; carry := false |}.
Definition mkrde (s : list byte) (c : list nat) (e : N) : rd := {| rest := s; cuts := c; endk := e; carry := false |}.

(* one Read with a buffer of capacity cap (cap > 0) *)
Definition read1 (cap : N) (r : rd) : option (list byte * rd) :=
  match rest r with
  | [] => None
  | _ =>
    let c := match cuts r with [] => length (rest r) | x :: _ => Nat.max 1 x end in
    let k := N.to_nat (N.min cap (N.of_nat (Nat.min c (length (rest r))))) in
    let cuts' := match cuts r with
                 | [] => []
                 | x :: t => if carry r && Nat.ltb k (Nat.max 1 x) then (Nat.max 1 x - k)%nat :: t else t
                 end in
    Some (firstn k (rest r), {| rest := skipn k (rest r); cuts := cuts'; endk := endk r; carry := carry r |})
  end.

Inductive rf_result :=
| RFOk (got : list byte) (r : rd)
| RFEnd (partial : list byte) (r : rd)     (* stream ended before n bytes were read *)
| RFFuel.                                   (* out of fuel: excluded by read_full_spec *)

(* io.ReadFull / the hand-written "for total < n { Read(buf[total:]) }" loops *)
Fixpoint read_full (fuel : nat) (n : N) (r : rd) : rf_result :=
  if (n =? 0)%N then RFOk [] r else
  match read1 n r with
  | None => RFEnd [] r
  | Some (got, r') =>
    match fuel with
    | O => RFFuel
    | S f =>
      match read_full f (n - lenN got)%N r' with
      | RFOk more r'' => RFOk (got ++ more) r''
      | RFEnd more r'' => RFEnd (got ++ more) r''
      | RFFuel => RFFuel
      end
    end
  end.

(* a single Read that must fill the whole buffer (the shape of the pre-fix header reads) *)
Definition read_once (n : N) (r : rd) : rf_result :=
  match read1 n r with
  | None => RFEnd [] r
  | Some (got, r') => if (lenN got =? n)%N then RFOk got r' else RFEnd got r'
  end.

(* ---------------------------------------------------------------------------------- *)

Lemma read1_progress cap r got r' : (0 < cap)%N -> read1 cap r = Some (got, r') ->
  (0 < length got)%nat /\ (lenN got <= cap)%N /\ rest r = got ++ rest r' /\ endk r' = endk r.
Proof.
  unfold read1. intros Hc. destruct (rest r) as [|b bs] eqn:E; [discriminate|].
  remember (N.to_nat (N.min cap (N.of_nat (Nat.min
     (match cuts r with [] => length (b :: bs) | x :: _ => Nat.max 1 x end) (length (b :: bs)))))) as k eqn:Ek.
  intros H. inversion H; subst got r'; clear H. cbn [rest endk].
  assert (Hk : (0 < k)%nat /\ (N.of_nat k <= cap)%N /\ (k <= length (b :: bs))%nat).
  { subst k. destruct (cuts r); cbn [length]; lia. }
  unfold lenN. rewrite firstn_length. repeat split; try lia.
  now rewrite firstn_skipn.
Qed.

Lemma read1_none cap r : read1 cap r = None <-> rest r = [].
Proof. unfold read1. destruct (rest r); split; congruence. Qed.

(* The specification of a full read: it depends only on the bytes, never on the oracle. *)
Theorem read_full_spec : forall fuel n r, (length (rest r) <= fuel)%nat ->
  ((n <= lenN (rest r))%N ->
     exists r', read_full fuel n r = RFOk (firstn (N.to_nat n) (rest r)) r'
                /\ rest r' = skipn (N.to_nat n) (rest r) /\ endk r' = endk r) /\
  ((lenN (rest r) < n)%N ->
     exists r', read_full fuel n r = RFEnd (rest r) r' /\ rest r' = [] /\ endk r' = endk r).
Proof.
  induction fuel as [|f IH]; intros n r Hf.
  - assert (Hr : rest r = []) by (destruct (rest r); cbn in *; [reflexivity|lia]).
    cbn [read_full]. destruct (N.eqb_spec n 0) as [->|Hn].
    + split; [intros _; exists r; rewrite Hr; cbn; auto | unfold lenN; lia].
    + rewrite (proj2 (read1_none n r) Hr). split.
      * unfold lenN; rewrite Hr; cbn; lia.
      * intros _. exists r. rewrite Hr. auto.
  - cbn [read_full]. destruct (N.eqb_spec n 0) as [->|Hn].
    + split; [intros _; exists r; cbn; auto | unfold lenN; lia].
    + destruct (read1 n r) as [[got r1]|] eqn:E1.
      * apply read1_progress in E1; [|lia]. destruct E1 as (Hg1 & Hg2 & Hr & He).
        assert (Hf1 : (length (rest r1) <= f)%nat).
        { rewrite Hr, app_length in Hf. lia. }
        destruct (IH (n - lenN got)%N r1 Hf1) as [IHa IHb].
        unfold lenN in *. split.
        -- intros Hlen. rewrite Hr, app_length in Hlen.
           destruct IHa as (r2 & Hrf & Hr2 & He2); [lia|]. rewrite Hrf. exists r2. repeat split.
           ++ f_equal. rewrite Hr. rewrite firstn_app.
              rewrite (@firstn_all2 _ (N.to_nat n) got) by lia. f_equal. f_equal. lia.
           ++ rewrite Hr2, Hr. rewrite skipn_app. rewrite (@skipn_all2 _ (N.to_nat n) got) by lia.
              cbn [app]. f_equal. lia.
           ++ congruence.
        -- intros Hlen. rewrite Hr, app_length in Hlen.
           destruct IHb as (r2 & Hrf & Hr2 & He2); [lia|]. rewrite Hrf. exists r2. repeat split.
           ++ now rewrite Hr.
           ++ exact Hr2.
           ++ congruence.
      * apply read1_none in E1. split.
        -- unfold lenN; rewrite E1; cbn; lia.
        -- intros _. exists r. rewrite E1. auto.
Qed.

Corollary read_full_never_out_of_fuel fuel n r :
  (length (rest r) <= fuel)%nat -> read_full fuel n r <> RFFuel.
Proof.
  intros Hf. destruct (read_full_spec fuel n r Hf) as [A B].
  destruct (N.le_gt_cases n (lenN (rest r))) as [H|H].
  - destruct (A H) as (r' & E & _). rewrite E. discriminate.
  - destruct (B H) as (r' & E & _). rewrite E. discriminate.
Qed.

(* observable part of a full read: bytes obtained / failure; the oracle is not observable *)
Definition rf_obs (x : rf_result) : option (option (list byte)) :=
  match x with RFOk g _ => Some (Some g) | RFEnd _ _ => Some None | RFFuel => None end.

Corollary read_full_chunk_independent n s c1 c2 e k1 k2 :
  rf_obs (read_full (length s) n {| rest := s; cuts := c1; endk := e; carry := k1 |}) =
  rf_obs (read_full (length s) n {| rest := s; cuts := c2; endk := e; carry := k2 |}).
Proof.
  destruct (read_full_spec (length s) n {| rest := s; cuts := c1; endk := e; carry := k1 |} (le_n _)) as [A1 B1].
  destruct (read_full_spec (length s) n {| rest := s; cuts := c2; endk := e; carry := k2 |} (le_n _)) as [A2 B2].
  cbn [rest] in *.
  destruct (N.le_gt_cases n (lenN s)) as [H|H].
  - destruct (A1 H) as (r1 & E1 & _). destruct (A2 H) as (r2 & E2 & _). now rewrite E1, E2.
  - destruct (B1 H) as (r1 & E1 & _). destruct (B2 H) as (r2 & E2 & _). now rewrite E1, E2.
Qed.

(* the single-Read header fetch is NOT oracle independent: the shape of a _refuted lemma *)
Example read_once_depends_on_chunks :
  rf_obs (read_once 4 (mkrd [0;0;0;5]%N [])) <> rf_obs (read_once 4 (mkrd [0;0;0;5]%N [1%nat])).
Proof. vm_compute. discriminate. Qed.

(* Proofs/Relay.v — lemmas about Model/Relay.v (client-side relays, property C12). *)
From TX Require Import Model.Relay.
From Coq Require Import ZArith ZifyN ZifyNat ZifyBool.

Open Scope N_scope.

(* ---------------------------------------------------------------------------------------- *)
(*  the UDP endpoint's write side without a scripted fault                                    *)
(* ---------------------------------------------------------------------------------------- *)

Fixpoint wadd (w : wst) (pend : list dgram) : wst :=
  match pend with
  | [] => w
  | d :: tl => wadd {| w_log := w_log w ++ [d]; w_cnt := w_cnt w + 1; w_fail := w_fail w;
                       w_bytes := w_bytes w + lenN d |} tl
  end.

Lemma wadd_fail w p : w_fail (wadd w p) = w_fail w.
Proof. revert w; induction p as [|d p IH]; intros w; cbn [wadd]; [reflexivity|]. now rewrite IH. Qed.

Lemma wadd_log w p : w_log (wadd w p) = w_log w ++ p.
Proof.
  revert w; induction p as [|d p IH]; intros w; cbn [wadd]; [now rewrite app_nil_r|].
  rewrite IH. cbn [w_log]. now rewrite <- app_assoc.
Qed.

Lemma wadd_bytes w p : w_bytes (wadd w p) = w_bytes w + sum_len p.
Proof.
  revert w; induction p as [|d p IH]; intros w; cbn [wadd sum_len fold_right]; [lia|].
  rewrite IH. cbn [w_bytes]. fold (sum_len p). lia.
Qed.

Lemma wadd_app w p q : wadd w (p ++ q) = wadd (wadd w p) q.
Proof. revert w; induction p as [|d p IH]; intros w; cbn [wadd app]; [reflexivity|]. apply IH. Qed.

Lemma flush_ok p : forall w, w_fail w = None -> uflush p w = (false, wadd w p).
Proof.
  induction p as [|d p IH]; intros w Hw; cbn [uflush wadd]; [reflexivity|].
  rewrite Hw. apply IH. reflexivity.
Qed.

(* ---------------------------------------------------------------------------------------- *)
(*  split: the complete records of a byte string                                              *)
(* ---------------------------------------------------------------------------------------- *)

Section SplitProofs.
  Variable MaxRec : N.
  Notation split := (split MaxRec).

  Lemma lenN_skipn {A} n (l : list A) : (n <= length l)%nat -> lenN (skipn n l) = lenN l - N.of_nat n.
  Proof. intros H. unfold lenN. rewrite skipn_length. lia. Qed.

  Lemma split_fuel : forall f1 f2 buf, (length buf <= f1)%nat -> (length buf <= f2)%nat ->
    split f1 buf = split f2 buf.
  Proof.
    induction f1 as [|f1 IH]; intros f2 buf H1 H2.
    - destruct buf; cbn in H1; [|lia]. destruct f2; reflexivity.
    - destruct f2 as [|f2].
      + destruct buf; cbn in H2; [|lia]. reflexivity.
      + cbn [Relay.split]. destruct buf as [|a [|b tl]]; try reflexivity.
        destruct ((de16 [a; b] =? 0) || (MaxRec <? de16 [a; b])); [reflexivity|].
        destruct (lenN tl <? de16 [a; b]) eqn:E; [reflexivity|].
        rewrite (IH f2 (skipn (N.to_nat (de16 [a; b])) tl)); [reflexivity| |];
          rewrite skipn_length; cbn [length] in H1, H2; lia.
  Qed.

  (* shape of the result: the input is the encoding of the records followed by the tail *)
  Lemma split_length : forall f buf recs rst bad, split f buf = (recs, rst, bad) ->
    (length buf = length rst + fold_right (fun d a => 2 + length d + a) 0 recs)%nat.
  Proof.
    induction f as [|f IH]; intros buf recs rst bad H.
    - cbn in H. inversion H; subst. cbn. lia.
    - cbn [Relay.split] in H. destruct buf as [|a [|b tl]]; try (inversion H; subst; cbn; lia).
      destruct ((de16 [a; b] =? 0) || (MaxRec <? de16 [a; b])); [inversion H; subst; cbn; lia|].
      destruct (lenN tl <? de16 [a; b]) eqn:E; [inversion H; subst; cbn; lia|].
      destruct (split f (skipn (N.to_nat (de16 [a; b])) tl)) as [[r rst'] bad'] eqn:Es.
      inversion H; subst recs rst bad; clear H.
      apply IH in Es. rewrite skipn_length in Es. cbn [fold_right length].
      rewrite firstn_length. unfold lenN in E. cbn [de16] in *. lia.
  Qed.

  (* the tail left by a non-bad split holds no complete record and is shorter than one maximal record *)
  Lemma split_tail : forall f buf recs rst, (length buf <= f)%nat -> split f buf = (recs, rst, false) ->
    lenN rst < 2 + MaxRec /\ forall f', split f' rst = ([], rst, false).
  Proof.
    induction f as [|f IH]; intros buf recs rst Hf H.
    - destruct buf; cbn in Hf; [|lia]. cbn in H. inversion H; subst. split; [unfold lenN; cbn [length]; lia|].
      intros [|f']; reflexivity.
    - cbn [Relay.split] in H. destruct buf as [|a [|b tl]].
      + inversion H; subst. split; [unfold lenN; cbn [length]; lia|]. intros [|f']; reflexivity.
      + inversion H; subst. split; [unfold lenN; cbn [length]; lia|]. intros [|f']; reflexivity.
      + destruct ((de16 [a; b] =? 0) || (MaxRec <? de16 [a; b])) eqn:Eb; [inversion H|].
        destruct (lenN tl <? de16 [a; b]) eqn:E.
        * inversion H; subst recs rst; clear H. split.
          -- unfold lenN in *. cbn [length]. lia.
          -- intros [|f']; [reflexivity|]. cbn [Relay.split]. rewrite Eb, E. reflexivity.
        * destruct (split f (skipn (N.to_nat (de16 [a; b])) tl)) as [[r rst'] bad'] eqn:Es.
          inversion H; subst recs rst bad'; clear H.
          apply (IH _ _ _) in Es; [exact Es|]. rewrite skipn_length. cbn [length] in Hf. lia.
  Qed.

  (* appending more bytes: the records found so far stay, the tail is re-examined with the new bytes *)
  Lemma split_app : forall f buf recs rst more f2 f3,
    (length buf <= f)%nat -> split f buf = (recs, rst, false) ->
    (length (rst ++ more) <= f2)%nat -> (length (buf ++ more) <= f3)%nat ->
    split f3 (buf ++ more) =
      (let '(r2, rst2, bad2) := split f2 (rst ++ more) in (recs ++ r2, rst2, bad2)).
  Proof.
    induction f as [|f IH]; intros buf recs rst more f2 f3 Hf H H2 H3.
    - destruct buf; cbn in Hf; [|lia]. cbn in H. inversion H; subst. cbn [app] in *.
      rewrite (split_fuel f3 f2 more H3 H2). destruct (split f2 more) as [[? ?] ?]. reflexivity.
    - cbn [Relay.split] in H. destruct buf as [|a [|b tl]].
      + inversion H; subst. cbn [app] in *.
        rewrite (split_fuel f3 f2 more H3 H2). destruct (split f2 more) as [[? ?] ?]. reflexivity.
      + inversion H; subst.
        rewrite (split_fuel f3 f2 ([a] ++ more) H3 H2). destruct (split f2 ([a] ++ more)) as [[? ?] ?]. reflexivity.
      + destruct ((de16 [a; b] =? 0) || (MaxRec <? de16 [a; b])) eqn:Eb; [inversion H|].
        destruct (lenN tl <? de16 [a; b]) eqn:E.
        * inversion H; subst recs rst; clear H.
          rewrite (split_fuel f3 f2 ((a :: b :: tl) ++ more) H3 H2).
          destruct (split f2 ((a :: b :: tl) ++ more)) as [[? ?] ?]. reflexivity.
        * destruct (split f (skipn (N.to_nat (de16 [a; b])) tl)) as [[r rst'] bad'] eqn:Es.
          inversion H; subst recs rst bad'; clear H.
          destruct f3 as [|f3]; [cbn in H3; lia|].
          cbn [app Relay.split]. rewrite Eb.
          assert (Hn : (N.to_nat (de16 [a; b]) <= length tl)%nat) by (unfold lenN in E; lia).
          assert (E' : (lenN (tl ++ more) <? de16 [a; b]) = false).
          { rewrite lenN_app. unfold lenN in *. lia. }
          rewrite E'.
          rewrite firstn_app, skipn_app.
          replace (N.to_nat (de16 [a; b]) - length tl)%nat with 0%nat by lia.
          cbn [firstn skipn]. rewrite app_nil_r.
          rewrite (IH (skipn (N.to_nat (de16 [a; b])) tl) r rst' more f2 f3); try assumption.
          -- destruct (split f2 (rst' ++ more)) as [[? ?] ?]. reflexivity.
          -- rewrite skipn_length. cbn [length] in Hf. lia.
          -- rewrite app_length, skipn_length. cbn [app length] in H3. rewrite app_length in H3. lia.
  Qed.

  Lemma split_app_bad : forall f buf recs rst more f3,
    (length buf <= f)%nat -> split f buf = (recs, rst, true) -> (length (buf ++ more) <= f3)%nat ->
    split f3 (buf ++ more) = (recs, rst ++ more, true).
  Proof.
    induction f as [|f IH]; intros buf recs rst more f3 Hf H H3.
    - cbn in H. inversion H.
    - cbn [Relay.split] in H. destruct buf as [|a [|b tl]]; try (inversion H; fail).
      destruct ((de16 [a; b] =? 0) || (MaxRec <? de16 [a; b])) eqn:Eb.
      + inversion H; subst recs rst; clear H.
        destruct f3 as [|f3]; [cbn in H3; lia|]. cbn [app Relay.split]. rewrite Eb. reflexivity.
      + destruct (lenN tl <? de16 [a; b]) eqn:E; [inversion H|].
        destruct (split f (skipn (N.to_nat (de16 [a; b])) tl)) as [[r rst'] bad'] eqn:Es.
        inversion H; subst recs rst bad'; clear H.
        destruct f3 as [|f3]; [cbn in H3; lia|].
        cbn [app Relay.split]. rewrite Eb.
        assert (Hn : (N.to_nat (de16 [a; b]) <= length tl)%nat) by (unfold lenN in E; lia).
        assert (E' : (lenN (tl ++ more) <? de16 [a; b]) = false).
        { rewrite lenN_app. unfold lenN in *. lia. }
        rewrite E'. rewrite firstn_app, skipn_app.
        replace (N.to_nat (de16 [a; b]) - length tl)%nat with 0%nat by lia.
        cbn [firstn skipn]. rewrite app_nil_r.
        rewrite (IH (skipn (N.to_nat (de16 [a; b])) tl) r rst' more f3 ltac:(rewrite skipn_length; cbn [length] in Hf; lia) Es).
        * reflexivity.
        * rewrite app_length, skipn_length. cbn [app length] in H3. rewrite app_length in H3. lia.
  Qed.
End SplitProofs.

(* ---- the tunnel / stream reader ---- *)
Lemma tread_cases cap t : 0 < cap ->
  (* the stream has ended *)
  (rest (t_rd t) = [] /\
   tread cap t = ([], Some (endk (t_rd t)), {| t_rd := t_rd t; t_wd := t_wd t; t_empty := tl (t_empty t) |})) \/
  (* a Read without an end: a chunk, or an empty read (got = []); something scripted has been used up *)
  (exists got t', tread cap t = (got, None, t') /\ rest (t_rd t) = got ++ rest (t_rd t') /\
                  (tmeasure t' < tmeasure t)%nat /\ endk (t_rd t') = endk (t_rd t)) \/
  (* the last chunk, delivered together with the end *)
  (exists got t', tread cap t = (got, Some (endk (t_rd t)), t') /\ rest (t_rd t) = got /\
                  (0 < length got)%nat /\ rest (t_rd t') = []).
Proof.
  intros Hc. unfold tread.
  assert (Hemp : (exists more, t_empty t = true :: more) \/
                 (match t_empty t with true :: _ => False | _ => True end)).
  { destruct (t_empty t) as [|[|] more]; [right; exact I|left; now exists more|right; exact I]. }
  destruct Hemp as [[more Hm]|Hne].
  - rewrite Hm. right; left. exists [], {| t_rd := t_rd t; t_wd := t_wd t; t_empty := more |}.
    split; [reflexivity|]. cbn [t_rd app]. split; [reflexivity|]. split; [|reflexivity].
    unfold tmeasure. cbn [t_rd t_empty]. rewrite Hm. cbn [length]. lia.
  - assert (Hsame : (match t_empty t with
                     | true :: more => ([], None, {| t_rd := t_rd t; t_wd := t_wd t; t_empty := more |})
                     | _ => match read1 cap (t_rd t) with
                            | None => ([], Some (endk (t_rd t)), {| t_rd := t_rd t; t_wd := t_wd t; t_empty := tl (t_empty t) |})
                            | Some (got, r') =>
                              if t_wd t && is_nil (rest r')
                              then (got, Some (endk r'), {| t_rd := r'; t_wd := t_wd t; t_empty := tl (t_empty t) |})
                              else (got, None, {| t_rd := r'; t_wd := t_wd t; t_empty := tl (t_empty t) |})
                            end
                     end) =
                    match read1 cap (t_rd t) with
                    | None => ([], Some (endk (t_rd t)), {| t_rd := t_rd t; t_wd := t_wd t; t_empty := tl (t_empty t) |})
                    | Some (got, r') =>
                      if t_wd t && is_nil (rest r')
                      then (got, Some (endk r'), {| t_rd := r'; t_wd := t_wd t; t_empty := tl (t_empty t) |})
                      else (got, None, {| t_rd := r'; t_wd := t_wd t; t_empty := tl (t_empty t) |})
                    end).
    { destruct (t_empty t) as [|[|] more]; [reflexivity|contradiction|reflexivity]. }
    rewrite Hsame. clear Hsame.
    destruct (read1 cap (t_rd t)) as [[got r']|] eqn:E.
    + apply read1_progress in E; [|exact Hc]. destruct E as (Hg & _ & Hr & He).
      destruct (t_wd t && is_nil (rest r')) eqn:Ew.
      * right; right. apply andb_true_iff in Ew. destruct Ew as [_ Hn].
        destruct (rest r') eqn:Er; [|discriminate Hn].
        eexists; eexists. rewrite He. split; [reflexivity|]. cbn [t_rd].
        rewrite Hr, app_nil_r. auto.
      * right; left. eexists; eexists. split; [reflexivity|]. cbn [t_rd]. split; [exact Hr|]. split; [|exact He].
        unfold tmeasure. cbn [t_rd t_empty]. rewrite Hr, app_length.
        destruct (t_empty t); cbn [tl length]; lia.
    + left. apply read1_none in E. auto.
Qed.


Section UdpProofs.
  Variable Fixed : bool.
  Variables BufSz Low MaxRec Batch : N.
  Variable BwCap : option N.
  Hypothesis HLow : 2 + MaxRec <= Low.
  Hypothesis HBuf : Low < BufSz.
  Hypothesis HBatch : 0 < Batch.
  (* the sendmmsg writer can hold a full batch: flush() never hands it more than it can take *)
  Hypothesis HCap : forall cap, BwCap = Some cap -> Batch <= cap.

  Lemma uflush_path_ok p w : w_fail w = None -> lenN p <= Batch ->
    uflush_path BwCap p w = (false, wadd w p).
  Proof.
    intros Hw Hl. unfold uflush_path. destruct BwCap as [cap|] eqn:E; [|apply flush_ok; exact Hw].
    pose proof (HCap cap eq_refl) as Hc.
    rewrite (@firstn_all2 _ (N.to_nat cap) p) by (unfold lenN in Hl; lia). apply flush_ok; exact Hw.
  Qed.

  Notation split := (split MaxRec).
  Notation split_all := (split_all MaxRec).
  Notation unpack := (unpack MaxRec Batch BwCap).

  (* ---------------------------------------------------------------------------------------- *)
  (*  the inner unpacking loop extracts exactly the complete records of the buffer             *)
  (* ---------------------------------------------------------------------------------------- *)

  Lemma unpack_spec : forall fuel buf pend w,
    w_fail w = None -> (length buf < fuel)%nat -> lenN pend < Batch ->
    match split fuel buf with
    | (recs, rst, true) => unpack fuel buf pend w = UReturn (wadd w (pend ++ recs)) false
    | (recs, rst, false) =>
      exists pend' w', unpack fuel buf pend w = UBreak rst pend' w' /\
        wadd w' pend' = wadd w (pend ++ recs) /\ lenN pend' < Batch /\ w_fail w' = None /\
        (recs = [] -> pend' = pend /\ w' = w)
    end.
  Proof.
    induction fuel as [|f IH]; intros buf pend w Hw Hf Hp; [lia|].
    cbn [Relay.split Relay.unpack].
    assert (Hbase : exists pend' w', UBreak buf pend w = UBreak buf pend' w' /\
              wadd w' pend' = wadd w (pend ++ []) /\ lenN pend' < Batch /\ w_fail w' = None /\
              ([] = @nil dgram -> pend' = pend /\ w' = w)).
    { exists pend, w. rewrite app_nil_r. repeat split; auto. }
    destruct buf as [|a [|b tl]]; try exact Hbase.
    destruct ((de16 [a; b] =? 0) || (MaxRec <? de16 [a; b])) eqn:Eb.
    - rewrite (uflush_path_ok pend w Hw ltac:(lia)). cbn [snd]. now rewrite app_nil_r.
    - destruct (lenN tl <? de16 [a; b]) eqn:E; [exact Hbase|].
      set (d := firstn (N.to_nat (de16 [a; b])) tl).
      set (buf' := skipn (N.to_nat (de16 [a; b])) tl).
      assert (Hf' : (length buf' < f)%nat).
      { subst buf'. rewrite skipn_length. cbn [length] in Hf. lia. }
      destruct (Batch <=? lenN (pend ++ [d])) eqn:Ebatch.
      + rewrite (uflush_path_ok (pend ++ [d]) w Hw ltac:(rewrite lenN_app; unfold lenN at 2; cbn [length]; lia)).
        assert (Hw2 : w_fail (wadd w (pend ++ [d])) = None) by (now rewrite wadd_fail).
        assert (Hp0 : lenN (@nil dgram) < Batch) by (unfold lenN; cbn [length]; lia).
        specialize (IH buf' [] (wadd w (pend ++ [d])) Hw2 Hf' Hp0).
        destruct (split f buf') as [[r rst] bad]. destruct bad.
        * rewrite IH. cbn [app]. rewrite <- wadd_app. f_equal. f_equal. rewrite <- app_assoc. reflexivity.
        * destruct IH as (pend' & w' & Hu & Hwa & Hpl & Hwf & _).
          exists pend', w'. rewrite Hu. repeat split; try assumption.
          -- rewrite Hwa. cbn [app]. rewrite <- wadd_app. f_equal. rewrite <- app_assoc. reflexivity.
          -- congruence.
          -- congruence.
      + assert (Hp1 : lenN (pend ++ [d]) < Batch) by lia.
        specialize (IH buf' (pend ++ [d]) w Hw Hf' Hp1).
        destruct (split f buf') as [[r rst] bad]. destruct bad.
        * rewrite IH. f_equal. f_equal. rewrite <- app_assoc. reflexivity.
        * destruct IH as (pend' & w' & Hu & Hwa & Hpl & Hwf & _).
          exists pend', w'. rewrite Hu. repeat split; try assumption.
          -- rewrite Hwa. f_equal. rewrite <- app_assoc. reflexivity.
          -- congruence.
          -- congruence.
  Qed.

  Lemma post_unpack : forall (pend' : list dgram) (w' W : wst) (processed : nat),
    w_fail w' = None -> lenN pend' < Batch -> wadd w' pend' = W -> (pend' <> [] -> (0 < processed)%nat) ->
    (if negb (is_nil pend') && (0 <? processed)%nat
     then let '(fe, w2) := uflush_path BwCap pend' w' in (fe, w2, @nil dgram)
     else (false, w', pend')) = (false, W, []).
  Proof.
    intros pend' w' W processed Hw Hlen HW Hp. destruct pend' as [|d p].
    - cbn [is_nil negb andb]. cbn [wadd] in HW. now subst W.
    - assert (H0 : (0 < processed)%nat) by (apply Hp; discriminate).
      cbn [is_nil negb andb]. replace (0 <? processed)%nat with true by (symmetry; apply Nat.ltb_lt; exact H0).
      rewrite (uflush_path_ok (d :: p) w' Hw ltac:(lia)). now rewrite HW.
  Qed.

  (* what one iteration does once the read has been made (pending is empty at every loop head) *)
  Lemma process_spec : forall (w : wst) (buf1 : list byte) (t1 : trd) (err1 : N) (ended : bool),
    w_fail w = None ->
    process_phase Fixed MaxRec Batch BwCap [] w (buf1, t1, err1, ended) =
    (let '(recs, rst, bad) := split_all buf1 in
     if bad then OStop (wadd w recs) err1
     else if Fixed && ended then OStop (wadd w recs) (if is_nil rst then err1 else if err1 =? 0 then 3 else err1)
     else if ended && is_nil buf1 then OStop (wadd w recs) err1
     else OCont {| s_buf := rst; s_pend := []; s_w := wadd w recs; s_t := t1; s_err := err1 |}).
  Proof.
    intros w buf1 t1 err1 ended Hw. unfold process_phase.
    destruct (ended && is_nil buf1) eqn:Een.
    - apply andb_true_iff in Een. destruct Een as [-> Hnil]. destruct buf1; [|discriminate Hnil].
      rewrite (uflush_path_ok [] w Hw ltac:(unfold lenN; cbn [length]; lia)).
      cbn [Relay.split_all Relay.split length is_nil wadd]. rewrite andb_false_l, andb_true_r.
      destruct Fixed; reflexivity.
    - assert (Hp0 : lenN (@nil dgram) < Batch) by (unfold lenN; cbn [length]; lia).
      pose proof (unpack_spec (S (length buf1)) buf1 [] w Hw (Nat.lt_succ_diag_r _) Hp0) as Hu.
      unfold Relay.split_all.
      rewrite (split_fuel MaxRec (length buf1) (S (length buf1)) buf1 (le_n _) (Nat.le_succ_diag_r _)).
      destruct (split (S (length buf1)) buf1) as [[recs rst] bad] eqn:Es. destruct bad.
      + rewrite Hu. reflexivity.
      + destruct Hu as (pend' & w' & Hu & Hwa & Hpl & Hwf & Hnil). rewrite Hu. cbn [app] in Hwa.
        rewrite (post_unpack pend' w' (wadd w recs) (length buf1 - length rst) Hwf Hpl Hwa).
        * destruct (Fixed && ended); reflexivity.
        * intros Hne. apply split_length in Es.
          destruct recs as [|r0 recs]; [destruct (Hnil eq_refl) as [-> _]; congruence|].
          cbn [fold_right] in Es. lia.
  Qed.

  (* ---------------------------------------------------------------------------------------- *)
  (*  the tunnel reader                                                                        *)
  (* ---------------------------------------------------------------------------------------- *)

  Notation deframe := (deframe Fixed BufSz Low MaxRec Batch BwCap).

  Lemma read_phase_low s : lenN (s_buf s) < Low ->
    read_phase BufSz Low s =
      (let '(got, e, t') := tread (BufSz - lenN (s_buf s)) (s_t s) in
       match e with
       | None => (s_buf s ++ got, t', s_err s, false)
       | Some k => (s_buf s ++ got, t', (if k =? 0 then s_err s else 1), true)
       end).
  Proof. intros H. unfold read_phase. replace (lenN (s_buf s) <? Low) with true by lia. reflexivity. Qed.

  (* THE de-framing theorem for the repaired loop: for every byte stream, every chunk oracle and every way
     the stream ends, the loop returns within |stream|+1 iterations having written exactly the complete
     records of (buffer ++ stream); the error class is determined by the tail. *)
  Theorem deframe_fixed_spec : Fixed = true -> forall fuel s,
    s_pend s = [] -> w_fail (s_w s) = None -> lenN (s_buf s) < Low ->
    (tmeasure (s_t s) < fuel)%nat ->
    let '(recs, tail, bad) := split_all (s_buf s ++ rest (t_rd (s_t s))) in
    exists e, deframe fuel s = DDone (wadd (s_w s) recs) e /\
              (bad = false -> e = final_err (s_err s) (endk (t_rd (s_t s))) tail).
  Proof.
    intros HF. induction fuel as [|f IH]; intros s Hp Hw Hb Hfuel; [lia|].
    cbn [Relay.deframe]. unfold outer_step. rewrite Hp, (read_phase_low s Hb).
    destruct (tread_cases (BufSz - lenN (s_buf s)) (s_t s) ltac:(lia))
      as [[Hr Ht] | [(got & t' & Ht & Hr & Hg & He) | (got & t' & Ht & Hr & Hg & Hr')]]; rewrite Ht.
    - (* the stream had already ended *)
      rewrite Hr, app_nil_r. rewrite (process_spec (s_w s) (s_buf s) _ _ true Hw). rewrite HF.
      destruct (split_all (s_buf s)) as [[recs tail] bad]. destruct bad.
      + eexists; split; [reflexivity|discriminate].
      + cbn [andb]. eexists; split; [reflexivity|]. intros _. reflexivity.
    - (* a chunk without an error *)
      rewrite (process_spec (s_w s) (s_buf s ++ got) t' (s_err s) false Hw).
      rewrite Hr, app_assoc.
      destruct (split_all (s_buf s ++ got)) as [[recs1 rst1] bad1] eqn:Es1. unfold Relay.split_all in Es1.
      destruct bad1.
      + unfold Relay.split_all.
        rewrite (split_app_bad MaxRec _ _ _ _ (rest (t_rd t')) (length ((s_buf s ++ got) ++ rest (t_rd t'))) (le_n _) Es1 (le_n _)).
        eexists; split; [reflexivity|discriminate].
      + rewrite andb_false_r. cbn [andb].
        destruct (split_tail MaxRec _ _ _ _ (le_n _) Es1) as [Hlen _].
        set (s' := {| s_buf := rst1; s_pend := []; s_w := wadd (s_w s) recs1; s_t := t'; s_err := s_err s |}).
        assert (Hf' : (tmeasure (s_t s') < f)%nat).
        { cbn [s' s_t]. lia. }
        specialize (IH s' eq_refl ltac:(cbn [s' s_w]; now rewrite wadd_fail) ltac:(cbn [s' s_buf]; lia) Hf').
        cbn [s' s_buf s_t s_w s_err] in IH.
        unfold Relay.split_all.
        rewrite (split_app MaxRec _ _ _ _ (rest (t_rd t')) (length (rst1 ++ rest (t_rd t'))) _ (le_n _) Es1 (le_n _) (le_n _)).
        unfold Relay.split_all in IH.
        destruct (split (length (rst1 ++ rest (t_rd t'))) (rst1 ++ rest (t_rd t'))) as [[r2 tail2] bad2].
        destruct IH as (e & Hd & Herr). exists e. split.
        * rewrite Hd. rewrite wadd_app. reflexivity.
        * intros Hb2. rewrite (Herr Hb2), He. reflexivity.
    - (* the last chunk, delivered together with the end *)
      rewrite (process_spec (s_w s) (s_buf s ++ got) t' _ true Hw). rewrite HF, Hr.
      destruct (split_all (s_buf s ++ got)) as [[recs tail] bad]. destruct bad.
      + eexists; split; [reflexivity|discriminate].
      + cbn [andb]. eexists; split; [reflexivity|]. intros _. reflexivity.
  Qed.

  (* ---- datagrams are VALUES: what has been handed to the local writer is never altered by any later step of
          the loop (refill of readBuf, compaction, further flushes only APPEND to the log).  In the Go code the
          writer receives a sub-slice of readBuf that is only valid until flush() returns; the model's equality
          with the code therefore rests on the io.Writer contract "Write must not retain p" for whatever is used
          as the UDP side — checked on the real UDPVirtualConn / *net.UDPConn by the correspondence run. ---- *)
  Lemma outer_step_appends s : s_pend s = [] -> w_fail (s_w s) = None ->
    match outer_step Fixed BufSz Low MaxRec Batch BwCap s with
    | OStop w' _ => exists more, w_log w' = w_log (s_w s) ++ more
    | OCont s' => (exists more, w_log (s_w s') = w_log (s_w s) ++ more) /\ s_pend s' = [] /\ w_fail (s_w s') = None
    | OFuel => True
    end.
  Proof.
    intros Hp Hw. unfold outer_step. rewrite Hp.
    destruct (read_phase BufSz Low s) as [[[buf1 t1] err1] ended].
    rewrite (process_spec (s_w s) buf1 t1 err1 ended Hw).
    destruct (split_all buf1) as [[recs rst] bad].
    assert (Hl : exists more, w_log (wadd (s_w s) recs) = w_log (s_w s) ++ more) by (exists recs; apply wadd_log).
    destruct bad; [exact Hl|]. destruct (Fixed && ended); [exact Hl|]. destruct (ended && is_nil buf1); [exact Hl|].
    cbn [s_w s_pend]. split; [exact Hl|]. split; [reflexivity|]. now rewrite wadd_fail.
  Qed.

  Theorem delivered_datagrams_are_values : forall fuel s w e,
    s_pend s = [] -> w_fail (s_w s) = None -> deframe fuel s = DDone w e ->
    exists more, w_log w = w_log (s_w s) ++ more.
  Proof.
    induction fuel as [|f IH]; intros s w e Hp Hw Hd; [discriminate Hd|].
    cbn [Relay.deframe] in Hd. pose proof (outer_step_appends s Hp Hw) as Ha.
    destruct (outer_step Fixed BufSz Low MaxRec Batch BwCap s) as [w' e'|s'|]; [| |discriminate Hd].
    - inversion Hd; subst w' e'. exact Ha.
    - destruct Ha as ((m1 & Hm1) & Hp' & Hw'). destruct (IH s' w e Hp' Hw' Hd) as (m2 & Hm2).
      exists (m1 ++ m2). rewrite Hm2, Hm1. now rewrite app_assoc.
  Qed.

  (* the pinned loop: once the tunnel has ended and an incomplete record is buffered, an iteration
     changes nothing — the loop never leaves *)
  Lemma pinned_step_is_identity : Fixed = false -> forall s,
    s_pend s = [] -> w_fail (s_w s) = None -> lenN (s_buf s) < Low ->
    rest (t_rd (s_t s)) = [] -> t_empty (s_t s) = [] ->
    s_buf s <> [] -> split_all (s_buf s) = ([], s_buf s, false) ->
    outer_step Fixed BufSz Low MaxRec Batch BwCap s =
      OCont {| s_buf := s_buf s; s_pend := []; s_w := s_w s; s_t := s_t s;
               s_err := if endk (t_rd (s_t s)) =? 0 then s_err s else 1 |}.
  Proof.
    intros HF s Hp Hw Hb Hr Hemp Hne Hs. unfold outer_step. rewrite Hp, (read_phase_low s Hb).
    assert (Heta : {| t_rd := t_rd (s_t s); t_wd := t_wd (s_t s); t_empty := tl (t_empty (s_t s)) |} = s_t s).
    { rewrite Hemp. destruct (s_t s) as [r w e]. cbn [t_rd t_wd t_empty tl] in *. now subst e. }
    destruct (tread_cases (BufSz - lenN (s_buf s)) (s_t s) ltac:(lia))
      as [[_ Ht] | [(got & t' & _ & Hr2 & Hg & _) | (got & t' & _ & Hr2 & Hg & _)]].
    - rewrite Ht, Heta, app_nil_r. rewrite (process_spec (s_w s) (s_buf s) (s_t s) _ true Hw). rewrite Hs, HF.
      cbn [andb wadd]. destruct (s_buf s); [congruence|reflexivity].
    - exfalso. unfold tmeasure in Hg. rewrite Hr, Hemp in Hg. cbn [length] in Hg. lia.
    - rewrite Hr in Hr2. destruct got; [cbn in Hg; lia|discriminate Hr2].
  Qed.

  Theorem pinned_spins_on_partial_record : Fixed = false -> forall fuel s,
    s_pend s = [] -> w_fail (s_w s) = None -> lenN (s_buf s) < Low ->
    rest (t_rd (s_t s)) = [] -> t_empty (s_t s) = [] ->
    s_buf s <> [] -> split_all (s_buf s) = ([], s_buf s, false) ->
    deframe fuel s = DFuel.
  Proof.
    intros HF. induction fuel as [|f IH]; intros s Hp Hw Hb Hr Hemp Hne Hs; [reflexivity|].
    cbn [Relay.deframe]. rewrite (pinned_step_is_identity HF s Hp Hw Hb Hr Hemp Hne Hs).
    apply IH; cbn [s_pend s_w s_buf s_t]; auto.
  Qed.
End UdpProofs.



(* ---------------------------------------------------------------------------------------- *)
(*  cutting the encoding of a datagram list at an arbitrary byte offset                       *)
(* ---------------------------------------------------------------------------------------- *)
Section Cut.
  Variable MaxRec : N.
  Hypothesis HMax : MaxRec < 65536.
  Notation split := (split MaxRec).
  Notation split_all := (split_all MaxRec).
  Notation valid := (valid_dgram MaxRec).

  Lemma enc_dgram_cons d : enc_dgram d = (lenN d / 256) mod 256 :: lenN d mod 256 :: d.
  Proof. reflexivity. Qed.
  Lemma enc_dgram_length d : length (enc_dgram d) = (2 + length d)%nat.
  Proof. reflexivity. Qed.
  Lemma de16_enc d : valid d -> de16 [(lenN d / 256) mod 256; lenN d mod 256] = lenN d.
  Proof. intros [_ H]. apply (de16_be16 (lenN d)). lia. Qed.

  Lemma split_record d X f : valid d -> (length (enc_dgram d ++ X) <= f)%nat ->
    split f (enc_dgram d ++ X) = (let '(r, rst, bad) := split (length X) X in (d :: r, rst, bad)).
  Proof.
    intros Hv Hf. rewrite enc_dgram_cons in *. cbn [app length] in Hf.
    destruct f as [|f]; [lia|]. cbn [app Relay.split].
    match goal with |- context [de16 ?l] => replace (de16 l) with (lenN d) by (symmetry; apply (de16_enc d Hv)) end.
    destruct Hv as [Hv0 Hv1].
    replace ((lenN d =? 0) || (MaxRec <? lenN d)) with false by lia.
    replace (lenN (d ++ X) <? lenN d) with false by (rewrite lenN_app; lia).
    assert (Hn : N.to_nat (lenN d) = length d) by (unfold lenN; lia). rewrite Hn.
    rewrite firstn_app, skipn_app, Nat.sub_diag, firstn_all, skipn_all. cbn [firstn skipn app].
    rewrite app_nil_r. rewrite app_length in Hf.
    rewrite (split_fuel MaxRec f (length X) X ltac:(lia) (le_n _)). reflexivity.
  Qed.

  Lemma split_partial d k f : valid d -> (k < 2 + length d)%nat ->
    split f (firstn k (enc_dgram d)) = ([], firstn k (enc_dgram d), false).
  Proof.
    intros Hv Hk. destruct f as [|f]; [reflexivity|]. rewrite enc_dgram_cons.
    destruct k as [|[|k]]; try reflexivity.
    cbn [firstn Relay.split].
    match goal with |- context [de16 ?l] => replace (de16 l) with (lenN d) by (symmetry; apply (de16_enc d Hv)) end. destruct Hv as [Hv0 Hv1].
    replace ((lenN d =? 0) || (MaxRec <? lenN d)) with false by lia.
    assert (Hl : lenN (firstn k d) <? lenN d = true).
    { unfold lenN. rewrite firstn_length. lia. }
    rewrite Hl. reflexivity.
  Qed.

  Theorem split_cut : forall ds, Forall valid ds -> forall cut,
    split_all (firstn cut (encode_all ds)) = (complete_before cut ds, tail_after cut ds, false).
  Proof.
    induction ds as [|d tl IH]; intros Hall cut.
    - cbn [encode_all flat_map]. rewrite firstn_nil. reflexivity.
    - inversion Hall as [|? ? Hv Htl]; subst. specialize (IH Htl).
      change (encode_all (d :: tl)) with (enc_dgram d ++ encode_all tl).
      cbn [complete_before tail_after]. destruct (2 + length d <=? cut)%nat eqn:E.
      + apply Nat.leb_le in E.
        rewrite firstn_app, enc_dgram_length.
        rewrite (@firstn_all2 _ cut (enc_dgram d)) by (rewrite enc_dgram_length; lia).
        unfold Relay.split_all. rewrite (split_record d _ _ Hv (le_n _)).
        specialize (IH (cut - (2 + length d))%nat). unfold Relay.split_all in IH. rewrite IH. reflexivity.
      + apply Nat.leb_gt in E.
        rewrite firstn_app, enc_dgram_length.
        replace (cut - (2 + length d))%nat with 0%nat by lia. cbn [firstn]. rewrite app_nil_r.
        unfold Relay.split_all. apply split_partial; assumption.
  Qed.

  Lemma complete_before_all : forall ds cut, (length (encode_all ds) <= cut)%nat ->
    complete_before cut ds = ds /\ tail_after cut ds = [].
  Proof.
    induction ds as [|d tl IH]; intros cut H; [split; reflexivity|].
    change (encode_all (d :: tl)) with (enc_dgram d ++ encode_all tl) in H.
    rewrite app_length, enc_dgram_length in H. cbn [complete_before tail_after].
    replace (2 + length d <=? cut)%nat with true by (symmetry; apply Nat.leb_le; lia).
    destruct (IH (cut - (2 + length d))%nat ltac:(lia)) as [-> ->]. split; reflexivity.
  Qed.
End Cut.

(* ---------------------------------------------------------------------------------------- *)
(*  the batching writer: whatever the uflush timing, the tunnel receives the record stream     *)
(* ---------------------------------------------------------------------------------------- *)
Section EncProofs.
  Variable BatchBuf : N.
  Definition tot (e : est) : list byte := concat (e_out e) ++ e_batch e.

  Lemma tot_eflush e : tot (eflush e) = tot e /\ e_sent (eflush e) = e_sent e.
  Proof.
    unfold eflush, tot. destruct (e_batch e) as [|b bs] eqn:E; [rewrite E; auto|].
    cbn [e_out e_batch e_sent]. rewrite concat_app. cbn [concat]. rewrite !app_nil_r. auto.
  Qed.

  Lemma tot_estep e ev : tot (estep BatchBuf e ev) = tot e ++ encode_all (ev_dgrams [ev]) /\
                         e_sent (estep BatchBuf e ev) = e_sent e + sum_len (ev_dgrams [ev]).
  Proof.
    destruct ev as [d|].
    - destruct d as [|x d].
      + cbn. rewrite app_nil_r. split; [reflexivity|lia].
      + unfold estep.
        set (e1 := if BatchBuf <? lenN (e_batch e) + (2 + lenN (x :: d)) then eflush e else e).
        assert (H1 : tot e1 = tot e /\ e_sent e1 = e_sent e).
        { subst e1. destruct (BatchBuf <? _); [apply tot_eflush|auto]. }
        destruct H1 as [H1 H1s].
        set (e2 := {| e_batch := e_batch e1 ++ enc_dgram (x :: d); e_out := e_out e1;
                      e_sent := e_sent e1 + lenN (x :: d) |}).
        assert (H2 : tot e2 = tot e ++ enc_dgram (x :: d) /\ e_sent e2 = e_sent e + lenN (x :: d)).
        { subst e2. unfold tot in *. cbn [e_out e_batch e_sent]. rewrite app_assoc, H1, H1s. auto. }
        destruct H2 as [H2 H2s].
        assert (H3 : encode_all (ev_dgrams [EvD (x :: d)]) = enc_dgram (x :: d)).
        { cbn [ev_dgrams flat_map encode_all app]. now rewrite app_nil_r. }
        assert (H4 : sum_len (ev_dgrams [EvD (x :: d)]) = lenN (x :: d)).
        { cbn [ev_dgrams flat_map app sum_len fold_right]. lia. }
        rewrite H3, H4.
        destruct (BatchBuf / 2 <? lenN (e_batch e2)).
        * destruct (tot_eflush e2) as [-> ->]. auto.
        * auto.
    - cbn [estep ev_dgrams flat_map encode_all app sum_len fold_right]. rewrite app_nil_r.
      destruct (tot_eflush e) as [-> ->]. split; [reflexivity|lia].
  Qed.

  Lemma ev_dgrams_cons ev evs : ev_dgrams (ev :: evs) = ev_dgrams [ev] ++ ev_dgrams evs.
  Proof. unfold ev_dgrams. cbn [flat_map]. now rewrite app_nil_r. Qed.
  Lemma encode_all_app a b : encode_all (a ++ b) = encode_all a ++ encode_all b.
  Proof. unfold encode_all. apply flat_map_app. Qed.
  Lemma sum_len_app a b : sum_len (a ++ b) = sum_len a + sum_len b.
  Proof.
    unfold sum_len. induction a as [|x a IH]; cbn [app fold_right]; [lia|]. rewrite IH. lia.
  Qed.

  Lemma tot_fold : forall evs e,
    tot (fold_left (estep BatchBuf) evs e) = tot e ++ encode_all (ev_dgrams evs) /\
    e_sent (fold_left (estep BatchBuf) evs e) = e_sent e + sum_len (ev_dgrams evs).
  Proof.
    induction evs as [|ev evs IH]; intros e.
    - cbn. rewrite app_nil_r. split; [reflexivity|lia].
    - cbn [fold_left]. destruct (IH (estep BatchBuf e ev)) as [-> ->].
      destruct (tot_estep e ev) as [-> ->].
      rewrite (ev_dgrams_cons ev evs), encode_all_app, sum_len_app, app_assoc. split; [reflexivity|lia].
  Qed.

  Theorem encoder_stream : forall evs,
    concat (e_out (encode_events BatchBuf evs)) = encode_all (ev_dgrams evs) /\
    e_batch (encode_events BatchBuf evs) = [] /\
    e_sent (encode_events BatchBuf evs) = sum_len (ev_dgrams evs).
  Proof.
    intros evs. unfold encode_events.
    destruct (tot_eflush (fold_left (estep BatchBuf) evs est0)) as [Ht Hs].
    destruct (tot_fold evs est0) as [Hf Hfs]. rewrite Hf in Ht. rewrite Hfs in Hs.
    assert (Hb : e_batch (eflush (fold_left (estep BatchBuf) evs est0)) = []).
    { unfold eflush. destruct (e_batch (fold_left (estep BatchBuf) evs est0)) eqn:E; [exact E|reflexivity]. }
    unfold tot in Ht. rewrite Hb, app_nil_r in Ht. cbn [est0 e_out e_batch e_sent concat app] in *.
    repeat split; [exact Ht | exact Hb | lia].
  Qed.
End EncProofs.

(* ---------------------------------------------------------------------------------------- *)
(*  the timed flush is unconditional; the session stays alive while traffic flows either way  *)
(* ---------------------------------------------------------------------------------------- *)
Lemma tick_flushes_everything BatchBuf e :
  e_batch (estep BatchBuf e EvTick) = [] /\
  concat (e_out (estep BatchBuf e EvTick)) = concat (e_out e) ++ e_batch e.
Proof.
  cbn [estep]. unfold eflush. destruct (e_batch e) as [|b bs] eqn:E.
  - rewrite E. split; [reflexivity|now rewrite app_nil_r].
  - cbn [e_batch e_out]. split; [reflexivity|]. rewrite concat_app. cbn [concat]. now rewrite app_nil_r.
Qed.

Theorem session_survives_live_traffic TTL : forall evs s,
  ss_closed s = false -> live_traffic TTL (ss_last s) evs ->
  ss_closed (sess_run true TTL s evs) = false /\ ss_lost (sess_run true TTL s evs) = ss_lost s.
Proof.
  induction evs as [|e evs IH]; intros s Hc Hl; [split; [exact Hc|reflexivity]|].
  unfold sess_run in *. cbn [fold_left]. destruct e as [t|t|t]; cbn [live_traffic] in Hl.
  - destruct (IH {| ss_last := t; ss_closed := false; ss_lost := ss_lost s |} eq_refl Hl) as [A B].
    cbn [sess_step]. rewrite Hc. split; [exact A|exact B].
  - destruct (IH {| ss_last := t; ss_closed := false; ss_lost := ss_lost s |} eq_refl Hl) as [A B].
    cbn [sess_step]. rewrite Hc. split; [exact A|exact B].
  - destruct Hl as [Hle Hl]. cbn [sess_step]. rewrite Hc.
    replace (TTL <? t - ss_last s) with false by lia. apply IH; assumption.
Qed.

(* ---------------------------------------------------------------------------------------- *)
(*  udpTunnelConn.ReceivePacket: independent of how the transport chunks / coalesces records   *)
(* ---------------------------------------------------------------------------------------- *)
Lemma tc_recv_record d X r : lenN d < 65536 -> rest r = enc_dgram d ++ X ->
  exists r', tc_recv r = (TcOk d, r') /\ rest r' = X /\ endk r' = endk r.
Proof.
  intros Hd Hr. unfold tc_recv.
  destruct (read_full_spec (length (rest r)) 2 r (le_n _)) as [A _].
  destruct A as (r1 & E1 & R1 & K1).
  { rewrite Hr. unfold enc_dgram. rewrite !lenN_app. unfold lenN at 1. cbn [be16 length]. lia. }
  rewrite E1. rewrite Hr in E1, R1 |- *. unfold enc_dgram in R1 |- *. cbn [be16 app firstn skipn N.to_nat Pos.to_nat Pos.iter_op Nat.add] in R1 |- *.
  match goal with |- context [de16 ?l] => replace (de16 l) with (lenN d) by (symmetry; apply (de16_be16 (lenN d) Hd)) end.
  assert (R1' : rest r1 = d ++ X) by exact R1. clear R1. rename R1' into R1.
  destruct (read_full_spec (length (rest r1)) (lenN d) r1 (le_n _)) as [B _].
  destruct B as (r2 & E2 & R2 & K2).
  { rewrite R1, lenN_app. lia. }
  rewrite E2, R1. assert (Hn : N.to_nat (lenN d) = length d) by (unfold lenN; lia).
  rewrite Hn, firstn_app, Nat.sub_diag, firstn_all. cbn [firstn]. rewrite app_nil_r.
  exists r2. split; [reflexivity|]. split; [|congruence].
  rewrite R2, R1, Hn, skipn_app, Nat.sub_diag, skipn_all. reflexivity.
Qed.

Theorem tc_roundtrip_any_chunking : forall ds r,
  Forall (fun d => lenN d < 65536) ds -> rest r = encode_all ds ->
  tc_recv_all (S (length ds)) r = ds.
Proof.
  induction ds as [|d ds IH]; intros r Hv Hr.
  - cbn [encode_all flat_map] in Hr. cbn [tc_recv_all length]. unfold tc_recv.
    destruct (read_full_spec (length (rest r)) 2 r (le_n _)) as [_ B].
    destruct B as (r' & E & _); [rewrite Hr; unfold lenN; cbn [length]; lia|]. rewrite E. reflexivity.
  - inversion Hv as [|? ? Hd Hds]; subst.
    change (encode_all (d :: ds)) with (enc_dgram d ++ encode_all ds) in Hr.
    destruct (tc_recv_record d (encode_all ds) r Hd Hr) as (r' & E & R & _).
    change (tc_recv_all (S (length (d :: ds))) r) with
      (match tc_recv r with (TcOk x, r0) => x :: tc_recv_all (S (length ds)) r0 | (TcErr, _) => [] end).
    rewrite E. f_equal. apply IH; assumption.
Qed.

(* ---------------------------------------------------------------------------------------- *)
(*  top-level UDP statements (parametric in the buffer sizes; instantiated in SideC12.v)      *)
(* ---------------------------------------------------------------------------------------- *)
Section UdpTop.
  Variables BufSz Low MaxRec Batch BatchBuf : N.
  Variable BwCap : option N.     (* the local write path: fallback loop | sendmmsg batch writer of this capacity *)
  Hypothesis HCap : forall cap, BwCap = Some cap -> Batch <= cap.
  Hypothesis HLow : 2 + MaxRec <= Low.
  Hypothesis HBuf : Low < BufSz.
  Hypothesis HBatch : 0 < Batch.
  Hypothesis HMax : MaxRec < 65536.

  (* emp: any pattern of empty (0, nil) reads interleaved with the chunks — each costs one more iteration, nothing else *)
  Theorem deframe_any_cut : forall (ds : list dgram) (cut : nat) (cuts : list nat) (e : N) (wd : bool) (emp : list bool)
                                   (fuel : nat),
    Forall (valid_dgram MaxRec) ds ->
    (length (firstn cut (encode_all ds)) + length emp < fuel)%nat ->
    exists w, deframe true BufSz Low MaxRec Batch BwCap fuel (ust0e (firstn cut (encode_all ds)) cuts e wd emp None)
              = DDone w (final_err 0 e (tail_after cut ds)) /\
              w_log w = complete_before cut ds /\ w_bytes w = sum_len (complete_before cut ds).
  Proof.
    intros ds cut cuts e wd emp fuel Hv Hf.
    assert (H0 : lenN (@nil byte) < Low) by (unfold lenN; cbn [length]; lia).
    pose proof (deframe_fixed_spec true BufSz Low MaxRec Batch BwCap HLow HBuf HBatch HCap eq_refl fuel
                  (ust0e (firstn cut (encode_all ds)) cuts e wd emp None) eq_refl eq_refl H0 Hf) as H.
    cbn [ust0e s_buf s_t t_rd rest s_w s_err endk app] in H.
    rewrite (split_cut MaxRec HMax ds Hv cut) in H.
    destruct H as (e0 & Hd & He). rewrite (He eq_refl) in Hd.
    eexists. split; [exact Hd|]. rewrite wadd_log, wadd_bytes. cbn [w0 w_log w_bytes app]. split; [reflexivity|lia].
  Qed.

  Theorem udp_roundtrip : forall (evs : list uev) (cuts : list nat) (wd : bool) (emp : list bool) (fuel : nat),
    Forall (valid_dgram MaxRec) (ev_dgrams evs) ->
    (length (concat (e_out (encode_events BatchBuf evs))) + length emp < fuel)%nat ->
    exists w, deframe true BufSz Low MaxRec Batch BwCap fuel
                (ust0e (concat (e_out (encode_events BatchBuf evs))) cuts 0 wd emp None) = DDone w 0 /\
              w_log w = ev_dgrams evs /\ w_bytes w = e_sent (encode_events BatchBuf evs).
  Proof.
    intros evs cuts wd emp fuel Hv Hf.
    destruct (encoder_stream BatchBuf evs) as (Hs & _ & Hsent). rewrite Hs in *.
    set (ds := ev_dgrams evs) in *.
    destruct (complete_before_all MaxRec HMax ds (length (encode_all ds)) (le_n _)) as [Hc Ht].
    pose proof (deframe_any_cut ds (length (encode_all ds)) cuts 0 wd emp fuel Hv) as H.
    rewrite firstn_all in H. specialize (H Hf). rewrite Hc, Ht in H.
    destruct H as (w & Hd & Hl & Hb). exists w. rewrite Hsent. auto.
  Qed.
End UdpTop.
Close Scope N_scope.

(* Proofs/ConnStateThreads.v — lemmas about Model/ConnStateThreads.v (C08, all interleavings at storage-call granularity). *)
From TX Require Import Base.Threads Model.ConnStateThreads.
From Coq Require Import NArith Bool List Lia.
Import ListNotations.
Open Scope N_scope.

Lemma find_step lo sh : is_find lo = true -> snd (tstep lo sh) = sh /\ is_find (fst (tstep lo sh)) = true.
Proof.
  destruct lo; cbn; try discriminate; intros _.
  - destruct (tci sh x); split; reflexivity.
  - destruct (tcs sh c) as [[[x n] ctl]|]; split; reflexivity.
  - split; reflexivity.
Qed.

Lemma nonfind_step lo sh : is_find lo = false -> is_find (fst (tstep lo sh)) = false.
Proof.
  destruct lo; cbn; try discriminate; intros _; try reflexivity.
  - destruct (ctl && (0 <? x)); reflexivity.
  - destruct (tcs sh c) as [[[x n] ctl]|]; [destruct (ctl && (0 <? x))|]; reflexivity.
  - destruct (opt_eqb (tci sh x) c); reflexivity.
  - destruct (tcs sh c); reflexivity.
  - destruct (indexed r); reflexivity.
  - destruct (opt_eqb (tci sh x) c); reflexivity.
Qed.

Lemma map_upd_nth {A B} (f : A -> B) i x l : map f (upd_nth i x l) = upd_nth i (f x) (map f l).
Proof. revert i. induction l as [|h t IH]; intros [|j]; cbn; try reflexivity. rewrite IH. reflexivity. Qed.

Lemma nth_error_map' {A B} (f : A -> B) l i : nth_error (map f l) i = option_map f (nth_error l i).
Proof. revert i. induction l as [|h t IH]; intros [|j]; cbn; auto. Qed.

(* running or not running the lookups makes no difference to anything else, step by step ... *)
Lemma without_lookups_step s i :
  without_lookups (sys_step tstore tprog tstep s i) = sys_step tstore tprog tstep (without_lookups s) i.
Proof.
  destruct s as [sh ls]. unfold sys_step, without_lookups. cbn [fst snd].
  rewrite nth_error_map'. destruct (nth_error ls i) as [lo|] eqn:E; cbn [option_map]; [|reflexivity].
  destruct (is_find lo) eqn:Ef.
  - destruct (find_step lo sh Ef) as [Hs Hf].
    assert (Hm : mask_find lo = TFindDone TAbsent) by (unfold mask_find; rewrite Ef; reflexivity).
    rewrite Hm. cbn [tstep].
    destruct (tstep lo sh) as [lo' sh'] eqn:Et. cbn [fst snd] in *. subst sh'.
    assert (Hm' : mask_find lo' = TFindDone TAbsent) by (unfold mask_find; rewrite Hf; reflexivity).
    rewrite map_upd_nth, Hm'. reflexivity.
  - pose proof (nonfind_step lo sh Ef) as Hf.
    assert (Hm : mask_find lo = lo) by (unfold mask_find; rewrite Ef; reflexivity).
    rewrite Hm.
    destruct (tstep lo sh) as [lo' sh'] eqn:Et. cbn [fst snd] in *.
    assert (Hm' : mask_find lo' = lo') by (unfold mask_find; rewrite Hf; reflexivity).
    rewrite map_upd_nth, Hm'. reflexivity.
Qed.

(* ... hence for every schedule *)
Lemma without_lookups_run sched : forall s, without_lookups (trun s sched) = trun (without_lookups s) sched.
Proof.
  induction sched as [|i rest IH]; intro s; [reflexivity|].
  change (trun s (i :: rest)) with (trun (sys_step tstore tprog tstep s i) rest).
  change (trun (without_lookups s) (i :: rest)) with (trun (sys_step tstore tprog tstep (without_lookups s) i) rest).
  rewrite IH, without_lookups_step. reflexivity.
Qed.

Lemma lookups_do_not_disturb sched s : fst (trun s sched) = fst (trun (without_lookups s) sched).
Proof. rewrite <- without_lookups_run. reflexivity. Qed.

(* "only registered (node, connection) pairs are ever returned", for every schedule *)
Lemma Forall_upd_nth {A} (Q : A -> Prop) i x l : Forall Q l -> Q x -> Forall Q (upd_nth i x l).
Proof.
  revert i. induction l as [|h t IH]; intros [|j] Hl Hx; cbn; try exact Hl.
  - inversion Hl; subst. constructor; assumption.
  - inversion Hl; subst. constructor; [assumption|]. apply IH; assumption.
Qed.

Lemma tupd_cases {A} (f : N -> option A) k v k' r :
  tupd f k v k' = Some r -> (k' = k /\ v = Some r) \/ f k' = Some r.
Proof.
  unfold tupd. destruct (N.eqb_spec k' k) as [E|E]; intro H; [left; split; assumption|right; exact H].
Qed.

Lemma sys_ok_step P s i : sys_ok P s -> sys_ok P (sys_step tstore tprog tstep s i).
Proof.
  intros [Hst Hls]. destruct s as [sh ls]. unfold sys_step. cbn [fst snd] in *.
  destruct (nth_error ls i) as [lo|] eqn:E; [|split; assumption].
  assert (Hlo : prog_ok P lo).
  { apply (proj1 (Forall_forall _ _) Hls). apply (nth_error_In _ _ E). }
  assert (Goal : store_ok P (snd (tstep lo sh)) /\ prog_ok P (fst (tstep lo sh))).
  { destruct lo; cbn [tstep fst snd prog_ok] in *.
    - split; [exact Hst|]. destruct (tci sh x); exact I.
    - split; [exact Hst|]. destruct (tcs sh c) as [[[x n] ctl]|] eqn:Ec; [|exact I].
      cbn. exists x, ctl. apply Hst. exact Ec.
    - split; [exact Hst|exact Hlo].
    - split.
      + intros c' r Hr. cbn [tcs] in Hr. destruct (tupd_cases _ _ _ _ _ Hr) as [[-> Hv]|Hv].
        * injection Hv as <-. exact Hlo.
        * apply Hst. exact Hv.
      + destruct (indexed (x, n, ctl)); exact I.
    - split; [|exact I]. intros c' r Hr. apply Hst. exact Hr.
    - split; [exact Hst|]. destruct (tcs sh c) as [[[x n] ctl]|]; [destruct (indexed (x, n, ctl))|]; exact I.
    - split; [exact Hst|]. destruct (opt_eqb (tci sh x) c); exact I.
    - split; [|exact I]. intros c' r Hr. apply Hst. exact Hr.
    - split; [|exact I]. intros c' r Hr. cbn [tcs] in Hr.
      destruct (tupd_cases _ _ _ _ _ Hr) as [[_ Hv]|Hv]; [discriminate|apply Hst; exact Hv].
    - split; [exact Hst|]. destruct (tcs sh c) as [r|] eqn:Ec; [|exact I]. cbn. apply Hst. exact Ec.
    - split.
      + intros c' r' Hr. cbn [tcs] in Hr. destruct (tupd_cases _ _ _ _ _ Hr) as [[-> Hv]|Hv].
        * injection Hv as <-. exact Hlo.
        * apply Hst. exact Hv.
      + destruct (indexed r); exact I.
    - split; [exact Hst|]. destruct (opt_eqb (tci sh x) c); exact I.
    - split; [|exact I]. intros c' r Hr. apply Hst. exact Hr.
    - split; [exact Hst|exact I]. }
  destruct (tstep lo sh) as [lo' sh']. cbn [fst snd] in *. destruct Goal as [G1 G2].
  split; [exact G1|]. apply Forall_upd_nth; assumption.
Qed.

Lemma sys_ok_run P sched s : sys_ok P s -> sys_ok P (trun s sched).
Proof.
  intro H. unfold trun.
  apply (inv_all_schedules tstore tprog tstep (sys_ok P)); [|exact H].
  intros s' i Hs. apply sys_ok_step. exact Hs.
Qed.

Lemma lookup_answers_registered P sched s i n c :
  sys_ok P s -> nth_error (snd (trun s sched)) i = Some (TFindDone (TFound n c)) -> exists x ctl, P c (x, n, ctl).
Proof.
  intros H E. destruct (sys_ok_run P sched s H) as [_ Hls].
  apply (proj1 (Forall_forall _ _) Hls _ (nth_error_In _ _ E)).
Qed.

(* ---- the residual read-then-write windows of the repaired code: witnesses, and "exactly that region" ---- *)
Lemma unregister_window_refuted :
  exists sched, all_done (trun unregister_window sched) = true /\
                tfind (fst (trun unregister_window sched)) 7 = TAbsent /\
                tcs (fst (trun unregister_window sched)) 2 = Some (7, 2, true).
Proof. exists [0;0;1;1;0;0]%nat. vm_compute. repeat split; reflexivity. Qed.

Lemma refresh_window_refuted :
  exists sched, all_done (trun refresh_window sched) = true /\
                tfind (fst (trun refresh_window sched)) 7 = TFound 1 1 /\
                tcs (fst (trun refresh_window sched)) 2 = Some (7, 2, true).
Proof. exists [0;0;0;1;1;0]%nat. vm_compute. repeat split; reflexivity. Qed.

Definition tres_eqb (a b : tres) : bool :=
  match a, b with
  | TFound n c, TFound n' c' => (n =? n') && (c =? c')
  | TAbsent, TAbsent => true
  | _, _ => false
  end.

(* of the 15 interleavings of UnregisterConnection(old) with RegisterConnection(new), the lookup ends wrong exactly when the
   new index write falls between the old node's index read and its index delete *)
Lemma unregister_window_exact :
  forallb (fun sched => tres_eqb (tfind (fst (trun unregister_window sched)) 7)
                                 (if second_of_1_after 2 sched 0 0 then TAbsent else TFound 2 2))
          (interleave 4 2) = true /\ length (interleave 4 2) = 15%nat.
Proof. split; vm_compute; reflexivity. Qed.

(* same for RefreshConnection(old): exactly when the new index write falls between its index read and its index write *)
Lemma refresh_window_exact :
  forallb (fun sched => tres_eqb (tfind (fst (trun refresh_window sched)) 7)
                                 (if second_of_1_after 3 sched 0 0 then TFound 1 1 else TFound 2 2))
          (interleave 4 2) = true /\ length (interleave 4 2) = 15%nat.
Proof. split; vm_compute; reflexivity. Qed.

(* non-vacuity of sys_ok: the window system satisfies it with P = "written by one of the two registrations" *)
Definition window_P (c : N) (r : crec) : Prop := (c = 1 /\ r = (7, 1, true)) \/ (c = 2 /\ r = (7, 2, true)).
Lemma window_sys_ok : sys_ok window_P unregister_window /\ sys_ok window_P refresh_window.
Proof.
  assert (Hst : store_ok window_P window_store).
  { intros c r H. unfold window_store in H. cbn [tcs] in H.
    destruct (tupd_cases _ _ _ _ _ H) as [[-> Hv]|Hv]; [|discriminate].
    injection Hv as <-. left. split; reflexivity. }
  split; (split; [exact Hst|]); repeat constructor; cbn; try exact I; right; split; reflexivity.
Qed.

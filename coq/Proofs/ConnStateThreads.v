(* Proofs/ConnStateThreads.v — lemmas about Model/ConnStateThreads.v (C08, all interleavings at storage-call granularity). *)
From TX Require Import Base.Threads Model.ConnStateThreads.
From Coq Require Import NArith Bool List Lia.
Import ListNotations.
Open Scope N_scope.

Lemma find_step cas lo sh : is_find lo = true -> snd (tstep cas lo sh) = sh /\ is_find (fst (tstep cas lo sh)) = true.
Proof.
  destruct lo; cbn; try discriminate; intros _.
  - destruct (tci sh x); split; reflexivity.
  - destruct (tcs sh c) as [[[x n] ctl]|]; split; reflexivity.
  - split; reflexivity.
Qed.

Lemma nonfind_step cas lo sh : is_find lo = false -> is_find (fst (tstep cas lo sh)) = false.
Proof.
  destruct lo; cbn; try discriminate; intros _; try reflexivity.
  - destruct (ctl && (0 <? x)); reflexivity.
  - destruct (tcs sh c) as [[[x n] ctl]|]; [destruct (ctl && (0 <? x)); [destruct cas|]|]; reflexivity.
  - destruct (opt_eqb (tci sh x) c); reflexivity.
  - destruct (tcs sh c); reflexivity.
  - destruct (indexed r); [destruct cas|]; reflexivity.
  - destruct (opt_eqb (tci sh x) c); reflexivity.
Qed.

Lemma map_upd_nth {A B} (f : A -> B) i x l : map f (upd_nth i x l) = upd_nth i (f x) (map f l).
Proof. revert i. induction l as [|h t IH]; intros [|j]; cbn; try reflexivity. rewrite IH. reflexivity. Qed.

Lemma nth_error_map' {A B} (f : A -> B) l i : nth_error (map f l) i = option_map f (nth_error l i).
Proof. revert i. induction l as [|h t IH]; intros [|j]; cbn; auto. Qed.

(* running or not running the lookups makes no difference to anything else, step by step ... *)
Lemma without_lookups_step cas s i :
  without_lookups (sys_step tstore tprog (tstep cas) s i) = sys_step tstore tprog (tstep cas) (without_lookups s) i.
Proof.
  destruct s as [sh ls]. unfold sys_step, without_lookups. cbn [fst snd].
  rewrite nth_error_map'. destruct (nth_error ls i) as [lo|] eqn:E; cbn [option_map]; [|reflexivity].
  destruct (is_find lo) eqn:Ef.
  - destruct (find_step cas lo sh Ef) as [Hs Hf].
    assert (Hm : mask_find lo = TFindDone TAbsent) by (unfold mask_find; rewrite Ef; reflexivity).
    rewrite Hm. cbn [tstep].
    destruct (tstep cas lo sh) as [lo' sh'] eqn:Et. cbn [fst snd] in *. subst sh'.
    assert (Hm' : mask_find lo' = TFindDone TAbsent) by (unfold mask_find; rewrite Hf; reflexivity).
    rewrite map_upd_nth, Hm'. reflexivity.
  - pose proof (nonfind_step cas lo sh Ef) as Hf.
    assert (Hm : mask_find lo = lo) by (unfold mask_find; rewrite Ef; reflexivity).
    rewrite Hm.
    destruct (tstep cas lo sh) as [lo' sh'] eqn:Et. cbn [fst snd] in *.
    assert (Hm' : mask_find lo' = lo') by (unfold mask_find; rewrite Hf; reflexivity).
    rewrite map_upd_nth, Hm'. reflexivity.
Qed.

(* ... hence for every schedule *)
Lemma without_lookups_run cas sched : forall s, without_lookups (trun cas s sched) = trun cas (without_lookups s) sched.
Proof.
  induction sched as [|i rest IH]; intro s; [reflexivity|].
  change (trun cas s (i :: rest)) with (trun cas (sys_step tstore tprog (tstep cas) s i) rest).
  change (trun cas (without_lookups s) (i :: rest)) with (trun cas (sys_step tstore tprog (tstep cas) (without_lookups s) i) rest).
  rewrite IH, without_lookups_step. reflexivity.
Qed.

Lemma lookups_do_not_disturb cas sched s : fst (trun cas s sched) = fst (trun cas (without_lookups s) sched).
Proof. rewrite <- without_lookups_run. reflexivity. Qed.

(* "only registered (node, connection) pairs are ever returned", for every schedule *)
Lemma Forall_upd_nth {A} (Q : A -> Prop) i x l : Forall Q l -> Q x -> Forall Q (upd_nth i x l).
Proof.
  revert i. induction l as [|h t IH]; intros [|j] Hl Hx; cbn; try exact Hl.
  - inversion Hl; subst. constructor; assumption.
  - inversion Hl; subst. constructor; [assumption|]. apply IH; assumption.
Qed.

Lemma tupd_cases {A} (f : N -> option A) k v k' r :
  tupd f k v k' = Some r -> (k' = k /\ v = Some r) \/ f k' = Some r.
Proof.
  unfold tupd. destruct (N.eqb_spec k' k) as [E|E]; intro H; [left; split; assumption|right; exact H].
Qed.

Lemma sys_ok_step cas P s i : sys_ok P s -> sys_ok P (sys_step tstore tprog (tstep cas) s i).
Proof.
  intros [Hst Hls]. destruct s as [sh ls]. unfold sys_step. cbn [fst snd] in *.
  destruct (nth_error ls i) as [lo|] eqn:E; [|split; assumption].
  assert (Hlo : prog_ok P lo).
  { apply (proj1 (Forall_forall _ _) Hls). apply (nth_error_In _ _ E). }
  assert (Goal : store_ok P (snd (tstep cas lo sh)) /\ prog_ok P (fst (tstep cas lo sh))).
  { destruct lo; cbn [tstep fst snd prog_ok] in *.
    - split; [exact Hst|]. destruct (tci sh x); exact I.
    - split; [exact Hst|]. destruct (tcs sh c) as [[[x n] ctl]|] eqn:Ec; [|exact I].
      cbn. exists x, ctl. apply Hst. exact Ec.
    - split; [exact Hst|exact Hlo].
    - split.
      + intros c' r Hr. cbn [tcs] in Hr. destruct (tupd_cases _ _ _ _ _ Hr) as [[-> Hv]|Hv].
        * injection Hv as <-. exact Hlo.
        * apply Hst. exact Hv.
      + destruct (indexed (x, n, ctl)); exact I.
    - split; [|exact I]. intros c' r Hr. apply Hst. exact Hr.
    - split; [exact Hst|]. destruct (tcs sh c) as [[[x n] ctl]|]; [destruct (indexed (x, n, ctl)); [destruct cas|]|]; exact I.
    - split; [exact Hst|]. destruct (opt_eqb (tci sh x) c); exact I.
    - split; [|exact I]. intros c' r Hr. apply Hst. exact Hr.
    - split; [|exact I]. destruct (opt_eqb (tci sh x) c); [|exact Hst]. intros c' r Hr. apply Hst. exact Hr.
    - split; [|exact I]. intros c' r Hr. cbn [tcs] in Hr.
      destruct (tupd_cases _ _ _ _ _ Hr) as [[_ Hv]|Hv]; [discriminate|apply Hst; exact Hv].
    - split; [exact Hst|]. destruct (tcs sh c) as [r|] eqn:Ec; [|exact I]. cbn. apply Hst. exact Ec.
    - split.
      + intros c' r' Hr. cbn [tcs] in Hr. destruct (tupd_cases _ _ _ _ _ Hr) as [[-> Hv]|Hv].
        * injection Hv as <-. exact Hlo.
        * apply Hst. exact Hv.
      + destruct (indexed r); [destruct cas|]; exact I.
    - split; [exact Hst|]. destruct (opt_eqb (tci sh x) c); exact I.
    - split; [|exact I]. intros c' r Hr. apply Hst. exact Hr.
    - split; [|exact I]. destruct (opt_eqb (tci sh x) c); [|exact Hst]. intros c' r Hr. apply Hst. exact Hr.
    - split; [exact Hst|exact I]. }
  destruct (tstep cas lo sh) as [lo' sh']. cbn [fst snd] in *. destruct Goal as [G1 G2].
  split; [exact G1|]. apply Forall_upd_nth; assumption.
Qed.

Lemma sys_ok_run cas P sched s : sys_ok P s -> sys_ok P (trun cas s sched).
Proof.
  intro H. unfold trun.
  apply (inv_all_schedules tstore tprog (tstep cas) (sys_ok P)); [|exact H].
  intros s' i Hs. apply sys_ok_step. exact Hs.
Qed.

Lemma lookup_answers_registered cas P sched s i n c :
  sys_ok P s -> nth_error (snd (trun cas s sched)) i = Some (TFindDone (TFound n c)) -> exists x ctl, P c (x, n, ctl).
Proof.
  intros H E. destruct (sys_ok_run cas P sched s H) as [_ Hls].
  apply (proj1 (Forall_forall _ _) Hls _ (nth_error_In _ _ E)).
Qed.

(* ---- the residual read-then-write windows of the repaired code: witnesses, and "exactly that region" ---- *)
Lemma unregister_window_refuted :
  exists sched, all_done (trun false unregister_window sched) = true /\
                tfind (fst (trun false unregister_window sched)) 7 = TAbsent /\
                tcs (fst (trun false unregister_window sched)) 2 = Some (7, 2, true).
Proof. exists [0;0;1;1;0;0]%nat. vm_compute. repeat split; reflexivity. Qed.

Lemma refresh_window_refuted :
  exists sched, all_done (trun false refresh_window sched) = true /\
                tfind (fst (trun false refresh_window sched)) 7 = TFound 1 1 /\
                tcs (fst (trun false refresh_window sched)) 2 = Some (7, 2, true).
Proof. exists [0;0;0;1;1;0]%nat. vm_compute. repeat split; reflexivity. Qed.

Definition tres_eqb (a b : tres) : bool :=
  match a, b with
  | TFound n c, TFound n' c' => (n =? n') && (c =? c')
  | TAbsent, TAbsent => true
  | _, _ => false
  end.

(* of the 15 interleavings of UnregisterConnection(old) with RegisterConnection(new), the lookup ends wrong exactly when the
   new index write falls between the old node's index read and its index delete *)
Lemma unregister_window_exact :
  forallb (fun sched => tres_eqb (tfind (fst (trun false unregister_window sched)) 7)
                                 (if second_of_1_after 2 sched 0 0 then TAbsent else TFound 2 2))
          (interleave 4 2) = true /\ length (interleave 4 2) = 15%nat.
Proof. split; vm_compute; reflexivity. Qed.

(* same for RefreshConnection(old): exactly when the new index write falls between its index read and its index write *)
Lemma refresh_window_exact :
  forallb (fun sched => tres_eqb (tfind (fst (trun false refresh_window sched)) 7)
                                 (if second_of_1_after 3 sched 0 0 then TFound 1 1 else TFound 2 2))
          (interleave 4 2) = true /\ length (interleave 4 2) = 15%nat.
Proof. split; vm_compute; reflexivity. Qed.

(* non-vacuity of sys_ok: the window system satisfies it with P = "written by one of the two registrations" *)
Definition window_P (c : N) (r : crec) : Prop := (c = 1 /\ r = (7, 1, true)) \/ (c = 2 /\ r = (7, 2, true)).
Lemma window_sys_ok : sys_ok window_P unregister_window /\ sys_ok window_P refresh_window.
Proof.
  assert (Hst : store_ok window_P window_store).
  { intros c r H. unfold window_store in H. cbn [tcs] in H.
    destruct (tupd_cases _ _ _ _ _ H) as [[-> Hv]|Hv]; [|discriminate].
    injection Hv as <-. left. split; reflexivity. }
  split; (split; [exact Hst|]); repeat constructor; cbn; try exact I; right; split; reflexivity.
Qed.

(* ---------------------------------------------------------------------------------------------
   the repaired code (cas = true): X's registration on (B, new) survives EVERY schedule
   --------------------------------------------------------------------------------------------- *)
Section Stable.
  Variables X B new : N.
  Hypothesis HX : (0 <? X) = true.
  Notation R := (X, B, true).

  Lemma indexed_R : indexed R = true.
  Proof. cbn. exact HX. Qed.

  Lemma tupd_same {A} (f : N -> option A) k v : tupd f k v k = v.
  Proof. unfold tupd. rewrite N.eqb_refl. reflexivity. Qed.
  Lemma tupd_other {A} (f : N -> option A) k k' v : k' <> k -> tupd f k v k' = f k'.
  Proof. intro H. unfold tupd. apply N.eqb_neq in H. rewrite H. reflexivity. Qed.

  Lemma opt_eqb_true o c : opt_eqb o c = true -> o = Some c.
  Proof. destruct o as [c'|]; cbn; [|discriminate]. intro H. apply N.eqb_eq in H. subst. reflexivity. Qed.

  (* one storage call of one safe invocation *)
  Lemma safe_step lo sh :
    safe_prog X B new lo ->
    (tcs sh new = None \/ tcs sh new = Some R) ->
    let lo' := fst (tstep true lo sh) in let sh' := snd (tstep true lo sh) in
    safe_prog X B new lo'
    /\ (tcs sh' new = None \/ tcs sh' new = Some R)
    /\ (tcs sh new = Some R -> tcs sh' new = Some R)
    /\ (established X B new sh -> established X B new sh').
  Proof.
    intros Hs HA. destruct lo; cbn [tstep fst snd safe_prog] in *; try contradiction.
    - (* TFind *) destruct (tci sh x); cbn; auto.
    - (* TFind2 *) destruct (tcs sh c) as [[[x n] ctl]|]; cbn; auto.
    - (* TFindDone *) auto.
    - (* TReg *)
      assert (Hnew : c = new -> (x, n, ctl) = R).
      { intro E. destruct (Hs (or_introl E)) as [-> [_ [-> ->]]]. reflexivity. }
      split; [|split; [|split]].
      + destruct (indexed (x, n, ctl)) eqn:Ei; cbn [safe_prog]; [|exact I].
        intros [E|E].
        * destruct (Hs (or_introl E)) as [_ [-> [-> _]]]. split; reflexivity.
        * destruct (Hs (or_intror (conj E eq_refl))) as [_ [-> [-> _]]]. split; reflexivity.
      + cbn [tcs]. destruct (N.eq_dec new c) as [E|E].
        * subst c. rewrite tupd_same. right. rewrite (Hnew eq_refl). reflexivity.
        * rewrite tupd_other; [exact HA|exact E].
      + cbn [tcs]. intro H. destruct (N.eq_dec new c) as [E|E].
        * subst c. rewrite tupd_same. rewrite (Hnew eq_refl). reflexivity.
        * rewrite tupd_other; [exact H|exact E].
      + intros [H1 H2]. split; cbn [tci tcs]; [exact H1|].
        destruct (N.eq_dec new c) as [E|E].
        * subst c. rewrite tupd_same. rewrite (Hnew eq_refl). reflexivity.
        * rewrite tupd_other; [exact H2|exact E].
    - (* TReg2 *)
      split; [exact I|]. split; [exact HA|]. split; [auto|].
      intros [H1 H2]. split; cbn [tci tcs]; [|exact H2].
      destruct (N.eq_dec X x) as [E|E].
      + subst x. rewrite tupd_same. destruct (Hs (or_intror eq_refl)) as [-> _]. reflexivity.
      + rewrite tupd_other; [exact H1|exact E].
    - (* TUnreg *)
      split; [|split; [exact HA|split; auto]].
      destruct (tcs sh c) as [[[x n] ctl]|]; [destruct (indexed (x, n, ctl))|]; cbn [safe_prog]; exact Hs.
    - (* TUnregC *)
      split; [exact Hs|].
      destruct (opt_eqb (tci sh x) c) eqn:Eo; [|split; [exact HA|split; auto]].
      cbn [tcs tci]. split; [exact HA|]. split; [auto|].
      intros [H1 H2]. split; [|exact H2]. cbn [tci].
      destruct (N.eq_dec X x) as [E|E].
      + subst x. apply opt_eqb_true in Eo. rewrite H1 in Eo. injection Eo as Eo. congruence.
      + rewrite tupd_other; [exact H1|exact E].
    - (* TUnreg4 *)
      split; [exact I|]. cbn [tcs tci].
      assert (E : tupd (tcs sh) c None new = tcs sh new) by (apply tupd_other; congruence).
      rewrite E. split; [exact HA|]. split; [auto|]. intros [H1 H2]. split; [exact H1|]. cbn [tcs]. rewrite E. exact H2.
    - (* TRefresh *)
      split; [|split; [exact HA|split; auto]].
      destruct (tcs sh c) as [r|] eqn:Ec; cbn [safe_prog]; [|exact I].
      intro E. subst c. destruct HA as [HA|HA]; rewrite HA in Ec; [discriminate|]. injection Ec as <-. reflexivity.
    - (* TRefresh2 *)
      split; [destruct (indexed r); exact I|]. cbn [tcs tci].
      destruct (N.eq_dec new c) as [E|E].
      + subst c. rewrite tupd_same, (Hs eq_refl). split; [right; reflexivity|]. split; [reflexivity|].
        intros [H1 H2]. split; [exact H1|]. cbn [tcs]. rewrite tupd_same. reflexivity.
      + assert (E' : tupd (tcs sh) c (Some r) new = tcs sh new) by (apply tupd_other; exact E).
        rewrite E'. split; [exact HA|]. split; [auto|]. intros [H1 H2]. split; [exact H1|]. cbn [tcs]. rewrite E'. exact H2.
    - (* TRefreshC *)
      split; [exact I|].
      destruct (opt_eqb (tci sh x) c) eqn:Eo; [|split; [exact HA|split; auto]].
      cbn [tcs tci]. split; [exact HA|]. split; [auto|].
      intros [H1 H2]. split; [|exact H2]. cbn [tci].
      destruct (N.eq_dec X x) as [E|E].
      + subst x. rewrite tupd_same. apply opt_eqb_true in Eo. rewrite <- Eo. exact H1.
      + rewrite tupd_other; [exact H1|exact E].
    - (* TDone *) auto.
  Qed.

  Lemma reg_inv_step i0 s i : reg_inv X B new i0 s -> reg_inv X B new i0 (sys_step tstore tprog (tstep true) s i).
  Proof.
    intros [HF [HA HM]]. destruct s as [sh ls]. unfold sys_step. cbn [fst snd] in *.
    destruct (nth_error ls i) as [lo|] eqn:E; [|split; [exact HF|split; assumption]].
    assert (Hlo : safe_prog X B new lo).
    { apply (proj1 (Forall_forall _ _) HF). apply (nth_error_In _ _ E). }
    pose proof (safe_step lo sh Hlo HA) as Hstep. cbn zeta in Hstep.
    destruct (tstep true lo sh) as [lo' sh'] eqn:Et. cbn [fst snd] in *.
    destruct Hstep as [S1 [S2 [S3 S4]]].
    split; [apply Forall_upd_nth; assumption|]. split; [exact S2|]. cbn [fst snd].
    destruct (Nat.eq_dec i i0) as [Ei|Ei].
    - subst i. rewrite E in HM.
      rewrite nth_error_upd_nth_same; [|apply nth_error_Some; rewrite E; discriminate].
      destruct lo; try contradiction.
      + destruct HM as [-> [-> [-> ->]]]. cbn [tstep] in Et. rewrite indexed_R in Et.
        injection Et as <- <-. split; [reflexivity|]. split; [reflexivity|]. cbn [tcs]. apply tupd_same.
      + destruct HM as [-> [-> HR]]. cbn [tstep] in Et. injection Et as <- <-.
        split; cbn [tci tcs]; [apply tupd_same|exact HR].
      + cbn [tstep] in Et. injection Et as <- <-. exact HM.
    - rewrite nth_error_upd_nth_other; [|exact Ei].
      destruct (nth_error ls i0) as [l0|]; [|contradiction].
      destruct l0; try contradiction.
      + exact HM.
      + destruct HM as [H1 [H2 H3]]. split; [exact H1|]. split; [exact H2|]. apply S3. exact H3.
      + apply S4. exact HM.
  Qed.

  Lemma reg_inv_run i0 sched s : reg_inv X B new i0 s -> reg_inv X B new i0 (trun true s sched).
  Proof.
    intro H. unfold trun.
    apply (inv_all_schedules tstore tprog (tstep true) (reg_inv X B new i0)); [|exact H].
    intros s' i Hs. apply reg_inv_step. exact Hs.
  Qed.

  Lemma established_tfind sh : established X B new sh -> tfind sh X = TFound B new.
  Proof. intros [H1 H2]. unfold tfind. rewrite H1, H2. reflexivity. Qed.

  (* once RegisterConnection(B, new, X) has returned, the lookup answers (B, new) — under every schedule of everything else *)
  Lemma registration_survives i0 sched s :
    reg_inv X B new i0 s ->
    nth_error (snd (trun true s sched)) i0 = Some TDone ->
    established X B new (fst (trun true s sched)) /\ tfind (fst (trun true s sched)) X = TFound B new.
  Proof.
    intros H E. destruct (reg_inv_run i0 sched s H) as [_ [_ HM]]. rewrite E in HM.
    split; [exact HM|apply established_tfind; exact HM].
  Qed.

  (* a lookup of X started after that never misses and never names another connection, whatever runs concurrently *)
  Lemma lookup_inv_step i0 j s i :
    lookup_inv X B new i0 j s -> lookup_inv X B new i0 j (sys_step tstore tprog (tstep true) s i).
  Proof.
    intros [HR [HD HJ]].
    pose proof (reg_inv_step i0 s i HR) as HR'.
    assert (Hest : established X B new (fst s)).
    { destruct HR as [_ [_ HM]]. rewrite HD in HM. exact HM. }
    destruct s as [sh ls]. unfold sys_step in *. cbn [fst snd] in *.
    destruct (nth_error ls i) as [lo|] eqn:E; [|split; [exact HR'|split; assumption]].
    destruct (tstep true lo sh) as [lo' sh'] eqn:Et. cbn [fst snd] in *.
    split; [exact HR'|].
    assert (HD' : nth_error (upd_nth i lo' ls) i0 = Some TDone).
    { destruct (Nat.eq_dec i i0) as [Ei|Ei].
      - subst i. rewrite E in HD. injection HD as ->. cbn [tstep] in Et. injection Et as <- <-.
        apply nth_error_upd_nth_same. apply nth_error_Some. rewrite E. discriminate.
      - rewrite nth_error_upd_nth_other; [exact HD|exact Ei]. }
    split; [exact HD'|]. cbn [fst snd].
    destruct (Nat.eq_dec i j) as [Ej|Ej].
    - subst i. rewrite E in HJ.
      rewrite nth_error_upd_nth_same; [|apply nth_error_Some; rewrite E; discriminate].
      destruct Hest as [H1 H2].
      destruct lo; try contradiction; cbn [tstep] in Et.
      + subst x. rewrite H1 in Et. injection Et as <- _. reflexivity.
      + subst c. rewrite H2 in Et. injection Et as <- _. reflexivity.
      + injection Et as <- _. exact HJ.
    - rewrite nth_error_upd_nth_other; [exact HJ|exact Ej].
  Qed.

  Lemma lookup_after_registration i0 j sched s r :
    lookup_inv X B new i0 j s ->
    nth_error (snd (trun true s sched)) j = Some (TFindDone r) -> r = TFound B new.
  Proof.
    intros H E.
    assert (HI : lookup_inv X B new i0 j (trun true s sched)).
    { unfold trun. apply (inv_all_schedules tstore tprog (tstep true) (lookup_inv X B new i0 j)); [|exact H].
      intros s' i Hs. apply lookup_inv_step. exact Hs. }
    destruct HI as [_ [_ HJ]]. rewrite E in HJ. exact HJ.
  Qed.
End Stable.

(* the two windows are closed in the repaired code: all 15 interleavings of each end with the lookup at (2, 2) *)
Lemma cas_windows_closed :
  forallb (fun sched => tres_eqb (tfind (fst (trun true unregister_window sched)) 7) (TFound 2 2)) (interleave 3 2) = true /\
  forallb (fun sched => tres_eqb (tfind (fst (trun true refresh_window sched)) 7) (TFound 2 2)) (interleave 3 2) = true.
Proof. split; vm_compute; reflexivity. Qed.

(* non-vacuity of reg_inv: the old node's late cleanup, a stale heartbeat on the old connection, a lookup and the new
   registration, client 7 moving from (1, 1) to (2, 2); RegisterConnection is thread 2 *)
Definition moving_system : tstate := (window_store, [TUnreg 1; TRefresh 1; TReg 2 2 7 true; TFind 7]).
Lemma moving_system_reg_inv : reg_inv 7 2 2 2 moving_system.
Proof.
  split; [|split].
  - apply Forall_cons; [cbn; discriminate|]. apply Forall_cons; [exact I|].
    apply Forall_cons; [cbn; intros _; repeat split; reflexivity|]. apply Forall_cons; [exact I|]. apply Forall_nil.
  - left. reflexivity.
  - cbn. repeat split; reflexivity.
Qed.

(* ---- a forwarding path (command / HTTP / DNS forwarder) is a LOOKUP: it must not "clean up" what it believes to be a stale
        record.  The forwarder that does (seeded change C08-14: on "located on this node, but no local connection" it
        unregisters the located connection) is refuted: its local check precedes the lookup, the client's registration on this
        node completes in between, the lookup then locates the fresh registration on this very node, and the cleanup
        removes it although the owner connection never closed. ---- *)
Lemma forwarder_cleanup_refuted : forall cas : bool,
  let s1 := trun cas (tempty, [TFind 7; TReg 1 10 7 true]) [1; 1; 0; 0]%nat in
  nth_error (snd s1) 0 = Some (TFindDone (TFound 1 10)) /\     (* the forwarder on node 1 locates client 7 on node 1 ... *)
  tfind (fst s1) 7 = TFound 1 10 /\                             (* ... where it IS registered *)
  let s2 := trun cas (fst s1, [TUnreg 10]) [0; 0; 0; 0]%nat in   (* the "cleanup" = UnregisterConnection(located connection) *)
  all_done s2 = true /\ tfind (fst s2) 7 = TAbsent.
Proof. intros [|]; vm_compute; repeat split; reflexivity. Qed.

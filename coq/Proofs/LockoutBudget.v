(* Proofs/LockoutBudget.v — (2) no false refusal over all schedules: a cross-thread counting invariant
   (failures on record + failing calls the programs can still make stay below both thresholds). *)
From TX Require Import Model.Lockout Proofs.Lockout.
From Coq Require Import ZArith ZifyN ZifyNat ZifyBool Lia.
Open Scope Z_scope.

Lemma prune_len W t l : lenZ (prune W t l) <= lenZ l.
Proof.
  unfold lenZ, prune. induction l as [|h l IH]; cbn [filter length]; [lia|].
  destruct (h >? t - W); cbn [length]; lia.
Qed.
Lemma lenZ_snoc {A} (l : list A) x : lenZ (l ++ [x]) = lenZ l + 1.
Proof. unfold lenZ. rewrite app_length. cbn. lia. Qed.
Lemma lenZ_nonneg {A} (l : list A) : 0 <= lenZ l.
Proof. unfold lenZ. lia. Qed.

Definition frec_ok (r : option frec) : Prop := 0 <= total_of r /\ lenZ (ts_of r) <= total_of r.

Lemma do_fail_a_budget C s k a b p' s' r ip :
  do_fail_a C s k a b = (p', s', r) ->
  frec_ok (fails s ip) ->
  (k = ip -> total_of (fails s ip) + 1 < Z.min (maxf C) (perm C)) ->
  bans s' = bans s /\
  match p' with PFailB k' _ _ => k' <> ip | PIdle => True | _ => False end /\
  frec_ok (fails s' ip) /\
  total_of (fails s' ip) = total_of (fails s ip) + (if N.eqb k ip then 1 else 0).
Proof.
  intros H [Hnn Hlen] Hk. unfold do_fail_a in H. rewrite fail_a_decision in H. cbv zeta in H.
  destruct (N.eqb_spec k ip) as [->|Hne].
  - specialize (Hk eq_refl).
    set (r0 := fails s ip) in *.
    change (match r0 with Some x => snd x | None => 0 end) with (total_of r0) in H.
    change (match r0 with Some x => fst x | None => [] end) with (ts_of r0) in H.
    pose proof (prune_len (window C) (now s) (ts_of r0 ++ [now s])) as Hp. rewrite lenZ_snoc in Hp.
    destruct (total_of r0 + 1 >=? perm C) eqn:E1; [lia|].
    destruct (lenZ (prune (window C) (now s) (ts_of r0 ++ [now s])) >=? maxf C) eqn:E2; [lia|].
    injection H as <- <- <-. cbn [bans fails set_fails]. rewrite upd_same.
    unfold frec_ok. cbn [total_of ts_of fst snd]. repeat split; try lia.
  - assert (Hf : fails s' ip = fails s ip /\ bans s' = bans s /\
                 match p' with PFailB k' _ _ => k' <> ip | PIdle => True | _ => False end).
    { destruct (if _ >=? perm C then DPerm else _); injection H as <- <- <-; cbn [bans fails set_fails];
        rewrite upd_other by congruence; auto. }
    destruct Hf as (Hf & Hb & Hp). rewrite Hf. unfold frec_ok. repeat split; auto; lia.
Qed.

Lemma budget_nonneg ip l : 0 <= budget ip l.
Proof.
  destruct l as [| | |p rest log]; cbn; try lia.
  assert (0 <= pending_on ip p) by (destruct p; cbn; try lia; destruct (_ && _); lia).
  assert (0 <= fold_right Z.add 0 (map (failing_on ip) rest)).
  { induction rest as [|c rest IH]; cbn; [lia|].
    assert (0 <= failing_on ip c) by (destruct c; cbn; try lia; try destruct (N.eqb _ _); try destruct (_ && _); lia). lia. }
  lia.
Qed.

Definition quiet_sh (ip : N) (s : sh) : Prop := bans s ip = None /\ frec_ok (fails s ip).

Lemma sweep_fails_ok W t f ip : frec_ok (f ip) ->
  frec_ok (sweep_fails W t f ip) /\ total_of (sweep_fails W t f ip) <= total_of (f ip).
Proof.
  unfold frec_ok, sweep_fails. destruct (f ip) as [[ts tot]|]; cbn [total_of ts_of fst snd]; [|unfold lenZ; cbn; lia].
  intros [H1 H2]. pose proof (prune_len W t ts) as Hp.
  destruct (prune W t ts) eqn:E; cbn [total_of ts_of fst snd]; [unfold lenZ; cbn; lia|].
  rewrite <- E in *. lia.
Qed.

(* one step of one thread: the shared part stays quiet and  total + budget  does not grow *)
Lemma quiet_step C ip l s l' s' (R : Z) :
  quiet_sh ip s -> thr_quiet ip l -> 0 <= R ->
  total_of (fails s ip) + budget ip l + R < Z.min (maxf C) (perm C) ->
  tstep current_variant C l s = (l', s') ->
  quiet_sh ip s' /\ thr_quiet ip l' /\
  total_of (fails s' ip) + budget ip l' <= total_of (fails s ip) + budget ip l.
Proof.
  intros [Hb Hf] HT HR Hlt Hs. unfold quiet_sh.
  destruct l as [ds|cs|cs|p rest log]; cbn [tstep] in Hs.
  - destruct ds; injection Hs as <- <-; cbn; repeat split; auto; try apply Hf; lia.
  - destruct cs; [injection Hs as <- <-; cbn; repeat split; auto; try apply Hf; lia|].
    destruct (pend s); injection Hs as <- <-; cbn [budget fails bans set_bans]; (split; [split|split]); auto; try lia.
    apply spawned_remove_none, Hb.
  - destruct cs; [injection Hs as <- <-; cbn; repeat split; auto; try apply Hf; lia|].
    destruct (pendbl s); injection Hs as <- <-; cbn [budget fails bans set_bl]; (split; [split|split]); auto; lia.
  - cbn [thr_quiet] in HT. destruct HT as [Hnb Hpc].
    destruct p.
    + (* PIdle *)
      destruct rest as [|c rest]; [injection Hs as <- <-; cbn; repeat split; auto; try apply Hf; lia|].
      cbn [forallb] in Hnb. apply andb_prop in Hnb. destruct Hnb as [Hc Hnb].
      assert (Hrest : 0 <= fold_right Z.add 0 (map (failing_on ip) rest)).
      { pose proof (budget_nonneg ip (LProg PIdle rest [])) as H0. cbn in H0. lia. }
      cbn [budget pending_on map fold_right] in Hlt |- *.
      destruct (start current_variant C c s) as [[p1 s1] r1] eqn:Es. injection Hs as <- <-.
      cbn [thr_quiet budget].
      destruct c; cbn [failing_on] in *; unfold start in Es.
      * (* CFail *)
        destruct (do_fail_a_budget C s ip0 _ _ _ _ _ ip Es Hf) as (Hb' & Hp' & Hf' & Ht').
        { intros ->. rewrite N.eqb_refl in Hlt. lia. }
        split; [split; [congruence|exact Hf']|]. split; [split; [exact Hnb|destruct p1; auto; contradiction]|].
        rewrite Ht'. destruct p1; try contradiction; cbn [pending_on]; lia.
      * (* CSucc *)
        pair_inv Es. cbn [bans fails set_fails thr_quiet pending_on]. split; [split; [exact Hb|]|split; [auto|]].
        -- destruct (N.eqb_spec ip ip0) as [->|Hne]; [rewrite upd_same; unfold frec_ok; cbn; unfold lenZ; cbn; lia|].
           rewrite upd_other by exact Hne. exact Hf.
        -- destruct (N.eqb_spec ip ip0) as [->|Hne]; [rewrite upd_same; cbn; destruct Hf; lia|].
           rewrite upd_other by exact Hne. lia.
      * (* CQuery *)
        break_lets; pair_inv Es; cbn [bans fails set_bans pending_on]; (split; [split|split]); auto; lia.
      * (* CBan *)
        pair_inv Es. unfold do_ban. cbn [bans fails set_bans pending_on]. cbn in Hc.
        assert (Hne : ip <> ip0) by (intros ->; rewrite N.eqb_refl in Hc; discriminate).
        split; [split; [rewrite put_other by exact Hne; exact Hb|exact Hf]|]. split; [auto|lia].
      * (* CUnban *)
        pair_inv Es. cbn [bans fails set_bans pending_on]. split; [split; [|exact Hf]|split; [auto|lia]].
        unfold upd. destruct (N.eqb ip ip0); auto.
      * (* CCleanup *)
        pair_inv Es. cbn [bans fails set_fails pending_on].
        destruct (sweep_fails_ok (window C) (now s) (fails s) ip Hf) as [H1 H2].
        split; [split; [exact Hb|exact H1]|]. split; [auto|lia].
      * pair_inv Es; cbn [bans fails set_bl pending_on]; (split; [split|split]); auto; lia.
      * pair_inv Es; cbn [bans fails set_bl pending_on]; (split; [split|split]); auto; lia.
      * pair_inv Es; cbn [bans fails set_wl pending_on]; (split; [split|split]); auto; lia.
      * pair_inv Es; cbn [bans fails set_wl pending_on]; (split; [split|split]); auto; lia.
      * break_lets; pair_inv Es; cbn [bans fails set_bl pending_on]; (split; [split|split]); auto; lia.
      * pair_inv Es; cbn [bans fails set_bl pending_on]; (split; [split|split]); auto; lia.
      * break_lets; pair_inv Es; cbn [bans fails set_bk pending_on]; (split; [split|split]); auto; lia.
      * pair_inv Es; cbn [bans fails set_bk pending_on]; (split; [split|split]); auto; lia.
      * (* CHs *)
        break_lets; pair_inv Es; cbn [bans fails set_bl pending_on]; (split; [split|split]); auto;
          try lia; destruct (N.eqb ip0 ip && hk_fails k); lia.
      * (* CRestart *)
        pair_inv Es. cbn [bans fails restart pending_on]. split; [split; [reflexivity|]|split; [auto|]].
        -- unfold frec_ok. cbn. unfold lenZ. cbn. lia.
        -- cbn [total_of]. destruct Hf. lia.
    + (* PFailB *)
      cbn [continue] in Hs. injection Hs as <- <-. cbn [thr_quiet budget pending_on].
      assert (Hne : ip <> ip0) by congruence.
      destruct d; unfold do_ban; cbn [bans fails set_bans]; (split; [split|split]); auto; try lia;
        rewrite put_other by exact Hne; exact Hb.
    + (* PCleanB *)
      cbn [continue] in Hs. injection Hs as <- <-. cbn [thr_quiet budget pending_on bans fails set_bans].
      split; [split; [unfold sweep; rewrite Hb; reflexivity|exact Hf]|split; [auto|lia]].
    + (* PHs2 *)
      destruct (continue current_variant C (PHs2 ip0 k) s) as [[p1 s1] r1] eqn:Es. injection Hs as <- <-.
      cbn [continue] in Es. cbn [thr_quiet budget pending_on] in *.
      break_lets; pair_inv Es; cbn [bans fails set_bans pending_on]; (split; [split|split]); auto;
        try lia; destruct (N.eqb ip0 ip && hk_fails k); lia.
    + (* PHs3 *)
      destruct (continue current_variant C (PHs3 ip0 k) s) as [[p1 s1] r1] eqn:Es. injection Hs as <- <-.
      cbn [continue] in Es. cbn [thr_quiet budget pending_on] in *.
      break_lets; pair_inv Es; cbn [bans fails set_bk pending_on]; (split; [split|split]); auto;
        try lia; destruct (N.eqb ip0 ip && hk_fails k); lia.
    + (* PHsAuth *)
      destruct (continue current_variant C (PHsAuth ip0 k) s) as [[p1 s1] r1] eqn:Es. injection Hs as <- <-.
      cbn [continue] in Es. cbn [thr_quiet budget pending_on] in *.
      assert (Hrest0 : 0 <= fold_right Z.add 0 (map (failing_on ip) rest)).
      { pose proof (budget_nonneg ip (LProg PIdle rest [])) as H0. cbn in H0. lia. }
      assert (Hfail : forall s0, fails s0 = fails s -> bans s0 = bans s -> hk_fails k = true ->
                do_fail_a C s0 ip0 3%N 3%N = (p1, s1, r1) ->
                (bans s1 ip = None /\ frec_ok (fails s1 ip)) /\
                (forallb (fun c => negb (is_ban_call ip c)) rest = true /\ match p1 with PFailB k0 _ _ => k0 <> ip | _ => True end) /\
                total_of (fails s1 ip) + (pending_on ip p1 + fold_right Z.add 0 (map (failing_on ip) rest))
                <= total_of (fails s ip) + ((if N.eqb ip0 ip && hk_fails k then 1 else 0) + fold_right Z.add 0 (map (failing_on ip) rest))).
      { intros s0 Hf0 Hb0 Hk E. rewrite Hk, andb_true_r in *.
        assert (Hf' : frec_ok (fails s0 ip)) by (rewrite Hf0; exact Hf).
        destruct (do_fail_a_budget C s0 ip0 _ _ _ _ _ ip E Hf') as (Hb' & Hp' & Hf'' & Ht').
        { intros ->. rewrite N.eqb_refl in Hlt. rewrite Hf0. lia. }
        rewrite Hf0 in Ht'. split; [split; [congruence|exact Hf'']|].
        split; [split; [exact Hnb|destruct p1; auto; contradiction]|].
        rewrite Ht'. destruct p1; try contradiction; cbn [pending_on]; lia. }
      assert (Hsucc : forall s0 (b : bool), fails s0 = fails s -> bans s0 = bans s ->
                let s2 := if b then set_fails s0 (upd (fails s0) ip0 None) else s0 in
                (bans s2 ip = None /\ frec_ok (fails s2 ip)) /\ total_of (fails s2 ip) <= total_of (fails s ip)).
      { intros s0 b Hf0 Hb0. destruct b; cbn [bans fails set_fails].
        - rewrite Hb0, Hf0. split; [split; [exact Hb|]|].
          + destruct (N.eqb_spec ip ip0) as [->|Hne]; [rewrite upd_same; unfold frec_ok; cbn; unfold lenZ; cbn; lia|].
            rewrite upd_other by exact Hne. exact Hf.
          + destruct (N.eqb_spec ip ip0) as [->|Hne]; [rewrite upd_same; cbn; destruct Hf; lia|].
            rewrite upd_other by exact Hne. lia.
        - rewrite Hb0, Hf0. split; [split; [exact Hb|exact Hf]|lia]. }
      assert (Hpend : 0 <= (if N.eqb ip0 ip && hk_fails k then 1 else 0)) by (destruct (_ && _); lia).
      destruct k as [| | | |c|c good]; cbn [auth_fails] in Es.
      * exact (Hfail s eq_refl eq_refl eq_refl Es).
      * cbn [anon_resets current_variant] in Es. injection Es as <- <- <-. cbn [pending_on].
        destruct (Hsucc s false eq_refl eq_refl) as [H1 H2]. split; [exact H1|]. split; [auto|]. cbn in H2. lia.
      * exact (Hfail s eq_refl eq_refl eq_refl Es).
      * exact (Hfail s eq_refl eq_refl eq_refl Es).
      * injection Es as <- <- <-. cbn [bans fails set_chal pending_on]. split; [split; [exact Hb|exact Hf]|]. split; [auto|lia].
      * destruct (negb (chal s c && good)).
        -- exact (Hfail (set_chal s (upd (chal s) c false)) eq_refl eq_refl eq_refl Es).
        -- injection Es as <- <- <-. cbn [pending_on].
           destruct (Hsucc (set_chal s (upd (chal s) c false)) true eq_refl eq_refl) as [H1 H2].
           split; [exact H1|]. split; [auto|]. cbn [fails set_fails set_chal] in H2 |- *. lia.
Qed.

Definition bsum (ip : N) (ls : list lo) : Z := fold_right Z.add 0 (map (budget ip) ls).

Lemma bsum_upd_nth ip ls i l x : nth_error ls i = Some l ->
  bsum ip (upd_nth i x ls) = bsum ip ls - budget ip l + budget ip x /\ 0 <= bsum ip ls - budget ip l.
Proof.
  unfold bsum. revert i. induction ls as [|h t IH]; intros [|j] Hn; cbn in Hn; try discriminate.
  - injection Hn as ->. cbn. split; [lia|].
    assert (0 <= fold_right Z.add 0 (map (budget ip) t)).
    { clear. induction t as [|a t IH]; cbn; [lia|]. pose proof (budget_nonneg ip a). lia. }
    lia.
  - destruct (IH _ Hn) as [H1 H2]. cbn. pose proof (budget_nonneg ip h). split; lia.
Qed.

Theorem no_false_refusal C ip (s : sst) sched :
  bans (fst s) ip = None -> Forall (thr_quiet ip) (snd s) ->
  0 <= total_of (fails (fst s) ip) ->
  lenZ (ts_of (fails (fst s) ip)) <= total_of (fails (fst s) ip) ->
  total_of (fails (fst s) ip) + fold_right Z.add 0 (map (budget ip) (snd s)) < Z.min (maxf C) (perm C) ->
  is_banned (fst (runs current_variant C s sched)) ip = false.
Proof.
  intros Hb HT H0 H1 Hlt.
  pose (Inv := fun s : sst => quiet_sh ip (fst s) /\ Forall (thr_quiet ip) (snd s) /\
                              total_of (fails (fst s) ip) + bsum ip (snd s) < Z.min (maxf C) (perm C)).
  assert (HI : Inv (runs current_variant C s sched)).
  { apply (inv_all_schedules sh lo (tstep current_variant C) Inv).
    - clear. intros s i (HQ & HT & Hlt).
      destruct (step_cases current_variant C s i) as [Heq | (l & l' & s' & Hn & Ht & Heq)];
        fold (step current_variant C s i); rewrite Heq; [exact (conj HQ (conj HT Hlt))|].
      pose proof (Forall_nth_error _ _ _ _ HT Hn) as Hl.
      destruct (bsum_upd_nth ip (snd s) i l l' Hn) as [Hsum HR].
      destruct (quiet_step C ip l (fst s) l' s' (bsum ip (snd s) - budget ip l) HQ Hl HR ltac:(lia) Ht)
        as (HQ' & HT' & Hle).
      unfold Inv. cbn [fst snd]. split; [exact HQ'|]. split; [apply Forall_upd_nth; assumption|]. lia.
    - split; [split; [exact Hb|split; assumption]|]. split; [exact HT|exact Hlt]. }
  destruct HI as ([Hb' _] & _ & _). unfold is_banned, in_force. rewrite Hb'. reflexivity.
Qed.

(* non-vacuity of the hypotheses of no_false_refusal: three live programs with one failing call on
   address 7 between them (maxf = 2), other addresses failing freely, clean-ups and queries interleaved *)
Definition nf_threads : list lo :=
  [LProg PIdle [CQuery 7%N; CFail 7%N; CCleanup; CHs 7%N HAnonOk; CFail 9%N; CFail 9%N; CFail 9%N] [];
   LProg PIdle [CFail 9%N; CFail 9%N; CQuery 7%N; CBan 9%N 100; CUnban 7%N] [];
   LClock [100; 1000]; LRunBan [O]].
Lemma no_false_refusal_premises_satisfiable :
  bans init_sh 7%N = None /\ Forall (thr_quiet 7%N) nf_threads /\
  total_of (fails init_sh 7%N) + fold_right Z.add 0 (map (budget 7%N) nf_threads) < Z.min (maxf wit_cfg) (perm wit_cfg) /\
  0 < fold_right Z.add 0 (map (budget 7%N) nf_threads).
Proof.
  split; [reflexivity|]. split; [repeat constructor; intros H; discriminate H|].
  split; vm_compute; reflexivity.
Qed.

(* Proofs/TunnelCross.v — every interleaving of source-side requests on the bridge node and target-side requests on another
   node, with the waiting-tunnel record as shared state (Model/TunnelCross.v). *)
From TX Require Import Base.Threads Model.TunnelOpen Proofs.TunnelOpen Model.TunnelRace Proofs.TunnelRace Model.TunnelCross.
From Coq Require Import List NArith Bool.
Import ListNotations.
Open Scope N_scope.

Definition xsh_ok (sh : xshared) : Prop :=
  (forall e, In e (x_log sh) -> snd e = true) /\
  (forall t m, x_rec sh t = Some m -> xhas sh t m).       (* the record names the mapping of the bridge registered under the id *)

Definition xlo_ok (d : db) (sh : xshared) (lo : xlocal) : Prop :=
  match xl_kind lo, xl_pc lo with
  | KSource, XStep1 => xvalid d lo = true
  | KSource, XStep2 => xvalid d lo = true /\ xhas sh (r_tid (xl_req lo)) (r_mid (xl_req lo))
  | KRemote, XStep1 => xvalid d lo = true /\ xhas sh (r_tid (xl_req lo)) (r_mid (xl_req lo))
  | _, _ => True
  end.

Definition xinv (d : db) (s : xstate) : Prop := xsh_ok (fst s) /\ Forall (xlo_ok d (fst s)) (snd s).

Lemma xvalid_ok : forall d lo, xvalid d lo = true -> entitledb d (xl_conn lo) (xl_req lo) (r_mid (xl_req lo)) = true.
Proof.
  intros d lo H. unfold xvalid in H. apply andb_prop in H. destruct H as [Hr Hv].
  apply validate_current_entitled; assumption.
Qed.

(* a registered bridge stays registered, for the same mapping — every variant *)
Lemma xstep_has :
  forall xv d lo sh t m, xhas sh t m -> xhas (snd (xstep xv d lo sh)) t m.
Proof.
  intros xv d lo sh t m [b [Hb Hm]].
  assert (Hsame : xhas sh t m) by (exists b; split; assumption).
  assert (Hins : forall ok, x_tun sh (r_tid (xl_req lo)) = None -> xhas (xinsert sh lo ok) t m).
  { intros ok Hn. unfold xhas, xinsert. cbn [x_tun]. unfold upd.
    destruct (N.eqb t (r_tid (xl_req lo))) eqn:Ht; [|exists b; split; assumption].
    apply N.eqb_eq in Ht. subst t. rewrite Hb in Hn. discriminate. }
  unfold xstep. destruct (xl_kind lo); destruct (xl_pc lo); cbn [snd]; try exact Hsame.
  - destruct (negb (xvalid d lo)); [exact Hsame|].
    destruct (negb (is_listen d (xl_conn lo) (xl_req lo))); [exact Hsame|].
    destruct (x_tun sh (r_tid (xl_req lo))); destruct (x_rec sh (r_tid (xl_req lo))); exact Hsame.
  - destruct (rec_first xv); [exact Hsame|].
    destruct (x_tun sh (r_tid (xl_req lo))) eqn:Hn; cbn [snd]; [exact Hsame | apply Hins; reflexivity].
  - destruct (rec_first xv); [|exact Hsame].
    destruct (x_tun sh (r_tid (xl_req lo))) eqn:Hn; cbn [snd]; [exact Hsame | apply Hins; reflexivity].
  - destruct (negb (xvalid d lo)); [exact Hsame|].
    destruct (x_rec sh (r_tid (xl_req lo))) as [m0|]; [|exact Hsame].
    destruct (N.eqb m0 (r_mid (xl_req lo))); exact Hsame.
  - destruct (x_tun sh (r_tid (xl_req lo))) as [b0|] eqn:Hn; cbn [snd]; [|exact Hsame].
    unfold xhas. cbn [x_tun]. unfold upd.
    destruct (N.eqb t (r_tid (xl_req lo))) eqn:Ht; [|exists b; split; assumption].
    apply N.eqb_eq in Ht. subst t. rewrite Hb in Hn. injection Hn as <-.
    eexists. split; [reflexivity | exact Hm].
Qed.

Lemma xlo_ok_mono :
  forall d sh sh' lo, (forall t m, xhas sh t m -> xhas sh' t m) -> xlo_ok d sh lo -> xlo_ok d sh' lo.
Proof.
  intros d sh sh' lo Hmono H. unfold xlo_ok in *.
  destruct (xl_kind lo); destruct (xl_pc lo); try exact H; destruct H as [Hv Hh]; (split; [exact Hv | apply Hmono; exact Hh]).
Qed.

Lemma xset_done_ok : forall d sh lo, xlo_ok d sh (xset lo XDone).
Proof. intros d sh lo. unfold xlo_ok. cbn [xset xl_kind xl_pc]. destruct (xl_kind lo); exact I. Qed.

(* one atomic action of one thread, HEAD order *)
Lemma xstep_inv :
  forall d lo sh, xsh_ok sh -> xlo_ok d sh lo ->
    xsh_ok (snd (xstep x_head d lo sh)) /\ xlo_ok d (snd (xstep x_head d lo sh)) (fst (xstep x_head d lo sh)).
Proof.
  intros d lo sh [Hlog Hrec] Hlo.
  assert (Hsh : xsh_ok sh) by (split; assumption).
  unfold xstep. cbn [x_head rec_first].
  destruct (xl_kind lo) eqn:Hk; destruct (xl_pc lo) eqn:Hpc; cbn [fst snd].
  - (* source, lookup *)
    destruct (xvalid d lo) eqn:Hv; cbn [negb]; [|split; [exact Hsh | apply xset_done_ok]].
    destruct (negb (is_listen d (xl_conn lo) (xl_req lo))); [split; [exact Hsh | apply xset_done_ok]|].
    destruct (x_tun sh (r_tid (xl_req lo))); destruct (x_rec sh (r_tid (xl_req lo)));
      cbn [fst snd]; (split; [exact Hsh|]); try apply xset_done_ok.
    unfold xlo_ok. cbn [xset xl_kind xl_pc]. rewrite Hk. unfold xvalid in *. cbn [xset xl_conn xl_req]. exact Hv.
  - (* source, step 1: exists-check + insert *)
    unfold xlo_ok in Hlo. rewrite Hk, Hpc in Hlo.
    destruct (x_tun sh (r_tid (xl_req lo))) as [b0|] eqn:Hn; cbn [fst snd]; [split; [exact Hsh | apply xset_done_ok]|].
    rewrite (xvalid_ok d lo Hlo).
    assert (Hmono : forall t m, xhas sh t m -> xhas (xinsert sh lo true) t m).
    { intros t m [b [Hb Hm]]. unfold xhas, xinsert. cbn [x_tun]. unfold upd.
      destruct (N.eqb t (r_tid (xl_req lo))) eqn:Ht; [|exists b; split; assumption].
      apply N.eqb_eq in Ht. subst t. rewrite Hb in Hn. discriminate. }
    split.
    + split.
      * intros e [<- | Hin]; [reflexivity | apply Hlog; exact Hin].
      * intros t m Hr. cbn [xinsert x_rec] in Hr. apply Hmono. apply Hrec. exact Hr.
    + unfold xlo_ok. cbn [xset xl_kind xl_pc xl_req]. rewrite Hk. split.
      * unfold xvalid in *. cbn [xset xl_conn xl_req]. exact Hlo.
      * unfold xhas, xinsert. cbn [x_tun]. unfold upd. rewrite N.eqb_refl. eexists. split; reflexivity.
  - (* source, step 2: write the record *)
    unfold xlo_ok in Hlo. rewrite Hk, Hpc in Hlo. destruct Hlo as [Hv Hh].
    split; [|apply xset_done_ok].
    split; [exact Hlog|].
    intros t m Hr. unfold xrecord in *. cbn [x_rec x_tun] in *. unfold upd in Hr.
    destruct (N.eqb t (r_tid (xl_req lo))) eqn:Ht.
    + apply N.eqb_eq in Ht. subst t. injection Hr as <-. exact Hh.
    + apply Hrec. exact Hr.
  - split; [exact Hsh | exact Hlo].
  - (* remote, lookup *)
    destruct (xvalid d lo) eqn:Hv; cbn [negb]; [|split; [exact Hsh | apply xset_done_ok]].
    destruct (x_rec sh (r_tid (xl_req lo))) as [m0|] eqn:Hr; [|split; [exact Hsh | apply xset_done_ok]].
    destruct (N.eqb m0 (r_mid (xl_req lo))) eqn:Hm; cbn [fst snd]; (split; [exact Hsh|]); [|apply xset_done_ok].
    apply N.eqb_eq in Hm. subst m0.
    unfold xlo_ok. cbn [xset xl_kind xl_pc xl_req]. rewrite Hk. split.
    + unfold xvalid in *. cbn [xset xl_conn xl_req]. exact Hv.
    + apply Hrec. exact Hr.
  - (* remote, forward: node A attaches *)
    unfold xlo_ok in Hlo. rewrite Hk, Hpc in Hlo. destruct Hlo as [Hv [b [Hb Hbm]]].
    rewrite Hb. cbn [fst snd]. rewrite (xvalid_ok d lo Hv). rewrite Hbm, N.eqb_refl. cbn [andb].
    split; [|apply xset_done_ok].
    assert (Hmono : forall t m, xhas sh t m ->
              xhas {| x_tun := upd (x_tun sh) (r_tid (xl_req lo)) (Some {| b_mid := r_mid (xl_req lo); b_src := b_src b; b_tgt := Some (xl_cr lo) |});
                      x_rec := x_rec sh; x_log := (xl_cr lo, r_tid (xl_req lo), true) :: x_log sh |} t m).
    { intros t m [b1 [Hb1 Hm1]]. unfold xhas. cbn [x_tun]. unfold upd.
      destruct (N.eqb t (r_tid (xl_req lo))) eqn:Ht; [|exists b1; split; assumption].
      apply N.eqb_eq in Ht. subst t. rewrite Hb in Hb1. injection Hb1 as <-.
      eexists. split; [reflexivity|]. cbn [b_mid]. congruence. }
    split.
    + intros e [<- | Hin]; [reflexivity | apply Hlog; exact Hin].
    + intros t m Hr. apply Hmono. apply Hrec. exact Hr.
  - split; [exact Hsh | apply xset_done_ok].
  - split; [exact Hsh | exact Hlo].
Qed.

Lemma xsys_step_inv : forall d s i, xinv d s -> xinv d (sys_step xshared xlocal (xstep x_head d) s i).
Proof.
  intros d [sh ths] i [Hsh Hths]. unfold sys_step. cbn [fst snd] in *.
  destruct (nth_error ths i) as [lo|] eqn:Hn; [|split; assumption].
  assert (Hlo : xlo_ok d sh lo).
  { rewrite Forall_forall in Hths. apply Hths. eapply nth_error_In. exact Hn. }
  pose proof (xstep_inv d lo sh Hsh Hlo) as [H1 H2].
  pose proof (fun t m => xstep_has x_head d lo sh t m) as Hmono.
  destruct (xstep x_head d lo sh) as [lo' sh']. cbn [fst snd] in *.
  split; [exact H1|].
  apply Forall_upd_nth; [|exact H2].
  rewrite Forall_forall in *. intros l Hin. apply (xlo_ok_mono d sh sh'); [exact Hmono | apply Hths; exact Hin].
Qed.

Lemma xinit_inv : forall d ths, Forall (fun lo => xl_pc lo = XLookup) ths -> xinv d (xinit ths).
Proof.
  intros d ths H. split.
  - split; [intros e He; cbn in He; contradiction | intros t m Hr; cbn in Hr; discriminate].
  - cbn [xinit snd fst]. rewrite Forall_forall in *. intros lo Hin. unfold xlo_ok. rewrite (H lo Hin).
    destruct (xl_kind lo); exact I.
Qed.

(* ALL schedules of ANY number of source-side requests on the bridge node and target-side requests on other nodes:
   every attachment — creating the bridge, or being forwarded into it from another node — was entitled to the mapping of THAT
   bridge; and the waiting-tunnel record always names the mapping of the bridge registered under its id *)
Lemma cross_attach_implies_entitled :
  forall d ths sched,
    Forall (fun lo => xl_pc lo = XLookup) ths ->
    let sh := fst (xrun x_head d (xinit ths) sched) in
    (forall e, In e (x_log sh) -> snd e = true) /\ (forall t m, x_rec sh t = Some m -> xhas sh t m).
Proof.
  intros d ths sched Hths.
  pose proof (inv_all_schedules xshared xlocal (xstep x_head d) (xinv d) (xsys_step_inv d) sched (xinit ths) (xinit_inv d ths Hths))
    as [Hsh _].
  exact Hsh.
Qed.

(* ---- witnesses -------------------------------------------------------------------------------------------- *)
Definition xw_L : xlocal := xthread KSource 1 ex_src (ex_req9 1 101).                                    (* listening client of mapping 1 *)
Definition xw_S : xlocal := xthread KSource 2 {| c_registered := true; c_client := 13 |} (ex_req9 2 102). (* listening client of mapping 2 *)
Definition xw_X : xlocal := xthread KRemote 3 ex_x (ex_req9 2 102).                                      (* target client of mapping 2, on node B *)
Definition xw_T : xlocal := xthread KRemote 3 ex_tgt (ex_req9 1 101).                                    (* target client of mapping 1, on node B *)
(* S looks up (nothing there); L looks up, creates bridge(9, mapping 1) and records it; S goes on; then the remote target *)
Definition xw_sched : list nat := [1; 0; 0; 0; 1; 1; 2; 2]%nat.

(* record written BEFORE the exists-check: the loser overwrites the record, and mapping 2's target is forwarded into mapping 1's bridge *)
Lemma record_before_check_refuted :
  let sh := fst (xrun x_record_before_check ex_db2 (xinit [xw_L; xw_S; xw_X]) xw_sched) in
  x_tun sh 9 = Some {| b_mid := 1; b_src := Some 1; b_tgt := Some 3 |} /\ x_rec sh 9 = Some 2 /\ In (3, 9, false) (x_log sh).
Proof.
  cbv zeta. split; [vm_compute; reflexivity|]. split; [vm_compute; reflexivity|]. vm_compute. left. reflexivity.
Qed.

(* HEAD order, same schedule: the loser leaves the record alone, mapping 2's target is refused; mapping 1's target is forwarded *)
Lemma head_cross_witness :
  (let sh := fst (xrun x_head ex_db2 (xinit [xw_L; xw_S; xw_X]) xw_sched) in
   x_tun sh 9 = Some {| b_mid := 1; b_src := Some 1; b_tgt := None |} /\ x_rec sh 9 = Some 1 /\ x_log sh = [(1, 9, true)]) /\
  (let sh := fst (xrun x_head ex_db2 (xinit [xw_L; xw_S; xw_T]) xw_sched) in
   x_tun sh 9 = Some {| b_mid := 1; b_src := Some 1; b_tgt := Some 3 |} /\ x_log sh = [(3, 9, true); (1, 9, true)]).
Proof.
  cbv zeta. split.
  - split; [vm_compute; reflexivity|]. split; vm_compute; reflexivity.
  - split; vm_compute; reflexivity.
Qed.
Close Scope N_scope.

(* Proofs/PipeBridge.v — C02: the statements about Bridge.Start (two directions + closeOnce) for EVERY schedule,
   derived from the invariants of Proofs/Pipe.v. *)
From TX Require Import Model.Pipe Proofs.Pipe.
From Coq Require Import ZArith ZifyN ZifyNat ZifyBool Lia.
Open Scope N_scope.

Definition prefix (a b : list byte) : Prop := exists rest, b = a ++ rest.

Section B.
  Variable v : variant.
  Variable threshold : N.
  Variable lim : option N.
  Variables (rs0 : list rd) (ws0 : list wr) (rs1 : list rd) (ws1 : list wr).

  Notation run_of sched := (bridge_run v threshold lim rs0 ws0 rs1 ws1 sched).
  Definition all_of (d : bool) : list byte := if d then readable rs1 else readable rs0.

  Lemma TI_prefix all t o : TI threshold all t o -> prefix o all.
  Proof.
    intros (_ & _ & H). unfold prefix. destruct (b_pc t); [eexists; exact H|eexists; exact H| |]; destruct H as (H & _); exact H.
  Qed.

  (* the shape of every reachable state *)
  Lemma run_shape sched :
    exists t0 t1, snd (run_of sched) = [t0; t1] /\ b_dir t0 = false /\ b_dir t1 = true /\
      TI threshold (readable rs0) t0 (s_out0 (fst (run_of sched))) /\
      TI threshold (readable rs1) t1 (s_out1 (fst (run_of sched))) /\
      P1 t0 (fst (run_of sched)) /\ P1 t1 (fst (run_of sched)) /\ CL (fst (run_of sched)) /\
      (s_closed (fst (run_of sched)) = true ->
         exists x, (b_pc t0 = BDone x \/ b_pc t1 = BDone x) /\ closed_kind x = false).
  Proof. exact (GI_all v threshold lim rs0 ws0 rs1 ws1 sched). Qed.

  (* (1) delivered_is_prefix — both directions at once, in order, nothing duplicated, for every schedule *)
  Lemma bridge_delivered_is_prefix sched :
    prefix (s_out0 (fst (run_of sched))) (readable rs0) /\
    prefix (s_out1 (fst (run_of sched))) (readable rs1).
  Proof.
    destruct (run_shape sched) as (t0 & t1 & _ & _ & _ & H0 & H1 & _).
    split; eapply TI_prefix; eassumption.
  Qed.

  (* (3) counter_exact — at every moment counter + pending batch = bytes delivered, the pending batch is below the
     threshold, and once a direction has ended its counter equals the bytes it delivered *)
  Lemma bridge_counter_exact sched : forall t, In t (snd (run_of sched)) ->
    let o := sh_out (b_dir t) (fst (run_of sched)) in
    a_counter (b_acct t) + a_batch (b_acct t) = lenN o /\
    (0 < threshold -> a_batch (b_acct t) < threshold) /\
    (forall x, (b_pc t = BFinish x \/ b_pc t = BDone x) -> a_counter (b_acct t) = lenN o /\ a_batch (b_acct t) = 0).
  Proof.
    destruct (run_shape sched) as (t0 & t1 & Hs & Hd0 & Hd1 & H0 & H1 & _).
    intros t Hin. rewrite Hs in Hin.
    assert (Hcase : (t = t0 /\ b_dir t = false) \/ (t = t1 /\ b_dir t = true)).
    { destruct Hin as [<-|[<-|[]]]; auto. }
    assert (HT : TI threshold (all_of (b_dir t)) t (sh_out (b_dir t) (fst (run_of sched)))).
    { destruct Hcase as [[-> E]|[-> E]]; rewrite E; cbn; assumption. }
    destruct HT as ([Hok Hlag] & Htot & Hpc). cbn zeta. unfold acct_ok in Hok.
    split; [lia|]. split; [exact Hlag|].
    intros x [E|E]; rewrite E in Hpc; destruct Hpc as (_ & _ & Hc & Hb); auto.
  Qed.

  (* closeOnce: Close runs at most once; it has run as soon as a direction is done; and whoever ran it was a
     direction whose own loop had ended for a reason other than "the bridge is already closed" *)
  Lemma bridge_close_once sched :
    (s_closes (fst (run_of sched)) <= 1)%nat /\
    (s_closed (fst (run_of sched)) = true <-> s_closes (fst (run_of sched)) = 1%nat) /\
    (forall t x, In t (snd (run_of sched)) -> b_pc t = BDone x -> s_closed (fst (run_of sched)) = true) /\
    (forall t x, In t (snd (run_of sched)) -> (b_pc t = BFinish x \/ b_pc t = BDone x) -> closed_kind x = true ->
                 s_closed (fst (run_of sched)) = true) /\
    (s_closed (fst (run_of sched)) = true ->
       exists t x, In t (snd (run_of sched)) /\ b_pc t = BDone x /\ closed_kind x = false).
  Proof.
    destruct (run_shape sched) as (t0 & t1 & Hs & _ & _ & _ & _ & HP0 & HP1 & Hcl & Hex).
    rewrite Hs. split; [|split; [|split; [|split]]].
    - destruct Hcl as [[_ E]|[_ E]]; rewrite E; lia.
    - destruct Hcl as [[E1 E2]|[E1 E2]]; rewrite E1, E2; split; intros; try reflexivity; try discriminate; lia.
    - intros t x [<-|[<-|[]]] E; [apply (proj2 HP0 x E)|apply (proj2 HP1 x E)].
    - intros t x [<-|[<-|[]]] E Hk; [apply (proj1 HP0 x E Hk)|apply (proj1 HP1 x E Hk)].
    - intros Hc. destruct (Hex Hc) as (x & [E|E] & Hx); [exists t0, x|exists t1, x]; cbn; auto.
  Qed.

  (* (2) complete_if_no_early_close.  Nothing is scripted to fail: every write accepts a whole buffer without error,
     no read exceeds the buffer, the limiter never refuses (no limiter, or the repaired slicing with burst > 0).
     Then, under every schedule:
       - a direction that has ended either saw its own end of stream and had delivered EVERYTHING its end sent,
         or was cut by the closure of the bridge;
       - the bridge is closed only if some direction ended with its own end of stream, completely delivered
         (it never closes "by itself" while both ends are still open). *)
  Lemma bridge_complete_if_no_early_close B sched :
    (forall n, limiter_ok v lim false n = true) ->
    Forall (wr_full B) ws0 -> Forall (wr_full B) ws1 ->
    Forall (fun r => lenN (r_data r) <= B) rs0 -> Forall (fun r => lenN (r_data r) <= B) rs1 ->
    (forall t x, In t (snd (run_of sched)) -> (b_pc t = BFinish x \/ b_pc t = BDone x) ->
       (x = XReadEnd /\ sh_out (b_dir t) (fst (run_of sched)) = all_of (b_dir t)) \/
       (closed_kind x = true /\ s_closed (fst (run_of sched)) = true)) /\
    (s_closed (fst (run_of sched)) = true ->
       exists t, In t (snd (run_of sched)) /\ b_pc t = BDone XReadEnd /\
                 sh_out (b_dir t) (fst (run_of sched)) = all_of (b_dir t)).
  Proof.
    intros Hlim Hw0 Hw1 Hr0 Hr1.
    pose proof (NF2_all v threshold lim B rs0 ws0 rs1 ws1 sched Hlim Hw0 Hw1 Hr0 Hr1) as HNF.
    destruct (run_shape sched) as (t0 & t1 & Hs & Hd0 & Hd1 & H0 & H1 & HP0 & HP1 & Hcl & Hex).
    unfold NF2 in HNF. rewrite Hs in *.
    assert (Hone : forall t, (t = t0 \/ t = t1) -> forall x, (b_pc t = BFinish x \/ b_pc t = BDone x) ->
       (x = XReadEnd /\ sh_out (b_dir t) (fst (run_of sched)) = all_of (b_dir t)) \/
       (closed_kind x = true /\ s_closed (fst (run_of sched)) = true)).
    { intros t Ht x Hx.
      assert (Hb : benign x = true).
      { rewrite Forall_forall in HNF. assert (Hin : In t [t0; t1]) by (destruct Ht as [->| ->]; cbn; auto).
        destruct (HNF t Hin) as (_ & _ & Hpc). destruct Hx as [E|E]; rewrite E in Hpc; exact Hpc. }
      assert (HT : TI threshold (all_of (b_dir t)) t (sh_out (b_dir t) (fst (run_of sched))) /\ P1 t (fst (run_of sched))).
      { destruct Ht as [-> | ->]; [rewrite Hd0|rewrite Hd1]; cbn; auto. }
      destruct HT as [(_ & _ & Hpc) HP].
      destruct x; try discriminate Hb.
      - left. split; [reflexivity|]. destruct Hx as [E|E]; rewrite E in Hpc; destruct Hpc as (_ & Hall & _); symmetry; apply Hall; reflexivity.
      - right. split; [reflexivity|]. apply (proj1 HP XClosedRead Hx). reflexivity.
      - right. split; [reflexivity|]. apply (proj1 HP XClosedWrite Hx). reflexivity. }
    split.
    - intros t x [<-|[<-|[]]] Hx; apply Hone; auto.
    - intros Hc. destruct (Hex Hc) as (x & Hx & Hk).
      assert (Hsel : exists t, (t = t0 \/ t = t1) /\ b_pc t = BDone x) by (destruct Hx as [E|E]; eauto).
      destruct Hsel as (t & Ht & E).
      destruct (Hone t Ht x (or_intror E)) as [[-> Hall]|[Hk' _]]; [|congruence].
      exists t. split; [destruct Ht as [-> | ->]; cbn; auto|]. auto.
  Qed.

  (* progress ("closure is reached in finitely many steps of a fair schedule"): a direction that is scheduled
     2*|its read script| + 4 times is done, whatever the other direction does *)
  Definition meas (s : bshared * list bthread) (i : nat) : nat :=
    match nth_error (snd s) i with Some t => tmeasure t | None => 0%nat end.

  Lemma meas_step s i j :
    (j <> i -> meas (sys_step _ _ (bstep v threshold lim) s j) i = meas s i) /\
    (j = i -> (meas (sys_step _ _ (bstep v threshold lim) s j) i <= Nat.pred (meas s i))%nat).
  Proof.
    destruct s as [sh ls]. unfold meas, sys_step. cbn [fst snd].
    destruct (nth_error ls j) as [t|] eqn:Ej.
    - destruct (bstep v threshold lim t sh) as [t' sh'] eqn:Es. cbn [snd]. split.
      + intros Hne. rewrite nth_error_upd_nth_other by exact Hne. reflexivity.
      + intros ->. rewrite Ej. rewrite nth_error_upd_nth_same by (apply nth_error_Some; congruence).
        destruct (bstep_measure v threshold lim t sh t' sh' Es) as [[A B]|C]; lia.
    - cbn [snd]. split; [reflexivity|]. intros ->. rewrite Ej. lia.
  Qed.

  Lemma meas_run : forall sched s i,
    (meas (run _ _ (bstep v threshold lim) s sched) i <= meas s i - count_occ Nat.eq_dec sched i)%nat.
  Proof.
    induction sched as [|j r IH]; intros s i; cbn [run fold_left count_occ]; [lia|].
    specialize (IH (sys_step _ _ (bstep v threshold lim) s j) i). unfold run in IH.
    destruct (meas_step s i j) as [Hne Heq].
    destruct (Nat.eq_dec j i) as [E|E].
    - specialize (Heq E). lia.
    - specialize (Hne E). lia.
  Qed.

  Lemma bridge_terminates sched :
    (forall i, (i < 2)%nat ->
       (2 * length (if Nat.eqb i 0 then rs0 else rs1) + 3 <= count_occ Nat.eq_dec sched i)%nat ->
       exists t x, nth_error (snd (run_of sched)) i = Some t /\ b_pc t = BDone x).
  Proof.
    intros i Hi Hcnt.
    pose proof (meas_run sched (bridge_init rs0 ws0 rs1 ws1) i) as Hm.
    assert (H0 : meas (bridge_init rs0 ws0 rs1 ws1) i = (2 * length (if Nat.eqb i 0 then rs0 else rs1) + 3)%nat).
    { destruct i as [|[|i]]; [reflexivity|reflexivity|lia]. }
    fold (bridge_run v threshold lim rs0 ws0 rs1 ws1 sched) in Hm.
    assert (Hz : meas (run_of sched) i = 0%nat) by lia.
    destruct (run_shape sched) as (t0 & t1 & Hs & _).
    unfold meas in Hz. rewrite Hs in *.
    destruct i as [|[|i]]; [| |lia]; cbn [nth_error] in *.
    - exists t0. unfold tmeasure in Hz. destruct (b_pc t0) eqn:E; try lia. eauto.
    - exists t1. unfold tmeasure in Hz. destruct (b_pc t1) eqn:E; try lia. eauto.
  Qed.
End B.

(* non-vacuity: a concrete two-way run with interleaved directions in which the premises of the completeness
   theorem hold, both directions deliver, direction 0 ends by its own EOF and closes, direction 1 is cut *)
Example bridge_nonvacuous :
  let rs0 := [{| r_data := [1;2;3]; r_end := RNone |}; {| r_data := [4;5]; r_end := RFatal |}] in
  let rs1 := [{| r_data := [9;8]; r_end := RNone |}; {| r_data := [7]; r_end := RNone |}] in
  let s := bridge_run Sliced 1048576 (Some 2) rs0 [] rs1 [] [0;1;0;1;1;0;0;0;1;1]%nat in
  (forall n, limiter_ok Sliced (Some 2) false n = true) /\
  Forall (fun r => lenN (r_data r) <= 32768) rs0 /\ Forall (fun r => lenN (r_data r) <= 32768) rs1 /\
  s_out0 (fst s) = [1;2;3;4;5] /\ s_out1 (fst s) = [9;8] /\ s_closes (fst s) = 1%nat /\
  map b_done (snd s) = [Some XReadEnd; Some XClosedWrite].
Proof.
  cbn zeta. split; [intros n; apply sliced_limiter_never_fails; lia|].
  split; [repeat constructor; vm_compute; discriminate|].
  split; [repeat constructor; vm_compute; discriminate|].
  vm_compute. repeat split; reflexivity.
Qed.

(* the second defect of the pinned tree (repaired by fixes/C02-start-snapshots-target-forwarder.diff): the pinned Start lets
   each goroutine read b.targetForwarder when it first runs.  Witness: the source end is at EOF; direction 0 runs its two
   steps (read EOF, closeBridge) before direction 1 has run at all — the bridge is closed (targetForwarder = nil) while
   direction 1 has not yet picked up its reader, so the pinned code calls Read on a nil interface (process crash).  The model
   (and the repaired code) fix both ends of a direction before the goroutines start. *)
Lemma pinned_start_pick_after_close_refuted :
  exists sched, let s := bridge_run Sliced 1048576 None [] [] [{| r_data := [170]; r_end := RNone |}] [] sched in
    s_closed (fst s) = true /\ nth_error (snd s) 1 = Some (b_init true [{| r_data := [170]; r_end := RNone |}] []).
Proof. exists [0; 0]%nat. vm_compute. split; reflexivity. Qed.
Close Scope N_scope.

(* Proofs/LockoutClauses.v — headline forms of the C18 clauses: the end-to-end lock-out (threshold decision -> ban in
   force until its deadline under every schedule) and the projection of every schedule onto a history of the failure
   record of one address (so that the exactness of the windowed counter speaks about every schedule). *)
From TX Require Import Model.Lockout Proofs.Lockout.
From Coq Require Import ZArith Lia.
Open Scope Z_scope.

(* ---- end to end: a thread is between the two halves of a RecordFailure(ip) whose counters reached a threshold;
   it takes its step (banIP); from then on, under every schedule, ip is banned until the deadline of that ban *)
Theorem lockout_end_to_end C ip d res rest log (s : sst) i sched :
  threads_lock ip s -> d <> DNone ->
  nth_error (snd s) i = Some (LProg (PFailB ip d res) rest log) ->
  let dl := ban_deadline C (now (fst s)) d in
  let s' := runs current_variant C (step current_variant C s i) sched in
  within (now (fst s')) dl -> is_banned (fst s') ip = true.
Proof.
  intros HT Hd Hn dl s' Hw.
  destruct (continue current_variant C (PFailB ip d res) (fst s)) as [[p1 s1] r1] eqn:Ec.
  destruct (threshold_bans C ip d res (fst s) p1 s1 r1 Hd Ec) as (Hcov & Hnow & ->).
  assert (Hstep : step current_variant C s i =
                  (s1, upd_nth i (LProg PIdle rest (match r1 with Some x => log ++ [x] | None => log end)) (snd s))).
  { unfold step, sys_step. rewrite Hn. cbn [tstep]. rewrite Ec. reflexivity. }
  subst s'. rewrite Hstep in *.
  apply (locked_out C ip dl); [| exact Hcov | exact Hw].
  unfold threads_lock in *. cbn [fst snd].
  pose proof (Forall_nth_error _ _ _ _ HT Hn) as Hl. cbn in Hl. destruct Hl as [Hnu _].
  apply Forall_upd_nth; [|cbn; auto].
  eapply Forall_impl; [|exact HT]. intros x Hx. apply (thr_lock_mono ip (fst s) s1); [lia|exact Hx].
Qed.

(* ---- every step of every thread acts on the failure record of ip as at most one operation of its history:
   a failure (RecordFailure part 1), a clean-up, or a reset (RecordSuccess; a restart; in the pinned variant an
   anonymous registration), stamped with the current clock *)
Definition apply_fop (C : cfg) (r : option frec) (t : Z) (o : option fop) : option frec :=
  match o with None => r | Some op => fop_step C r (t, op) end.

Lemma do_fail_a_fop C s k a b p' s' r ip :
  do_fail_a C s k a b = (p', s', r) ->
  exists o, fails s' ip = apply_fop C (fails s ip) (now s) o.
Proof.
  unfold do_fail_a. destruct (fail_a C (now s) (fails s k)) as [r0 d] eqn:E.
  intros H. assert (Hf : fails s' = upd (fails s) k (Some r0)) by (destruct d; injection H as <- <- <-; reflexivity).
  rewrite Hf. destruct (N.eqb_spec ip k) as [->|Hne].
  - exists (Some FFail). rewrite upd_same. cbn [apply_fop]. unfold fop_step. cbn [fst snd]. rewrite E. reflexivity.
  - exists None. rewrite upd_other by exact Hne. reflexivity.
Qed.

Lemma start_fop V C c s p' s' r ip : start V C c s = (p', s', r) ->
  exists o, fails s' ip = apply_fop C (fails s ip) (now s) o.
Proof.
  destruct c; unfold start; intros H; try (eapply do_fail_a_fop; exact H);
    try (break_lets; pair_inv H; exists None; reflexivity).
  - (* CSucc *) pair_inv H. cbn [fails set_fails]. destruct (N.eqb_spec ip ip0) as [->|Hne].
    + exists (Some FSucc). rewrite upd_same. reflexivity.
    + exists None. rewrite upd_other by exact Hne. reflexivity.
  - (* CCleanup *) pair_inv H. cbn [fails set_fails]. exists (Some FClean).
    cbn [apply_fop]. unfold fop_step, sweep_fails. cbn [fst snd]. reflexivity.
  - (* CRestart *) pair_inv H. exists (Some FSucc). reflexivity.
Qed.

Lemma continue_fop V C p s p' s' r ip : continue V C p s = (p', s', r) ->
  exists o, fails s' ip = apply_fop C (fails s ip) (now s) o.
Proof.
  destruct p; cbn [continue]; intros H.
  - pair_inv H. exists None. reflexivity.
  - pair_inv H. exists None. destruct d; reflexivity.
  - pair_inv H. exists None. reflexivity.
  - break_lets; pair_inv H; exists None; reflexivity.
  - break_lets; pair_inv H; exists None; reflexivity.
  - assert (Hreset : forall s0 (b : bool), fails s0 = fails s -> now s0 = now s ->
              exists o, fails (if b then set_fails s0 (upd (fails s0) ip0 None) else s0) ip
                        = apply_fop C (fails s ip) (now s) o).
    { intros s0 b Hf0 _. destruct b; cbn [fails set_fails]; rewrite Hf0; [|exists None; reflexivity].
      destruct (N.eqb_spec ip ip0) as [->|Hne].
      + exists (Some FSucc). rewrite upd_same. reflexivity.
      + exists None. rewrite upd_other by exact Hne. reflexivity. }
    assert (Hfail : forall s0, fails s0 = fails s -> now s0 = now s ->
              do_fail_a C s0 ip0 3%N 3%N = (p', s', r) ->
              exists o, fails s' ip = apply_fop C (fails s ip) (now s) o).
    { intros s0 Hf0 Hn0 E. destruct (do_fail_a_fop C s0 ip0 _ _ _ _ _ ip E) as [o Ho].
      exists o. rewrite Ho, Hf0, Hn0. reflexivity. }
    destruct k as [| | | |c|c good]; cbn [auth_fails] in H.
    + exact (Hfail s eq_refl eq_refl H).
    + injection H as <- <- <-. exact (Hreset s (anon_resets V) eq_refl eq_refl).
    + exact (Hfail s eq_refl eq_refl H).
    + exact (Hfail s eq_refl eq_refl H).
    + injection H as <- <- <-. exists None. reflexivity.
    + destruct (negb (chal s c && good)).
      * exact (Hfail (set_chal s (upd (chal s) c false)) eq_refl eq_refl H).
      * injection H as <- <- <-. exact (Hreset (set_chal s (upd (chal s) c false)) true eq_refl eq_refl).
Qed.

Lemma tstep_fop V C l s l' s' ip : tstep V C l s = (l', s') ->
  exists o, fails s' ip = apply_fop C (fails s ip) (now s) o.
Proof.
  destruct l as [ds|cs|cs|p rest log]; cbn [tstep].
  - destruct ds; intros H; injection H as <- <-; exists None; reflexivity.
  - destruct cs; [intros H; injection H as <- <-; exists None; reflexivity|].
    destruct (pend s); intros H; injection H as <- <-; exists None; reflexivity.
  - destruct cs; [intros H; injection H as <- <-; exists None; reflexivity|].
    destruct (pendbl s); intros H; injection H as <- <-; exists None; reflexivity.
  - destruct p.
    + destruct rest as [|c rest]; [intros H; injection H as <- <-; exists None; reflexivity|].
      destruct (start V C c s) as [[p1 s1] r1] eqn:Es. intros H; injection H as <- <-. eapply start_fop; exact Es.
    + destruct (continue V C (PFailB ip0 d res) s) as [[p1 s1] r1] eqn:Es. intros H; injection H as <- <-. eapply continue_fop; exact Es.
    + destruct (continue V C (PCleanB now0) s) as [[p1 s1] r1] eqn:Es. intros H; injection H as <- <-. eapply continue_fop; exact Es.
    + destruct (continue V C (PHs2 ip0 k) s) as [[p1 s1] r1] eqn:Es. intros H; injection H as <- <-. eapply continue_fop; exact Es.
    + destruct (continue V C (PHs3 ip0 k) s) as [[p1 s1] r1] eqn:Es. intros H; injection H as <- <-. eapply continue_fop; exact Es.
    + destruct (continue V C (PHsAuth ip0 k) s) as [[p1 s1] r1] eqn:Es. intros H; injection H as <- <-. eapply continue_fop; exact Es.
Qed.

Lemma mono_from_snoc t0 h t op : mono_from t0 h -> last_time t0 h <= t ->
  mono_from t0 (h ++ [(t, op)]) /\ last_time t0 (h ++ [(t, op)]) = t.
Proof.
  revert t0. induction h as [|[t1 o1] h IH]; intros t0 Hm Hl; cbn in *; [auto|].
  destruct Hm as [H1 H2]. destruct (IH _ H2 Hl) as [H3 H4]. auto.
Qed.

(* every schedule of any number of threads induces, for every address, a history of failures / clean-ups / resets
   with a monotone clock whose fold is the failure record: C18_window_count_exact speaks about every schedule *)
Theorem schedule_projects_to_history V C ip (s : sst) sched :
  exists h, mono_from (now (fst s)) h /\
            last_time (now (fst s)) h <= now (fst (runs V C s sched)) /\
            fails (fst (runs V C s sched)) ip = fold_left (fop_step C) h (fails (fst s) ip).
Proof.
  set (t0 := now (fst s)). set (r0 := fails (fst s) ip).
  pose (Inv := fun x : sst => exists h, mono_from t0 h /\ last_time t0 h <= now (fst x) /\
                                        fails (fst x) ip = fold_left (fop_step C) h r0).
  change (Inv (runs V C s sched)).
  apply (inv_all_schedules sh lo (tstep V C) Inv).
  - intros x i (h & Hm & Hl & Hf).
    destruct (step_cases V C x i) as [Heq | (l & l' & s' & Hn & Ht & Heq)];
      fold (step V C x i); rewrite Heq; [exists h; auto|].
    pose proof (tstep_now_mono _ _ _ _ _ _ Ht) as Hmono.
    destruct (tstep_fop V C l (fst x) l' s' ip Ht) as [[op|] Ho]; cbn [fst apply_fop] in *.
    + destruct (mono_from_snoc t0 h (now (fst x)) op Hm Hl) as [Hm' Hl'].
      exists (h ++ [(now (fst x), op)]). split; [exact Hm'|]. split; [cbn [fst]; rewrite Hl'; exact Hmono|].
      cbn [fst]. rewrite fold_left_app. cbn [fold_left]. rewrite <- Hf. exact Ho.
    + exists h. split; [exact Hm|]. split; [cbn [fst]; eapply Z.le_trans; [exact Hl|exact Hmono]|]. cbn [fst]. rewrite Ho. exact Hf.
  - exists []. cbn. split; [exact I|]. split; [subst t0; lia|reflexivity].
Qed.

(* non-vacuity of lockout_end_to_end: the reachable state of premises_satisfiable one step earlier (thread 1 is
   between the two halves of the RecordFailure that reached maxf = 2) *)
Lemma end_to_end_premises_satisfiable :
  let s0 := runs current_variant wit_cfg (init_sh, nv_threads) [0; 2; 1]%nat in
  threads_lock 7 s0 /\
  nth_error (snd s0) 1 = Some (LProg (PFailB 7 DTemp 1) [CCleanup; CHs 7 HAnonOk; CQuery 9; CUnban 9] []) /\
  ban_deadline wit_cfg (now (fst s0)) DTemp = Some 400.
Proof.
  split; [repeat constructor; vm_compute; discriminate|]. vm_compute. split; reflexivity.
Qed.

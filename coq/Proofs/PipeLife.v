(* Proofs/PipeLife.v — C02 (4): the tunnel map forgets a tunnel once its lifecycle thread has finished, for every
   interleaving of any number of startSourceBridge callers (duplicates included). *)
From TX Require Import Model.Pipe.
From Coq Require Import Lia.

Definition LInv (s : registry * list lthread) : Prop :=
  let m := fst s in let ts := snd s in
  (forall i t, nth_error ts i = Some t -> l_tag t = i) /\
  (* a running bridge is in the map, under its own tag *)
  (forall i t, nth_error ts i = Some t -> l_active t = true -> m (l_id t) = Some i) /\
  (* every entry of the map belongs to a running bridge of that id *)
  (forall k i, m k = Some i -> exists t, nth_error ts i = Some t /\ l_active t = true /\ l_id t = k).

Lemma reg_set_same m k x : reg_set m k x k = x.
Proof. unfold reg_set. now rewrite N.eqb_refl. Qed.
Lemma reg_set_other m k x j : j <> k -> reg_set m k x j = m j.
Proof. unfold reg_set. intros H. destruct (N.eqb_spec j k); congruence. Qed.

Lemma nth_error_upd {A} (l : list A) i j x t :
  nth_error l i = Some t ->
  nth_error (upd_nth i x l) j = if Nat.eqb j i then Some x else nth_error l j.
Proof.
  intros Hi. destruct (Nat.eqb_spec j i) as [->|Hne].
  - apply nth_error_upd_nth_same. apply nth_error_Some. congruence.
  - apply nth_error_upd_nth_other. congruence.
Qed.

Lemma l_init_from_nth : forall ids i0 j t, nth_error (l_init_from i0 ids) j = Some t ->
  l_tag t = i0 + j /\ l_pc t = LStart.
Proof.
  induction ids as [|k r IH]; intros i0 j t H; [destruct j; discriminate|].
  destruct j as [|j]; cbn in H.
  - inversion H; subst; cbn. split; [lia|reflexivity].
  - apply IH in H. destruct H as [H1 H2]. split; [lia|exact H2].
Qed.

Lemma linv_init ids : LInv (reg_empty, l_init ids).
Proof.
  unfold LInv, l_init; cbn [fst snd]. split; [|split].
  - intros i t H. apply l_init_from_nth in H. destruct H as [H _]. lia.
  - intros i t H Ha. apply l_init_from_nth in H. destruct H as [_ H]. unfold l_active in Ha. rewrite H in Ha. discriminate.
  - intros k i H. discriminate.
Qed.

Lemma linv_step s i : LInv s -> LInv (sys_step _ _ lstep s i).
Proof.
  destruct s as [m ts]. unfold LInv, sys_step. cbn [fst snd]. intros (HA & HB & HC).
  destruct (nth_error ts i) as [t|] eqn:Ei; [|cbn [fst snd]; auto].
  assert (Htag : l_tag t = i) by (apply HA; exact Ei).
  destruct (lstep t m) as [t' m'] eqn:Es. cbn [fst snd].
  unfold lstep in Es.
  destruct (l_pc t) as [|k| |r] eqn:Epc.
  - (* LStart *)
    assert (Hna : l_active t = false) by (unfold l_active; now rewrite Epc).
    destruct (m (l_id t)) as [o|] eqn:Em; inversion Es; subst t' m'; clear Es.
    + split; [|split].
      * intros j u Hj. rewrite (nth_error_upd ts i j _ t Ei) in Hj.
        destruct (Nat.eqb_spec j i) as [->|Hne]; [injection Hj as Hju; subst u; cbn; exact Htag|apply HA; exact Hj].
      * intros j u Hj Ha. rewrite (nth_error_upd ts i j _ t Ei) in Hj.
        destruct (Nat.eqb_spec j i) as [->|Hne]; [injection Hj as Hju; subst u; cbn in Ha; discriminate|apply HB; assumption].
      * intros k i0 Hk. destruct (HC k i0 Hk) as (u & Hu & Hua & Hui).
        exists u. rewrite (nth_error_upd ts i i0 _ t Ei).
        destruct (Nat.eqb_spec i0 i) as [->|Hne]; [|auto]. rewrite Ei in Hu. injection Hu as Hu'; subst u. congruence.
    + split; [|split].
      * intros j u Hj. rewrite (nth_error_upd ts i j _ t Ei) in Hj.
        destruct (Nat.eqb_spec j i) as [->|Hne]; [injection Hj as Hju; subst u; cbn; exact Htag|apply HA; exact Hj].
      * intros j u Hj Ha. rewrite (nth_error_upd ts i j _ t Ei) in Hj.
        destruct (Nat.eqb_spec j i) as [->|Hne].
        -- injection Hj as Hju; subst u; cbn. rewrite reg_set_same. now rewrite Htag.
        -- assert (Hm : m (l_id u) = Some j) by (apply HB; assumption).
           rewrite reg_set_other; [exact Hm|]. intros Heq. rewrite Heq in Hm. congruence.
      * intros k i0 Hk. destruct (N.eq_dec k (l_id t)) as [->|Hne].
        -- rewrite reg_set_same in Hk. inversion Hk; subst i0.
           eexists. rewrite (nth_error_upd ts i (l_tag t) _ t Ei). rewrite Htag, Nat.eqb_refl.
           split; [reflexivity|]. cbn. auto.
        -- rewrite reg_set_other in Hk by exact Hne.
           destruct (HC k i0 Hk) as (u & Hu & Hua & Hui).
           exists u. rewrite (nth_error_upd ts i i0 _ t Ei).
           destruct (Nat.eqb_spec i0 i) as [->|Hne2]; [|auto]. rewrite Ei in Hu. injection Hu as Hu'; subst u. congruence.
  - (* LRunning: stays active, map unchanged *)
    assert (Hact : l_active t = true) by (unfold l_active; now rewrite Epc).
    assert (Es' : m' = m /\ l_id t' = l_id t /\ l_tag t' = l_tag t /\ l_active t' = true).
    { destruct k; inversion Es; subst; cbn; auto. }
    destruct Es' as (-> & Hid & Htg & Hact'). clear Es.
    split; [|split].
    + intros j u Hj. rewrite (nth_error_upd ts i j _ t Ei) in Hj.
      destruct (Nat.eqb_spec j i) as [->|Hne]; [injection Hj as Hju; subst u; congruence|apply HA; exact Hj].
    + intros j u Hj Ha. rewrite (nth_error_upd ts i j _ t Ei) in Hj.
      destruct (Nat.eqb_spec j i) as [->|Hne]; [|apply HB; assumption].
      inversion Hj; subst u. rewrite Hid. apply HB; assumption.
    + intros k0 i0 Hk. destruct (HC k0 i0 Hk) as (u & Hu & Hua & Hui).
      rewrite (nth_error_upd ts i i0 _ t Ei).
      destruct (Nat.eqb_spec i0 i) as [->|Hne]; [|exists u; auto].
      rewrite Ei in Hu. inversion Hu; subst u. exists t'. split; [reflexivity|]. split; [exact Hact'|congruence].
  - (* LDelete *)
    assert (Hact : l_active t = true) by (unfold l_active; now rewrite Epc).
    assert (Hmine : m (l_id t) = Some i) by (apply HB; assumption).
    inversion Es; subst t' m'; clear Es.
    split; [|split].
    + intros j u Hj. rewrite (nth_error_upd ts i j _ t Ei) in Hj.
      destruct (Nat.eqb_spec j i) as [->|Hne]; [injection Hj as Hju; subst u; cbn; exact Htag|apply HA; exact Hj].
    + intros j u Hj Ha. rewrite (nth_error_upd ts i j _ t Ei) in Hj.
      destruct (Nat.eqb_spec j i) as [->|Hne]; [injection Hj as Hju; subst u; cbn in Ha; discriminate|].
      assert (Hm : m (l_id u) = Some j) by (apply HB; assumption).
      rewrite reg_set_other; [exact Hm|]. intros Heq. rewrite Heq in Hm. congruence.
    + intros k0 i0 Hk. destruct (N.eq_dec k0 (l_id t)) as [->|Hne].
      * rewrite reg_set_same in Hk. discriminate.
      * rewrite reg_set_other in Hk by exact Hne.
        destruct (HC k0 i0 Hk) as (u & Hu & Hua & Hui).
        exists u. rewrite (nth_error_upd ts i i0 _ t Ei).
        destruct (Nat.eqb_spec i0 i) as [->|Hne2]; [|auto]. rewrite Ei in Hu. injection Hu as Hu'; subst u. congruence.
  - (* LDone *)
    inversion Es; subst t' m'; clear Es.
    split; [|split].
    + intros j u Hj. rewrite (nth_error_upd ts i j _ t Ei) in Hj.
      destruct (Nat.eqb_spec j i) as [->|Hne]; [injection Hj as Hju; subst u; exact Htag|apply HA; exact Hj].
    + intros j u Hj Ha. rewrite (nth_error_upd ts i j _ t Ei) in Hj.
      destruct (Nat.eqb_spec j i) as [->|Hne]; [inversion Hj; subst u; apply HB; assumption|apply HB; assumption].
    + intros k0 i0 Hk. destruct (HC k0 i0 Hk) as (u & Hu & Hua & Hui).
      exists u. rewrite (nth_error_upd ts i i0 _ t Ei).
      destruct (Nat.eqb_spec i0 i) as [->|Hne]; [|auto]. rewrite Ei in Hu. injection Hu as Hu'; subst u. auto.
Qed.

Lemma linv_all ids sched : LInv (lifecycle_run ids sched).
Proof.
  unfold lifecycle_run. apply (inv_all_schedules _ _ lstep LInv); [intros s i; apply linv_step|apply linv_init].
Qed.

(* (4) registry_forgets *)
Theorem registry_forgets : forall (ids : list N) (sched : list nat),
  let s := lifecycle_run ids sched in
  (* once every lifecycle thread has finished, no tunnel id has an entry *)
  (forallb l_finished (snd s) = true -> forall k, fst s k = None) /\
  (* at any moment: an entry exists exactly for the ids that have a running bridge, and it names that bridge *)
  (forall k i, fst s k = Some i -> exists t, nth_error (snd s) i = Some t /\ l_active t = true /\ l_id t = k) /\
  (forall i t, nth_error (snd s) i = Some t -> l_active t = true -> fst s (l_id t) = Some i).
Proof.
  intros ids sched s. destruct (linv_all ids sched) as (HA & HB & HC). fold s in HA, HB, HC.
  split; [|split; [exact HC|exact HB]].
  intros Hfin k. destruct (fst s k) as [i|] eqn:Ek; [|reflexivity].
  destruct (HC k i Ek) as (t & Ht & Hact & _).
  rewrite forallb_forall in Hfin. specialize (Hfin t (nth_error_In _ _ Ht)).
  unfold l_finished in Hfin. unfold l_active in Hact. destruct (l_pc t); discriminate.
Qed.

(* two running bridges never share a tunnel id *)
Corollary one_bridge_per_id : forall ids sched i j t u,
  let s := lifecycle_run ids sched in
  nth_error (snd s) i = Some t -> nth_error (snd s) j = Some u ->
  l_active t = true -> l_active u = true -> l_id t = l_id u -> i = j.
Proof.
  intros ids sched i j t u s Hi Hj Ha Hb Hid.
  destruct (registry_forgets ids sched) as (_ & _ & HB). fold s in HB.
  pose proof (HB i t Hi Ha) as H1. pose proof (HB j u Hj Hb) as H2. rewrite Hid in H1. congruence.
Qed.

(* every thread finishes under any schedule that runs it often enough (tag + 3 steps), so the premise of
   registry_forgets is reachable from every state: non-vacuity by a concrete run with a duplicate id *)
Example registry_forgets_nonvacuous :
  let s := lifecycle_run [7; 7; 9]%N [0; 1; 2; 0; 0; 2; 2; 2; 2; 1; 0]%nat in
  forallb l_finished (snd s) = true /\ map l_pc (snd s) = [LDone true; LDone false; LDone true].
Proof. vm_compute. split; reflexivity. Qed.

(* while the first bridge of id 7 is running, its duplicate is refused and the entry names the first *)
Example duplicate_refused :
  let s := lifecycle_run [7; 7]%N [0; 1]%nat in fst s 7%N = Some 0%nat /\ map l_pc (snd s) = [LRunning 0; LDone false].
Proof. vm_compute. split; reflexivity. Qed.

(* Proofs/DomainRefuted.v — C19: counter-examples for the variants the positive theorems exclude (computed witnesses),
   a concrete run of the repaired model, and the sequential completeness of an owner's delete. *)
From TX Require Import Model.Domain Proofs.Domain.
Local Open Scope N_scope.

Definition none_legacy : name -> option pmap := fun _ => None.

Definition nm_a : name := [97].                              (* "a" *)
Definition nm_b : name := [98].                              (* "b" *)
Definition nm_base : name := [116; 46; 105; 111].            (* "t.io" *)
Definition host_a : name := full_domain nm_a nm_base.        (* "a.t.io" *)
Definition host_a_port : name := host_a ++ [58; 56; 48].     (* "a.t.io:80" *)

Definition opt_id_eq (a b : option id) : bool :=
  match a, b with Some x, Some y => N.eqb x y | None, None => true | _, _ => false end.

(* some release in the log was performed on behalf of a mapping that did not hold the name at that moment *)
Fixpoint stale_release (l : list ev) : bool :=
  match l with
  | [] => false
  | EvRelease n i _ :: r => negb (opt_id_eq (holder n r) (Some i)) || stale_release r
  | _ :: r => stale_release r
  end.

Lemma log_ok_no_stale l : log_ok l -> stale_release l = false.
Proof.
  induction l as [|e r IH]; cbn; [reflexivity|]. destruct e; try tauto.
  intros (Hh & _ & Hr). rewrite Hh. cbn. rewrite N.eqb_refl. cbn. now apply IH.
Qed.

(* ---- the delete / re-claim race ------------------------------------------------------------------------------ *)
Definition race_threads : list thr :=
  [ init_thr 1 [OCreate nm_a nm_base 11; ODelete (Mine 0)] [];     (* owner: create, then delete *)
    init_thr 1 [ODelete (Abs 1)] [];                               (* a second delete of the same mapping (retry / cleanup task) *)
    init_thr 2 [OCreate nm_a nm_base 22] [];                       (* another client re-claims the released name *)
    init_thr 9 [OLookup host_a_port 5] [] ].

(* pinned DeleteMapping: Get, Delete index, Delete record, RemoveFromList *)
Definition race_sched_pinned : list nat := [0;0;0;0; 1; 0;0;0;0; 2;2;2;2; 1;1;1; 3;3]%nat.
(* repaired: create = SetNX counter, Incr, SetNX index, Set record, Append;
   delete = Get, SetNX guard, Get index, Delete index, Delete record, Delete guard, RemoveFromList *)
Definition race_sched_fixed : list nat := [0;0;0;0;0; 1; 0;0;0;0;0;0;0; 2;2;2;2;2; 1;1;1;1;1; 3;3]%nat.

Lemma race_threads_fresh : forall t, In t race_threads -> fresh_thr t.
Proof.
  intros t [<-|[<-|[<-|[<-|[]]]]]; (split; [reflexivity|split; reflexivity]).
Qed.

(* pinned code: client 2's create succeeds, its mapping is never deleted, yet the late second delete of mapping 1
   removes client 2's index entry: the name resolves to nothing and is claimable by a third party *)
Lemma pinned_delete_reclaim_refuted :
  let s := drun false true false true true true none_legacy none_legacy empty_store race_threads race_sched_pinned in
  map out (snd s) = [[RDeleted; RCreated 1]; [RDeleted]; [RCreated 2]; [RErr ENotFound]] /\
  recs (fst s) 2 = Some {| r_name := host_a; r_client := 2; r_target := 22; r_status := StActive; r_exp := 0 |} /\
  idx (fst s) host_a = None /\
  stale_release (log (fst s)) = true.
Proof. vm_compute. repeat split; reflexivity. Qed.

(* the same callers on the repaired code, same race: the late delete finds the index pointing elsewhere and leaves it *)
Lemma fixed_delete_reclaim_run :
  let s := drun true true true true true true none_legacy none_legacy empty_store race_threads race_sched_fixed in
  map out (snd s) = [[RDeleted; RCreated 1]; [RDeleted]; [RCreated 2]; [RRouted 1 host_a_port 2 2 22]] /\
  idx (fst s) host_a = Some 2 /\
  stale_release (log (fst s)) = false.
Proof. vm_compute. repeat split; reflexivity. Qed.

(* ---- id duplication: Incr as get-then-set (hybrid.Storage.Incr before d88dca0) ---------------------------------------------- *)
Definition dup_threads : list thr :=
  [ init_thr 1 [OCreate nm_a nm_base 11] []; init_thr 2 [OCreate nm_b nm_base 22] []; init_thr 9 [OLookup host_a 5] [] ].
Definition dup_sched : list nat := [0;1;0;1; 0;0;0; 1;1;1; 2;2]%nat.

(* both creates draw id 1; client 2's record overwrites client 1's; "a.t.io" — claimed by client 1 — routes to client 2 *)
Lemma nonatomic_incr_refuted :
  let s := drun true false false true true true none_legacy none_legacy empty_store dup_threads dup_sched in
  map out (snd s) = [[RCreated 1]; [RCreated 1]; [RRouted 1 host_a 1 2 22]] /\
  In (EvClaim host_a 1 1) (log (fst s)).
Proof. vm_compute. split; [reflexivity|]. repeat (first [left; reflexivity | right]). Qed.

(* ---- id reuse: the counter key disappears (24h TTL on memory.Storage, restart of a cache-only counter) ---------- *)
Definition reset_threads : list thr :=
  [ init_thr 1 [OCreate nm_a nm_base 11] []; init_thr 7 [OResetCounter] []; init_thr 2 [OCreate nm_b nm_base 22] [];
    init_thr 9 [OLookup host_a 5] [] ].
Definition reset_sched : list nat := [0;0;0;0; 1; 2;2;2;2; 3;3]%nat.

Lemma counter_reset_refuted :
  let s := drun true true false true true true none_legacy none_legacy empty_store reset_threads reset_sched in
  map out (snd s) = [[RCreated 1]; [RReset]; [RCreated 1]; [RRouted 1 host_a 1 2 22]] /\
  In (EvClaim host_a 1 1) (log (fst s)).
Proof. vm_compute. split; [reflexivity|]. repeat (first [left; reflexivity | right]). Qed.

(* the same callers on the repaired generateMappingID (counter key created without a deadline before Incr): the clock
   passing the default data TTL changes nothing, the second create draws id 2 and "a.t.io" still routes to client 1 *)
Definition reset_sched_fixed : list nat := [0;0;0;0;0; 1; 2;2;2;2;2; 3;3]%nat.
Lemma counter_reset_harmless_run :
  let s := drun true true true true true true none_legacy none_legacy empty_store reset_threads reset_sched_fixed in
  map out (snd s) = [[RCreated 1]; [RReset]; [RCreated 2]; [RRouted 1 host_a 1 1 11]] /\
  cttl (fst s) = false /\ next (fst s) = 2.
Proof. vm_compute. repeat split; reflexivity. Qed.

(* ---- the expiry cleanup in a history: client 1's mapping is expired (by its own update), client 2's is not; the cleanup
   (any caller) removes exactly the expired one on behalf of client 1, and a caller with client id 0 / -1 trying to
   delete client 2's mapping is refused ------------------------------------------------------------------------- *)
Definition cleanup_threads : list thr :=
  [ init_thr 1 [OCreate nm_a nm_base 11; OUpdate 0 StActive 3 12] [];
    init_thr 2 [OCreate nm_b nm_base 22] [];
    init_thr 0 [ODelete (Abs 2); OCleanup 5; OCreate nm_a nm_base 66] [];
    init_thr (-1) [ODelete (Abs 2); ODelete (Abs 1)] [];
    init_thr 9 [OLookup host_a 5; OLookup (full_domain nm_b nm_base) 5] [] ].
Definition cleanup_sched : list nat :=
  (repeat 0 7 ++ repeat 1 5 ++ [2; 3] ++ repeat 2 12 ++ repeat 3 1 ++ repeat 2 2 ++ repeat 4 4)%nat.

Lemma cleanup_run :
  let s := drun true true true true true true none_legacy none_legacy empty_store cleanup_threads cleanup_sched in
  map out (snd s) = [[RUpdated; RCreated 1]; [RCreated 2]; [RErr EValidation; RCleaned 1; RErr EForbidden];
                     [RDeleted; RErr EForbidden]; [RRouted 1 (full_domain nm_b nm_base) 2 2 22; RErr ENotFound]] /\
  idx (fst s) host_a = None /\ idx (fst s) (full_domain nm_b nm_base) = Some 2 /\ recs (fst s) 1 = None /\
  glist (fst s) = [2] /\ stale_release (log (fst s)) = false.
Proof. vm_compute. repeat split; reflexivity. Qed.

(* ---- an owner's delete, run to completion without interference and without storage failures ------------------ *)
Section Solo.
  Variables reg cloud : name -> option pmap.

  Fixpoint solo (k : nat) (t : thr) (s : shared) : thr * shared :=
    match k with
    | O => (t, s)
    | S k' => let '(t', s') := dstep true true true true true true reg cloud t s in solo k' t' s'
    end.

  Lemma delete_alone c i m rest h o s :
    recs s i = Some m -> r_client m = c -> idx s (r_name m) = Some i -> rguard s i = false ->
    let t := {| cl := c; ops := ODelete (Abs i) :: rest; faults := []; pc := Idle; held := h; out := o |} in
    let '(t', s') := solo 7 t s in
    t' = {| cl := c; ops := rest; faults := []; pc := Idle; held := h; out := RDeleted :: o |} /\
    idx s' (r_name m) = None /\ recs s' i = None /\ rguard s' i = false /\
    log s' = EvRelease (r_name m) i c :: log s /\
    (forall n, n <> r_name m -> idx s' n = idx s n) /\ (forall j, j <> i -> recs s' j = recs s j).
  Proof.
    intros Hr Hc Hi Hg. cbn zeta.
    unfold solo, dstep.
    unfold decide; cbn.
    repeat (progress (rewrite ?Hr, ?Hc, ?Hg, ?Hi, ?N.eqb_refl, ?Z.eqb_refl; cbn)).
    split; [reflexivity|]. split; [apply upd_name_same|]. split; [apply upd_n_same|]. split; [apply upd_n_same|].
    split; [reflexivity|]. split; [intros n Hn; now apply upd_name_other|intros j Hj; now apply upd_n_other].
  Qed.

  (* ---- deletion under storage failures: ANY fault pattern, ANY number of retries ------------------------------------
     The owner (client c) runs nothing but DeleteMapping(i) — as many retries as it likes — alone on a store in which
     mapping i holds the name n.  Invariant: while the index still points at i the record is still there (the record
     is deleted last), and whenever a delete has reported success the index has no entry for n. *)
  Definition all_delete (i : id) (o : list op) : Prop := forall x, In x o -> x = ODelete (Abs i).

  Definition pcI (c : client) (i : id) (n : name) (s : shared) (p : pcT) : Prop :=
    match p with
    | Idle => True
    | PCRm KDel who j n' st e =>
        who = c /\ j = i /\ n' = n /\ (st = RmDelIdx -> idx s n = Some i) /\
        (st = RmDelRec -> idx s n = None) /\ (st = RmRelease -> e = None -> idx s n = None)
    | PCDList j => j = i /\ idx s n = None
    | _ => False
    end.

  Definition StI (c : client) (i : id) (n : name) (s : shared) : Prop :=
    (idx s n = Some i \/ idx s n = None) /\
    (idx s n = Some i -> exists m, recs s i = Some m) /\
    (forall m, recs s i = Some m -> r_name m = n /\ r_client m = c).

  Definition TI (c : client) (i : id) (n : name) (t : thr) (s : shared) : Prop :=
    cl t = c /\ all_delete i (ops t) /\ (In RDeleted (out t) -> idx s n = None) /\ pcI c i n s (pc t).

  Definition SInv (c : client) (i : id) (n : name) (t : thr) (s : shared) : Prop := StI c i n s /\ TI c i n t s.

  Lemma all_delete_tl i o : all_delete i o -> all_delete i (tl o).
  Proof. intros H x Hx. apply H. destruct o; [exact Hx|now right]. Qed.

  Lemma ti_finish c i n t s s' fs r :
    TI c i n t s -> (idx s n = None -> idx s' n = None) -> (r = RDeleted -> idx s' n = None) -> TI c i n (finish t fs r) s'.
  Proof.
    intros (Hc & Ho & Hout & _) Hm Hr. unfold TI, finish; cbn.
    split; [exact Hc|split; [now apply all_delete_tl|split; [|exact I]]].
    intros [E|E]; [now apply Hr|apply Hm, Hout, E].
  Qed.

  Lemma ti_goto c i n t s s' fs p :
    TI c i n t s -> (idx s n = None -> idx s' n = None) -> pcI c i n s' p -> TI c i n (goto t fs p) s'.
  Proof.
    intros (Hc & Ho & Hout & _) Hm Hp. unfold TI, goto; cbn.
    split; [exact Hc|split; [exact Ho|split; [|exact Hp]]]. intros E. apply Hm, Hout, E.
  Qed.

  Lemma sinv_step c i n t s :
    SInv c i n t s -> SInv c i n (fst (dstep true true true true true true reg cloud t s)) (snd (dstep true true true true true true reg cloud t s)).
  Proof.
    intros [Hst Hti]. pose proof Hst as (Hidx & Hrec & Hown). pose proof Hti as (Hc & Hops & Hout & Hpc).
    unfold dstep, decide. destruct (next_fault t) as [f fs].
    destruct (pc t) as [| | | | | |k who j n' st e| | | | |j| | | | | |] eqn:Epc; cbn [pcI] in Hpc; try contradiction.
    - (* Idle *)
      destruct (ops t) as [|o rest] eqn:Eo.
      { cbn [fst snd exec]. split; [exact Hst|]. unfold TI. rewrite Epc, Eo. cbn. repeat split; auto. }
      assert (Eo' : o = ODelete (Abs i)) by (apply Hops; now left). subst o.
      cbn [resolve].
      destruct f; [cbn [fst snd exec]; split; [exact Hst|apply (ti_finish c i n t s s); auto; discriminate]|].
      destruct (recs s i) as [m|] eqn:Er.
      + destruct (Hown m eq_refl) as [Hn Hcl].
        assert (Ez : Z.eqb (r_client m) (cl t) = true) by (rewrite Hcl, Hc; apply Z.eqb_refl). rewrite Ez. cbn [negb fst snd exec].
        split; [exact Hst|]. apply (ti_goto c i n t s s); auto. cbn. rewrite Hn. repeat split; auto; discriminate.
      + cbn [fst snd exec]. split; [exact Hst|]. apply (ti_finish c i n t s s); auto. intros _.
        destruct Hidx as [E|E]; [|exact E]. destruct (Hrec E) as [m Hm]. discriminate.
    - (* removeMappingKeys *)
      destruct k as [| |rest0 cnt0]; try contradiction.
      destruct Hpc as (-> & -> & -> & Hdi & Hdr & Hrl).
      destruct st.
      + (* guard *)
        destruct f; [cbn [fst snd exec rm_end]; split; [exact Hst|apply (ti_finish c i n t s s); auto; discriminate]|].
        destruct (rguard s i); cbn [fst snd rm_end].
        * cbn [exec]. split; [exact Hst|apply (ti_finish c i n t s s); auto; discriminate].
        * split; [exact Hst|]. apply (ti_goto c i n t s); auto. cbn. repeat split; auto; discriminate.
      + (* Get index *)
        destruct f; [cbn [fst snd exec]; split; [exact Hst|apply (ti_goto c i n t s s); auto; cbn; repeat split; auto; discriminate]|].
        destruct (idx s n) as [j|] eqn:Ei.
        * destruct (N.eqb j i) eqn:Ej.
          -- apply N.eqb_eq in Ej. subst j. cbn [fst snd exec]. split; [exact Hst|].
             apply (ti_goto c i n t s s); auto. cbn. rewrite Ei. repeat split; auto; discriminate.
          -- exfalso. destruct Hidx as [E|E]; [inversion E; subst; rewrite N.eqb_refl in Ej; discriminate|discriminate].
        * cbn [fst snd exec]. split; [exact Hst|]. apply (ti_goto c i n t s s); auto. cbn. rewrite Ei. repeat split; auto; discriminate.
      + (* Delete index *)
        destruct f; [cbn [fst snd exec]; split; [exact Hst|apply (ti_goto c i n t s s); auto; cbn; repeat split; auto; discriminate]|].
        cbn [fst snd].
        assert (E' : idx (exec (AUnidx n i c) s) n = None) by (cbn; apply upd_name_same).
        split.
        * unfold StI. rewrite E'. split; [now right|split; [discriminate|exact Hown]].
        * apply (ti_goto c i n t s); auto. cbn [pcI]. repeat split; auto; discriminate.
      + (* Delete record *)
        specialize (Hdr eq_refl).
        destruct f; [cbn [fst snd exec]; split; [exact Hst|apply (ti_goto c i n t s s); auto; cbn; repeat split; auto; discriminate]|].
        cbn [fst snd]. split.
        * unfold StI. cbn. rewrite Hdr. split; [now right|split; [discriminate|]].
          intros m. rewrite upd_n_same. discriminate.
        * apply (ti_goto c i n t s); auto. cbn. repeat split; auto; discriminate.
      + (* release the guard *)
        assert (Hm : forall a, a = ANone \/ a = ADrop i -> idx s n = None -> idx (exec a s) n = None)
          by (intros a [->| ->]; cbn; auto).
        assert (Hs' : forall a, a = ANone \/ a = ADrop i -> StI c i n (exec a s)) by (intros a [->| ->]; exact Hst).
        destruct e as [e|]; cbn [rm_end].
        * destruct f; cbn [fst snd]; (split; [apply Hs'; auto|apply (ti_finish c i n t s); auto; discriminate]).
        * specialize (Hrl eq_refl eq_refl).
          destruct f; cbn [fst snd]; (split; [apply Hs'; auto|apply (ti_goto c i n t s); auto; cbn; auto]).
    - (* Remove from the client's list *)
      destruct Hpc as [-> Hnone].
      destruct f; cbn [fst snd]; (split; [exact Hst|apply (ti_finish c i n t s); auto]).
  Qed.

  Lemma sinv_solo c i n k : forall t s, SInv c i n t s -> SInv c i n (fst (solo k t s)) (snd (solo k t s)).
  Proof.
    induction k as [|k IH]; intros t s H; cbn; [exact H|].
    pose proof (sinv_step c i n t s H) as H1. destruct (dstep true true true true true true reg cloud t s) as [t' s']. cbn in H1.
    now apply IH.
  Qed.

  (* the theorem: whatever storage calls fail and however often the owner retries, once a delete has reported success
     the index has no entry for the name *)
  Theorem delete_success_frees_name c i m o fl h k s :
    recs s i = Some m -> r_client m = c -> idx s (r_name m) = Some i -> all_delete i o ->
    let t := {| cl := c; ops := o; faults := fl; pc := Idle; held := h; out := [] |} in
    In RDeleted (out (fst (solo k t s))) -> idx (snd (solo k t s)) (r_name m) = None.
  Proof.
    intros Hr Hc Hi Ho t.
    assert (H0 : SInv c i (r_name m) t s).
    { split.
      - split; [now left|split; [intros _; eauto|]]. intros m0 E. rewrite Hr in E. inversion E; subst. auto.
      - unfold TI, t; cbn. split; [reflexivity|split; [exact Ho|split; [intros []|exact I]]]. }
    destruct (sinv_solo c i (r_name m) k t s H0) as (_ & _ & _ & Hout & _). exact Hout.
  Qed.


  (* after a delete that failed halfway (index entry already released, record still there) a fault-free retry finishes
     the job: 6 storage calls, success, the record is gone (the other half is delete_alone) *)
  Lemma delete_retry_completes c i m rest h o s :
    recs s i = Some m -> r_client m = c -> idx s (r_name m) = None -> rguard s i = false ->
    let t := {| cl := c; ops := ODelete (Abs i) :: rest; faults := []; pc := Idle; held := h; out := o |} in
    let '(t', s') := solo 6 t s in
    t' = {| cl := c; ops := rest; faults := []; pc := Idle; held := h; out := RDeleted :: o |} /\
    idx s' (r_name m) = None /\ recs s' i = None /\ rguard s' i = false.
  Proof.
    intros Hr Hc Hi Hg. cbn zeta.
    unfold solo, dstep.
    unfold decide; cbn.
    repeat (progress (rewrite ?Hr, ?Hc, ?Hg, ?Hi, ?N.eqb_refl, ?Z.eqb_refl; cbn)).
    split; [reflexivity|]. split; [reflexivity|]. split; [apply upd_n_same|apply upd_n_same].
  Qed.
End Solo.

(* ---- a storage fault between the two removal steps ------------------------------------------------------------------
   owner: create a, delete (the Get of the index inside the removal fails), delete again; then client 2 claims a. *)
Definition fault_threads (k : nat) : list thr :=
  [ init_thr 1 [OCreate nm_a nm_base 11; ODelete (Mine 0); ODelete (Mine 0)] (repeat false (5 + k) ++ [true]);
    init_thr 2 [OCreate nm_a nm_base 22] [];
    init_thr 9 [OLookup host_a 5] [] ].
Definition fault_sched : list nat := (repeat 0 25 ++ repeat 1 5 ++ repeat 2 2)%nat.

(* record deleted BEFORE the index entry (fault on the 4th call of the removal = Get index): the record is gone, the
   index entry stays; the retry finds no record and reports success; the name is owned by a ghost — client 2 is refused *)
Lemma record_before_index_refuted :
  let s := drun true true true false true true none_legacy none_legacy empty_store (fault_threads 3) fault_sched in
  map out (snd s) = [[RDeleted; RErr EStorage; RCreated 1]; [RErr EExists]; [RErr ENotFound]] /\
  idx (fst s) host_a = Some 1 /\ recs (fst s) 1 = None.
Proof. vm_compute. repeat split; reflexivity. Qed.

(* the code's order (index entry first), same fault position in the removal (now the Delete of the index): the failed delete
   leaves the record, the retry finishes it, client 2 claims the name and is routed *)
Lemma index_before_record_run :
  let s := drun true true true true true true none_legacy none_legacy empty_store (fault_threads 3) fault_sched in
  map out (snd s) = [[RDeleted; RErr EStorage; RCreated 1]; [RCreated 2]; [RRouted 1 host_a 2 2 22]] /\
  idx (fst s) host_a = Some 2 /\ recs (fst s) 1 = None.
Proof. vm_compute. repeat split; reflexivity. Qed.

(* ---- the three lookup sources in one history: "a.t.io" is owned in the repository by client 1 (then made inactive), "b.t.io"
   exists only in the legacy registry (client 7), "c.t.io" only in cloud control (client 8, revoked) ------------------------ *)
Definition legacy_reg : name -> option pmap :=
  fun n => if name_eqb n (full_domain nm_b nm_base)
           then Some {| p_id := 71; p_client := 7; p_target := 701; p_active := true; p_revoked := false; p_exp := 0 |}
           else if name_eqb n host_a
           then Some {| p_id := 72; p_client := 7; p_target := 702; p_active := true; p_revoked := false; p_exp := 0 |}
           else None.
Definition legacy_cloud : name -> option pmap :=
  fun n => if name_eqb n (full_domain [99] nm_base)
           then Some {| p_id := 81; p_client := 8; p_target := 801; p_active := true; p_revoked := true; p_exp := 0 |}
           else None.
Definition sources_threads : list thr :=
  [ init_thr 1 [OCreate nm_a nm_base 11; OLookup host_a_port 5; OUpdate 0 StInactive 0 12; OLookup host_a 5] [];
    init_thr 9 [OLookup (full_domain nm_b nm_base ++ [58; 56; 48]) 5; OLookup (full_domain [99] nm_base) 5; OLookup [91; 58; 58; 49; 93] 5] [] ].

(* the repository answers for its own name and — once the mapping is inactive — rejects WITHOUT falling through to the
   registry's entry of another client for that name; names the repository does not hold are answered by the registry, then
   cloud control (revoked: rejected); an IPv6 literal resolves to nothing *)
Lemma three_sources_run :
  let s := drun true true true true true true legacy_reg legacy_cloud empty_store sources_threads (repeat 0 12 ++ repeat 1 6)%nat in
  map out (snd s) = [[RErr EUnavailable; RUpdated; RRouted 1 host_a_port 1 1 11; RCreated 1];
                     [RErr ENotFound; RErr EForbidden; RRouted 2 (full_domain nm_b nm_base ++ [58; 56; 48]) 71 7 701]].
Proof. vm_compute. reflexivity. Qed.

(* ---- a failed repository read at lookup time, with a legacy entry of ANOTHER client for the same Host ---------------------------
   "a.t.io" is owned in the repository by client 1; the legacy registry also holds an entry for it (client 7, see legacy_reg).
   The lookup's first read (index) fails. *)
Definition faulted_lookup_threads : list thr :=
  [ init_thr 1 [OCreate nm_a nm_base 11] []; init_thr 9 [OLookup host_a 5; OLookup host_a 5] [true; false; true] ].

(* storage errors falling through to the legacy sources like "not found": the request is routed to client 7 — twice: once
   with the index read failing, once with the record read failing *)
Lemma fallthrough_on_error_refuted :
  let s := drun true true true true false true legacy_reg legacy_cloud empty_store faulted_lookup_threads (repeat 0 5 ++ repeat 1 3)%nat in
  map out (snd s) = [[RCreated 1]; [RRouted 2 host_a 72 7 702; RRouted 2 host_a 72 7 702]].
Proof. vm_compute. reflexivity. Qed.

(* the code: both requests are rejected with the storage error *)
Lemma error_stops_lookup_run :
  let s := drun true true true true true true legacy_reg legacy_cloud empty_store faulted_lookup_threads (repeat 0 5 ++ repeat 1 3)%nat in
  map out (snd s) = [[RCreated 1]; [RErr EStorage; RErr EStorage]].
Proof. vm_compute. reflexivity. Qed.

(* ---- the production create path (HTTPDomainRepositoryAdapter.CreateHTTPDomainMapping): CreateMapping, then UpdateMapping with the
   expiry.  Client 1 creates "a.t.io" expiring at 3; at time 5 a request is rejected, the sweep reclaims the name, client 2 claims
   it and is routed. *)
Definition adapter_threads : list thr :=
  [ init_thr 1 [OCreate nm_a nm_base 11; OUpdate 0 StActive 3 11] [];
    init_thr 9 [OLookup host_a 2; OLookup host_a_port 5; OCleanup 5] [];
    init_thr 2 [OCreate nm_a nm_base 22; OUpdate 0 StActive 9 22] [];
    init_thr 9 [OLookup host_a 5] [] ].
Lemma adapter_expiry_run :
  let s := drun true true true true true true none_legacy none_legacy empty_store adapter_threads
                (repeat 0 7 ++ repeat 1 14 ++ repeat 2 7 ++ repeat 3 2)%nat in
  map out (snd s) = [[RUpdated; RCreated 1]; [RCleaned 1; RErr EForbidden; RRouted 1 host_a 1 1 11];
                     [RUpdated; RCreated 2]; [RRouted 1 host_a 2 2 22]].
Proof. vm_compute. reflexivity. Qed.

(* ---- a NEGATIVE expiry instant (the adapter's now + ttl wrapped around for ttl = MaxInt64) ----------------------------------------
   client 1 creates "a.t.io" and its expiry is set to the wrapped instant: expired from birth — never routed, swept, re-claimed *)
Definition max_int64 : Z := 9223372036854775807%Z.
Definition wrapped_threads : list thr :=
  [ init_thr 1 [OCreate nm_a nm_base 11; OUpdate 0 StActive (adapter_expiry 5 max_int64) 11] [];
    init_thr 9 [OLookup host_a_port 5; OCleanup 5] [];
    init_thr 2 [OCreate nm_a nm_base 22] [];
    init_thr 9 [OLookup host_a 5] [] ].
Lemma negative_expiry_run :
  (adapter_expiry 5 max_int64 < 0)%Z /\
  let s := drun true true true true true true none_legacy none_legacy empty_store wrapped_threads
                (repeat 0 7 ++ repeat 1 12 ++ repeat 2 5 ++ repeat 3 2)%nat in
  map out (snd s) = [[RUpdated; RCreated 1]; [RCleaned 1; RErr EForbidden]; [RCreated 2]; [RRouted 1 host_a 2 2 22]].
Proof. split; vm_compute; reflexivity. Qed.

(* IsExpired treating every non-positive instant as "never expires": the same record is not expired, it would route forever *)
Definition is_expired_nonpositive_never (r : mrec) (now : N) : bool := negb (Z.leb (r_exp r) 0) && Z.ltb (r_exp r) (Z.of_N now).
Lemma nonpositive_never_refuted :
  let r := {| r_name := host_a; r_client := 1; r_target := 11; r_status := StActive; r_exp := adapter_expiry 5 max_int64 |} in
  is_expired_nonpositive_never r 5 = false /\ is_expired r 5 = true /\ is_active r 5 = false.
Proof. vm_compute. repeat split; reflexivity. Qed.

(* ---- a repository-level update whose payload names ANOTHER client ----------------------------------------------------------------
   client 1 owns "a.t.io"; caller 2 reads the record and sends it back with client_id 2 and its own target *)
Definition forged_threads : list thr :=
  [ init_thr 1 [OCreate nm_a nm_base 11] [];
    init_thr 2 [OUpdateF 1 (Some 2%Z) None StActive 0 66] [];
    init_thr 9 [OLookup host_a 5] [];
    init_thr 1 [ODelete (Abs 1)] [] ].
Definition forged_sched : list nat := (repeat 0 5 ++ repeat 1 3 ++ repeat 2 2 ++ repeat 3 7)%nat.

(* without the client_id comparison the update is accepted: the name now routes to client 2's target and its owner is refused *)
Lemma update_without_client_check_refuted :
  let s := drun true true true true true false none_legacy none_legacy empty_store forged_threads forged_sched in
  map out (snd s) = [[RCreated 1]; [RUpdated]; [RRouted 1 host_a 1 2 66]; [RErr EForbidden]].
Proof. vm_compute. reflexivity. Qed.

(* the code: the forged update is refused, the name keeps routing to client 1, which can delete its mapping *)
Lemma update_with_client_check_run :
  let s := drun true true true true true true none_legacy none_legacy empty_store forged_threads forged_sched in
  map out (snd s) = [[RCreated 1]; [RErr EInvalidReq]; [RRouted 1 host_a 1 1 11]; [RDeleted]].
Proof. vm_compute. reflexivity. Qed.

(* Proofs/DomainRefuted.v — C19: counter-examples for the variants the positive theorems exclude (computed witnesses),
   a concrete run of the repaired model, and the sequential completeness of an owner's delete. *)
From TX Require Import Model.Domain Proofs.Domain.
Local Open Scope N_scope.

Definition none_legacy : name -> option pmap := fun _ => None.

Definition nm_a : name := [97].                              (* "a" *)
Definition nm_b : name := [98].                              (* "b" *)
Definition nm_base : name := [116; 46; 105; 111].            (* "t.io" *)
Definition host_a : name := full_domain nm_a nm_base.        (* "a.t.io" *)
Definition host_a_port : name := host_a ++ [58; 56; 48].     (* "a.t.io:80" *)

Definition opt_id_eq (a b : option id) : bool :=
  match a, b with Some x, Some y => N.eqb x y | None, None => true | _, _ => false end.

(* some release in the log was performed on behalf of a mapping that did not hold the name at that moment *)
Fixpoint stale_release (l : list ev) : bool :=
  match l with
  | [] => false
  | EvRelease n i _ :: r => negb (opt_id_eq (holder n r) (Some i)) || stale_release r
  | _ :: r => stale_release r
  end.

Lemma log_ok_no_stale l : log_ok l -> stale_release l = false.
Proof.
  induction l as [|e r IH]; cbn; [reflexivity|]. destruct e; try tauto.
  intros (Hh & _ & Hr). rewrite Hh. cbn. rewrite N.eqb_refl. cbn. now apply IH.
Qed.

(* ---- the delete / re-claim race ------------------------------------------------------------------------------ *)
Definition race_threads : list thr :=
  [ init_thr 1 [OCreate nm_a nm_base 11; ODelete (Mine 0)] [];     (* owner: create, then delete *)
    init_thr 1 [ODelete (Abs 1)] [];                               (* a second delete of the same mapping (retry / cleanup task) *)
    init_thr 2 [OCreate nm_a nm_base 22] [];                       (* another client re-claims the released name *)
    init_thr 9 [OLookup host_a_port 5] [] ].

(* pinned DeleteMapping: Get, Delete index, Delete record, RemoveFromList *)
Definition race_sched_pinned : list nat := [0;0;0;0; 1; 0;0;0;0; 2;2;2;2; 1;1;1; 3;3]%nat.
(* repaired: create = SetNX counter, Incr, SetNX index, Set record, Append;
   delete = Get, SetNX guard, Get index, Delete index, Delete record, Delete guard, RemoveFromList *)
Definition race_sched_fixed : list nat := [0;0;0;0;0; 1; 0;0;0;0;0;0;0; 2;2;2;2;2; 1;1;1;1;1; 3;3]%nat.

Lemma race_threads_fresh : forall t, In t race_threads -> fresh_thr t.
Proof.
  intros t [<-|[<-|[<-|[<-|[]]]]]; (split; [reflexivity|split; reflexivity]).
Qed.

(* pinned code: client 2's create succeeds, its mapping is never deleted, yet the late second delete of mapping 1
   removes client 2's index entry: the name resolves to nothing and is claimable by a third party *)
Lemma pinned_delete_reclaim_refuted :
  let s := drun false true false none_legacy none_legacy empty_store race_threads race_sched_pinned in
  map out (snd s) = [[RDeleted; RCreated 1]; [RDeleted]; [RCreated 2]; [RErr ENotFound]] /\
  recs (fst s) 2 = Some {| r_name := host_a; r_client := 2; r_target := 22; r_status := StActive; r_exp := 0 |} /\
  idx (fst s) host_a = None /\
  stale_release (log (fst s)) = true.
Proof. vm_compute. repeat split; reflexivity. Qed.

(* the same callers on the repaired code, same race: the late delete finds the index pointing elsewhere and leaves it *)
Lemma fixed_delete_reclaim_run :
  let s := drun true true true none_legacy none_legacy empty_store race_threads race_sched_fixed in
  map out (snd s) = [[RDeleted; RCreated 1]; [RDeleted]; [RCreated 2]; [RRouted 1 host_a_port 2 2 22]] /\
  idx (fst s) host_a = Some 2 /\
  stale_release (log (fst s)) = false.
Proof. vm_compute. repeat split; reflexivity. Qed.

(* ---- id duplication: Incr as get-then-set (hybrid.Storage.Incr before d88dca0) ---------------------------------------------- *)
Definition dup_threads : list thr :=
  [ init_thr 1 [OCreate nm_a nm_base 11] []; init_thr 2 [OCreate nm_b nm_base 22] []; init_thr 9 [OLookup host_a 5] [] ].
Definition dup_sched : list nat := [0;1;0;1; 0;0;0; 1;1;1; 2;2]%nat.

(* both creates draw id 1; client 2's record overwrites client 1's; "a.t.io" — claimed by client 1 — routes to client 2 *)
Lemma nonatomic_incr_refuted :
  let s := drun true false false none_legacy none_legacy empty_store dup_threads dup_sched in
  map out (snd s) = [[RCreated 1]; [RCreated 1]; [RRouted 1 host_a 1 2 22]] /\
  In (EvClaim host_a 1 1) (log (fst s)).
Proof. vm_compute. split; [reflexivity|]. repeat (first [left; reflexivity | right]). Qed.

(* ---- id reuse: the counter key disappears (24h TTL on memory.Storage, restart of a cache-only counter) ---------- *)
Definition reset_threads : list thr :=
  [ init_thr 1 [OCreate nm_a nm_base 11] []; init_thr 7 [OResetCounter] []; init_thr 2 [OCreate nm_b nm_base 22] [];
    init_thr 9 [OLookup host_a 5] [] ].
Definition reset_sched : list nat := [0;0;0;0; 1; 2;2;2;2; 3;3]%nat.

Lemma counter_reset_refuted :
  let s := drun true true false none_legacy none_legacy empty_store reset_threads reset_sched in
  map out (snd s) = [[RCreated 1]; [RReset]; [RCreated 1]; [RRouted 1 host_a 1 2 22]] /\
  In (EvClaim host_a 1 1) (log (fst s)).
Proof. vm_compute. split; [reflexivity|]. repeat (first [left; reflexivity | right]). Qed.

(* the same callers on the repaired generateMappingID (counter key created without a deadline before Incr): the clock
   passing the default data TTL changes nothing, the second create draws id 2 and "a.t.io" still routes to client 1 *)
Definition reset_sched_fixed : list nat := [0;0;0;0;0; 1; 2;2;2;2;2; 3;3]%nat.
Lemma counter_reset_harmless_run :
  let s := drun true true true none_legacy none_legacy empty_store reset_threads reset_sched_fixed in
  map out (snd s) = [[RCreated 1]; [RReset]; [RCreated 2]; [RRouted 1 host_a 1 1 11]] /\
  cttl (fst s) = false /\ next (fst s) = 2.
Proof. vm_compute. repeat split; reflexivity. Qed.

(* ---- the expiry cleanup in a history: client 1's mapping is expired (by its own update), client 2's is not; the cleanup
   (any caller) removes exactly the expired one on behalf of client 1, and a caller with client id 0 / -1 trying to
   delete client 2's mapping is refused ------------------------------------------------------------------------- *)
Definition cleanup_threads : list thr :=
  [ init_thr 1 [OCreate nm_a nm_base 11; OUpdate 0 StActive 3 12] [];
    init_thr 2 [OCreate nm_b nm_base 22] [];
    init_thr 0 [ODelete (Abs 2); OCleanup 5; OCreate nm_a nm_base 66] [];
    init_thr (-1) [ODelete (Abs 2); ODelete (Abs 1)] [];
    init_thr 9 [OLookup host_a 5; OLookup (full_domain nm_b nm_base) 5] [] ].
Definition cleanup_sched : list nat :=
  (repeat 0 7 ++ repeat 1 5 ++ [2; 3] ++ repeat 2 12 ++ repeat 3 1 ++ repeat 2 2 ++ repeat 4 4)%nat.

Lemma cleanup_run :
  let s := drun true true true none_legacy none_legacy empty_store cleanup_threads cleanup_sched in
  map out (snd s) = [[RUpdated; RCreated 1]; [RCreated 2]; [RErr EValidation; RCleaned 1; RErr EForbidden];
                     [RDeleted; RErr EForbidden]; [RRouted 1 (full_domain nm_b nm_base) 2 2 22; RErr ENotFound]] /\
  idx (fst s) host_a = None /\ idx (fst s) (full_domain nm_b nm_base) = Some 2 /\ recs (fst s) 1 = None /\
  glist (fst s) = [2] /\ stale_release (log (fst s)) = false.
Proof. vm_compute. repeat split; reflexivity. Qed.

(* ---- an owner's delete, run to completion without interference and without storage failures ------------------ *)
Section Solo.
  Variables reg cloud : name -> option pmap.

  Fixpoint solo (k : nat) (t : thr) (s : shared) : thr * shared :=
    match k with
    | O => (t, s)
    | S k' => let '(t', s') := dstep true true true reg cloud t s in solo k' t' s'
    end.

  Lemma delete_alone c i m rest h o s :
    recs s i = Some m -> r_client m = c -> idx s (r_name m) = Some i -> rguard s i = false ->
    let t := {| cl := c; ops := ODelete (Abs i) :: rest; faults := []; pc := Idle; held := h; out := o |} in
    let '(t', s') := solo 7 t s in
    t' = {| cl := c; ops := rest; faults := []; pc := Idle; held := h; out := RDeleted :: o |} /\
    idx s' (r_name m) = None /\ recs s' i = None /\ rguard s' i = false /\
    log s' = EvRelease (r_name m) i c :: log s /\
    (forall n, n <> r_name m -> idx s' n = idx s n) /\ (forall j, j <> i -> recs s' j = recs s j).
  Proof.
    intros Hr Hc Hi Hg. cbn zeta.
    unfold solo, dstep.
    unfold decide; cbn.
    repeat (progress (rewrite ?Hr, ?Hc, ?Hg, ?Hi, ?N.eqb_refl, ?Z.eqb_refl; cbn)).
    split; [reflexivity|]. split; [apply upd_name_same|]. split; [apply upd_n_same|]. split; [apply upd_n_same|].
    split; [reflexivity|]. split; [intros n Hn; now apply upd_name_other|intros j Hj; now apply upd_n_other].
  Qed.
End Solo.

(* Proofs/Domain.v — C19: invariants of the domain-ownership model for every schedule, any number of callers.
   All results are about the repaired removal path (dfix = true) with an atomic id counter (atomic_incr = true);
   the other variants only get counter-examples (DomainRefuted.v). *)
From TX Require Import Model.Domain.
From Coq Require Import Lia.
Local Open Scope N_scope.

(* ------------------------------------------------------------------------------------------------ *)
(* basics                                                                                           *)
(* ------------------------------------------------------------------------------------------------ *)

Lemma name_eqb_refl a : name_eqb a a = true.
Proof. induction a as [|x a IH]; cbn; [reflexivity|]. now rewrite N.eqb_refl, IH. Qed.

Lemma name_eqb_eq a b : name_eqb a b = true <-> a = b.
Proof.
  split; [|intros ->; apply name_eqb_refl].
  revert b; induction a as [|x a IH]; intros [|y b] H; cbn in H; try discriminate; [reflexivity|].
  apply andb_prop in H. destruct H as [Hx Hr]. apply N.eqb_eq in Hx. subst y. f_equal. now apply IH.
Qed.

Lemma name_eqb_neq a b : name_eqb a b = false <-> a <> b.
Proof.
  split.
  - intros H E. subst b. rewrite name_eqb_refl in H. discriminate.
  - intros H. destruct (name_eqb a b) eqn:E; [|reflexivity]. apply name_eqb_eq in E. contradiction.
Qed.

Lemma upd_name_same {A} (m : name -> A) k v : upd_name m k v k = v.
Proof. unfold upd_name. now rewrite name_eqb_refl. Qed.
Lemma upd_name_other {A} (m : name -> A) k v x : x <> k -> upd_name m k v x = m x.
Proof. unfold upd_name. intros H. apply name_eqb_neq in H. now rewrite H. Qed.
Lemma upd_n_same {A} (m : N -> A) k v : upd_n m k v k = v.
Proof. unfold upd_n. now rewrite N.eqb_refl. Qed.
Lemma upd_n_other {A} (m : N -> A) k v x : x <> k -> upd_n m k v x = m x.
Proof. unfold upd_n. intros H. apply N.eqb_neq in H. now rewrite H. Qed.
Lemma upd_z_same {A} (m : Z -> A) k v : upd_z m k v k = v.
Proof. unfold upd_z. now rewrite Z.eqb_refl. Qed.
Lemma upd_z_other {A} (m : Z -> A) k v x : x <> k -> upd_z m k v x = m x.
Proof. unfold upd_z. intros H. apply Z.eqb_neq in H. now rewrite H. Qed.

Lemma holder_in n l i : holder n l = Some i -> exists c, In (EvClaim n i c) l.
Proof.
  induction l as [|e r IH]; cbn; [discriminate|].
  destruct e as [n' j c|n' j c|j c t].
  - destruct (name_eqb n n') eqn:E.
    + intros H. inversion H; subst. apply name_eqb_eq in E. subst. exists c. now left.
    + intros H. destruct (IH H) as [c' Hc]. exists c'. now right.
  - destruct (name_eqb n n'); [discriminate|]. intros H. destruct (IH H) as [c' Hc]. exists c'. now right.
  - intros H. destruct (IH H) as [c' Hc]. exists c'. now right.
Qed.

Lemma nth_error_split_upd {A} (l : list A) k x y :
  nth_error l k = Some x -> exists l1 l2, l = l1 ++ x :: l2 /\ upd_nth k y l = l1 ++ y :: l2.
Proof.
  revert k; induction l as [|h t IH]; intros [|k] H; cbn in *; try discriminate.
  - inversion H; subst. exists [], t. auto.
  - destruct (IH k H) as (l1 & l2 & E1 & E2). exists (h :: l1), l2. cbn. now rewrite <- E1, E2.
Qed.

Lemma NoDup_app_drop_mid {A} (a m b : list A) : NoDup (a ++ m ++ b) -> NoDup (a ++ b).
Proof.
  induction m as [|x m IH]; cbn; [auto|]. intros H. apply IH. now apply NoDup_remove_1 in H.
Qed.

Lemma NoDup_app_insert {A} (a b : list A) x : NoDup (a ++ b) -> ~ In x (a ++ b) -> NoDup (a ++ [x] ++ b).
Proof.
  intros H Hn. cbn. apply NoDup_Add with (a := x) (l := a ++ b); [|split; assumption].
  apply Add_app.
Qed.

Lemma NoDup_mid_notin {A} (a b : list A) x : NoDup (a ++ [x] ++ b) -> ~ In x (a ++ b).
Proof. cbn. intros H. now apply NoDup_remove_2 in H. Qed.

(* ------------------------------------------------------------------------------------------------ *)
(* the ghost log                                                                                    *)
(* ------------------------------------------------------------------------------------------------ *)

(* every claim of a name happens while nobody holds it; every release is performed on behalf of the mapping
   that holds the name, by the client that claimed it *)
Fixpoint log_ok (l : list ev) : Prop :=
  match l with
  | [] => True
  | EvClaim n i c :: r => holder n r = None /\ log_ok r
  | EvRelease n i c :: r => holder n r = Some i /\ In (EvClaim n i c) r /\ log_ok r
  | EvWrite _ _ _ :: r => log_ok r
  end.

Lemma log_ok_suffix l1 : forall l2, log_ok (l1 ++ l2) -> log_ok l2.
Proof.
  induction l1 as [|e l1 IH]; cbn; [auto|]. intros l2 H.
  destruct e; apply IH; tauto.
Qed.

Lemma log_ok_claim l1 l2 n i c : log_ok (l1 ++ EvClaim n i c :: l2) -> holder n l2 = None.
Proof. intros H. apply log_ok_suffix in H. cbn in H. tauto. Qed.

Lemma log_ok_release l1 l2 n i c :
  log_ok (l1 ++ EvRelease n i c :: l2) -> holder n l2 = Some i /\ In (EvClaim n i c) l2.
Proof. intros H. apply log_ok_suffix in H. cbn in H. tauto. Qed.

(* ------------------------------------------------------------------------------------------------ *)
(* invariant of the store                                                                           *)
(* ------------------------------------------------------------------------------------------------ *)

Definition ShInv (s : shared) : Prop :=
  (forall n, idx s n = holder n (log s)) /\
  log_ok (log s) /\
  (forall n i c, In (EvClaim n i c) (log s) -> own s i = Some (c, n)) /\
  (forall i, next s < i -> own s i = None) /\
  (forall i r, recs s i = Some r ->
     In (EvClaim (r_name r) i (r_client r)) (log s) /\ In (EvWrite i (r_client r) (r_target r)) (log s)) /\
  cttl s = false /\                   (* the counter key never carries a deadline: it cannot vanish *)
  (forall n i c, In (EvClaim n i c) (log s) -> (0 < c)%Z).   (* only real client ids (> 0) ever claim a name *)

Definition pre (a : act) (s : shared) : Prop :=
  match a with
  | ASetNext _ _ _ => False
  | AIncr _ _ => cexists s = true
  | AClaim n i c => idx s n = None /\ own s i = Some (c, n) /\ (0 < c)%Z
  | AWrite i r => In (EvClaim (r_name r) i (r_client r)) (log s)
  | AUnidx n i c => idx s n = Some i /\ In (EvClaim n i c) (log s)
  | _ => True
  end.

Lemma exec_reset_noop s : cttl s = false -> exec AReset s = s.
Proof. intros H. cbn. rewrite H, andb_false_r. reflexivity. Qed.

Lemma log_mono a s e : In e (log s) -> In e (log (exec a s)).
Proof.
  destruct a; cbn; auto.
  - destruct (cexists s && cttl s); auto.
  - destruct (cexists s); auto.
Qed.

Lemma own_mono a s i v : ShInv s -> pre a s -> own s i = Some v -> own (exec a s) i = Some v.
Proof.
  intros (_ & _ & _ & Hfresh & _) Hp Ho. destruct a; cbn in *; auto; try contradiction.
  - rewrite upd_n_other; [exact Ho|]. intros ->. rewrite Hfresh in Ho by lia. discriminate.
  - destruct (cexists s && cttl s); exact Ho.
  - destruct (cexists s); exact Ho.
Qed.

Lemma cexists_mono a s : ShInv s -> cexists s = true -> cexists (exec a s) = true.
Proof.
  intros (_ & _ & _ & _ & _ & Httl & _) He. destruct a; cbn; auto.
  - rewrite Httl, andb_false_r. exact He.
  - rewrite He. exact He.
Qed.

Lemma sh_step a s : ShInv s -> pre a s -> ShInv (exec a s).
Proof.
  intros (Hidx & Hok & Hown & Hfresh & Hrec & Httl & Hpos) Hp.
  destruct a; cbn in Hp; try contradiction; unfold ShInv; cbn [exec next cexists cttl glist idx recs lists rguard own log];
    try (split; [exact Hidx|split; [exact Hok|split; [exact Hown|split; [exact Hfresh|split; [exact Hrec|split; [exact Httl|exact Hpos]]]]]]).
  - (* AIncr *)
    split; [exact Hidx|split; [exact Hok|split; [|split; [|split; [exact Hrec|split; [rewrite Hp; exact Httl|exact Hpos]]]]]].
    + intros n0 i c0 Hin. rewrite upd_n_other; [now apply Hown|].
      intros ->. apply Hown in Hin. rewrite Hfresh in Hin by lia. discriminate.
    + intros i Hi. rewrite upd_n_other by lia. apply Hfresh. lia.
  - (* AReset: the key has no deadline, nothing happens *)
    rewrite Httl, andb_false_r.
    split; [exact Hidx|split; [exact Hok|split; [exact Hown|split; [exact Hfresh|split; [exact Hrec|split; [exact Httl|exact Hpos]]]]]].
  - (* AEnsure *)
    destruct (cexists s); cbn;
      (split; [exact Hidx|split; [exact Hok|split; [exact Hown|split; [exact Hfresh|split; [exact Hrec|split; [auto|exact Hpos]]]]]]).
  - (* AClaim *)
    destruct Hp as (Hfree & Ho & Hc0).
    split; [|split; [|split; [|split; [exact Hfresh|split; [|split; [exact Httl|]]]]]].
    + intros m. cbn. unfold upd_name. destruct (name_eqb m n); [reflexivity|apply Hidx].
    + cbn. split; [rewrite <- Hidx; exact Hfree|exact Hok].
    + intros n0 i0 c0 [E|Hin]; [inversion E; subst; exact Ho|now apply Hown].
    + intros i0 r Hr. destruct (Hrec i0 r Hr) as [H1 H2]. split; right; assumption.
    + intros n0 i0 c0 [E|Hin]; [inversion E; subst; exact Hc0|exact (Hpos _ _ _ Hin)].
  - (* AWrite *)
    split; [|split; [|split; [|split; [exact Hfresh|split; [|split; [exact Httl|]]]]]].
    + intros m. cbn. apply Hidx.
    + cbn. exact Hok.
    + intros n0 i0 c0 [E|Hin]; [discriminate|now apply Hown].
    + intros i0 r0 Hr. unfold upd_n in Hr. destruct (N.eqb i0 i) eqn:E.
      * apply N.eqb_eq in E. subst i0. inversion Hr; subst r0. split; [right; exact Hp|left; reflexivity].
      * destruct (Hrec i0 r0 Hr) as [H1 H2]. split; right; assumption.
    + intros n0 i0 c0 [E|Hin]; [discriminate|exact (Hpos _ _ _ Hin)].
  - (* AUnidx *)
    destruct Hp as [Hmine Hcl].
    split; [|split; [|split; [|split; [exact Hfresh|split; [|split; [exact Httl|]]]]]].
    + intros m. cbn. unfold upd_name. destruct (name_eqb m n); [reflexivity|apply Hidx].
    + cbn. split; [rewrite <- Hidx; exact Hmine|split; [exact Hcl|exact Hok]].
    + intros n0 i0 c0 [E|Hin]; [discriminate|now apply Hown].
    + intros i0 r Hr. destruct (Hrec i0 r Hr) as [H1 H2]. split; right; assumption.
    + intros n0 i0 c0 [E|Hin]; [discriminate|exact (Hpos _ _ _ Hin)].
  - (* ADelRec *)
    split; [exact Hidx|split; [exact Hok|split; [exact Hown|split; [exact Hfresh|split; [|split; [exact Httl|exact Hpos]]]]]].
    intros i0 r Hr. unfold upd_n in Hr. destruct (N.eqb i0 i); [discriminate|]. now apply Hrec.
Qed.

(* no stored mapping carries a client id <= 0 *)
Lemma stored_client_positive s i r : ShInv s -> recs s i = Some r -> (0 < r_client r)%Z.
Proof.
  intros (_ & _ & _ & _ & Hrec & _ & Hpos) Hr. destruct (Hrec _ _ Hr) as [H1 _]. exact (Hpos _ _ _ H1).
Qed.

(* one mapping id indexes at most one name, and belongs to one client *)
Lemma claim_functional s n i c n' c' :
  ShInv s -> In (EvClaim n i c) (log s) -> In (EvClaim n' i c') (log s) -> n = n' /\ c = c'.
Proof.
  intros (_ & _ & Hown & _) H1 H2. apply Hown in H1. apply Hown in H2. rewrite H1 in H2. inversion H2. auto.
Qed.

Lemma idx_injective s n n' i : ShInv s -> idx s n = Some i -> idx s n' = Some i -> n = n'.
Proof.
  intros Hs H1 H2. pose proof Hs as (Hidx & _). rewrite Hidx in H1, H2.
  destruct (holder_in _ _ _ H1) as [c Hc]. destruct (holder_in _ _ _ H2) as [c' Hc'].
  now destruct (claim_functional s n i c n' c' Hs Hc Hc').
Qed.

(* ------------------------------------------------------------------------------------------------ *)
(* invariant of one caller                                                                          *)
(* ------------------------------------------------------------------------------------------------ *)

Definition pc_ok (s : shared) (c : client) (p : pcT) : Prop :=
  match p with
  | Idle => True
  | PCIncr _ _ _ => cexists s = true
  | PCSetNX i n _ => own s i = Some (c, n) /\ (0 < c)%Z
  | PCSetRec i n _ => In (EvClaim n i c) (log s)
  | PCAppend i n => In (EvClaim n i c) (log s)
  | PCRm _ who i n st _ => In (EvClaim n i who) (log s) /\ (st = RmDelIdx -> idx s n = Some i)
  | PCDList _ => True
  | PCUSet i n who _ _ _ => In (EvClaim n i who) (log s)
  | PCUFGet _ _ _ _ _ _ => True
  | PCLRec h n i _ => n = extractDomain h /\ exists c', In (EvClaim n i c') (log s)
  | PCClScan _ _ _ => True
  | PCClDGet _ _ => True
  | PCClDList _ _ _ _ => True
  | _ => False                      (* pcs of the pinned / non-atomic variants are never entered *)
  end.

(* a repository-sourced routing answer names a client that claimed exactly that domain under exactly that
   mapping id, with a target that client wrote for that mapping *)
Definition res_ok (s : shared) (r : res) : Prop :=
  match r with
  | RRouted src h i c t =>
      src = 1 -> In (EvClaim (extractDomain h) i c) (log s) /\ In (EvWrite i c t) (log s)
  | _ => True
  end.

Definition H_ok (s : shared) (t : thr) : Prop := forall i n, In (i, n) (held t) -> In (EvClaim n i (cl t)) (log s).
Definition O_ok (s : shared) (t : thr) : Prop := forall r, In r (out t) -> res_ok s r.

Definition ThrOk (s : shared) (t : thr) : Prop :=
  H_ok s t /\ O_ok s t /\ pc_ok s (cl t) (pc t).

Lemma res_ok_mono a s r : res_ok s r -> res_ok (exec a s) r.
Proof. destruct r; cbn; auto. intros H E. destruct (H E). split; now apply log_mono. Qed.
Lemma H_ok_mono a s t : H_ok s t -> H_ok (exec a s) t.
Proof. intros H i n Hin. apply log_mono. now apply H. Qed.
Lemma O_ok_mono a s t : O_ok s t -> O_ok (exec a s) t.
Proof. intros H r Hin. apply res_ok_mono. now apply H. Qed.

Lemma ok_finish s t fs r : H_ok s t -> O_ok s t -> res_ok s r -> ThrOk s (finish t fs r).
Proof.
  intros Hh Ho Hr. unfold ThrOk, finish, H_ok, O_ok; cbn.
  split; [exact Hh|split; [|exact I]].
  intros r0 [<-|Hin]; [exact Hr|now apply Ho].
Qed.

Lemma ok_goto s t fs p : H_ok s t -> O_ok s t -> pc_ok s (cl t) p -> ThrOk s (goto t fs p).
Proof. intros Hh Ho Hp. unfold ThrOk, goto, H_ok, O_ok; cbn. auto. Qed.

Lemma ok_finish_created s t fs i n :
  H_ok s t -> O_ok s t -> In (EvClaim n i (cl t)) (log s) -> ThrOk s (finish_created t fs i n).
Proof.
  intros Hh Ho Hc. unfold ThrOk, finish_created, H_ok, O_ok; cbn.
  split; [|split; [|exact I]].
  - intros i0 n0 [E|Hin]; [inversion E; subst; exact Hc|now apply Hh].
  - intros r0 [<-|Hin]; [exact I|now apply Ho].
Qed.

(* what an action of ANOTHER caller cannot break *)
Lemma idx_stable a s n i :
  pre a s -> idx s n = Some i -> (forall n' i' c', a = AUnidx n' i' c' -> i' <> i) -> idx (exec a s) n = Some i.
Proof.
  intros Hp Hi Hne. destruct a; cbn in *; auto.
  - destruct (cexists s && cttl s); exact Hi.
  - destruct (cexists s); exact Hi.
  - destruct Hp as [Hfree _]. rewrite upd_name_other; [exact Hi|]. intros ->. congruence.
  - destruct Hp as [Hmine _]. rewrite upd_name_other; [exact Hi|]. intros ->.
    rewrite Hmine in Hi. inversion Hi. subst. now apply (Hne n0 i c).
Qed.

Lemma thr_stable a s x :
  ShInv s -> pre a s -> ThrOk s x -> (forall n i c, a = AUnidx n i c -> ~ In i (guards_of x)) -> ThrOk (exec a s) x.
Proof.
  intros Hs Hp (Hh & Ho & Hpc) Hg.
  split; [now apply H_ok_mono|split; [now apply O_ok_mono|]].
  unfold guards_of in Hg. destruct (pc x) as [| | | | | |k who i n st e| | | | | | | | | | |]; cbn in *; try contradiction; auto.
  - now apply cexists_mono.
  - destruct Hpc as [Hq Hc0]. split; [now apply own_mono|exact Hc0].
  - now apply log_mono.
  - now apply log_mono.
  - destruct Hpc as [Hc Hi]. split; [now apply log_mono|]. intros ->.
    apply idx_stable; [exact Hp|now apply Hi|]. intros n' i' c' ->. specialize (Hg n' i' c' eq_refl). cbn in Hg. intros E. apply Hg. left. now symmetry.
  - now apply log_mono.
  - destruct Hpc as [E (c' & Hc)]. split; [exact E|]. exists c'. now apply log_mono.
Qed.

(* how a step of a caller changes the set of removal guards it holds *)
Definition guard_rel (t t' : thr) (a : act) (s : shared) : Prop :=
  match a with
  | ATake i => guards_of t = [] /\ guards_of t' = [i] /\ rguard s i = false
  | ADrop i => guards_of t = [i] /\ guards_of t' = []
  | AUnidx _ i _ => guards_of t = [i] /\ guards_of t' = [i]
  | _ => guards_of t' = guards_of t \/ guards_of t' = []
  end.

(* ------------------------------------------------------------------------------------------------ *)
(* one step of one caller                                                                           *)
(* ------------------------------------------------------------------------------------------------ *)

Section Steps.
  Variables reg cloud : name -> option pmap.

  Lemma legacy_ok s src h p now : src <> 1 -> res_ok s (legacy_result src h p now).
  Proof.
    intros Hs. unfold legacy_result.
    destruct (negb (p_active p)); [exact I|]. destruct (p_revoked p); [exact I|].
    destruct (negb (N.eqb (p_exp p) 0) && N.ltb (p_exp p) now); [exact I|].
    cbn. intros E. contradiction.
  Qed.

  Lemma fallback_ok s h n now : res_ok s (fallback reg cloud h n now).
  Proof.
    unfold fallback. destruct (reg n); [apply legacy_ok; discriminate|].
    destruct (cloud n); [apply legacy_ok; discriminate|exact I].
  Qed.

  Lemma ok_cl_del s t fs dels cnt :
    H_ok s t -> O_ok s t -> ThrOk s (cl_del t fs dels cnt) /\ guards_of (cl_del t fs dels cnt) = [].
  Proof.
    intros Hh Ho. unfold cl_del. destruct dels; split; try reflexivity; [apply ok_finish|apply ok_goto]; auto; exact I.
  Qed.

  Lemma ok_cl_scan_next s t fs now todo acc :
    H_ok s t -> O_ok s t -> ThrOk s (cl_scan_next t fs now todo acc) /\ guards_of (cl_scan_next t fs now todo acc) = [].
  Proof.
    intros Hh Ho. unfold cl_scan_next. destruct todo; [now apply ok_cl_del|].
    split; [apply ok_goto; auto; exact I|reflexivity].
  Qed.

  Lemma ok_rm_end s t fs k who i e :
    H_ok s t -> O_ok s t -> ThrOk s (rm_end t fs k who i e) /\ guards_of (rm_end t fs k who i e) = [].
  Proof.
    intros Hh Ho. unfold rm_end. destruct k as [| |rest cnt].
    - split; [apply ok_finish; auto; exact I|reflexivity].
    - destruct e; split; try reflexivity; [apply ok_finish|apply ok_goto]; auto; exact I.
    - destruct e; [now apply ok_cl_del|]. split; [apply ok_goto; auto; exact I|reflexivity].
  Qed.

  Lemma guards_finish t fs r : guards_of (finish t fs r) = [].
  Proof. reflexivity. Qed.

  (* conclusion of decide_ok, as a predicate so that each program counter gets its own lemma *)
  Definition step_ok (s : shared) (t : thr) (x : thr * act) : Prop :=
    pre (snd x) s /\ ThrOk (exec (snd x) s) (fst x) /\ guard_rel t (fst x) (snd x) s.

  (* the common shape "finish with an error / a storage-free answer, no action" *)
  Lemma step_finish s t fs r :
    H_ok s t -> O_ok s t -> res_ok s r -> step_ok s t (finish t fs r, ANone).
  Proof.
    intros Hh Ho Hr. unfold step_ok; cbn [fst snd]. split; [exact I|split; [|cbn; right; reflexivity]].
    cbn [exec]. now apply ok_finish.
  Qed.

  Lemma step_goto_none s t fs p :
    H_ok s t -> O_ok s t -> pc_ok s (cl t) p ->
    (guards_of (goto t fs p) = guards_of t \/ guards_of (goto t fs p) = []) -> step_ok s t (goto t fs p, ANone).
  Proof.
    intros Hh Ho Hp Hg. unfold step_ok; cbn [fst snd]. split; [exact I|split; [|exact Hg]].
    cbn [exec]. now apply ok_goto.
  Qed.

  Lemma decide_ok s t : ShInv s -> ThrOk s t -> step_ok s t (decide true true true true true true reg cloud t s).
  Proof.
    intros Hs (Hh & Ho & Hpc). pose proof Hs as (Hidx & Hlok & Hown & Hfresh & Hrec & Httl & Hpos).
    unfold decide. destruct (next_fault t) as [f fs].
    destruct (pc t) as [|sub base tgt|v sub base tgt|i n tgt|i n tgt|i n|k who i n st e|i n|i n|i n|i|i|i n who st ex tgt|h n i now|now todo acc|dels cnt|c i rest cnt|i n c st ex tgt] eqn:Epc;
      cbn in Hpc; try contradiction.
    - (* Idle *)
      destruct (ops t) as [|o rest] eqn:Eops.
      { unfold step_ok; cbn [fst snd exec]. split; [exact I|split; [|cbn; left; reflexivity]].
        unfold ThrOk. rewrite Epc. cbn. auto. }
      destruct o as [sub base tgt|r|k st ex tgt|h now|now| |i0 vc vn st ex tgt].
      + (* create: SetNX of the counter key *)
        destruct f; [apply step_finish; auto; exact I|].
        unfold step_ok; cbn [fst snd]. split; [exact I|].
        split; [|cbn; unfold guards_of; rewrite Epc; cbn; left; reflexivity].
        apply ok_goto; auto using H_ok_mono, O_ok_mono. cbn [pc_ok exec]. destruct (cexists s) eqn:Ece; [exact Ece|reflexivity].
      + (* delete: Get record *)
        destruct f; [apply step_finish; auto; exact I|].
        destruct (recs s (resolve t r)) as [m|] eqn:Er; [|apply step_finish; auto; exact I].
        destruct (negb (Z.eqb (r_client m) (cl t))) eqn:Ec; [apply step_finish; auto; exact I|].
        apply negb_false_iff, Z.eqb_eq in Ec.
        apply step_goto_none; [assumption|assumption| |].
        * cbn. split; [|discriminate]. destruct (Hrec _ _ Er) as [H1 _]. rewrite Ec in H1. exact H1.
        * unfold guards_of. rewrite Epc. cbn. left; reflexivity.
      + (* update: Get record *)
        destruct (nth k (held t) (0, [])) as [i n] eqn:En.
        destruct f; [apply step_finish; auto; exact I|].
        destruct (recs s i) as [m|] eqn:Er; [|apply step_finish; auto; exact I].
        destruct (negb (name_eqb (r_name m) n && Z.eqb (r_client m) (cl t))) eqn:Ec; [apply step_finish; auto; exact I|].
        destruct (N.eqb tgt 0); [apply step_finish; auto; exact I|].
        apply negb_false_iff, andb_prop in Ec. destruct Ec as [E1 E2].
        apply name_eqb_eq in E1. apply Z.eqb_eq in E2.
        apply step_goto_none; [assumption|assumption| |].
        * cbn. destruct (Hrec _ _ Er) as [H1 _]. rewrite E1, E2 in H1. exact H1.
        * unfold guards_of. rewrite Epc. cbn. left; reflexivity.
      + (* lookup: Get index *)
        destruct f; [apply step_finish; auto; exact I|].
        destruct (idx s (extractDomain h)) as [i|] eqn:Ei; [|apply step_finish; auto; apply fallback_ok].
        apply step_goto_none; [assumption|assumption| |].
        * cbn. split; [reflexivity|]. rewrite Hidx in Ei. exact (holder_in _ _ _ Ei).
        * unfold guards_of. rewrite Epc. cbn. left; reflexivity.
      + (* cleanup: GetList of the global list *)
        destruct f; [apply step_finish; auto; exact I|].
        destruct (ok_cl_scan_next s t fs now (glist s) [] Hh Ho) as [H1 H2].
        unfold step_ok; cbn [fst snd exec]. split; [exact I|split; [exact H1|cbn; right; exact H2]].
      + (* the clock passes the counter's deadline: it has none *)
        unfold step_ok; cbn [fst snd]. split; [exact I|split; [|cbn [guard_rel]; right; reflexivity]].
        apply ok_finish; auto using H_ok_mono, O_ok_mono; try exact I.
      + (* forged update: GetMapping *)
        destruct f; [apply step_finish; auto; exact I|].
        destruct (recs s i0) as [m|]; [|apply step_finish; auto; exact I].
        apply step_goto_none; [assumption|assumption|exact I|].
        unfold guards_of. rewrite Epc. cbn. left; reflexivity.
    - (* Incr *)
      unfold incr_step. destruct f; [apply step_finish; auto; exact I|].
      unfold step_ok; cbn [fst snd]. split; [exact Hpc|]. unfold after_incr.
      destruct (valid_create (cl t) sub tgt) eqn:Ev.
      * split; [|cbn; unfold guards_of; rewrite Epc; cbn; left; reflexivity].
        apply ok_goto; auto using H_ok_mono, O_ok_mono. cbn. split; [apply upd_n_same|].
        unfold valid_create in Ev. apply andb_prop in Ev. destruct Ev as [Ev _]. apply andb_prop in Ev. destruct Ev as [Ev _].
        now apply Z.ltb_lt in Ev.
      * split; [|cbn; right; reflexivity]. apply ok_finish; auto using H_ok_mono, O_ok_mono; try exact I.
    - (* SetNX on the index *)
      destruct f; [apply step_finish; auto; exact I|].
      destruct (idx s n) as [j|] eqn:Ei; [apply step_finish; auto; exact I|].
      destruct Hpc as [Hq Hc0].
      unfold step_ok; cbn [fst snd]. split; [split; [exact Ei|split; assumption]|].
      split; [|cbn; unfold guards_of; rewrite Epc; cbn; left; reflexivity].
      apply ok_goto; auto using H_ok_mono, O_ok_mono. cbn. now left.
    - (* Set record *)
      destruct f.
      + unfold rollback_after_setrec. apply step_goto_none; [assumption|assumption| |].
 * cbn. split; [exact Hpc|discriminate].
 * unfold guards_of. rewrite Epc. cbn. left; reflexivity.
      + unfold step_ok; cbn [fst snd]. split; [exact Hpc|].
        split; [|cbn; unfold guards_of; rewrite Epc; cbn; left; reflexivity].
        apply ok_goto; auto using H_ok_mono, O_ok_mono. cbn. right. exact Hpc.
    - (* Append to the client list *)
      destruct f.
      + unfold rollback_after_append. apply step_goto_none; [assumption|assumption| |].
 * cbn. split; [exact Hpc|discriminate].
 * unfold guards_of. rewrite Epc. cbn. left; reflexivity.
      + unfold step_ok; cbn [fst snd]. split; [exact I|split; [|cbn; right; reflexivity]].
        apply ok_finish_created; auto using H_ok_mono, O_ok_mono.
    - (* removeMappingKeys *)
      destruct Hpc as [Hc Hi].
      destruct st.
      + (* SetNX guard *)
        assert (Hend : forall err, step_ok s t (rm_end t fs k who i err, ANone)).
        { intros err. destruct (ok_rm_end s t fs k who i err Hh Ho) as [H1 H2].
          unfold step_ok; cbn [fst snd exec]. split; [exact I|split; [exact H1|cbn; right; exact H2]]. }
        destruct f; [apply Hend|]. destruct (rguard s i) eqn:Eg; [apply Hend|].
        unfold step_ok; cbn [fst snd]. split; [exact I|split].
        * apply ok_goto; auto using H_ok_mono, O_ok_mono. cbn. split; [exact Hc|discriminate].
        * cbn. unfold guards_of. rewrite Epc. cbn. auto.
      + (* Get index *)
        destruct f.
        { apply step_goto_none; [assumption|assumption|cbn; split; [exact Hc|discriminate]|].
          unfold guards_of. rewrite Epc. cbn. left; reflexivity. }
        destruct (idx s n) as [j|] eqn:Ei.
        * destruct (N.eqb j i) eqn:Ej.
          -- apply N.eqb_eq in Ej. subst j. apply step_goto_none; [assumption|assumption|cbn; split; [exact Hc|intros _; exact Ei]|].
             unfold guards_of. rewrite Epc. cbn. left; reflexivity.
          -- apply step_goto_none; [assumption|assumption|cbn; split; [exact Hc|discriminate]|].
             unfold guards_of. rewrite Epc. cbn. left; reflexivity.
        * apply step_goto_none; [assumption|assumption|cbn; split; [exact Hc|discriminate]|].
          unfold guards_of. rewrite Epc. cbn. left; reflexivity.
      + (* Delete index *)
        destruct f.
        { apply step_goto_none; [assumption|assumption|cbn; split; [exact Hc|discriminate]|].
          unfold guards_of. rewrite Epc. cbn. left; reflexivity. }
        unfold step_ok; cbn [fst snd]. split; [split; [now apply Hi|exact Hc]|split].
        * apply ok_goto; auto using H_ok_mono, O_ok_mono. cbn. split; [right; exact Hc|discriminate].
        * cbn. unfold guards_of. rewrite Epc. cbn. auto.
      + (* Delete record *)
        destruct f.
        { apply step_goto_none; [assumption|assumption|cbn; split; [exact Hc|discriminate]|].
          unfold guards_of. rewrite Epc. cbn. left; reflexivity. }
        unfold step_ok; cbn [fst snd]. split; [exact I|split].
        * apply ok_goto; auto using H_ok_mono, O_ok_mono. cbn. split; [exact Hc|discriminate].
        * cbn. unfold guards_of. rewrite Epc. cbn. left; reflexivity.
      + (* release the guard *)
        destruct f.
        * destruct (ok_rm_end s t fs k who i e Hh Ho) as [H1 H2].
          unfold step_ok; cbn [fst snd exec]. split; [exact I|split; [exact H1|cbn; right; exact H2]].
        * destruct (ok_rm_end (exec (ADrop i) s) t fs k who i e) as [H1 H2]; auto using H_ok_mono, O_ok_mono.
          unfold step_ok; cbn [fst snd]. split; [exact I|split; [exact H1|]].
          cbn. unfold guards_of at 1. rewrite Epc. cbn. auto.
    - (* Remove from the client list (and, ungated, from the global list) *)
      destruct f; (unfold step_ok; cbn [fst snd]; split; [exact I|split; [|cbn; right; reflexivity]];
                   apply ok_finish; auto using H_ok_mono, O_ok_mono; try exact I).
    - (* update: Set record *)
      destruct f; [apply step_finish; auto; exact I|].
      unfold step_ok; cbn [fst snd]. split; [exact Hpc|split; [|cbn; right; reflexivity]].
      apply ok_finish; auto using H_ok_mono, O_ok_mono; try exact I.
    - (* lookup: Get record *)
      destruct Hpc as [En (c' & Hc')].
      destruct f; [apply step_finish; auto; exact I|].
      destruct (recs s i) as [m|] eqn:Er; [|apply step_finish; auto; apply fallback_ok].
      destruct (is_active m now); [|destruct (is_expired m now); apply step_finish; auto; exact I].
      apply step_finish; auto. cbn. intros _.
      destruct (Hrec _ _ Er) as [H1 H2].
      destruct (claim_functional s _ _ _ _ _ Hs H1 Hc') as [E1 _].
      rewrite <- En, <- E1. split; assumption.
    - (* cleanup: GetMapping of the next listed id *)
      destruct todo as [|i rest].
      { destruct (ok_cl_del s t fs (rev acc) 0 Hh Ho) as [H1 H2].
        unfold step_ok; cbn [fst snd exec]. split; [exact I|split; [exact H1|cbn; right; exact H2]]. }
      destruct f.
      { destruct (ok_cl_scan_next s t fs now rest acc Hh Ho) as [H1 H2].
        unfold step_ok; cbn [fst snd exec]. split; [exact I|split; [exact H1|cbn; right; exact H2]]. }
      destruct (recs s i) as [m|].
      + destruct (ok_cl_scan_next s t fs now rest (if is_expired m now then (i, r_client m) :: acc else acc) Hh Ho) as [H1 H2].
        unfold step_ok; cbn [fst snd exec]. split; [exact I|split; [exact H1|cbn; right; exact H2]].
      + destruct (ok_cl_scan_next (exec (AGRemove i) s) t fs now rest acc) as [H1 H2]; auto using H_ok_mono, O_ok_mono.
        unfold step_ok; cbn [fst snd]. split; [exact I|split; [exact H1|cbn [guard_rel]; right; exact H2]].
    - (* cleanup: DeleteMapping(id, snapshot's client): Get record *)
      destruct dels as [|[i c] rest]; [apply step_finish; auto; exact I|].
      assert (Hskip : forall n, step_ok s t (cl_del t fs rest n, ANone)).
      { intros n. destruct (ok_cl_del s t fs rest n Hh Ho) as [H1 H2].
        unfold step_ok; cbn [fst snd exec]. split; [exact I|split; [exact H1|cbn; right; exact H2]]. }
      destruct f; [apply Hskip|].
      destruct (recs s i) as [m|] eqn:Er; [|apply Hskip].
      destruct (negb (Z.eqb (r_client m) c)) eqn:Ec; [apply Hskip|].
      apply negb_false_iff, Z.eqb_eq in Ec.
      apply step_goto_none; [assumption|assumption| |].
      * cbn. split; [|discriminate]. destruct (Hrec _ _ Er) as [H1 _]. rewrite Ec in H1. exact H1.
      * unfold guards_of. rewrite Epc. cbn. left; reflexivity.
    - (* cleanup: Remove from the owner's list (and the global list) *)
      destruct f.
      + destruct (ok_cl_del (exec (AGRemove i) s) t fs rest (cnt + 1)) as [H1 H2]; auto using H_ok_mono, O_ok_mono.
        unfold step_ok; cbn [fst snd]. split; [exact I|split; [exact H1|cbn [guard_rel]; right; exact H2]].
      + destruct (ok_cl_del (exec (ARemove c i) s) t fs rest (cnt + 1)) as [H1 H2]; auto using H_ok_mono, O_ok_mono.
        unfold step_ok; cbn [fst snd]. split; [exact I|split; [exact H1|cbn [guard_rel]; right; exact H2]].
    - (* UpdateMapping with a forged payload: accepted only if name AND client id are the stored ones *)
      destruct f; [apply step_finish; auto; exact I|].
      destruct (recs s i) as [m|] eqn:Er; [|apply step_finish; auto; exact I].
      destruct (negb (name_eqb (r_name m) n && Z.eqb (r_client m) c)) eqn:Ec; [apply step_finish; auto; exact I|].
      destruct (N.eqb tgt 0 || negb (Z.ltb 0 c)); [apply step_finish; auto; exact I|].
      apply negb_false_iff, andb_prop in Ec. destruct Ec as [E1 E2].
      apply name_eqb_eq in E1. apply Z.eqb_eq in E2.
      apply step_goto_none; [assumption|assumption| |].
      * cbn. destruct (Hrec _ _ Er) as [H1 _]. rewrite E1, E2 in H1. exact H1.
      * unfold guards_of. rewrite Epc. cbn. left; reflexivity.
  Qed.
End Steps.

(* ------------------------------------------------------------------------------------------------ *)
(* the system: any number of callers, any schedule                                                  *)
(* ------------------------------------------------------------------------------------------------ *)

Section Sys.
  Variables reg cloud : name -> option pmap.
  Notation dstepF := (dstep true true true true true true reg cloud).

  Definition GInv (s : shared * list thr) : Prop :=
    ShInv (fst s) /\
    NoDup (all_guards (snd s)) /\
    (forall i, In i (all_guards (snd s)) -> rguard (fst s) i = true) /\
    (forall t, In t (snd s) -> ThrOk (fst s) t).

  Lemma all_guards_app a b : all_guards (a ++ b) = all_guards a ++ all_guards b.
  Proof. unfold all_guards. apply flat_map_app. Qed.

  Lemma guards_incl x l : In x l -> incl (guards_of x) (all_guards l).
  Proof.
    intros Hin i Hi. unfold all_guards. apply in_flat_map. exists x. auto.
  Qed.

  Lemma rguard_exec a s i :
    rguard (exec a s) i = match a with
                          | ATake j => if N.eqb i j then true else rguard s i
                          | ADrop j => if N.eqb i j then false else rguard s i
                          | _ => rguard s i
                          end.
  Proof.
    destruct a; try reflexivity; cbn.
    - destruct (cexists s && cttl s); reflexivity.
    - destruct (cexists s); reflexivity.
  Qed.

  Lemma ginv_step s k : GInv s -> GInv (sys_step _ _ dstepF s k).
  Proof.
    destruct s as [sh ls]. unfold GInv, sys_step. cbn [fst snd].
    intros (Hs & Hnd & Hmk & Hth).
    destruct (nth_error ls k) as [t|] eqn:Ek; [|cbn; auto].
    unfold dstep. destruct (decide true true true true true true reg cloud t sh) as [t' a] eqn:Ed. cbn [fst snd].
    destruct (nth_error_split_upd ls k t t' Ek) as (l1 & l2 & El & Eu). rewrite Eu. subst ls.
    assert (Ht : ThrOk sh t) by (apply Hth, in_or_app; right; now left).
    pose proof (decide_ok reg cloud sh t Hs Ht) as Hok. rewrite Ed in Hok.
    destruct Hok as (Hpre & Hok' & Hgr). cbn [fst snd] in *.
    rewrite all_guards_app in *. cbn [all_guards flat_map] in *. fold (all_guards l2) in *.
    set (g1 := all_guards l1) in *. set (g2 := all_guards l2) in *.
    (* callers other than the one that moved *)
    assert (Hother : forall x, In x (l1 ++ l2) -> incl (guards_of x) (g1 ++ g2)).
    { intros x Hx i Hi. apply in_app_or in Hx. apply in_or_app.
      destruct Hx as [Hx|Hx]; [left|right]; exact (guards_incl x _ Hx i Hi). }
    assert (Hthr : forall x, In x (l1 ++ l2) -> (forall n i c, a = AUnidx n i c -> ~ In i (g1 ++ g2)) -> ThrOk (exec a sh) x).
    { intros x Hx Hg. apply thr_stable; auto.
      - apply Hth. apply in_app_or in Hx. apply in_or_app. destruct Hx; [left|right; right]; assumption.
      - intros n i c E Hi. apply (Hg n i c E). exact (Hother x Hx i Hi). }
    assert (Hsplit : forall x, In x (l1 ++ t' :: l2) -> x = t' \/ In x (l1 ++ l2)).
    { intros x Hx. apply in_app_or in Hx. destruct Hx as [Hx|[Hx|Hx]]; [right; apply in_or_app; now left|now left|right; apply in_or_app; now right]. }
    split; [now apply sh_step|].
    destruct a; cbn [guard_rel] in Hgr.
    all: try solve [
      destruct Hgr as [Hg|Hg]; rewrite Hg;
      ((split; [|split]);
       [ first [exact Hnd | exact (NoDup_app_drop_mid _ _ _ Hnd)]
       | intros i0 Hi; rewrite rguard_exec; apply Hmk;
         first [exact Hi | (apply in_app_or in Hi; apply in_or_app; destruct Hi as [Hi|Hi]; [left; exact Hi|right; apply in_or_app; right; exact Hi])]
       | intros x Hx; destruct (Hsplit x Hx) as [->|Hx']; [exact Hok'|apply Hthr; [exact Hx'|intros; discriminate]] ]) ].
    - (* ATake *)
      destruct Hgr as (Hg0 & Hg1 & Hfree). rewrite Hg0 in Hnd, Hmk. rewrite Hg1. cbn [app] in Hnd, Hmk.
      assert (Hni : ~ In i (g1 ++ g2)) by (intros Hin; apply Hmk in Hin; congruence).
      split; [exact (NoDup_app_insert _ _ _ Hnd Hni)|split].
      + intros j Hj. rewrite rguard_exec. destruct (N.eqb j i) eqn:E; [reflexivity|].
        apply Hmk. apply in_app_or in Hj. apply in_or_app. destruct Hj as [Hj|[Hj|Hj]]; [now left| |now right].
        apply N.eqb_neq in E. congruence.
      + intros x Hx. destruct (Hsplit x Hx) as [->|Hx']; [exact Hok'|apply Hthr; [exact Hx'|intros; discriminate]].
    - (* ADrop *)
      destruct Hgr as (Hg0 & Hg1). rewrite Hg0 in Hnd, Hmk. rewrite Hg1. cbn [app].
      pose proof (NoDup_mid_notin _ _ _ Hnd) as Hni.
      split; [exact (NoDup_app_drop_mid _ _ _ Hnd)|split].
      + intros j Hj. rewrite rguard_exec. destruct (N.eqb j i) eqn:E.
        * apply N.eqb_eq in E. subst j. contradiction.
        * apply Hmk. apply in_app_or in Hj. apply in_or_app. destruct Hj as [Hj|Hj]; [now left|right; now right].
      + intros x Hx. destruct (Hsplit x Hx) as [->|Hx']; [exact Hok'|apply Hthr; [exact Hx'|intros; discriminate]].
    - (* AUnidx *)
      destruct Hgr as (Hg0 & Hg1). rewrite Hg0 in Hnd, Hmk. rewrite Hg1.
      pose proof (NoDup_mid_notin _ _ _ Hnd) as Hni.
      split; [exact Hnd|split].
      + intros j Hj. rewrite rguard_exec. now apply Hmk.
      + intros x Hx. destruct (Hsplit x Hx) as [->|Hx']; [exact Hok'|apply Hthr; [exact Hx'|]].
        intros n0 i0 c0 E. inversion E; subst. exact Hni.
  Qed.

  (* callers at the start: idle, nothing created yet, scripts without counter loss *)
  Definition fresh_thr (t : thr) : Prop := pc t = Idle /\ held t = [] /\ out t = [].

  Lemma shinv_empty : ShInv empty_store.
  Proof.
    unfold ShInv, empty_store; cbn. split; [reflexivity|split; [exact I|split; [intros n i c []|split; [reflexivity|split; [discriminate|split; [reflexivity|intros n i c []]]]]]].
  Qed.

  Lemma ginv_init ts : (forall t, In t ts -> fresh_thr t) -> GInv (empty_store, ts).
  Proof.
    intros Hf. assert (Hg : all_guards ts = []).
    { unfold all_guards. induction ts as [|t r IH]; cbn; [reflexivity|].
      destruct (Hf t (or_introl eq_refl)) as (Hp & _). unfold guards_of at 1. rewrite Hp. cbn.
      apply IH. intros x Hx. apply Hf. now right. }
    unfold GInv; cbn [fst snd]. rewrite Hg.
    split; [exact shinv_empty|split; [constructor|split; [intros i []|]]].
    intros t Ht. destruct (Hf t Ht) as (Hp & Hh & Ho).
    unfold ThrOk, H_ok, O_ok. rewrite Hp, Hh, Ho. cbn. split; [intros i n []|split; [intros r []|exact I]].
  Qed.

  Theorem ginv_all_schedules ts sched :
    (forall t, In t ts -> fresh_thr t) -> GInv (drun true true true true true true reg cloud empty_store ts sched).
  Proof.
    intros Hf. unfold drun. apply inv_all_schedules; [intros s i; apply ginv_step|now apply ginv_init].
  Qed.
End Sys.

(* ------------------------------------------------------------------------------------------------ *)
(* extractDomain                                                                                    *)
(* ------------------------------------------------------------------------------------------------ *)

Lemma cut_none r : cut_last_colon r = None <-> ~ In colon r.
Proof.
  induction r as [|c t IH]; cbn; [tauto|].
  destruct (N.eqb c colon) eqn:E.
  - apply N.eqb_eq in E. split; [discriminate|]. intros H. exfalso. apply H. now left.
  - apply N.eqb_neq in E. rewrite IH. split; [intros H [H1|H1]; [congruence|contradiction]|intros H H1; apply H; now right].
Qed.

Lemma cut_some r t : cut_last_colon r = Some t -> exists p, r = p ++ colon :: t /\ ~ In colon p.
Proof.
  revert t; induction r as [|c r IH]; cbn; [discriminate|]. intros t.
  destruct (N.eqb c colon) eqn:E.
  - apply N.eqb_eq in E. intros H. inversion H; subst. exists []. cbn. auto.
  - apply N.eqb_neq in E. intros H. destruct (IH t H) as (p & -> & Hp). exists (c :: p). split; [reflexivity|].
    intros [H1|H1]; [congruence|contradiction].
Qed.

(* the result is the host itself (no ':' in it) or the host minus exactly one ":suffix" whose suffix has no ':' *)
Lemma extract_spec h :
  (extractDomain h = h /\ ~ In colon h) \/
  (exists p, h = extractDomain h ++ colon :: p /\ ~ In colon p).
Proof.
  unfold extractDomain. destruct (cut_last_colon (rev h)) as [t|] eqn:E.
  - right. destruct (cut_some _ _ E) as (p & Hr & Hp). exists (rev p). split.
    + rewrite <- (rev_involutive h), Hr, rev_app_distr. cbn. now rewrite <- app_assoc.
    + intros Hin. apply Hp. now apply in_rev.
  - left. split; [reflexivity|]. apply cut_none in E. intros Hin. apply E. now apply in_rev in Hin.
Qed.

Lemma extract_no_colon h : ~ In colon h -> extractDomain h = h.
Proof.
  intros H. unfold extractDomain. replace (cut_last_colon (rev h)) with (@None (list N)); [reflexivity|].
  symmetry. apply cut_none. intros Hin. apply H. now apply in_rev.
Qed.

Lemma cut_app_nocolon p t : ~ In colon p -> cut_last_colon (p ++ colon :: t) = Some t.
Proof.
  induction p as [|c p IH]; cbn [app cut_last_colon]; intros H.
  - now rewrite N.eqb_refl.
  - destruct (N.eqb c colon) eqn:E; [apply N.eqb_eq in E; exfalso; apply H; now left|].
    apply IH. intros Hin. apply H. now right.
Qed.

(* exactly one ":port" suffix is stripped *)
Lemma extract_strip_port d p : ~ In colon p -> extractDomain (d ++ colon :: p) = d.
Proof.
  intros H. unfold extractDomain. rewrite rev_app_distr. cbn. rewrite <- app_assoc. cbn.
  rewrite cut_app_nocolon; [apply rev_involutive|]. intros Hin. apply H. now apply in_rev in Hin.
Qed.

(* the only Host spellings that resolve to a name n are n itself (when it has no ':') and n:<suffix without ':'> —
   an upper-case spelling, a trailing dot, an IPv6 literal resolve to a DIFFERENT key or to none, never to n *)
Lemma extract_only_own_spellings h n :
  extractDomain h = n -> (h = n /\ ~ In colon n) \/ (exists p, h = n ++ colon :: p /\ ~ In colon p).
Proof.
  intros <-. destruct (extract_spec h) as [[E Hn]|(p & E & Hp)].
  - left. rewrite E. auto.
  - right. exists p. auto.
Qed.

(* ------------------------------------------------------------------------------------------------ *)
(* consequences                                                                                     *)
(* ------------------------------------------------------------------------------------------------ *)

Section Consequences.
  Variables reg cloud : name -> option pmap.

  Lemma legacy_not_repo src h p now h' i c tg : src <> 1 -> legacy_result src h p now <> RRouted 1 h' i c tg.
  Proof.
    intros Hs. unfold legacy_result.
    destruct (negb (p_active p)); [discriminate|]. destruct (p_revoked p); [discriminate|].
    destruct (negb (N.eqb (p_exp p) 0) && N.ltb (p_exp p) now); [discriminate|].
    intros E. inversion E. contradiction.
  Qed.

  Lemma fallback_not_repo h n now h' i c tg : fallback reg cloud h n now <> RRouted 1 h' i c tg.
  Proof.
    unfold fallback. destruct (reg n); [apply legacy_not_repo; discriminate|].
    destruct (cloud n); [apply legacy_not_repo; discriminate|discriminate].
  Qed.

  Lemma is_active_spec r now :
    is_active r now = true <-> r_status r = StActive /\ (r_exp r = 0%Z \/ (Z.of_N now <= r_exp r)%Z).
  Proof.
    unfold is_active, is_expired. destruct (r_status r); try (split; [discriminate|intros [H _]; discriminate]).
    destruct (Z.eqb_spec (r_exp r) 0) as [E|E]; cbn.
    - split; auto.
    - destruct (Z.ltb_spec (r_exp r) (Z.of_N now)) as [L|L]; cbn; split; try discriminate; auto.
      intros [_ [H|H]]; [contradiction|lia].
  Qed.

  (* an expiry instant in the past — a NEGATIVE one included — is expired at every time; only 0 means "never" *)
  Lemma past_expiry_is_expired r now : r_exp r <> 0%Z -> (r_exp r < Z.of_N now)%Z -> is_expired r now = true /\ is_active r now = false.
  Proof.
    intros H0 Hl. assert (E : is_expired r now = true).
    { unfold is_expired. apply Z.eqb_neq in H0. rewrite H0. apply Z.ltb_lt in Hl. rewrite Hl. reflexivity. }
    split; [exact E|]. unfold is_active. rewrite E. destruct (r_status r); reflexivity.
  Qed.

  Lemma negative_expiry_is_expired r now : (r_exp r < 0)%Z -> is_expired r now = true /\ is_active r now = false.
  Proof. intros H. apply past_expiry_is_expired; lia. Qed.

  (* the adapter's expiry for an over-large ttl wraps to a negative instant: such a mapping is expired from birth *)
  Lemma adapter_expiry_wraps now ttl :
    (Z.of_N now < two63)%Z -> (0 <= ttl < two63)%Z -> (two63 <= Z.of_N now + ttl)%Z -> (adapter_expiry now ttl < 0)%Z.
  Proof.
    intros Hn Ht Ho. unfold adapter_expiry, wrap64, two63 in *.
    replace (Z.of_N now + ttl + 9223372036854775808)%Z with ((Z.of_N now + ttl - 9223372036854775808) + 1 * (2 * 9223372036854775808))%Z by lia.
    rewrite Z.mod_add by lia. rewrite Z.mod_small by lia. lia.
  Qed.

  Lemma adapter_expiry_in_range now ttl :
    (0 <= Z.of_N now + ttl < two63)%Z -> adapter_expiry now ttl = (Z.of_N now + ttl)%Z.
  Proof. intros H. unfold adapter_expiry, wrap64, two63 in *. rewrite Z.mod_small by lia. lia. Qed.

  (* the whole lookup on one state: a repository answer names the current holder of exactly that domain, the client
     that claimed it, a target that client wrote, and an active, unexpired record *)
  Lemma lookup_now_owner s h now h' i c tg :
    ShInv s -> lookup_now reg cloud s h now = RRouted 1 h' i c tg ->
    h' = h /\ holder (extractDomain h) (log s) = Some i /\
    In (EvClaim (extractDomain h) i c) (log s) /\ In (EvWrite i c tg) (log s) /\
    exists r, recs s i = Some r /\ r_client r = c /\ r_target r = tg /\ is_active r now = true.
  Proof.
    intros Hs. pose proof Hs as (Hidx & _ & _ & _ & Hrec & _). unfold lookup_now.
    destruct (idx s (extractDomain h)) as [j|] eqn:Ei; [|intros E; exfalso; exact (fallback_not_repo _ _ _ _ _ _ _ E)].
    destruct (recs s j) as [m|] eqn:Er; [|intros E; exfalso; exact (fallback_not_repo _ _ _ _ _ _ _ E)].
    destruct (is_active m now) eqn:Ea; [|destruct (is_expired m now); discriminate].
    intros E. inversion E; subst. rewrite Hidx in Ei.
    destruct (Hrec _ _ Er) as [H1 H2]. destruct (holder_in _ _ _ Ei) as [c' Hc'].
    destruct (claim_functional s _ _ _ _ _ Hs H1 Hc') as [E1 _]. rewrite E1 in H1.
    split; [reflexivity|split; [exact Ei|split; [exact H1|split; [exact H2|]]]].
    exists m. auto.
  Qed.

  (* a name nobody holds: the index has no entry, no Host resolves to it through the repository, and the claim
     step of ANY client's create succeeds *)
  Lemma free_name_reclaimable s n :
    ShInv s -> holder n (log s) = None ->
    idx s n = None /\
    (forall h now h' i c tg, extractDomain h = n -> lookup_now reg cloud s h now <> RRouted 1 h' i c tg) /\
    (forall t i tgt fs, pc t = PCSetNX i n tgt -> next_fault t = (false, fs) ->
       decide true true true true true true reg cloud t s = (goto t fs (PCSetRec i n tgt), AClaim n i (cl t))).
  Proof.
    intros Hs Hh. pose proof Hs as (Hidx & _). assert (Hi : idx s n = None) by (rewrite Hidx; exact Hh).
    split; [exact Hi|split].
    - intros h now h' i c tg E. unfold lookup_now. rewrite E, Hi. apply fallback_not_repo.
    - intros t i tgt fs Hp Hf. unfold decide. rewrite Hf, Hp, Hi. reflexivity.
  Qed.

  (* right after a release the name is free *)
  Lemma release_frees s n i c l : log s = EvRelease n i c :: l -> holder n (log s) = None.
  Proof. intros ->. cbn. now rewrite name_eqb_refl. Qed.

  (* DeleteMapping by a client that does not own the record: refused, the store is untouched *)
  Lemma foreign_delete_refused t s r rest m fs :
    pc t = Idle -> ops t = ODelete r :: rest -> next_fault t = (false, fs) ->
    recs s (resolve t r) = Some m -> r_client m <> cl t ->
    dstep true true true true true true reg cloud t s = (finish t fs (RErr EForbidden), s).
  Proof.
    intros Hp Ho Hf Hr Hc. unfold dstep, decide. rewrite Hf, Hp, Ho, Hr.
    apply Z.eqb_neq in Hc. rewrite Hc. reflexivity.
  Qed.

  (* second read of a lookup: an inactive or expired record is an error, not a fall-through to the other sources *)
  Lemma inactive_or_expired_step t s h n i now m fs :
    pc t = PCLRec h n i now -> next_fault t = (false, fs) -> recs s i = Some m -> is_active m now = false ->
    dstep true true true true true true reg cloud t s =
      (finish t fs (RErr (if is_expired m now then EForbidden else EUnavailable)), s).
  Proof.
    intros Hp Hf Hr Ha. unfold dstep, decide. rewrite Hf, Hp, Hr, Ha. destruct (is_expired m now); reflexivity.
  Qed.

  (* DeleteMapping called with a client id that is not a real client (0 = connection not bound to a client, or negative):
     refused on every stored mapping, the store is untouched — no stored mapping carries such an id *)
  Lemma unbound_delete_refused t s r rest m fs :
    ShInv s -> pc t = Idle -> ops t = ODelete r :: rest -> next_fault t = (false, fs) ->
    recs s (resolve t r) = Some m -> (cl t <= 0)%Z ->
    dstep true true true true true true reg cloud t s = (finish t fs (RErr EForbidden), s).
  Proof.
    intros Hs Hp Ho Hf Hr Hc. apply (foreign_delete_refused t s r rest m fs Hp Ho Hf Hr).
    pose proof (stored_client_positive s _ _ Hs Hr). lia.
  Qed.

  (* CreateMapping by such an id draws an id and is then refused by validation: nothing is claimed or stored *)
  Lemma unbound_create_refused t s sub base tgt fs :
    pc t = PCIncr sub base tgt -> next_fault t = (false, fs) -> (cl t <= 0)%Z ->
    dstep true true true true true true reg cloud t s =
      (finish t fs (RErr EValidation), exec (AIncr (cl t) (full_domain sub base)) s).
  Proof.
    intros Hp Hf Hc. unfold dstep, decide. rewrite Hf, Hp. unfold incr_step, after_incr, valid_create.
    replace (Z.ltb 0 (cl t)) with false by (symmetry; apply Z.ltb_ge; exact Hc). reflexivity.
  Qed.

  (* the expiry cleanup only ever selects mappings it has read as expired; the others are left alone *)
  Lemma cleanup_skips_unexpired t s now i rest acc m fs :
    pc t = PCClScan now (i :: rest) acc -> next_fault t = (false, fs) -> recs s i = Some m -> is_expired m now = false ->
    dstep true true true true true true reg cloud t s = (cl_scan_next t fs now rest acc, s).
  Proof.
    intros Hp Hf Hr He. unfold dstep, decide. rewrite Hf, Hp, Hr, He. reflexivity.
  Qed.

  (* ... and it deletes with the mapping's own client id: a record whose owner changed in between is skipped *)
  Lemma cleanup_acts_as_owner t s i c rest cnt m fs :
    pc t = PCClDGet ((i, c) :: rest) cnt -> next_fault t = (false, fs) -> recs s i = Some m -> r_client m <> c ->
    dstep true true true true true true reg cloud t s = (cl_del t fs rest cnt, s).
  Proof.
    intros Hp Hf Hr Hc. unfold dstep, decide. rewrite Hf, Hp, Hr. apply Z.eqb_neq in Hc. rewrite Hc. reflexivity.
  Qed.

  Lemma cons_neq {A} (x : A) (l : list A) : l <> x :: l.
  Proof. intros E. apply (f_equal (@length A)) in E. cbn in E. lia. Qed.

  Lemma fallback_shape h n now src h' i c tg :
    fallback reg cloud h n now = RRouted src h' i c tg ->
    h' = h /\ exists p, ((reg n = Some p /\ src = 2) \/ (reg n = None /\ cloud n = Some p /\ src = 3)) /\
                       p_id p = i /\ p_client p = c /\ p_target p = tg /\
                       p_active p = true /\ p_revoked p = false /\ (p_exp p = 0 \/ now <= p_exp p).
  Proof.
    unfold fallback, legacy_result.
    assert (G : forall src0 p, (if negb (p_active p) then RErr EUnavailable
                 else if p_revoked p then RErr EForbidden
                 else if negb (N.eqb (p_exp p) 0) && N.ltb (p_exp p) now then RErr EForbidden
                 else RRouted src0 h (p_id p) (p_client p) (p_target p)) = RRouted src h' i c tg ->
                 h' = h /\ src0 = src /\ p_id p = i /\ p_client p = c /\ p_target p = tg /\
                 p_active p = true /\ p_revoked p = false /\ (p_exp p = 0 \/ now <= p_exp p)).
    { intros src0 p. destruct (p_active p); cbn; [|discriminate]. destruct (p_revoked p); [discriminate|].
      destruct (N.eqb_spec (p_exp p) 0) as [E0|E0]; cbn.
      - intros E. inversion E; subst. repeat split; auto.
      - destruct (N.ltb_spec (p_exp p) now) as [L|L]; cbn; [discriminate|].
        intros E. inversion E; subst. repeat split; auto. }
    destruct (reg n) as [p|] eqn:Er.
    - intros E. destruct (G _ _ E) as (H1 & H2 & H3). split; [exact H1|]. exists p. split; [left; auto|exact H3].
    - destruct (cloud n) as [p|] eqn:Ec; [|discriminate].
      intros E. destruct (G _ _ E) as (H1 & H2 & H3). split; [exact H1|]. exists p. split; [right; auto|exact H3].
  Qed.

  (* the only step that can answer "routed from the repository" is the second read of a lookup, on a record that is
     active and unexpired at the lookup time; the answer is that record's client and target *)
  Lemma routed_only_from_active t s t' a h i c tg :
    decide true true true true true true reg cloud t s = (t', a) -> out t' = RRouted 1 h i c tg :: out t ->
    exists m n now, pc t = PCLRec h n i now /\ recs s i = Some m /\ is_active m now = true /\
                    c = r_client m /\ tg = r_target m.
  Proof.
    unfold decide, incr_step, after_incr, rollback_after_setrec, rollback_after_append, rm_end, cl_scan_next, cl_del.
    destruct (next_fault t) as [f fs].
    destruct (pc t) as [|sub base tgt|v sub base tgt|i0 n tgt|i0 n tgt|i0 n|k who i0 n st e|i0 n|i0 n|i0 n|i0|i0|i0 n who0 st ex tgt|h0 n i0 now|now todo acc|dels cnt|c0 i0 rest cnt|i0 n c0 st ex tgt] eqn:Epc.
    all: repeat match goal with
                | |- context [match ?x with _ => _ end] => destruct x eqn:?
                end.
    all: intros E; inversion E; subst; clear E; cbn [out finish goto finish_created]; intros H.
    all: try (exfalso; exact (cons_neq _ _ H)).
    all: try (injection H as H; try discriminate).
    all: try (exfalso; eapply fallback_not_repo; eassumption).
    all: try discriminate.
    inversion H; subst. eauto 10.
  Qed.

  (* a lookup is answered from a legacy source only when the repository has no mapping for the name at that read: no index
     entry (first read) or no record behind the index entry (second read); the answer is then the registry's entry for that
     very name, else cloud control's, and only if that entry is active, not revoked and unexpired *)
  Lemma legacy_answer_only_without_repository_mapping t s t' a src h i c tg :
    decide true true true true true true reg cloud t s = (t', a) -> out t' = RRouted src h i c tg :: out t -> src <> 1 ->
    exists n now,
      fst (next_fault t) = false /\          (* the repository read of this step did NOT fail *)
      ((pc t = Idle /\ n = extractDomain h /\ idx s n = None) \/ (exists j, pc t = PCLRec h n j now /\ recs s j = None)) /\
      exists p, ((reg n = Some p /\ src = 2) \/ (reg n = None /\ cloud n = Some p /\ src = 3)) /\
                p_id p = i /\ p_client p = c /\ p_target p = tg /\
                p_active p = true /\ p_revoked p = false /\ (p_exp p = 0 \/ now <= p_exp p).
  Proof.
    unfold decide, incr_step, after_incr, rollback_after_setrec, rollback_after_append, rm_end, cl_scan_next, cl_del.
    destruct (next_fault t) as [f fs].
    destruct (pc t) as [|sub base tgt|v sub base tgt|i0 n tgt|i0 n tgt|i0 n|k who i0 n st e|i0 n|i0 n|i0 n|i0|i0|i0 n who0 st ex tgt|h0 n i0 now|now todo acc|dels cnt|c0 i0 rest cnt|i0 n c0 st ex tgt] eqn:Epc.
    all: repeat match goal with
                | |- context [match ?x with _ => _ end] => destruct x eqn:?
                end.
    all: intros E; inversion E; subst; clear E; cbn [out finish goto finish_created]; intros H Hsrc.
    all: try (exfalso; exact (cons_neq _ _ H)).
    all: try (injection H as H; try discriminate).
    all: try (inversion H; subst; contradiction).
    all: try discriminate.
    all: match goal with
         | H : fallback reg cloud ?h0 ?n0 ?now0 = RRouted _ _ _ _ _ |- _ =>
             destruct (fallback_shape _ _ _ _ _ _ _ _ H) as (-> & p & Hp); exists n0, now0; split; [reflexivity|split; [|exists p; exact Hp]]
         end.
    - left. auto.
    - right. eauto.
  Qed.

  (* a lookup whose repository read fails (either of its two reads) is answered with that error: no source answers *)
  Lemma faulted_lookup_rejected t s fs :
    next_fault t = (true, fs) ->
    ((exists h now rest, pc t = Idle /\ ops t = OLookup h now :: rest) \/ (exists h n i now, pc t = PCLRec h n i now)) ->
    dstep true true true true true true reg cloud t s = (finish t fs (RErr EStorage), s).
  Proof.
    intros Hf [(h & now & rest & Hp & Ho)|(h & n & i & now & Hp)]; unfold dstep, decide; rewrite Hf, Hp; [rewrite Ho|]; reflexivity.
  Qed.


  (* UpdateMapping never changes the owner: a payload whose client id (or name) differs from the stored record's is refused,
     the store is untouched *)
  Lemma update_cannot_change_owner t s i n c st ex tgt m fs :
    pc t = PCUFGet i n c st ex tgt -> next_fault t = (false, fs) -> recs s i = Some m ->
    (c <> r_client m \/ n <> r_name m) ->
    dstep true true true true true true reg cloud t s = (finish t fs (RErr EInvalidReq), s).
  Proof.
    intros Hp Hf Hr Hd. unfold dstep, decide. rewrite Hf, Hp, Hr.
    replace (name_eqb (r_name m) n && Z.eqb (r_client m) c) with false; [reflexivity|].
    symmetry. apply andb_false_iff. destruct Hd as [Hd|Hd].
    - right. apply Z.eqb_neq. congruence.
    - left. apply name_eqb_neq. congruence.
  Qed.

  Section Reach.
    Variables (ts : list thr) (sched : list nat).
    Hypothesis Hfresh : forall t, In t ts -> fresh_thr t.
    Let s := drun true true true true true true reg cloud empty_store ts sched.

    Lemma reach_shinv : ShInv (fst s).
    Proof. exact (proj1 (ginv_all_schedules reg cloud ts sched Hfresh)). Qed.

    Lemma reach_counter_no_deadline : cttl (fst s) = false.
    Proof. destruct reach_shinv as (_ & _ & _ & _ & _ & H & _). exact H. Qed.

    Lemma reach_real_clients_only :
      (forall n i c, In (EvClaim n i c) (log (fst s)) -> (0 < c)%Z) /\
      (forall n i c, In (EvRelease n i c) (log (fst s)) -> (0 < c)%Z) /\
      (forall i r, recs (fst s) i = Some r -> (0 < r_client r)%Z).
    Proof.
      pose proof reach_shinv as Hs. pose proof Hs as (_ & Hok & _ & _ & _ & _ & Hpos).
      split; [exact Hpos|split].
      - intros n i c Hin. apply in_split in Hin. destruct Hin as (l1 & l2 & E). rewrite E in Hok.
        destruct (log_ok_release _ _ _ _ _ Hok) as [_ Hc]. apply (Hpos n i c). rewrite E. apply in_or_app. right. now right.
      - intros i r. apply stored_client_positive. exact Hs.
    Qed.

    Lemma reach_unbound_delete_refused t r rest m fs :
      pc t = Idle -> ops t = ODelete r :: rest -> next_fault t = (false, fs) ->
      recs (fst s) (resolve t r) = Some m -> (cl t <= 0)%Z ->
      dstep true true true true true true reg cloud t (fst s) = (finish t fs (RErr EForbidden), fst s).
    Proof. apply unbound_delete_refused. exact reach_shinv. Qed.

    (* in reachable states the second read of a lookup is for the name the Host resolves to *)
    Lemma reach_lookup_pc t h n j now : In t (snd s) -> pc t = PCLRec h n j now -> n = extractDomain h.
    Proof.
      intros Ht Hp. destruct (ginv_all_schedules reg cloud ts sched Hfresh) as (_ & _ & _ & Hth).
      destruct (Hth t Ht) as (_ & _ & Hpc). rewrite Hp in Hpc. cbn in Hpc. tauto.
    Qed.

    Lemma single_owner :
      (forall n, idx (fst s) n = holder n (log (fst s))) /\
      (forall l1 l2 n i c, log (fst s) = l1 ++ EvClaim n i c :: l2 -> holder n l2 = None) /\
      (forall l1 l2 n i c, log (fst s) = l1 ++ EvRelease n i c :: l2 -> holder n l2 = Some i /\ In (EvClaim n i c) l2) /\
      (forall n n' i, idx (fst s) n = Some i -> idx (fst s) n' = Some i -> n = n') /\
      (forall n i c n' c', In (EvClaim n i c) (log (fst s)) -> In (EvClaim n' i c') (log (fst s)) -> n = n' /\ c = c').
    Proof.
      pose proof reach_shinv as Hs. pose proof Hs as (Hidx & Hok & _).
      split; [exact Hidx|split; [|split; [|split]]].
      - intros l1 l2 n i c E. rewrite E in Hok. exact (log_ok_claim _ _ _ _ _ Hok).
      - intros l1 l2 n i c E. rewrite E in Hok. exact (log_ok_release _ _ _ _ _ Hok).
      - intros n n' i. apply idx_injective. exact Hs.
      - intros n i c n' c'. apply claim_functional. exact Hs.
    Qed.

    Lemma routes_to_owner_or_rejects t h i c tg :
      In t (snd s) -> In (RRouted 1 h i c tg) (out t) ->
      In (EvClaim (extractDomain h) i c) (log (fst s)) /\ In (EvWrite i c tg) (log (fst s)) /\
      (forall n' c', In (EvClaim n' i c') (log (fst s)) -> n' = extractDomain h /\ c' = c).
    Proof.
      intros Ht Hr. destruct (ginv_all_schedules reg cloud ts sched Hfresh) as (Hs & _ & _ & Hth).
      destruct (Hth t Ht) as (_ & Ho & _). specialize (Ho _ Hr). cbn in Ho. destruct (Ho eq_refl) as [H1 H2].
      split; [exact H1|split; [exact H2|]]. intros n' c' H3.
      destruct (claim_functional _ _ _ _ _ _ Hs H1 H3). auto.
    Qed.

    Lemma lookup_now_reach h now h' i c tg :
      lookup_now reg cloud (fst s) h now = RRouted 1 h' i c tg ->
      h' = h /\ holder (extractDomain h) (log (fst s)) = Some i /\
      In (EvClaim (extractDomain h) i c) (log (fst s)) /\ In (EvWrite i c tg) (log (fst s)) /\
      exists r, recs (fst s) i = Some r /\ r_client r = c /\ r_target r = tg /\ is_active r now = true.
    Proof. apply lookup_now_owner. exact reach_shinv. Qed.

    Lemma deleted_stops_routing_and_is_reclaimable n i c l :
      log (fst s) = EvRelease n i c :: l ->
      In (EvClaim n i c) l /\
      idx (fst s) n = None /\
      (forall h now h' i' c' tg, extractDomain h = n -> lookup_now reg cloud (fst s) h now <> RRouted 1 h' i' c' tg) /\
      (forall t i' tgt fs, pc t = PCSetNX i' n tgt -> next_fault t = (false, fs) ->
         decide true true true true true true reg cloud t (fst s) = (goto t fs (PCSetRec i' n tgt), AClaim n i' (cl t))).
    Proof.
      intros E. pose proof reach_shinv as Hs. pose proof Hs as (_ & Hok & _).
      split.
      - rewrite E in Hok. cbn in Hok. tauto.
      - apply free_name_reclaimable; [exact Hs|]. exact (release_frees _ _ _ _ _ E).
    Qed.
  End Reach.
End Consequences.

Example fresh_premises :
  forall t, In t [init_thr 1 [OCreate [97] [116] 11; ODelete (Mine 0)] []; init_thr 1 [ODelete (Abs 1); OResetCounter] [false; true];
                  init_thr 2 [OCreate [97] [116] 22; OLookup [97; 46; 116; 58; 56; 48] 5] []] -> fresh_thr t.
Proof.
  intros t [<-|[<-|[<-|[]]]]; (split; [reflexivity|split; reflexivity]).
Qed.

(* Proofs/HybridLock.v — C14, the repaired step decomposition (fixes/C14-writeback-key-lock.diff + C14-list-rmw-key-lock.diff):
   every mutation and every list read-modify-write holds the key's lock; a cache miss on a two-tier key takes the lock,
   re-checks the cache, reads the persistent tier and fills the cache synchronously.  For EVERY key class, any number of
   callers, EVERY schedule of tier calls and lock acquisitions: the completed operations, in completion order, form a legal
   history of ONE register (no stale read, no resurrected key, no lost list update); whenever the key lock is free the cache
   tier holds nothing or exactly what the persistent tier holds. *)
From TX Require Import Model.Hybrid Model.HybridNodes Proofs.Hybrid Proofs.HybridOne.
From Coq Require Import Lia.

(* ---- frame lemmas ---- *)
Lemma tget_wr_other w t k o t' k' : t <> t' -> tget (wr w t k o) t' k' = tget w t' k'.
Proof. intros H. destruct t, t'; try congruence; reflexivity. Qed.
Lemma tget_set_lock w k b t k' : tget (set_lock w k b) t k' = tget w t k'.
Proof. destruct t; reflexivity. Qed.
Lemma locks_wr w t k o : w_locks (wr w t k o) = w_locks w.
Proof. destruct t; reflexivity. Qed.
Lemma locks_set_same w k b : w_locks (set_lock w k b) k = b.
Proof. cbn. now rewrite keq_refl. Qed.
Lemma hist_set_lock w k b : w_hist (set_lock w k b) = w_hist w.
Proof. reflexivity. Qed.

Inductive hstep (st : option value) (h : list (nat * op * res)) : option value -> list (nat * op * res) -> Prop :=
| hs_same : hstep st h st h
| hs_op i o : hstep st h (fst (spec_op st o)) ((i, o, snd (spec_op st o)) :: h)
| hs_exp i k r : exp_res_ok st r -> hstep st h st ((i, OSetExp k, r) :: h).

Lemma hstep_lin init h st st' h' : linearized init h st -> hstep st h st' h' -> linearized init h' st'.
Proof. intros Hl Hs. destruct Hs; [exact Hl|constructor; exact Hl|apply lin_exp; assumption]. Qed.

Section Lock.
  Variable T : tables.
  Variable c : cfg.
  Hypothesis Hfi : fix_incr c = true.
  Hypothesis Hfn : fix_setnx c = true.
  Hypothesis Hwb : fix_wb c = true.
  Hypothesis Hfl : fix_list c = true.
  Hypothesis Hexp : exp_locked c = true.       (* SetExpiration holds the key lock from its read to its write *)
  Variable k : kbytes.
  Let ct := cache_tier_for_key T c k.

  Lemma ct_ne : ct <> TPers.
  Proof. unfold ct, cache_tier_for_key, sp_cache. destruct (category T k), (has_shared c); discriminate. Qed.
  Lemma ct_ne' : TPers <> ct.
  Proof. intros H. apply ct_ne. now symmetry. Qed.

  Definition kv_like (o : op) : bool := match o with OSet _ _ | OGet _ | ODel _ | OAppend _ _ | ORemove _ _ | OSetExp _ => true | _ => false end.
  Definition lop_ok (o : op) : Prop := op_key o = k /\ (two_tier T c k = true -> kv_like o = true).
  Definition reads_list (o : op) : bool := match o with OGet _ | OAppend _ _ | ORemove _ _ => true | _ => false end.

  Definition cview (st C : option value) : Prop := if two_tier T c k then (C = None \/ C = st) else C = st.
  Definition pview (st P : option value) : Prop := two_tier T c k = true -> P = st.

  Definition cinv (cl : caller) (st C P : option value) : Prop :=
    faults cl = [] /\ Forall lop_ok (ops cl) /\
    match held cl, cpc cl, cur cl with
    | false, PIdle, None => True
    | false, PWant PBegin, Some o => lop_ok o /\ locks_op c o = true
    | false, PWant (PGetRecheck k' ct'), Some (OGet k'') => k' = k /\ ct' = ct /\ k'' = k /\ two_tier T c k = true
    | true, PBegin, Some o => lop_ok o /\ locks_op c o = true /\ cview st C /\ pview st P
    | true, PGetRecheck k' ct', Some (OGet k'') => k' = k /\ ct' = ct /\ k'' = k /\ two_tier T c k = true /\ cview st C /\ pview st P
    | true, PGetPersL k' ct', Some o => k' = k /\ ct' = ct /\ lop_ok o /\ reads_list o = true /\ two_tier T c k = true /\ C = None /\ P = st
    | true, PGetFill k' ct' v, Some o => k' = k /\ ct' = ct /\ lop_ok o /\ reads_list o = true /\ two_tier T c k = true /\ C = None /\ P = st /\ st = Some v
    | true, PSetStart k' v, Some o => k' = k /\ lop_ok o /\ is_list_op o = true /\ cview st C /\ pview st P /\ spec_op st o = (Some v, ROk)
    | true, PSetCache k' v ct', Some o => k' = k /\ ct' = ct /\ lop_ok o /\ two_tier T c k = true /\ P = Some v /\ cview st C /\ spec_op st o = (Some v, ROk)
    | true, PDelPers k' false, Some (ODel k'') => k' = k /\ k'' = k /\ two_tier T c k = true /\ C = None /\ P = st
    | true, PExpSet k' ct' v, Some (OSetExp k'') => k' = k /\ ct' = ct /\ k'' = k /\ C = Some v /\ cview st C /\ pview st P
    | _, _, _ => False
    end.

  Definition trans (h h' L L' : bool) (C C' P P' st st' : option value) : Prop :=
    match h, h' with
    | false, false => L' = L /\ C' = C /\ P' = P /\ st' = st
    | false, true => L = false /\ L' = true /\ C' = C /\ P' = P /\ st' = st
    | true, true => L' = L
    | true, false => L' = false /\ pview st' P'
    end.

  Definition post (h : bool) (w : world) (st : option value) (r : caller * world) : Prop :=
    exists st',
      hstep st (w_hist w) st' (w_hist (snd r)) /\
      cinv (fst r) st' (tget (snd r) ct k) (tget (snd r) TPers k) /\
      cview st' (tget (snd r) ct k) /\
      w_spawned (snd r) = w_spawned w /\
      trans h (held (fst r)) (w_locks w k) (w_locks (snd r) k)
            (tget w ct k) (tget (snd r) ct k) (tget w TPers k) (tget (snd r) TPers k) st st'.

  (* ---- normal forms of the first tier call of each operation on key k (no failure) ---- *)
  Lemma two_cases : two_tier T c k = true ->
    (category T k = CPersistent \/ category T k = CSharedPersistent) /\ en_pers c = true.
  Proof.
    unfold two_tier. destruct (category T k); cbn; intros H; try discriminate; (split; [auto|exact H]).
  Qed.
  Lemma one_case : two_tier T c k = false -> is_pers_cat (category T k) && en_pers c = false.
  Proof. intros H. exact H. Qed.

  Lemma set_start_two cl w v : two_tier T c k = true ->
    set_start T c cl w k v false = (set_pc cl (PSetCache k v ct), wr w TPers k (Some v)).
  Proof.
    intros H2. destruct (two_cases H2) as [[Hc|Hc] Hp]; pose proof (ctk_cases T c k) as Hk; rewrite Hc in Hk;
      unfold set_start; rewrite Hc, Hp; fold ct in Hk; rewrite <- Hk; reflexivity.
  Qed.
  Lemma set_start_one cl w v : two_tier T c k = false ->
    set_start T c cl w k v false = finish cl (wr w ct k (Some v)) ROk.
  Proof.
    intros H1. pose proof (one_case H1) as Hp. pose proof (ctk_cases T c k) as Hk. fold ct in Hk.
    unfold set_start. destruct (category T k); cbn [is_pers_cat andb] in Hp; try rewrite Hp; rewrite <- Hk; reflexivity.
  Qed.
  Lemma get_start_two cl w : two_tier T c k = true ->
    get_start T c cl w k false =
    match tget w ct k with
    | Some v => get_done c cl (acc w ct k) (RVal v)
    | None => get_miss c cl (acc w ct k) k ct
    end.
  Proof.
    intros H2. destruct (two_cases H2) as [[Hc|Hc] Hp]; pose proof (ctk_cases T c k) as Hk; rewrite Hc in Hk;
      unfold get_start; rewrite Hc, Hp; fold ct in Hk; cbn [is_pers_cat andb]; rewrite <- Hk; reflexivity.
  Qed.
  Lemma get_start_one cl w : two_tier T c k = false ->
    get_start T c cl w k false = get_done c cl (acc w ct k) (val_res (tget w ct k)).
  Proof.
    intros H1. pose proof (one_case H1) as Hp. pose proof (ctk_cases T c k) as Hk. fold ct in Hk.
    unfold get_start, val_res. destruct (category T k); cbn [is_pers_cat andb] in Hp |- *; try rewrite Hp; rewrite <- Hk;
      destruct (tget w ct k); reflexivity.
  Qed.
  Lemma del_start_two cl w : two_tier T c k = true ->
    del_start T c cl w k false = (set_pc cl (PDelPers k false), wr w ct k None).
  Proof.
    intros H2. destruct (two_cases H2) as [[Hc|Hc] Hp]; pose proof (ctk_cases T c k) as Hk; rewrite Hc in Hk;
      unfold del_start; rewrite Hc, Hp; fold ct in Hk; cbn [is_pers_cat andb]; rewrite <- Hk; reflexivity.
  Qed.
  Lemma del_start_one cl w : two_tier T c k = false ->
    del_start T c cl w k false = finish cl (wr w ct k None) ROk.
  Proof.
    intros H1. pose proof (one_case H1) as Hp. pose proof (ctk_cases T c k) as Hk. fold ct in Hk.
    unfold del_start. destruct (category T k); cbn [is_pers_cat andb] in Hp |- *; try rewrite Hp; rewrite <- Hk; reflexivity.
  Qed.
  Lemma exists_start_one cl w : two_tier T c k = false ->
    exists_start T c cl w k false = finish cl (acc w ct k) (RBool (is_some (tget w ct k))).
  Proof.
    intros H1. pose proof (one_case H1) as Hp. pose proof (ctk_cases T c k) as Hk. fold ct in Hk.
    unfold exists_start. destruct (category T k); cbn [is_pers_cat andb negb] in Hp |- *; try rewrite Hp; rewrite <- Hk;
      destruct (tget w ct k); reflexivity.
  Qed.

  (* ---- building blocks ---- *)
  Lemma finish_post cl w w0 st o :
    cur cl = Some o -> op_key o = k -> faults cl = [] -> Forall lop_ok (ops cl) ->
    w_hist w0 = w_hist w -> w_spawned w0 = w_spawned w -> w_locks w0 k = w_locks w k ->
    cview (fst (spec_op st o)) (tget w0 ct k) ->
    (held cl = true -> pview (fst (spec_op st o)) (tget w0 TPers k)) ->
    (held cl = false -> tget w0 ct k = tget w ct k /\ tget w0 TPers k = tget w TPers k /\ fst (spec_op st o) = st) ->
    forall h, held cl = h -> post h w st (finish cl w0 (snd (spec_op st o))).
  Proof.
    intros Hcur Hk Hf Hops Hh Hs Hl Hcv Hpv Hfr h <-. unfold post, finish. rewrite Hcur. unfold cur_key. rewrite Hcur, Hk. cbn [fst snd].
    exists (fst (spec_op st o)).
    assert (Et : forall t, tget (if held cl then set_lock (add_hist w0 (me cl, o, snd (spec_op st o))) k false
                                 else add_hist w0 (me cl, o, snd (spec_op st o))) t k = tget w0 t k).
    { intros t. destruct (held cl); rewrite ?tget_set_lock, tget_add_hist; reflexivity. }
    rewrite !Et. split; [|split; [|split; [|split]]].
    - replace (w_hist (if held cl then _ else _)) with ((me cl, o, snd (spec_op st o)) :: w_hist w).
      + constructor.
      + destruct (held cl); cbn; rewrite Hh; reflexivity.
    - unfold cinv. cbn. auto.
    - exact Hcv.
    - destruct (held cl); cbn; exact Hs.
    - unfold trans. cbn [held]. destruct (held cl) eqn:Eh.
      + split; [apply locks_set_same|apply Hpv; reflexivity].
      + destruct (Hfr eq_refl) as (E1 & E2 & E3). cbn. rewrite Hl. auto.
  Qed.

  Lemma finish_post_exp cl w w0 st r :
    cur cl = Some (OSetExp k) -> faults cl = [] -> Forall lop_ok (ops cl) ->
    w_hist w0 = w_hist w -> w_spawned w0 = w_spawned w -> w_locks w0 k = w_locks w k ->
    exp_res_ok st r -> cview st (tget w0 ct k) ->
    (held cl = true -> pview st (tget w0 TPers k)) ->
    (held cl = false -> tget w0 ct k = tget w ct k /\ tget w0 TPers k = tget w TPers k) ->
    forall h, held cl = h -> post h w st (finish cl w0 r).
  Proof.
    intros Hcur Hf Hops Hh Hs Hl Hr Hcv Hpv Hfr h <-. unfold post, finish. rewrite Hcur. unfold cur_key. rewrite Hcur. cbn [fst snd op_key].
    exists st.
    assert (Et : forall t, tget (if held cl then set_lock (add_hist w0 (me cl, OSetExp k, r)) k false
                                 else add_hist w0 (me cl, OSetExp k, r)) t k = tget w0 t k).
    { intros t. destruct (held cl); rewrite ?tget_set_lock, tget_add_hist; reflexivity. }
    rewrite !Et. split; [|split; [|split; [|split]]].
    - replace (w_hist (if held cl then _ else _)) with ((me cl, OSetExp k, r) :: w_hist w).
      + constructor. exact Hr.
      + destruct (held cl); cbn; rewrite Hh; reflexivity.
    - unfold cinv. cbn. auto.
    - exact Hcv.
    - destruct (held cl); cbn; exact Hs.
    - unfold trans. cbn [held]. destruct (held cl) eqn:Eh.
      + split; [apply locks_set_same|apply Hpv; reflexivity].
      + destruct (Hfr eq_refl) as (E1 & E2). cbn. rewrite Hl. auto.
  Qed.

  Lemma setpc_post cl w w0 st p' :
    w_hist w0 = w_hist w -> w_spawned w0 = w_spawned w -> w_locks w0 k = w_locks w k ->
    cinv (set_pc cl p') st (tget w0 ct k) (tget w0 TPers k) -> cview st (tget w0 ct k) ->
    (held cl = false -> tget w0 ct k = tget w ct k /\ tget w0 TPers k = tget w TPers k) ->
    forall h, held cl = h -> post h w st (set_pc cl p', w0).
  Proof.
    intros Hh Hs Hl Hci Hcv Hfr h <-. unfold post. cbn [fst snd]. exists st. rewrite Hh.
    split; [constructor|split; [exact Hci|split; [exact Hcv|split; [exact Hs|]]]].
    unfold trans. cbn [set_pc held]. destruct (held cl) eqn:Eh; [exact Hl|].
    destruct (Hfr eq_refl) as [E1 E2]. auto.
  Qed.

  Definition grab (cl : caller) (nxt : pc) : caller :=
    {| me := me cl; ops := ops cl; cur := cur cl; cpc := nxt; faults := faults cl; log := log cl; held := true |}.

  Lemma acquire_post cl w st nxt :
    cur_key cl = k -> held cl = false ->
    cview st (tget w ct k) -> (w_locks w k = false -> pview st (tget w TPers k)) ->
    cinv (set_pc cl (PWant nxt)) st (tget w ct k) (tget w TPers k) ->
    (pview st (tget w TPers k) -> cinv (grab cl nxt) st (tget w ct k) (tget w TPers k)) ->
    forall h, held cl = h -> post h w st (acquire cl w nxt).
  Proof.
    intros Hk Hh Hcv Hpv Hwait Hgot h <-. unfold acquire. rewrite Hk. destruct (w_locks w k) eqn:EL.
    - apply setpc_post; auto.
    - unfold post. cbn [fst snd]. exists st. rewrite hist_set_lock, !tget_set_lock.
      split; [constructor|split; [exact (Hgot (Hpv eq_refl))|split; [exact Hcv|split; [reflexivity|]]]].
      unfold trans. rewrite Hh. cbn [held]. rewrite locks_set_same. auto.
  Qed.

  Lemma get_done_post cl w w0 st o :
    cur cl = Some o -> lop_ok o -> reads_list o = true -> faults cl = [] -> Forall lop_ok (ops cl) ->
    (is_list_op o = true -> held cl = true) ->
    w_hist w0 = w_hist w -> w_spawned w0 = w_spawned w -> w_locks w0 k = w_locks w k ->
    cview st (tget w0 ct k) -> (held cl = true -> pview st (tget w0 TPers k)) ->
    (held cl = false -> tget w0 ct k = tget w ct k /\ tget w0 TPers k = tget w TPers k) ->
    forall h, held cl = h -> post h w st (get_done c cl w0 (val_res st)).
  Proof.
    intros Hcur Hok Hrl Hf Hops Hlh Hh Hs Hl Hcv Hpv Hfr h <-. destruct Hok as [Hk Hkv].
    assert (Hfin : forall r, (fst (spec_op st o), snd (spec_op st o)) = (st, r) -> post (held cl) w st (finish cl w0 r)).
    { intros r E. pose proof (f_equal fst E) as E1. pose proof (f_equal snd E) as E2. cbn [fst snd] in E1, E2.
      rewrite <- E2. apply finish_post; auto; rewrite ?E1; auto.
      intros Eh. destruct (Hfr Eh). auto. }
    assert (Hgo : forall v, is_list_op o = true -> spec_op st o = (Some v, ROk) -> post (held cl) w st (set_pc cl (PSetStart k v), w0)).
    { intros v Hli Hsp. apply setpc_post; auto. unfold cinv. cbn [set_pc held cpc cur faults ops]. rewrite (Hlh Hli), Hcur.
      split; [exact Hf|split; [exact Hops|]]. repeat split; auto. }
    unfold get_done. rewrite Hcur. destruct o as [k0 v|k0|k0|k0|k0 x|k0 x|k0|k0 v|k0]; cbn in Hrl, Hk; try discriminate; subst k0.
    - apply Hfin. reflexivity.
    - unfold list_go_on. rewrite Hfl. destruct st as [[n|l|n]|]; cbn [val_res]; first [apply Hfin; reflexivity | apply Hgo; reflexivity].
    - unfold list_go_on. rewrite Hfl. destruct st as [[n|l|n]|]; cbn [val_res]; first [apply Hfin; reflexivity | apply Hgo; reflexivity].
  Qed.

  Lemma pop_fault_nil cl : faults cl = [] -> pop_fault cl = (false, cl).
  Proof. intros H. unfold pop_fault. rewrite H. reflexivity. Qed.

  Lemma noop_post cl w st : cinv cl st (tget w ct k) (tget w TPers k) -> cview st (tget w ct k) -> forall h, held cl = h -> post h w st (cl, w).
  Proof.
    intros Hci Hcv h <-. exists st. cbn [fst snd]. split; [constructor|split; [exact Hci|split; [exact Hcv|split; [reflexivity|]]]].
    unfold trans. destruct (held cl); auto.
  Qed.

  Lemma pview_one st P : two_tier T c k = false -> pview st P.
  Proof. intros H H'. congruence. Qed.
  Lemma cview_two_hit st C v : two_tier T c k = true -> cview st C -> C = Some v -> st = Some v.
  Proof. unfold cview. intros -> [H|H] E; congruence. Qed.
  Lemma cview_one st C : two_tier T c k = false -> cview st C -> C = st.
  Proof. unfold cview. intros ->. auto. Qed.
  Lemma cview_none st : two_tier T c k = true -> cview st None.
  Proof. unfold cview. intros ->. auto. Qed.
  Lemma cview_same st : cview st st.
  Proof. unfold cview. destruct (two_tier T c k); auto. Qed.

  Ltac frame := rewrite ?hist_wr, ?spawned_wr, ?locks_wr, ?tget_acc, ?tget_wr_same, ?(tget_wr_other _ _ _ _ _ _ ct_ne), ?(tget_wr_other _ _ _ _ _ _ ct_ne').

  Ltac side :=
    try solve [ discriminate
              | apply cview_same
              | apply cview_none; assumption
              | intros _; apply pview_one; assumption
              | match goal with H : held _ = _ |- _ => rewrite H; discriminate end
              | intros; congruence
              | match goal with H : tget _ _ _ = _ |- _ => rewrite H; first [apply cview_same | assumption] end
              | match goal with Hc : cur _ = Some _, Hh : held _ = _ |- cinv _ _ _ _ =>
                  unfold cinv; cbn [set_pc held cpc cur faults ops]; rewrite Hh, Hc;
                  repeat match goal with H : lop_ok _ |- _ => destruct H end;
                  repeat split; auto; unfold pview in *; auto end ].

  (* the first tier call of an operation that is about to start (lock held iff the operation takes it) *)
  Lemma start_post cl w st o :
    cur cl = Some o -> lop_ok o -> faults cl = [] -> Forall lop_ok (ops cl) ->
    held cl = locks_op c o ->
    cview st (tget w ct k) -> (held cl = true -> pview st (tget w TPers k)) ->
    forall h, held cl = h -> post h w st (op_start T c cl w o false).
  Proof.
    intros Hcur Hok Hf Hops Hh Hcv Hpv h <-. pose proof Hok as [Hk Hkv].
    destruct (two_tier T c k) eqn:E2.
    - (* two-tier key *)
      specialize (Hkv eq_refl).
      destruct o as [k0 v|k0|k0|k0|k0 x|k0 x|k0|k0 v|k0]; cbn in Hk, Hkv; try discriminate; subst k0; cbn [op_start];
        unfold locks_op in Hh; rewrite ?Hwb, ?Hfl, ?Hexp in Hh; cbn [andb] in Hh.
      + rewrite (set_start_two cl w v E2). apply setpc_post; frame; auto; side.
      + rewrite (get_start_two cl w E2). destruct (tget w ct k) as [v|] eqn:EC.
        * rewrite (cview_two_hit st _ v E2 Hcv eq_refl) in *. change (RVal v) with (val_res (Some v)).
          apply (get_done_post cl w (acc w ct k) (Some v) (OGet k)); frame; auto; side.
        * unfold get_miss. rewrite Hwb, Hh. apply setpc_post; frame; auto; side.
      + rewrite (del_start_two cl w E2). apply setpc_post; frame; auto; side.
      + rewrite (get_start_two cl w E2). destruct (tget w ct k) as [v|] eqn:EC.
        * rewrite (cview_two_hit st _ v E2 Hcv eq_refl) in *. change (RVal v) with (val_res (Some v)).
          apply (get_done_post cl w (acc w ct k) (Some v) (OAppend k x)); frame; auto; side.
        * unfold get_miss. rewrite Hwb, Hh. apply setpc_post; frame; auto; side.
      + rewrite (get_start_two cl w E2). destruct (tget w ct k) as [v|] eqn:EC.
        * rewrite (cview_two_hit st _ v E2 Hcv eq_refl) in *. change (RVal v) with (val_res (Some v)).
          apply (get_done_post cl w (acc w ct k) (Some v) (ORemove k x)); frame; auto; side.
        * unfold get_miss. rewrite Hwb, Hh. apply setpc_post; frame; auto; side.
      + (* SetExpiration: read under the lock, write the same value back *)
        unfold setexp_start. rewrite Hfi, Hwb, Hexp. fold ct. cbn [andb negb].
        destruct (tget w ct k) as [v|] eqn:EC.
        * apply setpc_post; frame; auto; side;
            try (unfold cinv; cbn [set_pc held cpc cur faults ops]; rewrite Hh, Hcur; rewrite EC; repeat split; auto).
        * apply (finish_post_exp cl w (acc w ct k) st RNotFound); frame; auto; side; try (left; reflexivity).
    - (* single-tier key: the cache tier is the register *)
      pose proof (cview_one st _ E2 Hcv) as EC.
      assert (Hfin : forall w0 r st', (fst (spec_op st o), snd (spec_op st o)) = (st', r) ->
                w_hist w0 = w_hist w -> w_spawned w0 = w_spawned w -> w_locks w0 k = w_locks w k ->
                tget w0 ct k = st' -> (held cl = false -> st' = st /\ tget w0 TPers k = tget w TPers k) ->
                post (held cl) w st (finish cl w0 r)).
      { intros w0 r st' E A1 A2 A3 A4 A5. pose proof (f_equal fst E) as E1. pose proof (f_equal snd E) as E3. cbn [fst snd] in E1, E3.
        rewrite <- E3. apply finish_post; auto; rewrite ?E1.
        - rewrite A4. apply cview_same.
        - intros _. apply pview_one. exact E2.
        - intros Eh. destruct (A5 Eh) as [B1 B2]. rewrite A4, EC, B1. auto. }
      destruct o as [k0 v|k0|k0|k0|k0 x|k0 x|k0|k0 v|k0]; cbn in Hk; subst k0; cbn [op_start];
        unfold locks_op in Hh; rewrite ?Hwb, ?Hfl, ?Hexp in Hh; cbn [andb] in Hh.
      + rewrite (set_start_one cl w v E2). apply (Hfin _ _ (Some v)); frame; auto; side.
      + rewrite (get_start_one cl w E2). rewrite EC.
        apply (get_done_post cl w (acc w ct k) st (OGet k)); frame; auto; side.
      + rewrite (del_start_one cl w E2). apply (Hfin _ _ None); frame; auto; side.
      + rewrite (exists_start_one cl w E2). rewrite EC. apply (Hfin _ _ st); frame; auto; side.
      + rewrite (get_start_one cl w E2). rewrite EC.
        apply (get_done_post cl w (acc w ct k) st (OAppend k x)); frame; auto; side.
      + rewrite (get_start_one cl w E2). rewrite EC.
        apply (get_done_post cl w (acc w ct k) st (ORemove k x)); frame; auto; side.
      + unfold incr_start. rewrite Hfi. fold ct. rewrite EC.
        destruct st as [[n|l|n]|]; cbn [spec_op] in Hfin.
        * apply (Hfin _ _ (Some (VStr n))); frame; auto; side.
        * apply (Hfin _ _ (Some (VList l))); frame; auto; side.
        * apply (Hfin _ _ (Some (VInt (n + 1)))); frame; auto; side.
        * apply (Hfin _ _ (Some (VInt 1))); frame; auto; side.
      + unfold setnx_start. rewrite Hfn, E2. cbn [andb]. fold ct. rewrite EC.
        destruct st as [v0|]; cbn [spec_op] in Hfin.
        * apply (Hfin _ _ (Some v0)); frame; auto; side.
        * apply (Hfin _ _ (Some v)); frame; auto; side.
      + (* SetExpiration: read under the lock, write the same value back *)
        unfold setexp_start. rewrite Hfi, Hwb, Hexp. fold ct. cbn [andb negb]. rewrite EC.
        destruct st as [v|].
        * apply setpc_post; frame; auto; side;
            try (unfold cinv; cbn [set_pc held cpc cur faults ops]; rewrite Hh, Hcur, EC; repeat split; auto).
        * apply (finish_post_exp cl w (acc w ct k) None RNotFound); frame; auto; side; try (left; reflexivity).
  Qed.

  (* one step of a caller — a tier call or a lock acquisition — preserves its part of the invariant *)
  Lemma caller_step_post cl w st :
    cinv cl st (tget w ct k) (tget w TPers k) -> cview st (tget w ct k) ->
    (w_locks w k = false -> pview st (tget w TPers k)) ->
    (held cl = true -> w_locks w k = true) ->
    post (held cl) w st (caller_step T c cl w).
  Proof.
    intros Hci Hcv Hpv HL. pose proof Hci as (Hf & Hops & Hm).
    unfold caller_step. destruct (held cl) eqn:Hh; destruct (cpc cl) eqn:Epc; try contradiction.
    - (* holding: persistent written, cache write pending *)
      destruct (cur cl) as [o|] eqn:Hcur; [|contradiction].
      destruct Hm as (-> & -> & Ho & E2 & EP & Hcv' & Hsp).
      rewrite (pop_fault_nil cl Hf).
      replace ROk with (snd (spec_op st o)) by (rewrite Hsp; reflexivity).
      apply finish_post; frame; auto; try (destruct Ho; assumption); rewrite ?Hsp; cbn [fst].
      + unfold cview. rewrite E2. auto.
      + intros _ _. exact EP.
      + intros E. rewrite Hh in E. discriminate.
    - (* holding: cache deleted, persistent delete pending *)
      destruct e; [contradiction|]. destruct (cur cl) as [o|] eqn:Hcur; [|contradiction]. destruct o; try contradiction.
      destruct Hm as (-> & -> & E2 & EC & EP).
      rewrite (pop_fault_nil cl Hf). cbn [orb].
      change ROk with (snd (spec_op st (ODel k))).
      apply finish_post; frame; auto; cbn [spec_op fst].
      + rewrite EC. apply cview_none. exact E2.
      + intros _ _. reflexivity.
      + intros E. rewrite Hh in E. discriminate.
    - (* holding: list read done, Set pending *)
      destruct (cur cl) as [o|] eqn:Hcur; [|contradiction].
      destruct Hm as (-> & Ho & Hli & Hcv' & Hpv' & Hsp).
      rewrite (pop_fault_nil cl Hf).
      destruct (two_tier T c k) eqn:E2.
      + rewrite (set_start_two cl w v E2). apply setpc_post; frame; auto; side.
      + rewrite (set_start_one cl w v E2).
        replace ROk with (snd (spec_op st o)) by (rewrite Hsp; reflexivity).
        apply finish_post; frame; auto; try (destruct Ho; assumption); rewrite ?Hsp; cbn [fst]; side.
    - (* holding: first tier call pending *)
      destruct (cur cl) as [o|] eqn:Hcur; [|contradiction].
      destruct Hm as (Ho & El & Hcv' & Hpv').
      rewrite (pop_fault_nil cl Hf). rewrite Hcur.
      apply start_post; auto. rewrite Hh, El. reflexivity.
    - (* holding: cache re-check pending *)
      destruct (cur cl) as [o|] eqn:Hcur; [|contradiction]. destruct o; try contradiction.
      destruct Hm as (-> & -> & -> & E2 & Hcv' & Hpv').
      rewrite (pop_fault_nil cl Hf).
      destruct (tget w ct k) as [v|] eqn:EC.
      + rewrite (cview_two_hit st _ v E2 Hcv eq_refl) in *. change (RVal v) with (val_res (Some v)).
        apply (get_done_post cl w (acc w ct k) (Some v) (OGet k)); frame; auto; side; try (unfold lop_ok; auto).
      + apply setpc_post; frame; auto; side;
          try (unfold cinv; cbn [set_pc held cpc cur faults ops]; rewrite Hh, Hcur; unfold lop_ok; repeat split; auto).
    - (* holding: persistent read pending *)
      destruct (cur cl) as [o|] eqn:Hcur; [|contradiction].
      destruct Hm as (-> & -> & Ho & Hrl & E2 & EC & EP).
      rewrite (pop_fault_nil cl Hf).
      destruct (tget w TPers k) as [v|] eqn:EPv.
      + apply setpc_post; frame; auto; side;
          try (unfold cinv; cbn [set_pc held cpc cur faults ops]; rewrite Hh, Hcur; destruct Ho; repeat split; auto; congruence).
      + subst st. change RNotFound with (val_res None).
        apply (get_done_post cl w (acc w TPers k) None o); frame; auto; side; try (intros _ _; exact EPv).
    - (* holding: cache fill pending *)
      destruct (cur cl) as [o|] eqn:Hcur; [|contradiction].
      destruct Hm as (-> & -> & Ho & Hrl & E2 & EC & EP & Est).
      rewrite (pop_fault_nil cl Hf). rewrite Est in *. change (RVal v) with (val_res (Some v)).
      apply (get_done_post cl w (wr w ct k (Some v)) (Some v) o); frame; auto; side; try (intros _ _; exact EP).
    - (* holding: SetExpiration read done, write-back of the same value pending *)
      destruct (cur cl) as [o|] eqn:Hcur; [|contradiction]. destruct o; try contradiction.
      destruct Hm as (-> & -> & -> & EC & Hcv' & Hpv').
      rewrite (pop_fault_nil cl Hf).
      apply (finish_post_exp cl w (wr w ct k (Some v)) st ROk); frame; auto; side.
      + right. split; [reflexivity|]. destruct (two_tier T c k) eqn:E2.
        * rewrite (cview_two_hit st _ v E2 Hcv EC). discriminate.
        * rewrite <- (cview_one st _ E2 Hcv), EC. discriminate.
    - (* not holding, idle *)
      destruct (cur cl) eqn:Hcur; [contradiction|].
      destruct (ops cl) as [|o r] eqn:Eo; [apply noop_post; assumption|].
      inversion Hops as [|? ? Ho Hr]; subst.
      destruct (locks_op c o) eqn:El.
      + apply acquire_post; cbn [held cur_key cur]; auto; try (destruct Ho; assumption).
        * unfold cinv. cbn. rewrite El. auto.
        * intros Hp. unfold cinv, grab. cbn. rewrite El. auto 10.
      + rewrite (pop_fault_nil cl Hf).
        apply start_post; cbn [cur faults ops held]; auto; try (rewrite Hh, El; reflexivity); try (rewrite Hh; intros E; discriminate E); try (intros E; rewrite Hh in E; discriminate E).
    - (* not holding, waiting for the lock *)
      match goal with H : cpc cl = PWant ?n |- _ => destruct n end; try contradiction; destruct (cur cl) as [o|] eqn:Hcur; try contradiction.
      + destruct Hm as [Ho El].
        apply acquire_post; auto.
        * unfold cur_key. rewrite Hcur. destruct Ho; assumption.
        * unfold cinv. cbn [set_pc held cpc cur faults ops]. rewrite Hh, Hcur. auto.
        * intros Hp. unfold cinv, grab. cbn [held cpc cur faults ops]. rewrite Hcur. auto 10.
      + destruct o; try contradiction. destruct Hm as (-> & -> & -> & E2).
        apply acquire_post; auto.
        * unfold cur_key. rewrite Hcur. reflexivity.
        * unfold cinv. cbn [set_pc held cpc cur faults ops]. rewrite Hh, Hcur. repeat split; auto.
        * intros Hp. unfold cinv, grab. cbn [held cpc cur faults ops]. rewrite Hcur. repeat split; auto.
  Qed.

  (* ---- the invariant of the whole system ---- *)
  Definition nonholder (t : thread) : Prop := match t with TCaller cl => held cl = false | TWb _ _ => True end.
  Definition isholder (t : thread) : Prop := match t with TCaller cl => held cl = true | TWb _ _ => False end.
  Definition tinv (t : thread) (st C P : option value) : Prop :=
    match t with TCaller cl => cinv cl st C P | TWb _ _ => True end.

  Definition LkInv (init : option value) (s : world * list thread) : Prop :=
    exists st,
      linearized init (w_hist (fst s)) st /\
      cview st (tget (fst s) ct k) /\
      (w_locks (fst s) k = false -> pview st (tget (fst s) TPers k) /\ Forall nonholder (snd s)) /\
      Forall (fun t => tinv t st (tget (fst s) ct k) (tget (fst s) TPers k)) (snd s) /\
      (forall i j ti tj, nth_error (snd s) i = Some ti -> nth_error (snd s) j = Some tj -> isholder ti -> isholder tj -> i = j) /\
      w_spawned (fst s) = [].

  Lemma tinv_indep t st C P st' C' P' : nonholder t -> tinv t st C P -> tinv t st' C' P'.
  Proof.
    destruct t as [cl|j b]; cbn; [|auto]. intros Hh. unfold cinv. rewrite Hh.
    intros (Hf & Hops & Hm). split; [exact Hf|split; [exact Hops|exact Hm]].
  Qed.

  Lemma Forall_upd_nth_idx {A} (Q : A -> Prop) : forall (l : list A) i x,
    (forall j t, j <> i -> nth_error l j = Some t -> Q t) -> Q x -> Forall Q (upd_nth i x l).
  Proof.
    induction l as [|h t IH]; intros [|i] x Ho Hx; cbn; try constructor; auto.
    - apply Forall_forall. intros y Hy. apply In_nth_error in Hy. destruct Hy as [n Hn]. apply (Ho (S n)); [discriminate|exact Hn].
    - apply (Ho 0); [discriminate|reflexivity].
    - apply IH; [|exact Hx]. intros j y Hj Hn. apply (Ho (S j)); [congruence|exact Hn].
  Qed.

  Lemma upd_nth_same {A} : forall (l : list A) i x, nth_error l i = Some x -> upd_nth i x l = l.
  Proof. induction l as [|h t IH]; intros [|i] x H; cbn in *; try discriminate; [inversion H; reflexivity|f_equal; auto]. Qed.

  Lemma nth_upd_cases {A} (l : list A) i x j y :
    nth_error l i <> None -> nth_error (upd_nth i x l) j = Some y -> (j = i /\ y = x) \/ (j <> i /\ nth_error l j = Some y).
  Proof.
    intros Hi H. destruct (Nat.eq_dec j i) as [->|Hne].
    - left. split; [reflexivity|]. rewrite nth_error_upd_nth_same in H; [congruence|]. apply nth_error_Some. exact Hi.
    - right. split; [exact Hne|]. rewrite nth_error_upd_nth_other in H; [exact H|congruence].
  Qed.

  Lemma holder_dec t : isholder t \/ nonholder t.
  Proof. destruct t as [cl|]; cbn; [destruct (held cl); auto|auto]. Qed.
  Lemma holder_excl t : isholder t -> nonholder t -> False.
  Proof. destruct t; cbn; congruence. Qed.

  Lemma lkinv_step init s i : LkInv init s -> LkInv init (sys_step _ _ (tstep T c) s i).
  Proof.
    destruct s as [w ts]. unfold LkInv, sys_step. cbn [fst snd].
    intros (st & Hlin & Hcv & Hfree & Hts & Huniq & Hsp).
    destruct (nth_error ts i) as [t|] eqn:E; [|exists st; auto 10].
    assert (Hi : nth_error ts i <> None) by congruence.
    pose proof (Forall_nth_error _ _ _ _ Hts E) as Ht.
    destruct t as [cl|j b]; cbn [tstep].
    2:{ (* a write-back worker: nothing was ever spawned *)
      assert (Est : (let '(t', w') := (if b then (TWb j true, w) else match nth_error (w_spawned w) j with
                       | Some (k0, ct0, v) => (TWb j true, wr w ct0 k0 (Some v)) | None => (TWb j b, w) end) in (w', upd_nth i t' ts)) = (w, ts)).
      { destruct b; [rewrite (upd_nth_same ts i _ E); reflexivity|].
        rewrite Hsp. destruct j; cbn [nth_error]; rewrite (upd_nth_same ts i _ E); reflexivity. }
      destruct b; cbn [fst snd]; [rewrite (upd_nth_same ts i _ E); exists st; auto 10|].
      rewrite Hsp. assert (E0 : nth_error (@nil (kbytes * tier * value)) j = None) by (destruct j; reflexivity). rewrite E0.
      cbn [fst snd]. rewrite (upd_nth_same ts i _ E). exists st; auto 10. }
    cbn [tinv] in Ht.
    assert (HL : held cl = true -> w_locks w k = true).
    { intros Hh. destruct (w_locks w k) eqn:EL; [reflexivity|]. destruct (Hfree eq_refl) as [_ Hn].
      pose proof (Forall_nth_error _ _ _ _ Hn E) as Hx. cbn in Hx. congruence. }
    assert (Hpv : w_locks w k = false -> pview st (tget w TPers k)) by (intros EL; apply (Hfree EL)).
    pose proof (caller_step_post cl w st Ht Hcv Hpv HL) as (st' & Hhs & Hci' & Hcv' & Hsp' & Htr).
    destruct (caller_step T c cl w) as [cl' w']. cbn [fst snd] in *.
    exists st'. split; [exact (hstep_lin _ _ _ _ _ Hlin Hhs)|]. split; [exact Hcv'|].
    assert (Hothers : held cl = true -> forall j t, j <> i -> nth_error ts j = Some t -> nonholder t).
    { intros Hh j t Hj Hn. destruct (holder_dec t) as [Hx|Hx]; [|exact Hx]. exfalso. apply Hj.
      apply (Huniq j i t (TCaller cl) Hn E Hx). exact Hh. }
    unfold trans in Htr. destruct (held cl) eqn:Hh; destruct (held cl') eqn:Hh'.
    - (* holder stays holder *)
      rewrite (HL eq_refl) in Htr.
      split; [intros EL; congruence|]. split; [|split; [|congruence]].
      + apply Forall_upd_nth_idx; [|exact Hci']. intros j t Hj Hn.
        apply (tinv_indep t st (tget w ct k) (tget w TPers k)); [exact (Hothers eq_refl j t Hj Hn)|exact (Forall_nth_error _ _ _ _ Hts Hn)].
      + intros a b ta tb Ha Hb Hta Htb.
        destruct (nth_upd_cases ts i _ a ta Hi Ha) as [[-> ->]|[Hna Ha']]; destruct (nth_upd_cases ts i _ b tb Hi Hb) as [[-> ->]|[Hnb Hb']]; auto.
        * exfalso. exact (holder_excl _ Htb (Hothers eq_refl b tb Hnb Hb')).
        * exfalso. exact (holder_excl _ Hta (Hothers eq_refl a ta Hna Ha')).
        * exfalso. exact (holder_excl _ Hta (Hothers eq_refl a ta Hna Ha')).
    - (* holder releases *)
      destruct Htr as [EL' Hpv'].
      split; [intros _; split; [exact Hpv'|]|]. 
      + apply Forall_upd_nth_idx; [|exact Hh']. intros j t Hj Hn. exact (Hothers eq_refl j t Hj Hn).
      + split; [|split; [|congruence]].
        * apply Forall_upd_nth_idx; [|exact Hci']. intros j t Hj Hn.
          apply (tinv_indep t st (tget w ct k) (tget w TPers k)); [exact (Hothers eq_refl j t Hj Hn)|exact (Forall_nth_error _ _ _ _ Hts Hn)].
        * intros a b ta tb Ha Hb Hta Htb.
          destruct (nth_upd_cases ts i _ a ta Hi Ha) as [[-> ->]|[Hna Ha']].
          -- exfalso. cbn in Hta. congruence.
          -- exfalso. exact (holder_excl _ Hta (Hothers eq_refl a ta Hna Ha')).
    - (* a caller acquires the lock *)
      destruct Htr as (EL & EL' & EC & EP & Est). subst st'. rewrite EC, EP in *.
      destruct (Hfree EL) as [_ Hnon].
      split; [intros X; congruence|]. split; [|split; [|congruence]].
      + apply Forall_upd_nth; [exact Hts|exact Hci'].
      + intros a b ta tb Ha Hb Hta Htb.
        destruct (nth_upd_cases ts i _ a ta Hi Ha) as [[-> ->]|[Hna Ha']]; destruct (nth_upd_cases ts i _ b tb Hi Hb) as [[-> ->]|[Hnb Hb']]; auto.
        * exfalso. exact (holder_excl _ Htb (Forall_nth_error _ _ _ _ Hnon Hb')).
        * exfalso. exact (holder_excl _ Hta (Forall_nth_error _ _ _ _ Hnon Ha')).
        * exfalso. exact (holder_excl _ Hta (Forall_nth_error _ _ _ _ Hnon Ha')).
    - (* a caller that does not hold the lock makes a lock-free step *)
      destruct Htr as (EL' & EC & EP & Est). subst st'. rewrite EL', EC, EP in *.
      split; [intros EL; destruct (Hfree EL) as [Hp Hnon]; split; [exact Hp|apply Forall_upd_nth; [exact Hnon|exact Hh']]|].
      split; [apply Forall_upd_nth; [exact Hts|exact Hci']|]. split; [|congruence].
      intros a b ta tb Ha Hb Hta Htb.
      destruct (nth_upd_cases ts i _ a ta Hi Ha) as [[-> ->]|[Hna Ha']]; [exfalso; cbn in Hta; congruence|].
      destruct (nth_upd_cases ts i _ b tb Hi Hb) as [[-> ->]|[Hnb Hb']]; [exfalso; cbn in Htb; congruence|].
      exact (Huniq a b ta tb Ha' Hb' Hta Htb).
  Qed.

  Definition idle_thread (t : thread) : Prop :=
    match t with
    | TCaller cl => cpc cl = PIdle /\ cur cl = None /\ held cl = false /\ faults cl = [] /\ Forall lop_ok (ops cl)
    | TWb _ _ => True
    end.

  Lemma init_views w : coherent T c w k ->
    cview (visible T c w k) (tget w ct k) /\ pview (visible T c w k) (tget w TPers k).
  Proof.
    unfold coherent, visible, cview, pview. fold ct. intros Hco.
    destruct (two_tier T c k) eqn:E2.
    - destruct (Hco eq_refl) as [H|H].
      + rewrite H. auto.
      + destruct (tget w ct k) as [v|] eqn:EC; [|auto]. rewrite <- H. auto.
    - destruct (tget w ct k); split; auto; intros; discriminate.
  Qed.

  Lemma free_views w st : cview st (tget w ct k) -> pview st (tget w TPers k) ->
    visible T c w k = st /\ coherent T c w k.
  Proof.
    unfold coherent, visible, cview, pview. fold ct. intros Hc Hp.
    destruct (two_tier T c k) eqn:E2.
    - rewrite (Hp eq_refl). destruct Hc as [H|H]; rewrite H; [auto|].
      destruct st; auto.
    - subst st. split; [destruct (tget w ct k); reflexivity|intros; discriminate].
  Qed.

  (* EVERY schedule of tier calls and lock acquisitions, any number of callers *)
  Theorem lock_all_schedules w ts sched :
    w_spawned w = [] -> w_hist w = [] -> w_locks w k = false -> coherent T c w k ->
    Forall idle_thread ts ->
    LkInv (visible T c w k) (hrun T c w ts sched).
  Proof.
    intros Hsp Hh HL Hco Hts. unfold hrun. apply inv_all_schedules; [intros s i; apply lkinv_step|].
    destruct (init_views w Hco) as [Hc Hp].
    assert (Hnon : Forall nonholder ts).
    { apply Forall_forall. intros t Ht. rewrite Forall_forall in Hts. specialize (Hts t Ht). destruct t; cbn in *; [tauto|exact I]. }
    exists (visible T c w k). cbn [fst snd]. rewrite Hh.
    split; [constructor|split; [exact Hc|split; [intros _; split; [exact Hp|exact Hnon]|split; [|split; [|exact Hsp]]]]].
    - apply Forall_forall. intros t Ht. rewrite Forall_forall in Hts. specialize (Hts t Ht). destruct t as [cl|]; cbn in *; [|exact I].
      destruct Hts as (E1 & E2 & E3 & E4 & E5). unfold cinv. rewrite E1, E2, E3. auto.
    - intros i j ti tj Hi Hj Hti Htj. exfalso. exact (holder_excl _ Hti (Forall_nth_error _ _ _ _ Hnon Hi)).
  Qed.

  Corollary lock_all_schedules_spec w ts sched :
    w_spawned w = [] -> w_hist w = [] -> w_locks w k = false -> coherent T c w k ->
    Forall idle_thread ts ->
    exists st,
      linearized (visible T c w k) (w_hist (fst (hrun T c w ts sched))) st /\
      (w_locks (fst (hrun T c w ts sched)) k = false ->
       visible T c (fst (hrun T c w ts sched)) k = st /\ coherent T c (fst (hrun T c w ts sched)) k) /\
      w_spawned (fst (hrun T c w ts sched)) = [].
  Proof.
    intros Hsp Hh HL Hco Hts.
    destruct (lock_all_schedules w ts sched Hsp Hh HL Hco Hts) as (st & Hlin & Hcv & Hfree & _ & _ & Hs).
    exists st. split; [exact Hlin|split; [|exact Hs]].
    intros EL. destruct (Hfree EL) as [Hp _]. apply free_views; assumption.
  Qed.

  (* ---- "cache entry lost" (TTL expiry / eviction / restart of the cache tier) ---- *)
  Lemma drop_cache_tiers w : tget (drop_cache w k) ct k = None /\ tget (drop_cache w k) TPers k = tget w TPers k.
  Proof.
    unfold drop_cache. split; [|reflexivity].
    unfold ct, cache_tier_for_key, sp_cache. destruct (category T k), (has_shared c); cbn; unfold supd; rewrite keq_refl; reflexivity.
  Qed.

  (* on a two-tier key, in a coherent state, losing the cache copy changes nothing the facade shows, and the state stays coherent *)
  Lemma cache_loss_invisible w : two_tier T c k = true -> coherent T c w k ->
    visible T c (drop_cache w k) k = visible T c w k /\ coherent T c (drop_cache w k) k.
  Proof.
    intros E2 Hco. destruct (drop_cache_tiers w) as [EC EP]. unfold coherent, visible in Hco |- *. fold ct in Hco |- *. rewrite EC, EP, E2.
    split; [|intros _; left; reflexivity].
    destruct (Hco E2) as [H|H]; rewrite H; [reflexivity|]. destruct (tget w TPers k); reflexivity.
  Qed.

  (* ... which is the case in EVERY reachable state in which the key lock is free *)
  Corollary cache_loss_invisible_all_schedules w ts sched :
    two_tier T c k = true ->
    w_spawned w = [] -> w_hist w = [] -> w_locks w k = false -> coherent T c w k ->
    Forall idle_thread ts ->
    w_locks (fst (hrun T c w ts sched)) k = false ->
    exists st,
      linearized (visible T c w k) (w_hist (fst (hrun T c w ts sched))) st /\
      visible T c (fst (hrun T c w ts sched)) k = st /\
      visible T c (drop_cache (fst (hrun T c w ts sched)) k) k = st /\
      coherent T c (drop_cache (fst (hrun T c w ts sched)) k) k.
  Proof.
    intros E2 Hsp Hh HL Hco Hts EL.
    destruct (lock_all_schedules_spec w ts sched Hsp Hh HL Hco Hts) as (st & Hlin & Hfree & _).
    destruct (Hfree EL) as [Hv Hc]. destruct (cache_loss_invisible _ E2 Hc) as [Hd Hdc].
    exists st. rewrite Hd. auto.
  Qed.
End Lock.

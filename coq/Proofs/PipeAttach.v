(* Proofs/PipeAttach.v — C02: the target may attach at any point of the schedule, and Bridge.Start returns.
   (1) A run with the attach event anywhere among the steps is exactly a run of the attached bridge on the steps that follow the
       attach, so every theorem about bridge_run holds for every interleaving with the target attach.
   (2) Start returns (both directions done, wg.Wait passes) once each direction has had 2|script|+3 steps. *)
From TX Require Import Model.Pipe Proofs.Pipe Proofs.PipeBridge.
From Coq Require Import Lia.

Section A.
  Variable v : variant.
  Variable threshold : N.
  Variable lim : option N.

  Lemma attached_run : forall sched s,
    fold_left (attach_step v threshold lim) sched (true, s) = (true, run _ _ (bstep v threshold lim) s sched).
  Proof.
    induction sched as [|i r IH]; intros s; [reflexivity|]. cbn [fold_left run]. unfold attach_step at 2. cbn [fst snd]. apply IH.
  Qed.

  Lemma unattached_run : forall sched s,
    fold_left (attach_step v threshold lim) sched (false, s) =
    if existsb (Nat.eqb 2) sched then (true, run _ _ (bstep v threshold lim) s (after_attach sched)) else (false, s).
  Proof.
    induction sched as [|i r IH]; intros s; [reflexivity|]. cbn [fold_left existsb after_attach].
    unfold attach_step at 2. cbn [fst snd]. rewrite (Nat.eqb_sym 2 i).
    destruct (Nat.eqb i 2); [cbn [orb]; apply attached_run|cbn [orb]; apply IH].
  Qed.

  Theorem attach_anywhere : forall rs0 ws0 rs1 ws1 sched,
    snd (attach_run v threshold lim rs0 ws0 rs1 ws1 sched) =
    bridge_run v threshold lim rs0 ws0 rs1 ws1 (if existsb (Nat.eqb 2) sched then after_attach sched else []).
  Proof.
    intros. unfold attach_run, bridge_run. rewrite unattached_run. destruct (existsb (Nat.eqb 2) sched); reflexivity.
  Qed.

  (* the headline statement transferred: whatever the position of the attach, both directions deliver prefixes *)
  Corollary attach_anywhere_prefix : forall rs0 ws0 rs1 ws1 sched,
    prefix (s_out0 (fst (snd (attach_run v threshold lim rs0 ws0 rs1 ws1 sched)))) (readable rs0) /\
    prefix (s_out1 (fst (snd (attach_run v threshold lim rs0 ws0 rs1 ws1 sched)))) (readable rs1).
  Proof. intros. rewrite attach_anywhere. apply bridge_delivered_is_prefix. Qed.

  (* nothing moves before the attach *)
  Lemma nothing_before_attach : forall rs0 ws0 rs1 ws1 sched, existsb (Nat.eqb 2) sched = false ->
    attach_run v threshold lim rs0 ws0 rs1 ws1 sched = (false, bridge_init rs0 ws0 rs1 ws1).
  Proof. intros. unfold attach_run. rewrite unattached_run, H. reflexivity. Qed.

  (* Start returns: both directions are done once each has been scheduled often enough, under every schedule *)
  Theorem start_returns : forall rs0 ws0 rs1 ws1 sched,
    2 * length rs0 + 3 <= count_occ Nat.eq_dec sched 0 ->
    2 * length rs1 + 3 <= count_occ Nat.eq_dec sched 1 ->
    exists t0 t1 x0 x1, snd (bridge_run v threshold lim rs0 ws0 rs1 ws1 sched) = [t0; t1] /\
                        b_pc t0 = BDone x0 /\ b_pc t1 = BDone x1 /\
                        s_closed (fst (bridge_run v threshold lim rs0 ws0 rs1 ws1 sched)) = true.
  Proof.
    intros rs0 ws0 rs1 ws1 sched H0 H1.
    destruct (bridge_terminates v threshold lim rs0 ws0 rs1 ws1 sched 0) as (a & x0 & Ha & Hx0); [lia|exact H0|].
    destruct (bridge_terminates v threshold lim rs0 ws0 rs1 ws1 sched 1) as (b & x1 & Hb & Hx1); [lia|exact H1|].
    destruct (run_shape v threshold lim rs0 ws0 rs1 ws1 sched) as (t0 & t1 & Hs & _).
    destruct (bridge_close_once v threshold lim rs0 ws0 rs1 ws1 sched) as (_ & _ & Hdone & _).
    rewrite Hs in Ha, Hb. cbn in Ha, Hb. injection Ha as <-. injection Hb as <-.
    exists t0, t1, x0, x1. split; [exact Hs|]. split; [exact Hx0|]. split; [exact Hx1|].
    apply (Hdone t0 x0); [rewrite Hs; left; reflexivity|exact Hx0].
  Qed.
End A.

(* non-vacuity: the attach falls between wasted steps of both directions; afterwards the run proceeds as usual *)
Example attach_nonvacuous :
  let rs0 := [{| r_data := [1;2]%N; r_end := RFatal |}] in
  let rs1 := [{| r_data := [9]%N; r_end := RNone |}] in
  let s := attach_run Sliced 1048576%N None rs0 [] rs1 [] [0;1;0;2;1;1;0;0;0] in
  fst s = true /\ s_out0 (fst (snd s)) = [1;2]%N /\ s_out1 (fst (snd s)) = [9]%N /\ s_closed (fst (snd s)) = true.
Proof. vm_compute. repeat split; reflexivity. Qed.

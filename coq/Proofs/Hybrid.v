(* Proofs/Hybrid.v — C14: tier routing of every call for every key and every schedule (repaired code),
   and the basic store lemmas used by the other proof files. *)
From TX Require Import Model.Hybrid.
From Coq Require Import Lia.

Lemma keq_refl k : keq k k = true.
Proof. induction k as [|x k IH]; cbn; [reflexivity|]. now rewrite N.eqb_refl, IH. Qed.

Lemma tier_eqb_refl t : tier_eqb t t = true.
Proof. destruct t; reflexivity. Qed.

Lemma Forall_upd_nth {A} (P : A -> Prop) : forall (l : list A) i x,
  Forall P l -> P x -> Forall P (upd_nth i x l).
Proof.
  induction l as [|h t IH]; intros [|j] x Hl Hx; cbn; auto; inversion Hl; subst; constructor; auto.
Qed.

Lemma Forall_nth_error {A} (P : A -> Prop) : forall (l : list A) i x,
  Forall P l -> nth_error l i = Some x -> P x.
Proof.
  induction l as [|h t IH]; intros [|j] x Hl H; cbn in H; try discriminate; inversion Hl; subst.
  - now inversion H; subst.
  - eapply IH; eauto.
Qed.

Section Routing.
  Variable T : tables.
  Variable c : cfg.
  Hypothesis Hfi : fix_incr c = true.
  Hypothesis Hfn : fix_setnx c = true.

  (* ---- static facts about the routing functions ---- *)
  Lemma cat_shared_prefix k : category T k = CShared -> has_prefix (t_shared T) k = true.
  Proof.
    unfold category. destruct (has_prefix (t_sp T) k); [discriminate|].
    destruct (has_prefix (t_shared T) k); [reflexivity|].
    destruct (has_prefix (t_pers T) k); discriminate.
  Qed.

  (* getCacheForKey agrees with the key's cache tier on pure shared keys (the only place the code uses it) *)
  Lemma cache_for_key_shared k : category T k = CShared -> cache_for_key T c k = cache_tier_for_key T c k.
  Proof.
    intros Hc. unfold cache_for_key, cache_tier_for_key, sp_cache. rewrite Hc, (cat_shared_prefix k Hc).
    destruct (has_shared c); reflexivity.
  Qed.

  Lemma allowed_cache k : allowed T c k (cache_tier_for_key T c k) = true.
  Proof.
    unfold allowed, cache_tier_for_key, sp_cache.
    destruct (category T k), (has_shared c); reflexivity.
  Qed.
  Lemma allowed_pers k : two_tier T c k = true -> allowed T c k TPers = true.
  Proof. intros H. exact H. Qed.

  (* ---- the invariant ---- *)
  Fixpoint pc_ok (p : pc) : Prop :=
    match p with
    | PSetCache k _ ct | PGetPers k ct | PNxPers k _ ct | PNxUndo k ct
    | PGetRecheck k ct | PGetPersL k ct | PGetFill k ct _ | PSetInval k ct => ct = cache_tier_for_key T c k /\ two_tier T c k = true
    | PExpSet k ct _ => ct = cache_tier_for_key T c k
    | PDelPers k _ | PExPers k => two_tier T c k = true
    | PIncrSet _ _ => False
    | PIdle | PSetStart _ _ | PBegin => True
    | PWant nxt => pc_ok nxt
    end.
  Definition thread_ok (t : thread) : Prop := match t with TCaller cl => pc_ok (cpc cl) | TWb _ _ => True end.
  Definition good (w : world) : Prop :=
    Forall (fun tk => allowed T c (snd tk) (fst tk) = true) (w_acc w) /\
    Forall (fun e => snd (fst e) = cache_tier_for_key T c (fst (fst e))) (w_spawned w).

  Lemma good_acc w t k : good w -> allowed T c k t = true -> good (acc w t k).
  Proof. intros [Ha Hs] H. split; cbn; [constructor; [exact H|exact Ha]|exact Hs]. Qed.
  Lemma good_tset w t k o : good w -> good (tset w t k o).
  Proof. intros [Ha Hs]. destruct t; split; cbn; assumption. Qed.
  Lemma good_wr w t k o : good w -> allowed T c k t = true -> good (wr w t k o).
  Proof. intros Hg H. unfold wr. apply good_acc; [apply good_tset; exact Hg|exact H]. Qed.
  Lemma good_spawn w k ct v : good w -> ct = cache_tier_for_key T c k -> good (spawn w k ct v).
  Proof.
    intros [Ha Hs] H. split; cbn; [exact Ha|]. apply Forall_app. split; [exact Hs|]. constructor; [exact H|constructor].
  Qed.
  Lemma good_hist w e : good w -> good (add_hist w e).
  Proof. intros [Ha Hs]. split; cbn; assumption. Qed.
  Lemma good_lock w k b : good w -> good (set_lock w k b).
  Proof. intros [Ha Hs]. split; cbn; assumption. Qed.

  Definition ok2 (r : caller * world) : Prop := pc_ok (cpc (fst r)) /\ good (snd r).

  Lemma finish_ok cl w r : good w -> ok2 (finish cl w r).
  Proof.
    intros Hg. unfold ok2, finish. cbn [fst snd cpc]. split; [exact I|].
    assert (H1 : good (match cur cl with Some o => add_hist w (me cl, o, r) | None => w end))
      by (destruct (cur cl); [apply good_hist|]; exact Hg).
    destruct (held cl); [apply good_lock|]; exact H1.
  Qed.
  Lemma acquire_ok cl w nxt : good w -> pc_ok nxt -> ok2 (acquire cl w nxt).
  Proof.
    intros Hg Hn. unfold acquire. destruct (w_locks w (cur_key cl)); split; cbn [fst snd cpc set_pc pc_ok]; auto using good_lock.
  Qed.
  Lemma release_good cl w : good w -> good (snd (release cl w)).
  Proof. intros Hg. unfold release. destruct (held cl); cbn; [apply good_lock|]; exact Hg. Qed.
  Lemma list_go_on_ok cl w k v : good w -> ok2 (list_go_on c cl w k v).
  Proof.
    intros Hg. unfold list_go_on. destruct (fix_list c); [split; cbn; auto|].
    pose proof (release_good cl w Hg) as Hr. destruct (release cl w) as [cl1 w1]. cbn [snd] in Hr.
    destruct (fix_wb c); split; cbn; auto.
  Qed.
  Lemma get_miss_ok cl w k ct : good w -> ct = cache_tier_for_key T c k -> two_tier T c k = true -> ok2 (get_miss c cl w k ct).
  Proof.
    intros Hg Hct H2. unfold get_miss. destruct (fix_wb c); [destruct (held cl)|]; split; cbn; auto.
  Qed.
  Lemma set_pc_ok cl w p : good w -> pc_ok p -> ok2 (set_pc cl p, w).
  Proof. intros Hg Hp. split; cbn; assumption. Qed.

  Lemma ctk_cases k :
    match category T k with
    | CRuntime | CPersistent => cache_tier_for_key T c k = TLocal
    | CShared => cache_tier_for_key T c k = cache_for_key T c k
    | CSharedPersistent => cache_tier_for_key T c k = sp_cache c
    end.
  Proof.
    destruct (category T k) eqn:Hc; try (unfold cache_tier_for_key; rewrite Hc; reflexivity).
    symmetry. apply cache_for_key_shared. exact Hc.
  Qed.

  Lemma two_tier_intro k x : category T k = x -> is_pers_cat x && en_pers c = true -> two_tier T c k = true.
  Proof. intros <- H. exact H. Qed.

  Ltac fin := first [ apply finish_ok | apply set_pc_ok ].

  Lemma set_start_ok cl w k v f : good w -> ok2 (set_start T c cl w k v f).
  Proof.
    intros Hg. unfold set_start. pose proof (ctk_cases k) as Hk. pose proof (allowed_cache k) as Ha.
    destruct (category T k) eqn:Hc; rewrite Hk in Ha.
    - destruct f; apply finish_ok; [apply good_acc|apply good_wr]; assumption.
    - destruct (en_pers c) eqn:Hp.
      + assert (H2 : two_tier T c k = true) by (unfold two_tier; rewrite Hc, Hp; reflexivity).
        destruct f; [apply finish_ok, good_acc; [exact Hg|exact H2]|].
        apply set_pc_ok; [apply good_wr; [exact Hg|exact H2]|]. split; [symmetry; exact Hk|exact H2].
      + destruct f; apply finish_ok; [apply good_acc|apply good_wr]; assumption.
    - destruct f; apply finish_ok; [apply good_acc|apply good_wr]; assumption.
    - destruct (en_pers c) eqn:Hp.
      + assert (H2 : two_tier T c k = true) by (unfold two_tier; rewrite Hc, Hp; reflexivity).
        destruct f; [apply finish_ok, good_acc; [exact Hg|exact H2]|].
        apply set_pc_ok; [apply good_wr; [exact Hg|exact H2]|]. split; [symmetry; exact Hk|exact H2].
      + destruct f; apply finish_ok; [apply good_acc|apply good_wr]; assumption.
  Qed.

  Lemma get_done_ok cl w r : good w -> ok2 (get_done c cl w r).
  Proof.
    intros Hg. unfold get_done.
    destruct (cur cl) as [[]|]; try (apply finish_ok; exact Hg);
      destruct r as [| | |[]| |]; first [apply finish_ok; exact Hg | apply list_go_on_ok; exact Hg].
  Qed.

  Lemma get_start_ok cl w k f : good w -> ok2 (get_start T c cl w k f).
  Proof.
    intros Hg. unfold get_start. pose proof (ctk_cases k) as Hk. pose proof (allowed_cache k) as Ha.
    destruct (category T k) eqn:Hc; rewrite Hk in Ha; cbn [is_pers_cat andb].
    - destruct (if f then None else tget w TLocal k); apply get_done_ok, good_acc; assumption.
    - destruct (if f then None else tget w TLocal k); [apply get_done_ok, good_acc; assumption|].
      destruct (en_pers c) eqn:Hp; [|apply get_done_ok, good_acc; assumption].
      apply get_miss_ok; [apply good_acc; assumption|symmetry; exact Hk|unfold two_tier; rewrite Hc, Hp; reflexivity].
    - apply get_done_ok, good_acc; assumption.
    - destruct (if f then None else tget w (sp_cache c) k); [apply get_done_ok, good_acc; assumption|].
      destruct (en_pers c) eqn:Hp; [|apply get_done_ok, good_acc; assumption].
      apply get_miss_ok; [apply good_acc; assumption|symmetry; exact Hk|unfold two_tier; rewrite Hc, Hp; reflexivity].
  Qed.

  Lemma del_start_ok cl w k f : good w -> ok2 (del_start T c cl w k f).
  Proof.
    intros Hg. unfold del_start. pose proof (ctk_cases k) as Hk. pose proof (allowed_cache k) as Ha.
    assert (Hw : forall ct, allowed T c k ct = true -> good (if f then acc w ct k else wr w ct k None)).
    { intros ct H. destruct f; [apply good_acc|apply good_wr]; assumption. }
    destruct (category T k) eqn:Hc; rewrite Hk in Ha; cbn [is_pers_cat andb].
    - apply finish_ok, Hw, Ha.
    - destruct (en_pers c) eqn:Hp; [|apply finish_ok, Hw, Ha].
      apply set_pc_ok; [apply Hw, Ha|]. cbn. unfold two_tier; rewrite Hc, Hp; reflexivity.
    - apply finish_ok, Hw, Ha.
    - destruct (en_pers c) eqn:Hp; [|apply finish_ok, Hw, Ha].
      apply set_pc_ok; [apply Hw, Ha|]. cbn. unfold two_tier; rewrite Hc, Hp; reflexivity.
  Qed.

  Lemma exists_start_ok cl w k f : good w -> ok2 (exists_start T c cl w k f).
  Proof.
    intros Hg. unfold exists_start. pose proof (ctk_cases k) as Hk. pose proof (allowed_cache k) as Ha.
    destruct (category T k) eqn:Hc; rewrite Hk in Ha; cbn [is_pers_cat andb].
    - destruct (negb f && is_some (tget w TLocal k)); apply finish_ok, good_acc; assumption.
    - destruct (negb f && is_some (tget w TLocal k)); [apply finish_ok, good_acc; assumption|].
      destruct (en_pers c) eqn:Hp; [|apply finish_ok, good_acc; assumption].
      apply set_pc_ok; [apply good_acc; assumption|]. cbn. unfold two_tier; rewrite Hc, Hp; reflexivity.
    - apply finish_ok, good_acc; assumption.
    - destruct (negb f && is_some (tget w (sp_cache c) k)); [apply finish_ok, good_acc; assumption|].
      destruct (en_pers c) eqn:Hp; [|apply finish_ok, good_acc; assumption].
      apply set_pc_ok; [apply good_acc; assumption|]. cbn. unfold two_tier; rewrite Hc, Hp; reflexivity.
  Qed.

  Lemma incr_start_ok cl w k f : good w -> ok2 (incr_start T c cl w k f).
  Proof.
    intros Hg. unfold incr_start. rewrite Hfi. pose proof (allowed_cache k) as Ha.
    destruct f; [apply finish_ok, good_acc; assumption|].
    destruct (tget w (cache_tier_for_key T c k) k) as [[]|]; apply finish_ok;
      first [apply good_wr; assumption | apply good_acc; assumption].
  Qed.

  Lemma setnx_start_ok cl w k v f : good w -> ok2 (setnx_start T c cl w k v f).
  Proof.
    intros Hg. unfold setnx_start. rewrite Hfn. pose proof (allowed_cache k) as Ha. cbn [andb].
    destruct f; [apply finish_ok, good_acc; assumption|].
    destruct (tget w (cache_tier_for_key T c k) k); [apply finish_ok, good_acc; assumption|].
    destruct (two_tier T c k) eqn:H2.
    - apply set_pc_ok; [apply good_wr; assumption|]. split; [reflexivity|exact H2].
    - apply finish_ok, good_wr; assumption.
  Qed.

  Lemma setexp_start_ok cl w k f : good w -> ok2 (setexp_start T c cl w k f).
  Proof.
    intros Hg. unfold setexp_start. rewrite Hfi. pose proof (allowed_cache k) as Ha.
    destruct f; [apply finish_ok, good_acc; assumption|].
    destruct (tget w (cache_tier_for_key T c k) k); [|apply finish_ok, good_acc; assumption].
    destruct (fix_wb c && negb (exp_locked c) && negb (held cl)); apply set_pc_ok; try (apply good_acc; assumption); cbn; reflexivity.
  Qed.

  Lemma pop_fault_pc cl : cpc (snd (pop_fault cl)) = cpc cl.
  Proof. unfold pop_fault. destruct (faults cl); reflexivity. Qed.

  Lemma caller_step_ok cl w : pc_ok (cpc cl) -> good w -> ok2 (caller_step T c cl w).
  Proof.
    intros Hp Hg. unfold caller_step.
    destruct (cpc cl) eqn:Epc; cbn [pc_ok] in Hp.
    - destruct (ops cl) as [|o r]; [split; [cbn; rewrite Epc; exact I|exact Hg]|].
      destruct (locks_op c o); [apply acquire_ok; [exact Hg|exact I]|].
      destruct (pop_fault cl) as [f cl1].
      destruct o; cbn [op_start];
        first [apply set_start_ok | apply get_start_ok | apply del_start_ok | apply exists_start_ok
              | apply incr_start_ok | apply setnx_start_ok | apply setexp_start_ok]; exact Hg.
    - destruct Hp as [-> H2]. destruct (pop_fault cl) as [f cl1].
      destruct f; [destruct (fix_cwf c); [apply set_pc_ok; [apply good_acc; [exact Hg|apply allowed_cache]|split; [reflexivity|exact H2]]|]|];
        apply finish_ok; [apply good_acc|apply good_wr]; first [exact Hg | apply allowed_cache].
    - destruct Hp as [-> H2]. destruct (pop_fault cl) as [f cl1].
      destruct f; [apply get_done_ok, good_acc; [exact Hg|exact H2]|].
      destruct (tget w TPers k); apply get_done_ok; [apply good_spawn; [|reflexivity]|]; apply good_acc; first [exact Hg|exact H2].
    - destruct (pop_fault cl) as [f cl1]. apply finish_ok.
      destruct f; [apply good_acc|apply good_wr]; first [exact Hg|exact Hp].
    - destruct (pop_fault cl) as [f cl1]. apply finish_ok, good_acc; [exact Hg|exact Hp].
    - destruct (pop_fault cl) as [f cl1]. apply set_start_ok. exact Hg.
    - contradiction.
    - destruct Hp as [-> H2]. destruct (pop_fault cl) as [f cl1].
      destruct f; [apply set_pc_ok; [apply good_acc; [exact Hg|exact H2]|split; [reflexivity|exact H2]]|].
      apply finish_ok, good_wr; [exact Hg|exact H2].
    - destruct Hp as [-> H2]. destruct (pop_fault cl) as [f cl1]. apply finish_ok.
      destruct f; [apply good_acc|apply good_wr]; first [exact Hg | apply allowed_cache].
    - (* PWant *) apply acquire_ok; assumption.
    - (* PBegin *) destruct (pop_fault cl) as [f cl1]. destruct (cur cl1) as [o|]; [|split; [cbn; rewrite Epc; exact I|exact Hg]].
      destruct o; cbn [op_start];
        first [apply set_start_ok | apply get_start_ok | apply del_start_ok | apply exists_start_ok
              | apply incr_start_ok | apply setnx_start_ok | apply setexp_start_ok]; exact Hg.
    - (* PGetRecheck *) destruct Hp as [-> H2]. destruct (pop_fault cl) as [f cl1].
      destruct (if f then None else tget w (cache_tier_for_key T c k) k).
      + apply get_done_ok, good_acc; [exact Hg|apply allowed_cache].
      + apply set_pc_ok; [apply good_acc; [exact Hg|apply allowed_cache]|split; [reflexivity|exact H2]].
    - (* PGetPersL *) destruct Hp as [-> H2]. destruct (pop_fault cl) as [f cl1].
      destruct f; [apply get_done_ok, good_acc; [exact Hg|exact H2]|].
      destruct (tget w TPers k); [apply set_pc_ok; [apply good_acc; [exact Hg|exact H2]|split; [reflexivity|exact H2]]|apply get_done_ok, good_acc; [exact Hg|exact H2]].
    - (* PGetFill *) destruct Hp as [-> H2]. destruct (pop_fault cl) as [f cl1]. apply get_done_ok.
      destruct f; [apply good_acc|apply good_wr]; first [exact Hg | apply allowed_cache].
    - (* PSetInval *) destruct Hp as [-> H2]. destruct (pop_fault cl) as [f cl1].
      destruct f; apply finish_ok; [apply good_acc|apply good_wr]; first [exact Hg | apply allowed_cache].
    - (* PExpSet *) subst ct. destruct (pop_fault cl) as [f cl1].
      destruct f; apply finish_ok; [apply good_acc|apply good_wr]; first [exact Hg | apply allowed_cache].
  Qed.

  Definition RInv (s : world * list thread) : Prop := good (fst s) /\ Forall thread_ok (snd s).

  Lemma tstep_ok t w : thread_ok t -> good w -> thread_ok (fst (tstep T c t w)) /\ good (snd (tstep T c t w)).
  Proof.
    intros Ht Hg. destruct t as [cl|j [|]]; cbn [tstep].
    - pose proof (caller_step_ok cl w Ht Hg) as H. destruct (caller_step T c cl w) as [cl' w']. exact H.
    - split; [exact I|exact Hg].
    - destruct (nth_error (w_spawned w) j) as [[[k ct] v]|] eqn:E; cbn [fst snd]; [|split; [exact I|exact Hg]].
      split; [exact I|]. apply good_wr; [exact Hg|].
      destruct Hg as [_ Hs]. pose proof (Forall_nth_error _ _ _ _ Hs E) as H. cbn in H. rewrite H. apply allowed_cache.
  Qed.

  Lemma rinv_step s i : RInv s -> RInv (sys_step _ _ (tstep T c) s i).
  Proof.
    destruct s as [w ts]. unfold RInv, sys_step. cbn [fst snd]. intros [Hg Hts].
    destruct (nth_error ts i) as [t|] eqn:E; [|split; assumption].
    pose proof (tstep_ok t w (Forall_nth_error _ _ _ _ Hts E) Hg) as [H1 H2].
    destruct (tstep T c t w) as [t' w']. cbn [fst snd] in *. split; [exact H2|].
    apply Forall_upd_nth; assumption.
  Qed.

  (* every tier call of every operation on every key, for every schedule and any number of callers *)
  Theorem routing_all_schedules w ts sched :
    good w -> Forall thread_ok ts -> RInv (hrun T c w ts sched).
  Proof.
    intros Hg Hts. unfold hrun. apply inv_all_schedules; [intros s i; apply rinv_step|split; assumption].
  Qed.

  Lemma init_good l s p : good (init_world l s p).
  Proof. split; cbn; constructor. Qed.
  Lemma init_threads_ok (cs : list (list op * list bool)) n :
    Forall thread_ok (map (fun it => TCaller (init_caller (fst it) (fst (snd it)) (snd (snd it)))) (combine (seq 0 (length cs)) cs) ++ wb_workers n).
  Proof.
    apply Forall_app. split.
    - apply Forall_forall. intros t Ht. apply in_map_iff in Ht. destruct Ht as (x & <- & _). exact I.
    - apply Forall_forall. intros t Ht. unfold wb_workers in Ht. apply in_map_iff in Ht. destruct Ht as (x & <- & _). exact I.
  Qed.
End Routing.

(* Proofs/HybridSeq.v — C14: non-overlapping operations.  (1) a caller's result log and the world's history of completed operations
   grow together (any code variant); (2) for the repaired code, one operation run to completion (Model/Hybrid.v exec_op: what a node
   does in a sequential cross-node history) is exactly one step of the one-register specification, on every key class, from every
   coherent state; hence (3) read-your-writes for arbitrary sequential histories and (4) cross-node visibility: after any node's Set /
   Delete of a key with a common tier, a node with a cold local cache reads exactly that value / not found. *)
From TX Require Import Model.Hybrid Model.HybridNodes Proofs.Hybrid Proofs.HybridOne Proofs.HybridLock.
From Coq Require Import Lia.

Lemma hist_acc w t k : w_hist (acc w t k) = w_hist w.
Proof. reflexivity. Qed.
Lemma hist_spawn w k t v : w_hist (spawn w k t v) = w_hist w.
Proof. reflexivity. Qed.

Section Log.
  Variable T : tables.
  Variable c : cfg.

  (* the effect of a piece of a caller's step on (identity, current operation, log, history) *)
  Definition R (o : op) (cl : caller) (w : world) (r : caller * world) : Prop :=
    me (fst r) = me cl /\ ops (fst r) = ops cl /\
    ((log (fst r) = log cl /\ w_hist (snd r) = w_hist w /\ cur (fst r) = Some o) \/
     (exists x, log (fst r) = x :: log cl /\ w_hist (snd r) = (me cl, o, x) :: w_hist w /\ cur (fst r) = None)).

  Lemma R_finish o cl w W x : cur cl = Some o -> w_hist W = w_hist w -> R o cl w (finish cl W x).
  Proof.
    intros Hc Hh. unfold R, finish. rewrite Hc. cbn [fst snd me log cur ops]. split; [reflexivity|]. split; [reflexivity|]. right. exists x.
    split; [reflexivity|]. split; [|reflexivity]. destruct (held cl); cbn; rewrite Hh; reflexivity.
  Qed.
  Lemma R_setpc o cl w W p : cur cl = Some o -> w_hist W = w_hist w -> R o cl w (set_pc cl p, W).
  Proof. intros Hc Hh. unfold R. cbn. auto 10. Qed.
  Lemma R_acquire o cl w W p : cur cl = Some o -> w_hist W = w_hist w -> R o cl w (acquire cl W p).
  Proof. intros Hc Hh. unfold R, acquire. destruct (w_locks W (cur_key cl)); cbn; auto 10. Qed.
  Lemma R_same o cl w cl' W : me cl' = me cl -> ops cl' = ops cl -> log cl' = log cl -> cur cl' = Some o -> w_hist W = w_hist w -> R o cl w (cl', W).
  Proof. intros. unfold R. cbn. auto 10. Qed.

  Ltac hh := cbn [w_hist]; rewrite ?hist_wr, ?hist_acc, ?hist_spawn, ?hist_tset; try reflexivity; try assumption.
  Ltac rl := repeat match goal with
                    | |- context [match ?x with _ => _ end] => destruct x
                    end.

  Lemma release_facts cl W : me (fst (release cl W)) = me cl /\ ops (fst (release cl W)) = ops cl /\ log (fst (release cl W)) = log cl /\ cur (fst (release cl W)) = cur cl /\
                             w_hist (snd (release cl W)) = w_hist W.
  Proof. unfold release. destruct (held cl); cbn; auto. Qed.
  Lemma R_list_go_on o cl w W k v : cur cl = Some o -> w_hist W = w_hist w -> R o cl w (list_go_on c cl W k v).
  Proof.
    intros Hc Hh. unfold list_go_on. destruct (fix_list c); [apply R_setpc; assumption|].
    destruct (release_facts cl W) as (A1 & A0 & A2 & A3 & A4). destruct (release cl W) as [cl1 w1]. cbn [fst snd] in *.
    destruct (fix_wb c); apply R_same; cbn; congruence.
  Qed.
  Lemma R_get_done o cl w W r : cur cl = Some o -> w_hist W = w_hist w -> R o cl w (get_done c cl W r).
  Proof.
    intros Hc Hh. unfold get_done. rewrite Hc. destruct o; try (apply R_finish; assumption);
      rl; first [apply R_finish; assumption | apply R_list_go_on; assumption].
  Qed.
  Lemma R_get_miss o cl w W k ct : cur cl = Some o -> w_hist W = w_hist w -> R o cl w (get_miss c cl W k ct).
  Proof. intros Hc Hh. unfold get_miss. rl; apply R_setpc; assumption. Qed.

  Lemma R_op_start o cl w f : cur cl = Some o -> R o cl w (op_start T c cl w o f).
  Proof.
    intros Hc. destruct o; cbn [op_start];
      unfold set_start, get_start, del_start, exists_start, incr_start, setnx_start, setexp_start; rl;
      first [ apply R_finish; [assumption|hh] | apply R_setpc; [assumption|hh] | apply R_get_done; [assumption|hh]
            | apply R_get_miss; [assumption|hh] ].
  Qed.

  Definition active (cl : caller) : option op := match cpc cl with PIdle => hd_error (ops cl) | _ => cur cl end.

  Definition logstep (cl : caller) (w : world) (o : op) (r : caller * world) : Prop :=
    me (fst r) = me cl /\ ops (fst r) = match cpc cl with PIdle => tl (ops cl) | _ => ops cl end /\
    ((log (fst r) = log cl /\ w_hist (snd r) = w_hist w /\ cur (fst r) = Some o) \/
     (exists x, log (fst r) = x :: log cl /\ w_hist (snd r) = (me cl, o, x) :: w_hist w /\ cur (fst r) = None)).

  Lemma R_logstep o cl w cl1 r : me cl1 = me cl -> log cl1 = log cl ->
    ops cl1 = match cpc cl with PIdle => tl (ops cl) | _ => ops cl end -> R o cl1 w r -> logstep cl w o r.
  Proof.
    intros M1 M2 M0 (H1 & H0 & H2). unfold logstep. rewrite <- M1, <- M2, <- M0. split; [exact H1|]. split; [exact H0|exact H2].
  Qed.

  Lemma pop_fault_facts cl : me (snd (pop_fault cl)) = me cl /\ log (snd (pop_fault cl)) = log cl /\ cur (snd (pop_fault cl)) = cur cl /\
                             ops (snd (pop_fault cl)) = ops cl.
  Proof. unfold pop_fault. destruct (faults cl); cbn; auto. Qed.

  (* every step of a caller: identity kept; log and history untouched, or both extended by the result of the active operation *)
  Lemma caller_step_log cl w o : active cl = Some o -> logstep cl w o (caller_step T c cl w).
  Proof.
    intros Ha. unfold active in Ha. unfold caller_step.
    destruct (pop_fault_facts cl) as (M1 & M2 & M3 & M0).
    destruct (cpc cl) eqn:Epc.
    1:{ destruct (ops cl) as [|o0 r0] eqn:Eo; [discriminate|]. cbn in Ha. inversion Ha; subst o0.
        destruct (locks_op c o).
        - unfold acquire, logstep. rewrite Epc. cbn [cur_key cur]. destruct (w_locks w (op_key o)); cbn; rewrite ?Eo; cbn; auto 10.
        - destruct (pop_fault cl) as [f cl1]. cbn [snd] in M1, M2.
          apply (R_logstep o cl w {| me := me cl1; ops := r0; cur := Some o; cpc := PIdle; faults := faults cl1; log := log cl1; held := held cl1 |});
            [exact M1|exact M2|rewrite Epc, Eo; reflexivity|]. apply R_op_start. reflexivity. }
    all: try (unfold acquire, logstep; rewrite Epc; destruct (w_locks w (cur_key cl)); cbn; auto 10; fail).
    all: destruct (pop_fault cl) as [f cl1]; cbn [snd] in M1, M2, M3, M0; rewrite Ha in M3;
      apply (R_logstep o cl w cl1 _ M1 M2); [rewrite Epc; exact M0|]; rewrite ?M3; rl;
      first [ apply R_finish; [assumption|hh] | apply R_setpc; [assumption|hh] | apply R_get_done; [assumption|hh]
            | apply R_op_start; assumption
            | (unfold set_start; rl; first [apply R_finish; [assumption|hh] | apply R_setpc; [assumption|hh]]) ].
  Qed.
End Log.

Lemma cons_neq {A} (x : A) (l : list A) : l <> x :: l.
Proof. induction l as [|y l IH]; [discriminate|]. intros H. inversion H; subst. apply IH. assumption. Qed.

Section Seq.
  Variable T : tables.
  Variable c : cfg.
  Hypothesis Hfi : fix_incr c = true.
  Hypothesis Hfn : fix_setnx c = true.
  Hypothesis Hwb : fix_wb c = true.
  Hypothesis Hfl : fix_list c = true.
  Hypothesis Hexp : exp_locked c = true.
  Variable k : kbytes.
  Let ct := cache_tier_for_key T c k.

  (* what one completed operation did to the register: a step of the specification (SetExpiration: nothing, and its answer is admissible) *)
  Definition op_effect (st0 : option value) (o : op) (x : res) (st : option value) : Prop :=
    (st = fst (spec_op st0 o) /\ x = snd (spec_op st0 o)) \/ (exists kk, o = OSetExp kk /\ st = st0 /\ exp_res_ok st0 x).

  (* invariant of ONE caller running ONE operation o alone (nobody else holds the key lock) *)
  Definition SInv (o : op) (st0 : option value) (h0 : list (nat * op * res)) (sp0 : list (kbytes * tier * value))
             (cl : caller) (w : world) : Prop :=
    exists st,
      cinv T c k cl st (tget w ct k) (tget w TPers k) /\ cview T c k st (tget w ct k) /\
      w_locks w k = held cl /\ (held cl = false -> pview T c k st (tget w TPers k)) /\
      w_spawned w = sp0 /\ me cl = 0 /\
      ((cur cl = None /\ cpc cl = PIdle /\ ops cl = [o] /\ w_hist w = h0 /\ log cl = [] /\ st = st0) \/
       (cur cl = Some o /\ ops cl = [] /\ w_hist w = h0 /\ log cl = [] /\ st = st0) \/
       (exists x, cur cl = None /\ ops cl = [] /\ w_hist w = (0, o, x) :: h0 /\ log cl = [x] /\ op_effect st0 o x st)).

  Lemma hstep_cases st h st' h' : hstep st h st' h' ->
    (h' = h /\ st' = st) \/ (exists i o x, h' = (i, o, x) :: h /\ op_effect st o x st').
  Proof.
    intros H. destruct H.
    - left. auto.
    - right. exists i, o, (snd (spec_op st o)). split; [reflexivity|]. left. auto.
    - right. exists i, (OSetExp k0), r. split; [reflexivity|]. right. exists k0. auto.
  Qed.

  Lemma sinv_step o st0 h0 sp0 cl w :
    SInv o st0 h0 sp0 cl w -> active cl = Some o ->
    SInv o st0 h0 sp0 (fst (caller_step T c cl w)) (snd (caller_step T c cl w)).
  Proof.
    intros (st & Hci & Hcv & HL & Hpv & Hsp & Hme & Hj) Ha.
    assert (Hpv' : w_locks w k = false -> pview T c k st (tget w TPers k)) by (intros E; apply Hpv; congruence).
    assert (HL' : held cl = true -> w_locks w k = true) by (intros E; congruence).
    pose proof (caller_step_post T c Hfi Hfn Hwb Hfl Hexp k cl w st Hci Hcv Hpv' HL') as (st' & Hhs & Hci' & Hcv' & Hsp' & Htr).
    pose proof (caller_step_log T c cl w o Ha) as (Lme & Lops & Llog).
    destruct (caller_step T c cl w) as [cl' w']. cbn [fst snd] in *. fold ct in Hci', Hcv', Htr.
    exists st'. split; [exact Hci'|]. split; [exact Hcv'|].
    assert (Hlock : w_locks w' k = held cl' /\ (held cl' = false -> pview T c k st' (tget w' TPers k))).
    { unfold trans in Htr. destruct (held cl) eqn:Eh; destruct (held cl') eqn:Eh'.
      - split; [congruence|discriminate].
      - destruct Htr as [E1 E2]. split; [exact E1|intros _; exact E2].
      - destruct Htr as (E0 & E1 & _). split; [exact E1|discriminate].
      - destruct Htr as (E1 & E2 & E3 & E4). subst st'. rewrite E3. split; [congruence|intros _; apply Hpv; reflexivity]. }
    destruct Hlock as [Hl1 Hl2]. split; [exact Hl1|]. split; [exact Hl2|]. split; [congruence|]. split; [congruence|].
    destruct (hstep_cases _ _ _ _ Hhs) as [[Eh Est]|(i & o' & x & Eh & Heff)].
    - (* the history did not grow: the operation is still running (or has just started) *)
      destruct Llog as [(L1 & L2 & L3)|(x & L1 & L2 & L3)]; [|exfalso; rewrite Eh in L2; exact (cons_neq _ _ L2)].
      right. left. subst st'.
      destruct Hj as [(J1 & J2 & J3 & J4 & J5 & J6)|[(J1 & J3 & J4 & J5 & J6)|(x & J1 & J3 & J4 & J5 & J6)]].
      + rewrite J2, J3 in Lops. cbn in Lops. repeat split; congruence.
      + assert (Lo : ops cl' = []) by (destruct (cpc cl); cbn in Lops; rewrite J3 in Lops; exact Lops). repeat split; congruence.
      + exfalso. unfold active in Ha. destruct (cpc cl); rewrite ?J1, ?J3 in Ha; discriminate.
    - (* the operation completed in this step *)
      destruct Llog as [(L1 & L2 & L3)|(x' & L1 & L2 & L3)]; [exfalso; rewrite L2 in Eh; exact (cons_neq _ _ Eh)|].
      rewrite Eh in L2. inversion L2; subst i o' x'. right. right. exists x.
      destruct Hj as [(J1 & J2 & J3 & J4 & J5 & J6)|[(J1 & J3 & J4 & J5 & J6)|(y & J1 & J3 & J4 & J5 & J6)]].
      + rewrite J2, J3 in Lops. cbn in Lops. subst st. rewrite Hme in *. repeat split; try congruence.
      + assert (Lo : ops cl' = []) by (destruct (cpc cl); cbn in Lops; rewrite J3 in Lops; exact Lops).
        subst st. rewrite Hme in *. repeat split; congruence.
      + exfalso. unfold active in Ha. destruct (cpc cl); rewrite ?J1, ?J3 in Ha; discriminate.
  Qed.

  Lemma sinv_active o st0 h0 sp0 cl w : SInv o st0 h0 sp0 cl w -> cpc cl <> PIdle -> active cl = Some o.
  Proof.
    intros (st & Hci & _ & _ & _ & _ & _ & Hj) Hpc. unfold active.
    destruct Hj as [(J1 & J2 & _)|[(J1 & _)|(x & J1 & _)]].
    - contradiction.
    - destruct (cpc cl); congruence.
    - exfalso. unfold cinv in Hci. destruct Hci as (_ & _ & Hm). rewrite J1 in Hm.
      destruct (held cl); destruct (cpc cl) as [| | | | | | | | |nxt| | | | | |]; try contradiction; try congruence; try (destruct nxt; contradiction); try (destruct e; contradiction).
  Qed.

  Lemma sinv_run o st0 h0 sp0 : forall n cl w,
    SInv o st0 h0 sp0 cl w -> active cl = Some o ->
    SInv o st0 h0 sp0 (fst (run_caller T c n cl w)) (snd (run_caller T c n cl w)).
  Proof.
    induction n as [|n IH]; intros cl w Hs Ha; cbn [run_caller]; [exact Hs|].
    pose proof (sinv_step o st0 h0 sp0 cl w Hs Ha) as Hs'.
    destruct (caller_step T c cl w) as [cl' w']. cbn [fst snd] in Hs'.
    destruct (cpc cl') eqn:Epc; try exact Hs'.
    all: apply IH; [exact Hs'|apply (sinv_active o st0 h0 sp0 cl' w' Hs'); rewrite Epc; discriminate].
  Qed.

  (* ---- termination: every step of a lone caller strictly decreases a rank; 10 steps always suffice (exec_op has fuel 12) ---- *)
  Fixpoint rk (p : pc) : nat :=
    match p with
    | PIdle => 0
    | PSetInval _ _ | PNxUndo _ _ => 1
    | PSetCache _ _ _ | PDelPers _ _ | PExPers _ | PExpSet _ _ _ | PIncrSet _ _ | PNxPers _ _ _ => 2
    | PSetStart _ _ => 3
    | PGetPers _ _ | PGetFill _ _ _ => 5
    | PGetPersL _ _ => 6
    | PGetRecheck _ _ => 7
    | PBegin => 8
    | PWant n => S (rk n)
    end.
  Definition rkc (cl : caller) : nat := match cpc cl with PIdle => match ops cl with [] => 0 | _ => 10 end | p => rk p end.
  Definition B (n : nat) (r : caller * world) : Prop := rk (cpc (fst r)) <= n.

  Lemma B_finish cl w x n : B n (finish cl w x).
  Proof. unfold B, finish. cbn. lia. Qed.
  Lemma B_setpc cl w p n : rk p <= n -> B n (set_pc cl p, w).
  Proof. unfold B. cbn. auto. Qed.
  Lemma B_mono n m r : B n r -> n <= m -> B m r.
  Proof. unfold B. lia. Qed.

  Ltac rl2 := repeat match goal with
                     | |- context [match ?x with _ => _ end] => destruct x
                     end.
  Ltac bb := first [ apply B_finish | apply B_setpc; cbn [rk]; lia ].

  Lemma B_get_done cl w r : B 3 (get_done c cl w r).
  Proof. unfold get_done, list_go_on. rewrite Hfl. rl2; bb. Qed.
  Lemma B_get_miss cl w kk t : B (if held cl then 6 else 8) (get_miss c cl w kk t).
  Proof. unfold get_miss. rewrite Hwb. destruct (held cl); bb. Qed.
  Lemma B_op_start cl w o f n : (if held cl then 6 else 8) <= n -> B n (op_start T c cl w o f).
  Proof.
    intros Hn. assert (H3 : 3 <= n) by (destruct (held cl); lia).
    destruct o; cbn [op_start];
      unfold set_start, get_start, del_start, exists_start, incr_start, setnx_start, setexp_start; rewrite ?Hfi, ?Hfn, ?Hwb, ?Hexp; cbn [andb negb];
      rl2; first [ apply B_finish | (apply B_setpc; cbn [rk]; lia) | (eapply B_mono; [apply B_get_done|exact H3]) | (eapply B_mono; [apply B_get_miss|exact Hn]) ].
  Qed.

  Lemma rk_pos p : p <> PIdle -> 1 <= rk p.
  Proof. destruct p; cbn; try lia. congruence. Qed.

  Lemma step_rank o st0 h0 sp0 cl w :
    SInv o st0 h0 sp0 cl w -> active cl = Some o -> lop_ok T c k o ->
    rkc (fst (caller_step T c cl w)) < rkc cl.
  Proof.
    intros Hs Ha Hok. pose proof (sinv_step o st0 h0 sp0 cl w Hs Ha) as Hs'.
    destruct Hs as (st & Hci & _ & HL & _ & _ & _ & Hj).
    pose proof (caller_step_log T c cl w o Ha) as (_ & Lops & _).
    assert (Hops' : ops (fst (caller_step T c cl w)) = []).
    { destruct Hj as [(J1 & J2 & J3 & _)|[(J1 & J3 & _)|(x & J1 & J3 & _)]]; rewrite Lops.
      - rewrite J2, J3. reflexivity.
      - destruct (cpc cl); rewrite J3; reflexivity.
      - destruct (cpc cl); rewrite J3; reflexivity. }
    assert (Hk : cur_key cl = k \/ cpc cl = PIdle).
    { destruct Hj as [(J1 & J2 & _)|[(J1 & _)|(x & J1 & J3 & _)]]; [right; exact J2|left; unfold cur_key; rewrite J1; destruct Hok; assumption|].
      exfalso. unfold active in Ha. destruct (cpc cl); rewrite ?J1, ?J3 in Ha; discriminate. }
    assert (Hr : rk (cpc (fst (caller_step T c cl w))) < rkc cl).
    { unfold caller_step, rkc. destruct (cpc cl) eqn:Epc.
      - (* idle with the operation still to start *)
        unfold active in Ha. rewrite Epc in Ha. destruct (ops cl) as [|o0 r0] eqn:Eo; [discriminate|]. cbn in Ha. inversion Ha; subst o0.
        assert (Hh : held cl = false).
        { unfold cinv in Hci. destruct Hci as (_ & _ & Hm). rewrite Epc in Hm. destruct (held cl); [contradiction|reflexivity]. }
        destruct (locks_op c o).
        + unfold acquire. cbn [cur_key cur]. destruct Hok as [Hk0 _]. rewrite Hk0, HL, Hh. cbn. lia.
        + destruct (pop_fault cl) as [f cl1] eqn:Ep.
          pose proof (B_op_start {| me := me cl1; ops := r0; cur := Some o; cpc := PIdle; faults := faults cl1; log := log cl1; held := held cl1 |} w o f 8) as Hb.
          unfold B in Hb. cbn [held] in Hb. assert (Hb' := Hb ltac:(destruct (held cl1); lia)). lia.
      - unfold cinv in Hci. destruct Hci as (_ & _ & Hm). rewrite Epc in Hm. destruct (held cl) eqn:Hh; [|contradiction].
        destruct (pop_fault cl) as [f cl1]. destruct f; [destruct (fix_cwf c)|]; cbn; lia.
      - unfold cinv in Hci. destruct Hci as (_ & _ & Hm). rewrite Epc in Hm. destruct (held cl); contradiction.
      - destruct (pop_fault cl) as [f cl1]. cbn. lia.
      - unfold cinv in Hci. destruct Hci as (_ & _ & Hm). rewrite Epc in Hm. destruct (held cl); contradiction.
      - destruct (pop_fault cl) as [f cl1]. unfold set_start. rl2; cbn; lia.
      - unfold cinv in Hci. destruct Hci as (_ & _ & Hm). rewrite Epc in Hm. destruct (held cl); contradiction.
      - unfold cinv in Hci. destruct Hci as (_ & _ & Hm). rewrite Epc in Hm. destruct (held cl); contradiction.
      - unfold cinv in Hci. destruct Hci as (_ & _ & Hm). rewrite Epc in Hm. destruct (held cl); contradiction.
      - (* waiting for the lock: nobody else holds it *)
        assert (Hh : held cl = false).
        { unfold cinv in Hci. destruct Hci as (_ & _ & Hm). rewrite Epc in Hm. destruct (held cl); [contradiction|reflexivity]. }
        destruct Hk as [Hk|Hk]; [|congruence]. unfold acquire. rewrite Hk, HL, Hh. cbn. lia.
      - (* lock held, first tier call *)
        assert (Hh : held cl = true).
        { unfold cinv in Hci. destruct Hci as (_ & _ & Hm). rewrite Epc in Hm. destruct (held cl); [reflexivity|contradiction]. }
        destruct (pop_fault cl) as [f cl1] eqn:Ep.
        assert (Hh1 : held cl1 = true) by (unfold pop_fault in Ep; destruct (faults cl); inversion Ep; subst; cbn; assumption).
        assert (Hc1 : cur cl1 = cur cl) by (unfold pop_fault in Ep; destruct (faults cl); inversion Ep; subst; cbn; reflexivity).
        rewrite Hc1. destruct (cur cl) as [o1|] eqn:Ec; [|exfalso; unfold cinv in Hci; destruct Hci as (_ & _ & Hm); rewrite Epc, Hh, Ec in Hm; exact Hm].
        pose proof (B_op_start cl1 w o1 f 6) as Hb. unfold B in Hb. rewrite Hh1 in Hb. assert (Hb' := Hb ltac:(lia)). cbn [rk]. lia.
      - destruct (pop_fault cl) as [f cl1]. destruct (if f then None else tget w ct0 k0); [pose proof (B_get_done cl1 (acc w ct0 k0) (RVal v)) as Hb; unfold B in Hb; cbn [rk]; lia|cbn; lia].
      - destruct (pop_fault cl) as [f cl1]. destruct f; [pose proof (B_get_done cl1 (acc w TPers k0) RErr) as Hb; unfold B in Hb; cbn [rk]; lia|].
        destruct (tget w TPers k0); [cbn; lia|pose proof (B_get_done cl1 (acc w TPers k0) RNotFound) as Hb; unfold B in Hb; cbn [rk]; lia].
      - destruct (pop_fault cl) as [f cl1].
        pose proof (B_get_done cl1 (if f then acc w ct0 k0 else wr w ct0 k0 (Some v)) (RVal v)) as Hb. unfold B in Hb. cbn [rk]. lia.
      - destruct (pop_fault cl) as [f cl1]. destruct f; cbn; lia.
      - destruct (pop_fault cl) as [f cl1]. destruct f; cbn; lia. }
    unfold rkc at 1. rewrite Hops'. destruct (cpc (fst (caller_step T c cl w))); cbn [rk] in Hr |- *; lia.
  Qed.

  Lemma run_terminates o st0 h0 sp0 : forall n cl w,
    SInv o st0 h0 sp0 cl w -> active cl = Some o -> lop_ok T c k o -> rkc cl <= n ->
    cpc (fst (run_caller T c n cl w)) = PIdle.
  Proof.
    induction n as [|n IH]; intros cl w Hs Ha Hok Hn.
    - exfalso. unfold rkc, active in *. destruct (cpc cl) eqn:Epc; [destruct (ops cl); [discriminate|lia]|..]; cbn [rk] in Hn; lia.
    - cbn [run_caller]. pose proof (sinv_step o st0 h0 sp0 cl w Hs Ha) as Hs'. pose proof (step_rank o st0 h0 sp0 cl w Hs Ha Hok) as Hr.
      destruct (caller_step T c cl w) as [cl' w']. cbn [fst snd] in *.
      destruct (cpc cl') eqn:Epc; [cbn [fst]; exact Epc|..].
      all: apply IH; [exact Hs'|apply (sinv_active o st0 h0 sp0 cl' w' Hs'); rewrite Epc; discriminate|exact Hok|lia].
  Qed.

  Lemma run_ops_nil o st0 h0 sp0 : forall n cl w,
    SInv o st0 h0 sp0 cl w -> active cl = Some o -> ops (fst (run_caller T c (S n) cl w)) = [].
  Proof.
    induction n as [|n IH]; intros cl w Hs Ha.
    - cbn [run_caller]. pose proof (caller_step_log T c cl w o Ha) as (_ & Lo & _).
      destruct Hs as (st & _ & _ & _ & _ & _ & _ & Hj).
      assert (Ho : ops (fst (caller_step T c cl w)) = []).
      { rewrite Lo. destruct Hj as [(J1 & J2 & J3 & _)|[(J1 & J3 & _)|(x & J1 & J3 & _)]].
        - rewrite J2, J3. reflexivity.
        - destruct (cpc cl); rewrite J3; reflexivity.
        - destruct (cpc cl); rewrite J3; reflexivity. }
      destruct (caller_step T c cl w) as [cl' w']. cbn [fst snd] in *. destruct (cpc cl'); exact Ho.
    - change (run_caller T c (S (S n)) cl w) with
        (let '(cl', w') := caller_step T c cl w in match cpc cl' with PIdle => (cl', w') | _ => run_caller T c (S n) cl' w' end).
      pose proof (sinv_step o st0 h0 sp0 cl w Hs Ha) as Hs'. pose proof (caller_step_log T c cl w o Ha) as (_ & Lo & _).
      destruct Hs as (st & _ & _ & _ & _ & _ & _ & Hj).
      assert (Ho : ops (fst (caller_step T c cl w)) = []).
      { rewrite Lo. destruct Hj as [(J1 & J2 & J3 & _)|[(J1 & J3 & _)|(x & J1 & J3 & _)]].
        - rewrite J2, J3. reflexivity.
        - destruct (cpc cl); rewrite J3; reflexivity.
        - destruct (cpc cl); rewrite J3; reflexivity. }
      destruct (caller_step T c cl w) as [cl' w']. cbn [fst snd] in *.
      destruct (cpc cl') eqn:Epc; [exact Ho|..].
      all: apply IH; [exact Hs'|apply (sinv_active o st0 h0 sp0 cl' w' Hs'); rewrite Epc; discriminate].
  Qed.

  Lemma land_all_nothing w : land_all (length (w_spawned w)) w = w.
  Proof. unfold land_all. rewrite skipn_all. reflexivity. Qed.

  (* ONE operation run to completion (no other caller): exactly one step of the one-register specification — for every key class, every
     coherent state; the fuel of exec_op always suffices *)
  Theorem exec_op_repaired w o :
    lop_ok T c k o -> coherent T c w k -> w_locks w k = false ->
    exists x,
      snd (exec_op T c w o) = Some x /\
      op_effect (visible T c w k) o x (visible T c (fst (exec_op T c w o)) k) /\
      coherent T c (fst (exec_op T c w o)) k /\ w_locks (fst (exec_op T c w o)) k = false.
  Proof.
    intros Hok Hco HL. destruct (init_views T c k w Hco) as [Hcv Hpv].
    assert (Hs : SInv o (visible T c w k) (w_hist w) (w_spawned w) (init_caller 0 [o] []) w).
    { exists (visible T c w k). fold ct in Hcv. split; [|split; [exact Hcv|split; [exact HL|split; [intros _; exact Hpv|split; [reflexivity|split; [reflexivity|]]]]]].
      - unfold cinv. cbn. split; [reflexivity|]. split; [constructor; [exact Hok|constructor]|exact I].
      - left. cbn. auto 10. }
    assert (Ha : active (init_caller 0 [o] []) = Some o) by reflexivity.
    pose proof (sinv_run o _ _ _ 12 _ _ Hs Ha) as Hs'.
    assert (Hrk : rkc (init_caller 0 [o] []) <= 12) by (unfold rkc, init_caller; cbn [cpc ops]; lia).
    pose proof (run_terminates o _ _ _ 12 _ _ Hs Ha Hok Hrk) as Ht.
    unfold exec_op. destruct (run_caller T c 12 (init_caller 0 [o] []) w) as [cl w1] eqn:Er. cbn [fst snd] in *.
    destruct Hs' as (st & Hci & Hcv1 & HL1 & Hpv1 & Hsp & Hme & Hj). rewrite Ht.
    assert (Hh : held cl = false).
    { unfold cinv in Hci. destruct Hci as (_ & _ & Hm). rewrite Ht in Hm. destruct (held cl); [contradiction|reflexivity]. }
    destruct Hj as [(J1 & J2 & J3 & J4 & J5 & J6)|[(J1 & J3 & J4 & J5 & J6)|(x & J1 & J3 & J4 & J5 & J6)]].
    - (* still before its first step: impossible, run_caller made at least one step *)
      exfalso. pose proof (run_ops_nil o _ _ _ 11 _ _ Hs Ha) as Hx. rewrite Er in Hx. cbn [fst] in Hx. congruence.
    - exfalso. unfold cinv in Hci. destruct Hci as (_ & _ & Hm). rewrite Ht, Hh, J1 in Hm. exact Hm.
    - rewrite J3, J5. cbn [fst snd]. exists x. split; [reflexivity|].
      rewrite <- Hsp. rewrite land_all_nothing. fold ct in Hcv1.
      destruct (free_views T c k w1 st Hcv1 (Hpv1 Hh)) as [Hv Hc]. rewrite Hv. split; [exact J6|]. split; [exact Hc|congruence].
  Qed.
End Seq.

Section SeqThms.
  Variable T : tables.
  Variable c : cfg.
  Hypothesis Hfi : fix_incr c = true.
  Hypothesis Hfn : fix_setnx c = true.
  Hypothesis Hwb : fix_wb c = true.
  Hypothesis Hfl : fix_list c = true.
  Hypothesis Hexp : exp_locked c = true.
  Variable k : kbytes.

  Definition not_setexp (o : op) : Prop := match o with OSetExp _ => False | _ => True end.

  (* read-your-writes for ANY sequence of non-overlapping operations on one key, every key class, from every coherent state *)
  Theorem seq_refines_spec : forall os w,
    Forall (fun o => lop_ok T c k o /\ not_setexp o) os -> coherent T c w k -> w_locks w k = false ->
    snd (exec_seq T c w os) = snd (spec_seq (visible T c w k) os) /\
    visible T c (fst (exec_seq T c w os)) k = fst (spec_seq (visible T c w k) os) /\
    coherent T c (fst (exec_seq T c w os)) k.
  Proof.
    induction os as [|o r IH]; intros w Hos Hco HL; cbn [exec_seq spec_seq fst snd]; [auto|].
    inversion Hos as [|? ? [Hok Hne] Hr]; subst.
    destruct (exec_op_repaired T c Hfi Hfn Hwb Hfl Hexp k w o Hok Hco HL) as (x & E1 & Heff & Hco1 & HL1).
    destruct (exec_op T c w o) as [w1 xo]. cbn [fst snd] in *. subst xo.
    specialize (IH w1 Hr Hco1 HL1). destruct (exec_seq T c w1 r) as [w2 xs]. cbn [fst snd] in *.
    assert (Es : visible T c w1 k = fst (spec_op (visible T c w k) o) /\ x = snd (spec_op (visible T c w k) o)).
    { destruct Heff as [H|(kk & -> & _)]; [exact H|contradiction]. }
    destruct Es as [Es1 Es2].
    destruct (spec_op (visible T c w k) o) as [st1 y]. cbn [fst snd] in *. rewrite Es1 in IH.
    destruct (spec_seq st1 r) as [st2 ys]. cbn [fst snd] in *. destruct IH as (I1 & I2 & I3). subst. auto.
  Qed.

  (* cross-node visibility: a key whose class has a common tier, written or deleted by ANY node, is read exactly so by a node with a cold
     local cache — from every multi-node world in which the writer's own view of the key is coherent *)
  Lemma cold_view (m : mworld) w1 i j :
    cross_visible T c k = true -> length (m_locals m) <= j -> coherent T c w1 k ->
    let m1 := {| m_locals := upd_nth i (w_local w1) (m_locals m); m_shared := w_shared w1; m_pers := w_pers w1 |} in
    visible T c (node_world m1 j) k = visible T c w1 k /\ coherent T c (node_world m1 j) k /\ w_locks (node_world m1 j) k = false.
  Proof.
    intros Hcv Hj Hco m1. unfold node_world, m1. cbn [m_locals m_shared m_pers].
    rewrite (nth_overflow (upd_nth i (w_local w1) (m_locals m)) empty_store) by (rewrite upd_nth_length; exact Hj).
    unfold cross_visible in Hcv. unfold visible, coherent in *. cbn [w_locks init_world].
    destruct (cache_tier_for_key T c k) eqn:Ect; cbn [tget init_world w_local w_shared w_pers tier_eqb] in *.
    - (* local cache tier: the cold node reads the persistent tier *)
      rewrite Bool.orb_false_r in Hcv. rewrite Hcv in *. unfold empty_store.
      destruct (Hco eq_refl) as [H|H]; rewrite H; [auto|]. split; [|auto]. destruct (w_pers w1 k); reflexivity.
    - split; [reflexivity|split; [exact Hco|reflexivity]].
    - exfalso. unfold cache_tier_for_key, sp_cache in Ect. destruct (category T k), (has_shared c); discriminate.
  Qed.

  Theorem cross_node_cold_reader (m : mworld) i j v :
    cross_visible T c k = true -> length (m_locals m) <= j -> coherent T c (node_world m i) k ->
    snd (mexec T c (fst (mexec T c m i (OSet k v))) j (OGet k)) = Some (RVal v) /\
    snd (mexec T c (fst (mexec T c m i (ODel k))) j (OGet k)) = Some RNotFound.
  Proof.
    intros Hcv Hj Hco.
    assert (Hgo : forall o stv, lop_ok T c k o -> fst (spec_op (visible T c (node_world m i) k) o) = stv -> not_setexp o ->
              snd (mexec T c (fst (mexec T c m i o)) j (OGet k)) = Some (val_res stv)).
    { intros o stv Hok Hst Hne. unfold mexec at 2.
      destruct (exec_op_repaired T c Hfi Hfn Hwb Hfl Hexp k (node_world m i) o Hok Hco eq_refl) as (x & E1 & Heff & Hco1 & HL1).
      destruct (exec_op T c (node_world m i) o) as [w1 xo]. cbn [fst snd] in *.
      assert (Ev : visible T c w1 k = stv) by (destruct Heff as [[H _]|(kk & -> & _)]; [congruence|contradiction]).
      destruct (cold_view m w1 i j Hcv Hj Hco1) as (V1 & V2 & V3). cbv zeta in V1, V2, V3.
      unfold mexec.
      assert (Hok2 : lop_ok T c k (OGet k)) by (split; [reflexivity|intros _; reflexivity]).
      destruct (exec_op_repaired T c Hfi Hfn Hwb Hfl Hexp k _ (OGet k) Hok2 V2 V3) as (y & F1 & Feff & _ & _).
      destruct (exec_op T c _ (OGet k)) as [w2 yo]. cbn [fst snd] in *. subst yo.
      destruct Feff as [[_ H]|(kk & Hx & _)]; [|discriminate]. rewrite H. cbn [spec_op snd]. rewrite V1, Ev. reflexivity. }
    split.
    - apply (Hgo (OSet k v) (Some v)); [split; [reflexivity|intros _; reflexivity]|reflexivity|exact I].
    - apply (Hgo (ODel k) None); [split; [reflexivity|intros _; reflexivity]|reflexivity|exact I].
  Qed.
End SeqThms.

(* Proofs/HybridSeq.v — C14: on a two-tier key (persistent / shared+persistent with persistence enabled),
   Set/Get/Delete/Exists that do not overlap (each runs to completion and its write-back lands before the next
   one starts) behave exactly like one register, from every coherent state (warm or cold cache). *)
From TX Require Import Model.Hybrid Proofs.Hybrid.
From Coq Require Import Lia.

Lemma skipn_app_len {A} (l r : list A) : skipn (length l) (l ++ r) = r.
Proof. induction l as [|x l IH]; cbn; auto. Qed.
Lemma skipn_len {A} (l : list A) : skipn (length l) l = [].
Proof. induction l as [|x l IH]; cbn; auto. Qed.

Definition is_kv_op (o : op) : bool := match o with OSet _ _ | OGet _ | ODel _ | OExists _ => true | _ => false end.

Section Seq.
  Variable T : tables.
  Variable c : cfg.
  Variable k : kbytes.
  Hypothesis H2 : two_tier T c k = true.

  Ltac crunch EL ES EP :=
    repeat (progress (cbn -[skipn length keq]; rewrite ?keq_refl, ?skipn_app_len, ?skipn_len, ?EL, ?ES, ?EP)).

  Lemma exec_op_spec w o :
    op_key o = k -> is_kv_op o = true -> coherent T c w k ->
    snd (exec_op T c w o) = Some (snd (spec_op (visible T c w k) o)) /\
    visible T c (fst (exec_op T c w o)) k = fst (spec_op (visible T c w k) o) /\
    coherent T c (fst (exec_op T c w o)) k.
  Proof.
    intros Hk Hkv Hcoh. specialize (Hcoh H2). unfold coherent, visible. rewrite H2. revert Hcoh H2.
    unfold two_tier, cache_tier_for_key, exec_op.
    destruct (category T k) eqn:Hc; cbn [is_pers_cat andb]; try discriminate;
      destruct (en_pers c) eqn:Hp; try discriminate; intros Hcoh _;
      unfold sp_cache in *; try destruct (has_shared c) eqn:Hs;
      cbn [tget] in *;
      destruct (w_local w k) as [vl|] eqn:EL; destruct (w_shared w k) as [vs|] eqn:ES; destruct (w_pers w k) as [vp|] eqn:EP;
      (destruct Hcoh as [Hx|Hx]; try discriminate; try (injection Hx as Hx; subst vp));
      destruct o as [k0 v|k0|k0|k0|k0 x|k0 x|k0|k0 v]; try discriminate; cbn in Hk; subst k0;
      unfold run_caller, caller_step, init_caller, land_all, op_start, pop_fault, set_start, get_start, del_start, exists_start, sp_cache;
      rewrite ?Hc, ?Hp, ?Hs; crunch EL ES EP;
      repeat split; try reflexivity; try (intros _; first [left; reflexivity | right; reflexivity]).
  Qed.

  Theorem seq_refines_spec : forall os w,
    Forall (fun o => op_key o = k /\ is_kv_op o = true) os -> coherent T c w k ->
    snd (exec_seq T c w os) = snd (spec_seq (visible T c w k) os) /\
    visible T c (fst (exec_seq T c w os)) k = fst (spec_seq (visible T c w k) os) /\
    coherent T c (fst (exec_seq T c w os)) k.
  Proof.
    induction os as [|o r IH]; intros w Hos Hcoh; cbn [exec_seq spec_seq fst snd]; [auto|].
    inversion Hos as [|? ? [Hk Hkv] Hr]; subst.
    pose proof (exec_op_spec w o Hk Hkv Hcoh) as (E1 & E2 & E3).
    destruct (exec_op T c w o) as [w1 x]. cbn [fst snd] in *.
    specialize (IH w1 Hr E3). destruct (exec_seq T c w1 r) as [w2 xs]. cbn [fst snd] in *.
    destruct (spec_op (visible T c w k) o) as [st1 y] eqn:Es. cbn [fst snd] in *. rewrite E2 in IH.
    destruct (spec_seq st1 r) as [st2 ys]. cbn [fst snd] in *. destruct IH as (I1 & I2 & I3).
    subst. auto.
  Qed.
End Seq.

(* Proofs/HybridSeq.v — C14: operations that do not overlap (each runs to completion and its write-back lands
   before the next one starts) behave exactly like one register per key, on every key class and tier
   configuration, from every coherent state (warm or cold cache): read-your-writes, and list updates all
   take effect. *)
From TX Require Import Model.Hybrid Proofs.Hybrid.
From Coq Require Import Lia.

Lemma skipn_app_len {A} (l r : list A) : skipn (length l) (l ++ r) = r.
Proof. induction l as [|x l IH]; cbn; auto. Qed.
Lemma skipn_len {A} (l : list A) : skipn (length l) l = [].
Proof. induction l as [|x l IH]; cbn; auto. Qed.

Section Seq.
  Variable T : tables.
  Variable c : cfg.
  Hypothesis Hfi : fix_incr c = true.
  Hypothesis Hfn : fix_setnx c = true.
  Variable k : kbytes.

  Definition guard (o : op) : Prop := op_key o = k /\ (two_tier T c k = true -> is_cache_only_op o = false).

  Ltac crunch EL ES EP :=
    repeat (progress (cbn -[skipn length keq]; rewrite ?keq_refl, ?skipn_app_len, ?skipn_len, ?EL, ?ES, ?EP, ?Hfi, ?Hfn)).

  Lemma exec_op_spec w o :
    guard o -> coherent T c w k ->
    snd (exec_op T c w o) = Some (snd (spec_op (visible T c w k) o)) /\
    visible T c (fst (exec_op T c w o)) k = fst (spec_op (visible T c w k) o) /\
    coherent T c (fst (exec_op T c w o)) k.
  Proof.
    intros [Hk Hg] Hcoh. destruct o as [k0 v|k0|k0|k0|k0 x|k0 x|k0|k0 v]; cbn in Hk; subst k0; cbn [is_cache_only_op] in Hg;
    unfold coherent, visible in *. unfold two_tier, cache_tier_for_key in *.
    pose proof (cat_shared_prefix T k) as Hsp. unfold exec_op, setnx_start, incr_start, two_tier, cache_tier_for_key, cache_for_key.
    destruct (category T k) eqn:Hc; try (rewrite (Hsp eq_refl)); destruct (en_pers c) eqn:Hp; destruct (has_shared c) eqn:Hs;
      unfold sp_cache in *; rewrite ?Hs in *; cbn [is_pers_cat andb] in *;
      destruct (w_local w k) as [vl|] eqn:EL; destruct (w_shared w k) as [vs|] eqn:ES; destruct (w_pers w k) as [vp|] eqn:EP;
      cbn [tget] in Hcoh; rewrite ?EL, ?ES, ?EP in Hcoh;
      try (destruct (Hcoh eq_refl) as [Hx|Hx]; try discriminate; try (injection Hx as Hx; try subst vl; try subst vs));
      try (specialize (Hg eq_refl); discriminate);
      unfold run_caller, caller_step, init_caller, land_all, op_start, pop_fault, set_start, get_start, del_start, exists_start,
        incr_start, setnx_start, two_tier, cache_tier_for_key, cache_for_key, sp_cache;
      rewrite ?Hc, ?Hp, ?Hs, ?(Hsp eq_refl);
      crunch EL ES EP;
      repeat match goal with
             | |- context [match ?v with VStr _ => _ | VList _ => _ | VInt _ => _ end] => destruct v; crunch EL ES EP
             end;
      repeat split; try reflexivity; try (intros _; first [left; reflexivity | right; reflexivity]); auto.
  Qed.
End Seq.

(* Proofs/Hostile.v — C05 lemmas *)
From TX Require Import Model.Hostile Proofs.Framing.
From Coq Require Import ZArith ZifyN ZifyNat ZifyBool.
Open Scope N_scope.
Ltac fa := repeat (apply Forall_cons; [lia|]); apply Forall_nil.

Section P.
  Variable MaxBody : N.
  Variable inflate : list byte -> option (list byte).
  Variable json_norm : list byte -> option (list byte).

  (* every buffer filled for one packet is bounded by MaxBody+1 (MaxBody >= 4), whatever inflate yields *)
  Lemma alloc_packet_bounded s : 4 <= MaxBody ->
    Forall (fun a => a <= MaxBody + 1) (alloc_packet current_variant MaxBody inflate s).
  Proof.
    intros HM. unfold alloc_packet. destruct s as [|ty s1]; [apply Forall_nil|].
    destruct (is_heartbeat ty); [apply Forall_nil|].
    destruct (lenN s1 <? 4); [fa|].
    destruct (N.ltb_spec MaxBody (de32 (firstn 4 s1))) as [Hx|Hx]; [fa|].
    destruct (lenN (skipn 4 s1) <? de32 (firstn 4 s1)); [fa|].
    apply Forall_app. split; [fa|].
    destruct (is_encrypted ty); [apply Forall_nil|].
    destruct (is_compressed ty); [|apply Forall_nil].
    destruct (inflate _); [|apply Forall_nil].
    cbn [v_unbounded_inflate current_variant]. fa.
  Qed.

  Theorem alloc_all_bounded fuel : forall s, 4 <= MaxBody ->
    Forall (fun a => a <= MaxBody + 1) (alloc_all current_variant MaxBody inflate fuel json_norm s).
  Proof.
    induction fuel as [|f IH]; intros s HM; [apply Forall_nil|].
    cbn [alloc_all]. apply Forall_app. split; [apply alloc_packet_bounded; exact HM|].
    destruct (parse_packet current_variant MaxBody inflate json_norm s) as [[ty b c|e c] s'];
      [apply IH; exact HM|apply Forall_nil].
  Qed.

  (* a decoded payload never exceeds MaxBody, compressed or not *)
  Lemma finish_payload_bounded ty body c ty' b c' :
    lenN body <= MaxBody ->
    (forall x y, json_norm x = Some y -> lenN y <= MaxBody) ->
    finish current_variant MaxBody inflate json_norm ty body c = POk ty' b c' -> lenN b <= MaxBody.
  Proof.
    intros Hb Hj. unfold finish. destruct (is_encrypted ty); [discriminate|].
    cbn [v_unbounded_inflate current_variant negb andb].
    destruct (is_compressed ty).
    - destruct (inflate body) as [x|]; [|discriminate].
      destruct (N.ltb_spec MaxBody (lenN x)) as [Hx|Hx]; [discriminate|].
      destruct (is_json_cmd ty).
      + destruct (json_norm x) eqn:E; [|discriminate]. intros H; inversion H; subst. eapply Hj; eauto.
      + intros H; inversion H; subst. exact Hx.
    - destruct (is_json_cmd ty).
      + destruct (json_norm body) eqn:E; [|discriminate]. intros H; inversion H; subst. eapply Hj; eauto.
      + intros H; inversion H; subst. exact Hb.
  Qed.

  Theorem payload_bounded s ty b c s' :
    (forall x y, json_norm x = Some y -> lenN y <= MaxBody) ->
    parse_packet current_variant MaxBody inflate json_norm s = (POk ty b c, s') -> lenN b <= MaxBody.
  Proof.
    intros Hj. unfold parse_packet. destruct s as [|t s1]; [discriminate|].
    destruct (is_heartbeat t). { intros H; inversion H; subst. unfold lenN; cbn; lia. }
    destruct (lenN s1 <? 4); [discriminate|].
    destruct (N.ltb_spec MaxBody (de32 (firstn 4 s1))) as [Hx|Hx]; [discriminate|].
    destruct (N.ltb_spec (lenN (skipn 4 s1)) (de32 (firstn 4 s1))) as [Hy|Hy]; [discriminate|].
    intros H. apply (f_equal fst) in H. cbn [fst] in H.
    eapply finish_payload_bounded; [|exact Hj|exact H].
    unfold lenN in *. rewrite firstn_length. lia.
  Qed.
End P.

(* the pinned tree: an inflate result of any size was accepted and buffered *)
Lemma pinned_unbounded_inflate_refuted :
  exists (inflate : list byte -> option (list byte)) s,
    ~ Forall (fun a => a <= 16777216 + 1) (alloc_packet pinned_variant 16777216 inflate s).
Proof.
  (* the attack, scaled down: a 1-byte compressed body whose gzip inverse is larger than the limit.
     The size of the inflate result is a free parameter of the model, so the witness just names one. *)
  exists (fun _ => Some (repeat 0 (N.to_nat 16777218))), [96; 0; 0; 0; 1; 7].
  intros H. unfold alloc_packet in H.
  change (is_heartbeat 96) with false in H. change (lenN [0;0;0;1;7] <? 4) with false in H.
  change (de32 (firstn 4 [0;0;0;1;7])) with 1 in H. change (16777216 <? 1) with false in H.
  change (lenN (skipn 4 [0;0;0;1;7]) <? 1) with false in H.
  change (is_encrypted 96) with false in H. change (is_compressed 96) with true in H.
  cbn [v_unbounded_inflate pinned_variant app] in H.
  apply Forall_inv_tail, Forall_inv_tail, Forall_inv_tail, Forall_inv in H.
  unfold lenN in H. rewrite repeat_length in H. lia.
Qed.

(* dispatch is total and its classes partition the type byte exactly as the Go switch does *)
Lemma dispatch_cases ty :
  match dispatch ty with
  | HCommand => is_json_cmd ty = true
  | HHandshake => is_json_cmd ty = false /\ base_ty ty = 1
  | HTunnelOpen => is_json_cmd ty = false /\ base_ty ty = 32
  | HHeartbeat => is_json_cmd ty = false /\ is_heartbeat ty = true
  | HUnhandled => is_json_cmd ty = false /\ base_ty ty <> 1 /\ base_ty ty <> 32 /\ is_heartbeat ty = false
  end.
Proof.
  unfold dispatch. destruct (is_json_cmd ty) eqn:E1; [reflexivity|].
  destruct (N.eqb_spec (base_ty ty) 1); [auto|].
  destruct (N.eqb_spec (base_ty ty) 32); [auto|].
  destruct (is_heartbeat ty) eqn:E4; auto.
Qed.
Close Scope N_scope.

(* Proofs/SideC10.v — side conditions tying Model/CrossFrame.v to the values regenerated from /repo
   (Gen/C10.v, printed by `verif_c10 gen` from the real constants and the real functions): re-proved on every run. *)
From TX Require Import Model.CrossFrame Gen.C10.
From Coq Require Import ZArith ZifyN ZifyNat ZifyBool.
Open Scope N_scope.

(* the length field is a uint32 and the limit is positive (hypotheses of the round-trip / transparency theorems) *)
Lemma max_frame_fits_u32 : MaxFrameSize < 4294967296.
Proof. vm_compute. reflexivity. Qed.
Lemma max_frame_pos : 1 <= MaxFrameSize.
Proof. vm_compute. discriminate. Qed.

Lemma header_layout : FrameHeaderSize = HeaderSize.
Proof. reflexivity. Qed.

(* the three frame types FrameStream.Read interprets, and every other declared type is "unknown" to it *)
Lemma type_constants :
  FT_Data = T_Data /\ FT_Close = T_Close /\ FT_EOF = T_EOF /\
  forallb (fun t => negb (t =? T_Data) && negb (t =? T_EOF) && negb (t =? T_Close)) FT_others = true.
Proof. repeat split; reflexivity. Qed.

(* the byte layout of a frame: the model's encoder reproduces what WriteFrameToWriter and WriteFrame (net.Buffers
   over a TCP connection) emitted for a sample frame *)
Lemma sample_frame_matches_code :
  encode_frame MaxFrameSize {| f_tid := sample_tid; f_ty := sample_ty; f_data := sample_data |} = Some sample_wire_writer /\
  sample_wire_tcp = sample_wire_writer.
Proof. split; vm_compute; reflexivity. Qed.

(* wire_id / id_to_string agree with TunnelIDFromString / TunnelIDToString on the tabulated strings.  The tree variant is
   probed by the harness (wire_id_variant): ids of at most 16 bytes are verbatim on both variants; longer ids are the first
   16 bytes on the truncating tree (0) and, on a hashing tree (1), 16 bytes that are pairwise different for the tabulated
   long ids (three of which share their first 16 bytes) *)
Fixpoint all_distinct (l : list (list N)) : bool :=
  match l with [] => true | x :: t => negb (existsb (bytes_eqb x) t) && all_distinct t end.
Definition is_long (e : list N * list N * list N) : bool := (16 <? length (fst (fst e)))%nat.
Definition row_ok (e : list N * list N * list N) : bool :=
  (if negb (is_long e) || (wire_id_variant =? 0) then bytes_eqb (wire_id (fst (fst e))) (snd (fst e))
   else (length (snd (fst e)) =? 16)%nat)
  && bytes_eqb (id_to_string (snd (fst e))) (snd e).
Lemma wire_id_matches_code :
  forallb row_ok wire_id_table = true /\
  (wire_id_variant =? 0) || all_distinct (map (fun e => snd (fst e)) (filter is_long wire_id_table)) = true /\
  (wire_id_variant =? 0) || (wire_id_variant =? 1) = true.
Proof. vm_compute. auto. Qed.

(* which decoder errors are io.EOF, and which FrameStream.Read reports as a clean end of stream
   (isConnectionClosedError evaluated on the real errors) *)
Lemma error_classification_matches_code :
  decode_error_table =
  map (fun e => (match e with FEof => true | _ => false end, err_is_closed e)) [FEof; FShortHdr; FTooLarge; FShortData; FShortData].
Proof. reflexivity. Qed.
Close Scope N_scope.

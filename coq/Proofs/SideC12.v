(* Proofs/SideC12.v — side conditions tying Model/Relay.v to the values regenerated from copy.go
   (Gen/C12.v), re-proved on every run, and the instantiation of the parametric theorems. *)
From TX Require Import Model.Relay Proofs.Relay Proofs.RelayTcp Proofs.RelayOwn Gen.C12.
From Coq Require Import ZArith ZifyN ZifyNat ZifyBool.
Open Scope N_scope.

(* a maximal incomplete record always leaves room below the refill threshold: every iteration that does
   not read extracts at least one record *)
Lemma refill_above_max_record : 2 + UdpMaxRecord <= UdpRefillBelow.
Proof. vm_compute. discriminate. Qed.
Lemma refill_below_buffer : UdpRefillBelow < UdpDeframeBuf.
Proof. vm_compute. reflexivity. Qed.
Lemma write_batch_positive : 0 < UdpWriteBatch.
Proof. vm_compute. reflexivity. Qed.
Lemma max_record_fits_u16 : UdpMaxRecord < 65536.
Proof. vm_compute. reflexivity. Qed.
Lemma header_is_two_bytes : UdpHeaderLen = 2.
Proof. reflexivity. Qed.
(* a datagram read (<= UdpDatagramBuf bytes) plus its header always fits the batch buffer *)
Lemma record_fits_batch_buffer : 2 + UdpDatagramBuf <= UdpBatchBufSize /\ UdpDatagramBuf <= UdpMaxRecord + 1.
Proof. split; vm_compute; discriminate. Qed.
Lemma copy_buffer_positive : 0 < CopyBufferSize.
Proof. vm_compute. reflexivity. Qed.

(* the sendmmsg batch writer is created with room for a whole batch, and the in-loop flush fires as soon as a whole
   batch is pending (`>=`, not `>`): flush() never hands the writer more packets than it can hold *)
Lemma batch_writer_holds_a_batch : UdpWriteBatch <= UdpBatchWriterCap /\ UdpFlushAtLeast = true.
Proof. split; [vm_compute; discriminate|reflexivity]. Qed.

(* the local write path: the fallback loop over udpConn.Write (mocks, UDPVirtualConn, ...) or, for a real
   *net.UDPConn, the sendmmsg batch writer with the regenerated capacity *)
Definition local_path (bw : option N) : Prop := bw = None \/ bw = Some UdpBatchWriterCap.
Lemma local_path_cap bw : local_path bw -> forall cap, bw = Some cap -> UdpWriteBatch <= cap.
Proof.
  intros [->| ->] cap H; [discriminate H|]. injection H as <-. exact (proj1 batch_writer_holds_a_batch).
Qed.

Definition deframe_on (bw : option N) := deframe true UdpDeframeBuf UdpRefillBelow UdpMaxRecord UdpWriteBatch bw.
Definition deframe_cur := deframe_on None.
Definition deframe_pinned := deframe false UdpDeframeBuf UdpRefillBelow UdpMaxRecord UdpWriteBatch None.

Lemma c12_deframe_any_cut :
  forall (bw : option N) (ds : list dgram) (cut : nat) (cuts : list nat) (e : N) (wd : bool) (emp : list bool) (fuel : nat),
  local_path bw ->
  Forall (valid_dgram UdpMaxRecord) ds ->
  (length (firstn cut (encode_all ds)) + length emp < fuel)%nat ->
  exists w, deframe_on bw fuel (ust0e (firstn cut (encode_all ds)) cuts e wd emp None)
            = DDone w (final_err 0 e (tail_after cut ds)) /\
            w_log w = complete_before cut ds /\ w_bytes w = sum_len (complete_before cut ds).
Proof.
  intros bw ds cut cuts e wd emp fuel Hbw.
  exact (deframe_any_cut UdpDeframeBuf UdpRefillBelow UdpMaxRecord UdpWriteBatch bw (local_path_cap bw Hbw)
           refill_above_max_record refill_below_buffer write_batch_positive max_record_fits_u16 ds cut cuts e wd emp fuel).
Qed.

Lemma c12_udp_roundtrip :
  forall (bw : option N) (evs : list uev) (cuts : list nat) (wd : bool) (emp : list bool) (fuel : nat),
  local_path bw ->
  Forall (valid_dgram UdpMaxRecord) (ev_dgrams evs) ->
  (length (concat (e_out (encode_events UdpBatchBufSize evs))) + length emp < fuel)%nat ->
  exists w, deframe_on bw fuel (ust0e (concat (e_out (encode_events UdpBatchBufSize evs))) cuts 0 wd emp None) = DDone w 0 /\
            w_log w = ev_dgrams evs /\ w_bytes w = e_sent (encode_events UdpBatchBufSize evs).
Proof.
  intros bw evs cuts wd emp fuel Hbw.
  exact (udp_roundtrip UdpDeframeBuf UdpRefillBelow UdpMaxRecord UdpWriteBatch UdpBatchBufSize bw (local_path_cap bw Hbw)
           refill_above_max_record refill_below_buffer write_batch_positive max_record_fits_u16 evs cuts wd emp fuel).
Qed.

Lemma c12_encoder_stream : forall evs,
  concat (e_out (encode_events UdpBatchBufSize evs)) = encode_all (ev_dgrams evs) /\
  e_batch (encode_events UdpBatchBufSize evs) = [] /\
  e_sent (encode_events UdpBatchBufSize evs) = sum_len (ev_dgrams evs).
Proof. exact (encoder_stream UdpBatchBufSize). Qed.

(* for ANY byte stream (malformed ones included), any chunk oracle and any end kind the repaired loop
   returns within |stream|+1 iterations and has written exactly the complete records *)
Lemma c12_deframe_total : forall (bw : option N) (s : list byte) (cuts : list nat) (e : N) (wd : bool) (emp : list bool) (fuel : nat),
  local_path bw ->
  (length s + length emp < fuel)%nat ->
  exists w err, deframe_on bw fuel (ust0e s cuts e wd emp None) = DDone w err /\
                w_log w = fst (fst (split_all UdpMaxRecord s)).
Proof.
  intros bw s cuts e wd emp fuel Hbw Hf.
  assert (H0 : lenN (@nil byte) < UdpRefillBelow) by (vm_compute; reflexivity).
  pose proof (deframe_fixed_spec true _ _ _ _ bw refill_above_max_record refill_below_buffer write_batch_positive
                (local_path_cap bw Hbw) eq_refl fuel (ust0e s cuts e wd emp None) eq_refl eq_refl H0 Hf) as H.
  cbn [ust0e s_buf s_t t_rd rest s_w s_err endk app] in H.
  destruct (split_all UdpMaxRecord s) as [[recs tail] bad].
  destruct H as (e0 & Hd & _). eexists; eexists. split; [exact Hd|].
  rewrite wadd_log. reflexivity.
Qed.

(* the pinned tree (before fixes/C12-udp-deframe-spin-on-truncated-record.diff): tunnel bytes 00 05 61 62
   then EOF — no amount of fuel lets the loop return *)
Lemma c12_pinned_spin : forall fuel, deframe_pinned fuel (ust0 [0; 5; 97; 98] [] 0 false None) = DFuel.
Proof.
  intros [|f]; [reflexivity|]. unfold deframe_pinned. cbn [deframe].
  replace (outer_step false UdpDeframeBuf UdpRefillBelow UdpMaxRecord UdpWriteBatch None (ust0 [0; 5; 97; 98] [] 0 false None))
    with (OCont {| s_buf := [0; 5; 97; 98]; s_pend := []; s_w := w0 None;
                   s_t := {| t_rd := {| rest := []; cuts := []; endk := 0; carry := false |}; t_wd := false; t_empty := [] |}; s_err := 0 |})
    by (vm_compute; reflexivity).
  apply (pinned_spins_on_partial_record false _ _ _ _ None refill_above_max_record refill_below_buffer write_batch_positive
           ltac:(intros cap H; discriminate H) eq_refl);
    vm_compute; try reflexivity; discriminate.
Qed.

(* ... while the repaired loop returns on the same input, reporting the truncation *)
Lemma c12_fixed_returns_on_witness :
  deframe_cur 5 (ust0 [0; 5; 97; 98] [] 0 false None) = DDone (w0 None) 3.
Proof. vm_compute. reflexivity. Qed.

(* every datagram handed to the local writer is a value: no later step of the loop alters it *)
Lemma c12_values : forall (bw : option N) (fuel : nat) (s : ust) (w : wst) (e : N),
  local_path bw -> s_pend s = [] -> w_fail (s_w s) = None -> deframe_on bw fuel s = DDone w e ->
  exists more, w_log w = w_log (s_w s) ++ more.
Proof.
  intros bw fuel s w e Hbw.
  exact (delivered_datagrams_are_values true _ _ _ _ bw refill_above_max_record refill_below_buffer write_batch_positive
           (local_path_cap bw Hbw) fuel s w e).
Qed.

(* what the capacity side condition prevents: handing the sendmmsg writer one packet more than it holds loses it
   silently (no error) — 33 one-byte datagrams flushed at once into a writer of capacity 32 *)
Lemma c12_batch_overflow_drops :
  let pend := map (fun i => [N.of_nat i]) (seq 1 33) in
  uflush_path (Some 32) pend (w0 None) = (false, snd (uflush (firstn 32 pend) (w0 None))) /\
  length (w_log (snd (uflush_path (Some 32) pend (w0 None)))) = 32%nat.
Proof. vm_compute. split; reflexivity. Qed.

(* the batch path really is exercised by the model: 40 datagrams in one read through the sendmmsg path *)
Lemma c12_batch_path_example :
  let ds := map (fun i => [N.of_nat i; 7]) (seq 1 40) in
  match deframe_on (Some UdpBatchWriterCap) 200 (ust0 (encode_all ds) [] 0 false None) with
  | DDone w e => w_log w = ds /\ e = 0 /\ w_bytes w = 80
  | DFuel => False
  end.
Proof. vm_compute. repeat split; reflexivity. Qed.

(* non-vacuity: a concrete datagram list meets the premises, and a cut in the middle of its second record
   delivers exactly the first datagram *)
Lemma c12_premises_satisfiable :
  Forall (valid_dgram UdpMaxRecord) [[97; 98]; [99; 100; 101]; [255]] /\
  complete_before 6 [[97; 98]; [99; 100; 101]; [255]] = [[97; 98]] /\
  tail_after 6 [[97; 98]; [99; 100; 101]; [255]] = [0; 3].
Proof.
  split; [|split; reflexivity].
  repeat constructor; unfold valid_dgram; vm_compute; try reflexivity; discriminate.
Qed.

(* ---- OS-level behaviour that no in-memory model exhibits is pinned syntactically: the relay code sets no socket option
        and no deadline on the connections it relays (no SetLinger(0) that would purge delivered-but-unread bytes on Close,
        no read deadline that would cut a quiet direction) ---- *)
Lemma relay_sets_no_socket_options : RelaySocketOptionCalls = 0.
Proof. reflexivity. Qed.
Lemma session_ttl_positive : 0 < UdpSessionTTLSeconds.
Proof. vm_compute. reflexivity. Qed.

(* every tick of the 20 ms ticker flushes whatever is batched, unconditionally *)
Lemma c12_tick_flushes e :
  e_batch (estep UdpBatchBufSize e EvTick) = [] /\
  concat (e_out (estep UdpBatchBufSize e EvTick)) = concat (e_out e) ++ e_batch e.
Proof. exact (tick_flushes_everything UdpBatchBufSize e). Qed.

(* the quiet-interval variant: a steady trickle (a datagram between any two ticks) is never flushed *)
Lemma c12_quiet_tick_refuted :
  let q := fold_left (qstep UdpBatchBufSize) [EvD [1]; EvTick; EvD [2]; EvTick; EvD [3]; EvTick; EvD [4]; EvTick]
                     {| q_e := est0; q_last := 0 |} in
  e_out (q_e q) = [] /\ e_batch (q_e q) = [0; 1; 1; 0; 1; 2; 0; 1; 3; 0; 1; 4].
Proof. vm_compute. split; reflexivity. Qed.

(* the local UDP session: traffic in either direction at least every TTL keeps it open, no relay write is refused *)
Lemma c12_session_survives : forall evs s,
  ss_closed s = false -> live_traffic UdpSessionTTLSeconds (ss_last s) evs ->
  ss_closed (sess_run true UdpSessionTTLSeconds s evs) = false /\
  ss_lost (sess_run true UdpSessionTTLSeconds s evs) = ss_lost s.
Proof. exact (session_survives_live_traffic UdpSessionTTLSeconds). Qed.

(* the variant whose Write does not refresh the stamp: one datagram from the application at t = 0, then a feed of
   tunnel->UDP datagrams every 10 s with the cleanup pass after each — the session is closed at t = 70 although a
   datagram was delivered 0 s before, and the rest of the feed is refused *)
Definition feed_history : list sev :=
  flat_map (fun k => [SOut (10 * N.of_nat k); SCleanup (10 * N.of_nat k)]) (seq 1 9).
Lemma c12_session_out_only_refuted :
  live_traffic UdpSessionTTLSeconds 0 feed_history /\
  ss_closed (sess_run false UdpSessionTTLSeconds {| ss_last := 0; ss_closed := false; ss_lost := 0 |} feed_history) = true /\
  ss_lost (sess_run false UdpSessionTTLSeconds {| ss_last := 0; ss_closed := false; ss_lost := 0 |} feed_history) = 2.
Proof. vm_compute. repeat split; try reflexivity; discriminate. Qed.

(* ---- the copy-buffer pool ---- *)
(* the double-Put variant: one direction gets a buffer and returns it (twice); the next two directions that start
   hold the SAME buffer *)
Lemma c12_double_put_refuted :
  bp_held (fold_left (bpool_step true) [BpGet; BpPut 0; BpGet; BpGet]%nat bpool0) = [0; 0]%nat /\
  ~ NoDup (bp_held (fold_left (bpool_step true) [BpGet; BpPut 0; BpGet; BpGet]%nat bpool0)).
Proof.
  split; [reflexivity|]. vm_compute. intros H. inversion H as [|? ? Hn _]. apply Hn. left. reflexivity.
Qed.
Lemma c12_single_put_example :
  bp_held (fold_left (bpool_step false) [BpGet; BpPut 0; BpGet; BpGet; BpPut 1; BpGet]%nat bpool0) = [1; 0]%nat /\
  NoDup (bp_held (fold_left (bpool_step false) [BpGet; BpPut 0; BpGet; BpGet; BpPut 1; BpGet]%nat bpool0)).
Proof. split; [reflexivity|]. vm_compute. repeat constructor; cbn; intuition discriminate. Qed.

(* ---- read failures: no failure kind is ever retried (a sticky one would spin the relay for ever) ---- *)
Lemma retry_table_is_model :
  map (fun r => fst r) relay_retry_table = flat_map (fun site => map (fun kind => (site, kind)) [0; 1; 2; 3; 4; 5; 6; 7; 8; 9]) [0; 1; 2; 3] /\
  forallb (fun r => Bool.eqb (snd r) (relay_retries (fst (fst r)) (snd (fst r)))) relay_retry_table = true.
Proof. split; vm_compute; reflexivity. Qed.
Lemma no_error_kind_is_retried : forallb (fun r => negb (snd r)) relay_retry_table = true.
Proof. vm_compute. reflexivity. Qed.

(* ---- UDP -> tunnel: who owns batchBuf, and when the tunnel is half-closed ---- *)
(* the state after ANY schedule of the main loop (thread 0) and the ticker goroutine (thread 1);
   late: the timed flush unlocks before its Write has returned; fac: the final flush runs after the half-close *)
Definition own_run (late fac : bool) (ds : list dgram) (sched : list nat) :=
  run bsh (nat * bpc) (own_step late fac (N.to_nat UdpBatchBufSize)) (own_init ds) sched.

Lemma c12_own_stream ds sched :
  let s := own_run false false ds sched in
  (exists rest_, encode_all (ev_dgrams (map EvD ds)) = b_out (fst s) ++ rest_) /\
  (forall p1, snd s = [(0%nat, BDone); (1%nat, p1)] -> b_out (fst s) = encode_all (ev_dgrams (map EvD ds))).
Proof.
  destruct (OInv_stream ds _ (own_all_schedules (N.to_nat UdpBatchBufSize) ds sched)) as (A & B & _). split; assumption.
Qed.

Lemma c12_own_flush_before_half_close ds sched :
  let s := own_run false false ds sched in
  b_werr (fst s) = false /\
  (b_cw (fst s) = true -> b_out (fst s) = encode_all (ev_dgrams (map EvD ds))).
Proof.
  destruct (OInv_stream ds _ (own_all_schedules (N.to_nat UdpBatchBufSize) ds sched)) as (_ & _ & C & D). split; assumption.
Qed.

(* the variant that unlocks before the tunnel Write has returned: datagram "AA" is taken by the timed flush, the
   lock is released, "BB" is framed over it and flushed by the main loop, then the stalled Write consumes what its
   slice holds now — the tunnel sees BB BB, "AA" is gone *)
Definition late_sched : list nat := [0; 0; 0; 1; 1; 0; 0; 0; 0; 0; 0; 1; 0]%nat.
Lemma c12_own_late_write_refuted :
  let s := own_run true false [[65; 65]; [66; 66]] late_sched in
  snd s = [(0%nat, BDone); (1%nat, BIdle)] /\
  b_out (fst s) = [0; 2; 66; 66; 0; 2; 66; 66] /\
  b_out (fst s) <> encode_all (ev_dgrams (map EvD [[65; 65]; [66; 66]])).
Proof. vm_compute. repeat split; try reflexivity. discriminate. Qed.

(* ... the same arrival pattern on the code as it is: the main loop's Lock() simply waits for the Write to return *)
Lemma c12_own_same_schedule_ok :
  let s := own_run false false [[65; 65]; [66; 66]] ([0; 0; 0; 1; 1; 0; 0; 0; 0; 0; 0; 1; 0; 1; 0; 0; 0; 0; 0; 0; 0]%nat) in
  snd s = [(0%nat, BDone); (1%nat, BIdle)] /\ b_out (fst s) = [0; 2; 65; 65; 0; 2; 66; 66] /\
  b_cw (fst s) = true /\ b_werr (fst s) = false.
Proof. vm_compute. repeat split; reflexivity. Qed.

(* the variant whose final flush is deferred until after close(done) + tryCloseWrite(tunnelConn): on a tunnel that
   honours its half-close the last batch is refused — one datagram in, nothing out, a refused Write *)
Lemma c12_own_flush_after_close_refuted :
  let s := own_run false true [[65; 65]] [0; 0; 0; 0; 0; 0; 0; 0]%nat in
  snd s = [(0%nat, BDone); (1%nat, BIdle)] /\ b_out (fst s) = [] /\ b_werr (fst s) = true /\
  b_out (fst s) <> encode_all (ev_dgrams (map EvD [[65; 65]])).
Proof. vm_compute. repeat split; try reflexivity. discriminate. Qed.

(* ---- Bidirectional, instantiated with constants.CopyBufferSize ---- *)
(* endpoint A wrapped as cfgA, endpoint B as cfgB; both accept every write *)
Definition tcp_run_w (cfgA cfgB : wcfg) (sA sB : list byte) (cA cB : list nat) (eA eB : N) (wA wB : bool)
                     (mA mB : list bool)     (* the (0, nil) reads endpoint A / B interleaves with its chunks *)
                     (sched : list nat) :=
  run tsh (nat * tpc) (tstep CopyBufferSize false)
      (tcp_init (dirwe sA cA eA wA mA None false cfgB) (dirwe sB cB eB wB mB None false cfgA)) sched.

(* the endpoint configurations the harness builds with the real constructors (harness/cmd/c12: `wrap`) *)
Definition wrap_cfg (k : N) : wcfg :=
  match k with
  | 0 => cfg_direct                                                                          (* conn with CloseWrite *)
  | 1 => {| ep_kind := 1; ep_cwfunc := false; ep_writer_cw := false; ep_closefunc := true |}  (* conn without *)
  | 2 => {| ep_kind := 2; ep_cwfunc := false; ep_writer_cw := false; ep_closefunc := true |}  (* NewReadWriteCloser(r, w, closeFn): the client call sites *)
  | 3 => {| ep_kind := 2; ep_cwfunc := false; ep_writer_cw := true; ep_closefunc := true |}   (* ... writer = a conn with CloseWrite *)
  | 4 => {| ep_kind := 2; ep_cwfunc := true; ep_writer_cw := false; ep_closefunc := true |}   (* NewReadWriteCloserWithCloseWrite *)
  | 5 => {| ep_kind := 2; ep_cwfunc := true; ep_writer_cw := true; ep_closefunc := true |}
  | _ => {| ep_kind := 2; ep_cwfunc := false; ep_writer_cw := false; ep_closefunc := false |} (* closeFunc == nil *)
  end.

Lemma c12_tcp_inv cfgA cfgB sA sB cA cB eA eB wA wB mA mB sched :
  Inv sA sB cfgA cfgB (tcp_run_w cfgA cfgB sA sB cA cB eA eB wA wB mA mB sched).
Proof.
  unfold tcp_run_w. apply (tcp_all_schedules CopyBufferSize copy_buffer_positive sA sB cfgA cfgB);
    unfold no_write_fault, dirwe; cbn; auto.
Qed.

Lemma c12_tcp_prefix cfgA cfgB sA sB cA cB eA eB wA wB mA mB sched :
  let s := tcp_run_w cfgA cfgB sA sB cA cB eA eB wA wB mA mB sched in
  (exists x, sA = d_out (sh_d0 (fst s)) ++ x) /\ (exists y, sB = d_out (sh_d1 (fst s)) ++ y) /\
  sh_io_after_close (fst s) = 0.
Proof. exact (Inv_prefix sA sB cfgA cfgB _ (c12_tcp_inv cfgA cfgB sA sB cA cB eA eB wA wB mA mB sched)). Qed.

Lemma c12_tcp_complete cfgA cfgB sA sB cA cB eA eB wA wB mA mB sched :
  let s := tcp_run_w cfgA cfgB sA sB cA cB eA eB wA wB mA mB sched in
  sh_ret (fst s) = true ->
  d_out (sh_d0 (fst s)) = sA /\ d_out (sh_d1 (fst s)) = sB /\
  d_bytes (sh_d0 (fst s)) = lenN sA /\ d_bytes (sh_d1 (fst s)) = lenN sB /\
  (d_cw (sh_d0 (fst s)) = ncw cfgB /\ d_cwf (sh_d0 (fst s)) = ncwf cfgB) /\
  (d_cw (sh_d1 (fst s)) = ncw cfgA /\ d_cwf (sh_d1 (fst s)) = ncwf cfgA) /\
  sh_ncl_a (fst s) = ncl cfgA /\ sh_ncl_b (fst s) = ncl cfgB /\ sh_io_after_close (fst s) = 0.
Proof.
  exact (Inv_returned CopyBufferSize copy_buffer_positive sA sB cfgA cfgB _
           (c12_tcp_inv cfgA cfgB sA sB cA cB eA eB wA wB mA mB sched)).
Qed.

Lemma c12_tcp_half_close cfgA cfgB sA sB cA cB eA eB wA wB mA mB sched p0 p1 pm :
  let s := tcp_run_w cfgA cfgB sA sB cA cB eA eB wA wB mA mB sched in
  snd s = [(0%nat, p0); (1%nat, p1); (2%nat, pm)] -> (p0 <> PDone \/ p1 <> PDone) ->
  sh_closed_a (fst s) = false /\ sh_closed_b (fst s) = false /\
  sh_ncl_a (fst s) = 0 /\ sh_ncl_b (fst s) = 0 /\
  (p0 = PDone -> d_cw (sh_d0 (fst s)) = ncw cfgB /\ d_cwf (sh_d0 (fst s)) = ncwf cfgB) /\
  (p1 = PDone -> d_cw (sh_d1 (fst s)) = ncw cfgA /\ d_cwf (sh_d1 (fst s)) = ncwf cfgA).
Proof.
  exact (Inv_half_close CopyBufferSize copy_buffer_positive sA sB cfgA cfgB _ p0 p1 pm
           (c12_tcp_inv cfgA cfgB sA sB cA cB eA eB wA wB mA mB sched)).
Qed.

(* under every schedule the relay arms no read deadline on either endpoint: the direction that is still open can stay
   silent for as long as it likes after the other one has half-closed *)
Lemma c12_tcp_no_deadline cfgA cfgB sA sB cA cB eA eB wA wB mA mB sched :
  let s := tcp_run_w cfgA cfgB sA sB cA cB eA eB wA wB mA mB sched in
  sh_dl_a (fst s) = false /\ sh_dl_b (fst s) = false.
Proof. exact (Inv_no_deadline sA sB cfgA cfgB _ (c12_tcp_inv cfgA cfgB sA sB cA cB eA eB wA wB mA mB sched)). Qed.

(* the variant that arms a "drain" read deadline on the destination it has just half-closed: A ("GET") reaches EOF first,
   B answers only after a silence longer than the deadline — B's 3 bytes are lost and ReceiveError is a timeout (8) *)
Lemma c12_tcp_drain_deadline_refuted :
  let s := run tsh (nat * tpc) (tstep CopyBufferSize true)
             (tcp_init (dirwe [71; 69; 84] [] 0 false [] None false cfg_direct) (dirwe [50; 48; 48] [] 0 false [] None false cfg_direct))
             ([0; 0; 0; 0; 1; 1; 1; 2; 2; 2; 2]%nat) in
  sh_ret (fst s) = true /\ d_out (sh_d0 (fst s)) = [71; 69; 84] /\ d_out (sh_d1 (fst s)) = [] /\
  d_err (sh_d1 (fst s)) = 8 /\ sh_dl_b (fst s) = true.
Proof. vm_compute. repeat split; reflexivity. Qed.

(* the dispatch table of the seven configurations: (CloseWrite reaching the endpoint, closeWriteFunc calls,
   Close reaching the endpoint) — the numbers the harness predicate expects from the real constructors *)
Lemma c12_wrapper_table :
  map (fun k => (ncw (wrap_cfg k), ncwf (wrap_cfg k), ncl (wrap_cfg k))) [0; 1; 2; 3; 4; 5; 6]
  = [(1, 0, 1); (0, 0, 1); (0, 0, 1); (1, 0, 1); (0, 1, 1); (0, 1, 1); (0, 0, 0)].
Proof. vm_compute. reflexivity. Qed.

(* non-vacuity / reachability of the returned state: local side A (a TCP-like conn) sends 3 bytes in 1-byte
   reads and reaches EOF first; the tunnel B is NewReadWriteCloser(reader, writer-without-CloseWrite, closeFn)
   and answers with 2 bytes only AFTER A->B has finished and half-closed it; a fair schedule returns with
   everything delivered and B closed exactly once, at the end *)
Lemma c12_tcp_returns_example :
  let s := tcp_run_w (wrap_cfg 0) (wrap_cfg 2) [1; 2; 3] [4; 5] [1%nat; 1%nat] [] 0 1 false true [false; true; true] [true]
             ([0; 0; 0; 0; 0; 0; 0; 0; 2; 1; 2; 1; 1; 1; 1; 2; 2; 2; 2]%nat) in
  sh_ret (fst s) = true /\ d_out (sh_d0 (fst s)) = [1; 2; 3] /\ d_out (sh_d1 (fst s)) = [4; 5] /\
  d_err (sh_d0 (fst s)) = 0 /\ d_err (sh_d1 (fst s)) = 1 /\
  d_cw (sh_d0 (fst s)) = 0 /\ sh_ncl_b (fst s) = 1.
Proof. vm_compute. repeat split; reflexivity. Qed.
Close Scope N_scope.

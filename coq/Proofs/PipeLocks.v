(* Proofs/PipeLocks.v — C02: with the lock paths of the code (no method acquires a mutex while it holds one) no reachable
   state is a deadlock, for ANY number of threads running any of the paths and every schedule; the inverted orders deadlock. *)
From TX Require Import Model.PipeLocks.
From Coq Require Import Lia.

Lemma hset_same h l x : hset h l x l = x.
Proof. unfold hset. now rewrite Nat.eqb_refl. Qed.
Lemma hset_other h l x k : k <> l -> hset h l x k = h k.
Proof. unfold hset. intros H. destruct (Nat.eqb_spec k l); congruence. Qed.

Lemma nth_upd {A} (l : list A) i j x t : nth_error l i = Some t ->
  nth_error (upd_nth i x l) j = if Nat.eqb j i then Some x else nth_error l j.
Proof.
  intros Hi. destruct (Nat.eqb_spec j i) as [->|Hne].
  - apply nth_error_upd_nth_same. apply nth_error_Some. congruence.
  - apply nth_error_upd_nth_other. congruence.
Qed.

(* thread t either holds nothing and its remaining path is single-hold, or it holds exactly l and is about to release it *)
Definition idle (t : lkthread) : Prop := single_hold (k_ops t) = true.
Definition holding (t : lkthread) (l : nat) : Prop := exists r, k_ops t = (false, l) :: r /\ single_hold r = true.

Definition KInv (s : holders * list lkthread) : Prop :=
  (forall i t, nth_error (snd s) i = Some t -> k_tag t = i) /\
  (forall i t, nth_error (snd s) i = Some t -> idle t \/ exists l, holding t l /\ fst s l = Some i) /\
  (forall l i, fst s l = Some i -> exists t, nth_error (snd s) i = Some t /\ holding t l).

Lemma idle_not_holding t l : idle t -> holding t l -> False.
Proof. unfold idle. intros H (r & E & _). rewrite E in H. cbn in H. discriminate. Qed.

Lemma kinv_step s i : KInv s -> KInv (sys_step _ _ lkstep s i).
Proof.
  destruct s as [h ts]. unfold KInv, sys_step. cbn [fst snd]. intros (HA & HB & HC).
  destruct (nth_error ts i) as [t|] eqn:Ei; [|cbn [fst snd]; auto].
  assert (Htag : k_tag t = i) by (apply HA; exact Ei).
  unfold lkstep. destruct (k_ops t) as [|[[|] l] r] eqn:Eo.
  - (* finished *) cbn [fst snd]. split; [|split].
    + intros j u Hj. rewrite (nth_upd ts i j _ t Ei) in Hj. destruct (Nat.eqb_spec j i) as [->|]; [injection Hj as <-; first [exact Htag|reflexivity|(cbn; exact Htag)]|apply HA; exact Hj].
    + intros j u Hj. rewrite (nth_upd ts i j _ t Ei) in Hj. destruct (Nat.eqb_spec j i) as [->|]; [injection Hj as <-; apply HB; exact Ei|apply HB; exact Hj].
    + intros l0 j Hl. destruct (HC l0 j Hl) as (u & Hu & Hh). exists u. rewrite (nth_upd ts i j _ t Ei).
      destruct (Nat.eqb_spec j i) as [->|]; [rewrite Ei in Hu; injection Hu as <-; auto|auto].
  - (* acquire l *)
    destruct (h l) as [o|] eqn:Eh.
    + (* blocked: nothing changes *) cbn [fst snd]. split; [|split].
      * intros j u Hj. rewrite (nth_upd ts i j _ t Ei) in Hj. destruct (Nat.eqb_spec j i) as [->|]; [injection Hj as <-; first [exact Htag|reflexivity|(cbn; exact Htag)]|apply HA; exact Hj].
      * intros j u Hj. rewrite (nth_upd ts i j _ t Ei) in Hj. destruct (Nat.eqb_spec j i) as [->|]; [injection Hj as <-; apply HB; exact Ei|apply HB; exact Hj].
      * intros l0 j Hl. destruct (HC l0 j Hl) as (u & Hu & Hh). exists u. rewrite (nth_upd ts i j _ t Ei).
        destruct (Nat.eqb_spec j i) as [->|]; [rewrite Ei in Hu; injection Hu as <-; auto|auto].
    + (* taken *)
      assert (Hidle : idle t).
      { destruct (HB i t Ei) as [H|(l0 & (r0 & E0 & _) & _)]; [exact H|]. rewrite Eo in E0. discriminate. }
      unfold idle in Hidle. rewrite Eo in Hidle. cbn in Hidle.
      destruct r as [|[[|] l'] r']; try discriminate.
      apply andb_prop in Hidle. destruct Hidle as [Hl Hr]. apply Nat.eqb_eq in Hl. subst l'.
      cbn [fst snd]. rewrite Htag. split; [|split].
      * intros j u Hj. rewrite (nth_upd ts i j _ t Ei) in Hj. destruct (Nat.eqb_spec j i) as [->|]; [injection Hj as <-; first [exact Htag|reflexivity|(cbn; exact Htag)]|apply HA; exact Hj].
      * intros j u Hj. rewrite (nth_upd ts i j _ t Ei) in Hj. destruct (Nat.eqb_spec j i) as [->|Hne].
        -- injection Hj as <-. right. exists l. split; [exists r'; cbn; auto|apply hset_same].
        -- destruct (HB j u Hj) as [H|(l0 & Hh & Hl0)]; [left; exact H|]. right. exists l0. split; [exact Hh|].
           rewrite hset_other; [exact Hl0|]. intros ->. congruence.
      * intros l0 j Hl0. destruct (Nat.eq_dec l0 l) as [->|Hne].
        -- rewrite hset_same in Hl0. injection Hl0 as <-. eexists. rewrite (nth_upd ts i i _ t Ei), Nat.eqb_refl.
           split; [reflexivity|]. exists r'. cbn. auto.
        -- rewrite hset_other in Hl0 by exact Hne. destruct (HC l0 j Hl0) as (u & Hu & Hh). exists u.
           rewrite (nth_upd ts i j _ t Ei). destruct (Nat.eqb_spec j i) as [->|]; [|auto].
           rewrite Ei in Hu. injection Hu as <-. destruct Hh as (r0 & E0 & _). rewrite Eo in E0. discriminate.
  - (* release l *)
    assert (Hhold : holding t l /\ h l = Some i /\ single_hold r = true).
    { destruct (HB i t Ei) as [H|(l0 & (r0 & E0 & Hr0) & Hl0)].
      - unfold idle in H. rewrite Eo in H. cbn in H. discriminate.
      - rewrite Eo in E0. injection E0 as <- <-. split; [exists r; auto|auto]. }
    destruct Hhold as (Hh & Hl & Hr). cbn [fst snd]. split; [|split].
    + intros j u Hj. rewrite (nth_upd ts i j _ t Ei) in Hj. destruct (Nat.eqb_spec j i) as [->|]; [injection Hj as <-; first [exact Htag|reflexivity|(cbn; exact Htag)]|apply HA; exact Hj].
    + intros j u Hj. rewrite (nth_upd ts i j _ t Ei) in Hj. destruct (Nat.eqb_spec j i) as [->|Hne].
      * injection Hj as <-. left. exact Hr.
      * destruct (HB j u Hj) as [H|(l0 & Hh0 & Hl0)]; [left; exact H|]. right. exists l0. split; [exact Hh0|].
        rewrite hset_other; [exact Hl0|]. intros ->. congruence.
    + intros l0 j Hl0. destruct (Nat.eq_dec l0 l) as [->|Hne]; [rewrite hset_same in Hl0; discriminate|].
      rewrite hset_other in Hl0 by exact Hne. destruct (HC l0 j Hl0) as (u & Hu & Hh0). exists u.
      rewrite (nth_upd ts i j _ t Ei). destruct (Nat.eqb_spec j i) as [->|]; [|auto].
      rewrite Ei in Hu. injection Hu as <-. destruct Hh0 as (r0 & E0 & _). rewrite Eo in E0. injection E0 as ->. contradiction.
Qed.

Lemma threads_from_nth : forall paths i0 j t, nth_error (lk_threads_from i0 paths) j = Some t ->
  k_tag t = i0 + j /\ In (k_ops t) paths.
Proof.
  induction paths as [|p r IH]; intros i0 j t H; [destruct j; discriminate|].
  destruct j as [|j]; cbn in H.
  - injection H as <-. cbn. split; [lia|auto].
  - apply IH in H. destruct H as [H1 H2]. split; [lia|right; exact H2].
Qed.

Lemma kinv_init paths : forallb single_hold paths = true -> KInv (lk_init paths).
Proof.
  intros Hp. unfold KInv, lk_init. cbn [fst snd]. split; [|split].
  - intros i t H. apply threads_from_nth in H. destruct H as [H _]. lia.
  - intros i t H. apply threads_from_nth in H. destruct H as [_ H]. left. unfold idle.
    rewrite forallb_forall in Hp. apply Hp. exact H.
  - intros l i H. discriminate.
Qed.

(* no reachable state is a deadlock *)
Theorem no_deadlock_single_hold : forall paths sched,
  forallb single_hold paths = true -> ~ deadlock (lk_run paths sched).
Proof.
  intros paths sched Hp [(t & Hin & Hun) Hall].
  assert (HK : KInv (lk_run paths sched)).
  { unfold lk_run. apply (inv_all_schedules _ _ lkstep KInv); [intros s i; apply kinv_step|apply kinv_init; exact Hp]. }
  destruct HK as (HA & HB & HC).
  pose proof (Hall t Hin Hun) as Hb. unfold lk_blocked in Hb.
  destruct (k_ops t) as [|[[|] l] r] eqn:Eo; try discriminate.
  destruct (fst (lk_run paths sched) l) as [i|] eqn:Eh; [|discriminate].
  destruct (HC l i Eh) as (u & Hu & (r0 & E0 & _)).
  assert (Hbu : lk_blocked u (fst (lk_run paths sched)) = true).
  { apply Hall; [eapply nth_error_In; exact Hu|]. unfold lk_unfinished. now rewrite E0. }
  unfold lk_blocked in Hbu. rewrite E0 in Hbu. discriminate.
Qed.

(* the inverted orders (Close: source then tunnel nested; SetSourceConnection: tunnel then source nested): the schedule in
   which each takes its first lock is a deadlock, and a deadlock is for ever *)
Definition close_inverted : list lock_op := [(true, 0); (true, 1); (false, 1); (false, 0)].
Definition setsource_inverted : list lock_op := [(true, 1); (true, 0); (false, 0); (false, 1)].

Lemma upd_nth_same {A} (l : list A) i t : nth_error l i = Some t -> upd_nth i t l = l.
Proof. revert i. induction l as [|h r IH]; intros [|i] H; cbn in *; try discriminate; [congruence|f_equal; auto]. Qed.

Lemma deadlock_permanent s : deadlock s -> forall sched, run _ _ lkstep s sched = s.
Proof.
  intros [_ Hall] sched. induction sched as [|i r IH]; [reflexivity|]. cbn [run fold_left].
  assert (E : sys_step _ _ lkstep s i = s); [|rewrite E; exact IH].
  destruct s as [h ts]. unfold sys_step. cbn [fst snd] in *.
  destruct (nth_error ts i) as [t|] eqn:Ei; [|reflexivity].
  specialize (Hall t (nth_error_In _ _ Ei)). unfold lkstep, lk_unfinished, lk_blocked in *.
  destruct (k_ops t) as [|[[|] l] r0].
  - cbn. now rewrite (upd_nth_same ts i t Ei).
  - specialize (Hall eq_refl). destruct (h l); [|discriminate]. cbn. now rewrite (upd_nth_same ts i t Ei).
  - specialize (Hall eq_refl). discriminate.
Qed.

Theorem inverted_lock_order_deadlocks_refuted :
  deadlock (lk_run [close_inverted; setsource_inverted] [0; 1]) /\
  forall sched, lk_run [close_inverted; setsource_inverted] ([0; 1] ++ sched) = lk_run [close_inverted; setsource_inverted] [0; 1].
Proof.
  assert (D : deadlock (lk_run [close_inverted; setsource_inverted] [0; 1])).
  { split.
    - eexists. split; [left; reflexivity|reflexivity].
    - intros t [<-|[<-|[]]] _; reflexivity. }
  split; [exact D|]. intros sched. unfold lk_run at 1. rewrite run_app. apply deadlock_permanent. exact D.
Qed.

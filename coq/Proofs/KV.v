(* Proofs/KV.v — MemImpl (repaired) refines Spec for every history; zero lifetime = never expires;
   every schedule of concurrent callers is linearizable; the pinned deviations are refuted. *)
From TX Require Import Model.KV Model.KVConc.
From Coq Require Import ZArith ZifyN ZifyNat ZifyBool Lia.

Open Scope N_scope.

(* ------------------------------------------------------------------------------------------ *)
(* keys and maps                                                                               *)
(* ------------------------------------------------------------------------------------------ *)

Lemma list_eqb_eq : forall a b, list_eqb a b = true <-> a = b.
Proof.
  induction a as [|x a IH]; intros [|y b]; cbn; split; intros H; try reflexivity; try discriminate.
  - apply andb_true_iff in H. destruct H as [Hx Hab]. apply N.eqb_eq in Hx. apply IH in Hab. subst. reflexivity.
  - injection H as Hx Hab. subst. apply andb_true_iff. split; [apply N.eqb_refl | apply IH; reflexivity].
Qed.

Lemma key_eqb_eq a b : key_eqb a b = true <-> a = b.
Proof. apply list_eqb_eq. Qed.
Lemma key_eqb_refl a : key_eqb a a = true.
Proof. apply key_eqb_eq. reflexivity. Qed.
Lemma key_eqb_neq a b : key_eqb a b = false <-> a <> b.
Proof.
  split; intros H.
  - intros E. apply key_eqb_eq in E. congruence.
  - destruct (key_eqb a b) eqn:E; [apply key_eqb_eq in E; contradiction | reflexivity].
Qed.

Lemma upd_same m k o : upd m k o k = o.
Proof. unfold upd. rewrite key_eqb_refl. reflexivity. Qed.
Lemma upd_other m k o k' : k' <> k -> upd m k o k' = m k'.
Proof. intros H. unfold upd. apply key_eqb_neq in H. rewrite H. reflexivity. Qed.

(* ------------------------------------------------------------------------------------------ *)
(* expiry facts                                                                                *)
(* ------------------------------------------------------------------------------------------ *)

Lemma expired_deadline now ttl v : expired now {| val := v; exp := deadline now ttl |} = false.
Proof. unfold expired, deadline. cbn [exp]. destruct (ttl =? 0) eqn:E; lia. Qed.

Lemma expired_default D now v : expired now {| val := v; exp := now + D |} = false.
Proof. unfold expired. cbn [exp]. lia. Qed.

Lemma expired_same_exp now it v : expired now {| val := v; exp := exp it |} = expired now it.
Proof. reflexivity. Qed.

Lemma expired_mono now d it : expired now it = true -> expired (now + d) it = true.
Proof. unfold expired. lia. Qed.

Lemma live_idem now o : live now (live now o) = live now o.
Proof. destruct o as [it|]; cbn; [|reflexivity]. destruct (expired now it) eqn:E; cbn; [reflexivity | rewrite E; reflexivity]. Qed.

Lemma live_fresh now it : expired now it = false -> live now (Some it) = Some it.
Proof. intros H. cbn. rewrite H. reflexivity. Qed.

(* refinement of one slot after writing key k on both sides *)
Lemma refines_upd m s now k it :
  refines m s now -> expired now it = false ->
  refines (upd m k (Some it)) (upd s k (Some it)) now.
Proof.
  intros R H k'. unfold upd. destruct (key_eqb k' k); [apply live_fresh, H | apply R].
Qed.

Lemma refines_del m s now k :
  refines m s now -> refines (upd m k None) (upd s k None) now.
Proof. intros R k'. unfold upd. destruct (key_eqb k' k); [reflexivity | apply R]. Qed.

(* deleting garbage on the implementation side is invisible *)
Lemma refines_drop_garbage m s now k it :
  refines m s now -> m k = Some it -> expired now it = true -> refines (upd m k None) s now.
Proof.
  intros R Hk He k'. unfold upd. destruct (key_eqb k' k) eqn:E; [|apply R].
  apply key_eqb_eq in E. subst k'. rewrite <- (R k), Hk. cbn. rewrite He. reflexivity.
Qed.

(* overwriting garbage on the implementation side = inserting on the Spec side *)
Lemma refines_upd_spec_only m s now k it :
  refines m s now -> expired now it = false ->
  refines (upd m k (Some it)) (upd s k (Some it)) now.
Proof. apply refines_upd. Qed.

Lemma gc_key_refines m s now k : refines m s now -> refines (gc_key m now k) s now.
Proof.
  intros R. unfold gc_key. destruct (m k) as [it|] eqn:Hk; [|exact R].
  destruct (expired now it) eqn:He; [|exact R]. eapply refines_drop_garbage; eassumption.
Qed.

Lemma purge_refines m s now : refines m s now -> refines (purge now m) s now.
Proof. intros R k. unfold purge. rewrite live_idem. apply R. Qed.

Lemma tick_refines m s now d : refines m s now -> refines m (purge (now + d) s) (now + d).
Proof.
  intros R k. unfold purge. rewrite <- (R k). destruct (m k) as [it|]; [|reflexivity].
  cbn. destruct (expired now it) eqn:E.
  - rewrite (expired_mono _ d _ E). reflexivity.
  - cbn. reflexivity.
Qed.

(* ------------------------------------------------------------------------------------------ *)
(* one step                                                                                    *)
(* ------------------------------------------------------------------------------------------ *)

Definition step_ok (x y : out * kvmap * N) : Prop :=
  fst (fst x) = fst (fst y) /\ snd x = snd y /\ refines (snd (fst x)) (snd (fst y)) (snd x).

Ltac slot R k it Hk He :=
  let Rk := fresh "Rk" in
  pose proof (R k) as Rk; unfold live in Rk;
  destruct (_ k) as [it|] eqn:Hk in Rk;
  [ destruct (expired _ it) eqn:He in Rk | ];
  rewrite <- Rk; clear Rk.

Lemma read_phase_spec D m s now o k :
  refines m s now -> two_phase o = Some k ->
  fst (read_phase repaired m now o) = fst (fst (spec_step D s now o))
  /\ snd (fst (spec_step D s now o)) = s /\ snd (spec_step D s now o) = now.
Proof.
  intros R Ht.
  destruct o; cbn [two_phase] in Ht; try discriminate; injection Ht as <-;
    cbn [read_phase spec_step fst snd repaired v_getexp_never0];
    (pose proof (R k0) as Rk; unfold live in Rk;
     destruct (m k0) as [it|] eqn:Hk;
     [ destruct (expired now it) eqn:He | ]; rewrite <- Rk; cbn [fst snd]; repeat split).
  destruct (exp it =? 0); reflexivity.
Qed.

Lemma step_refines D (HD : 0 < D) m s now o :
  refines m s now -> step_ok (mem_step D repaired m now o) (spec_step D s now o).
Proof.
  intros R. unfold step_ok.
  destruct o as [k v ttl|k|k|k|k l ttl|k|k x|k x|k f x|k f|k|k f|k n|k ttl|k|k v ttl|k old new ttl| |d].
  - (* Set *) cbn. repeat split. apply refines_upd; [exact R | apply expired_deadline].
  - (* Get *) cbn [mem_step spec_step fst snd].
    pose proof (R k) as Rk; unfold live in Rk. destruct (m k) as [it|] eqn:Hk.
    + destruct (expired now it) eqn:He; rewrite <- Rk; repeat split; exact R.
    + rewrite <- Rk. repeat split; exact R.
  - (* Delete *) cbn. repeat split. apply refines_del, R.
  - (* Exists *) cbn [mem_step spec_step fst snd].
    pose proof (R k) as Rk; unfold live in Rk. destruct (m k) as [it|] eqn:Hk.
    + destruct (expired now it) eqn:He; rewrite <- Rk; repeat split; exact R.
    + rewrite <- Rk. repeat split; exact R.
  - (* SetList *) cbn. repeat split. apply refines_upd; [exact R | apply expired_deadline].
  - (* GetList *) cbn [mem_step spec_step fst snd].
    pose proof (R k) as Rk; unfold live in Rk. destruct (m k) as [it|] eqn:Hk.
    + destruct (expired now it) eqn:He; rewrite <- Rk; repeat split; exact R.
    + rewrite <- Rk. repeat split; exact R.
  - (* Append *) cbn [mem_step spec_step].
    pose proof (R k) as Rk; unfold live in Rk. destruct (m k) as [it|] eqn:Hk.
    + destruct (expired now it) eqn:He; rewrite <- Rk.
      * cbn. repeat split. apply refines_upd; [exact R | apply expired_default].
      * destruct (val it); cbn; repeat split; try exact R.
        apply refines_upd; [exact R | rewrite expired_same_exp; exact He].
    + rewrite <- Rk. cbn. repeat split. apply refines_upd; [exact R | apply expired_default].
  - (* Remove *) cbn [mem_step spec_step].
    pose proof (R k) as Rk; unfold live in Rk. destruct (m k) as [it|] eqn:Hk.
    + destruct (expired now it) eqn:He; rewrite <- Rk.
      * cbn. repeat split. eapply refines_drop_garbage; eassumption.
      * destruct (val it); cbn; repeat split; try exact R.
        apply refines_upd; [exact R | rewrite expired_same_exp; exact He].
    + rewrite <- Rk. cbn. repeat split. exact R.
  - (* SetHash *) cbn [mem_step spec_step].
    pose proof (R k) as Rk; unfold live in Rk. destruct (m k) as [it|] eqn:Hk.
    + destruct (expired now it) eqn:He; rewrite <- Rk.
      * cbn. repeat split. apply refines_upd; [exact R | apply expired_default].
      * destruct (val it); cbn; repeat split;
          (apply refines_upd; [exact R | rewrite expired_same_exp; exact He]).
    + rewrite <- Rk. cbn. repeat split. apply refines_upd; [exact R | apply expired_default].
  - (* GetHash *)
    destruct (read_phase_spec D m s now (KGetHash k f) k R eq_refl) as (Ho & Hs & Hn).
    cbn [mem_step]. destruct (read_phase repaired m now (KGetHash k f)) as [r gc]. cbn [fst snd] in *.
    rewrite Hs, Hn. repeat split; [exact Ho|]. destruct gc; [apply gc_key_refines|]; exact R.
  - (* GetAllHash *)
    destruct (read_phase_spec D m s now (KGetAllHash k) k R eq_refl) as (Ho & Hs & Hn).
    cbn [mem_step]. destruct (read_phase repaired m now (KGetAllHash k)) as [r gc]. cbn [fst snd] in *.
    rewrite Hs, Hn. repeat split; [exact Ho|]. destruct gc; [apply gc_key_refines|]; exact R.
  - (* DeleteHash *) cbn [mem_step spec_step].
    pose proof (R k) as Rk; unfold live in Rk. destruct (m k) as [it|] eqn:Hk.
    + destruct (expired now it) eqn:He; rewrite <- Rk.
      * cbn. repeat split. eapply refines_drop_garbage; eassumption.
      * destruct (val it); cbn; repeat split; try exact R.
        apply refines_upd; [exact R | rewrite expired_same_exp; exact He].
    + rewrite <- Rk. cbn. repeat split. exact R.
  - (* IncrBy *) cbn [mem_step spec_step].
    pose proof (R k) as Rk; unfold live in Rk. destruct (m k) as [it|] eqn:Hk.
    + destruct (expired now it) eqn:He; rewrite <- Rk.
      * cbn. repeat split. apply refines_upd; [exact R | apply expired_default].
      * destruct (val it) as [[b|z|]|l|h]; cbn; repeat split; try exact R.
        apply refines_upd; [exact R | rewrite expired_same_exp; exact He].
    + rewrite <- Rk. cbn. repeat split. apply refines_upd; [exact R | apply expired_default].
  - (* SetExpiration *) cbn [mem_step spec_step repaired v_setexp_checks_expiry v_setexp_ttl0_never andb].
    pose proof (R k) as Rk; unfold live in Rk. destruct (m k) as [it|] eqn:Hk.
    + destruct (expired now it) eqn:He; rewrite <- Rk.
      * cbn. repeat split. eapply refines_drop_garbage; eassumption.
      * cbn. repeat split. apply refines_upd; [exact R | apply expired_deadline].
    + rewrite <- Rk. cbn. repeat split. exact R.
  - (* GetExpiration *)
    destruct (read_phase_spec D m s now (KGetExpiration k) k R eq_refl) as (Ho & Hs & Hn).
    cbn [mem_step]. destruct (read_phase repaired m now (KGetExpiration k)) as [r gc]. cbn [fst snd] in *.
    rewrite Hs, Hn. repeat split; [exact Ho|]. destruct gc; [apply gc_key_refines|]; exact R.
  - (* SetNX *) cbn [mem_step spec_step repaired v_setnx_after].
    pose proof (R k) as Rk; unfold live in Rk. destruct (m k) as [it|] eqn:Hk.
    + destruct (expired now it) eqn:He; rewrite <- Rk.
      * cbn. repeat split. apply refines_upd; [exact R | apply expired_deadline].
      * cbn. repeat split. exact R.
    + rewrite <- Rk. cbn. repeat split. apply refines_upd; [exact R | apply expired_deadline].
  - (* CAS *) cbn [mem_step spec_step repaired v_cas_zero_guard v_cas_ttl0_never].
    pose proof (R k) as Rk; unfold live in Rk. destruct (m k) as [it|] eqn:Hk.
    + destruct (expired now it) eqn:He; rewrite <- Rk.
      * destruct (is_nil old); cbn; repeat split.
        -- apply refines_upd; [exact R | apply expired_deadline].
        -- eapply refines_drop_garbage; eassumption.
      * destruct (cas_matches (val it) old); cbn; repeat split; try exact R.
        apply refines_upd; [exact R | apply expired_deadline].
    + rewrite <- Rk. destruct (is_nil old); cbn; repeat split; try exact R.
      apply refines_upd; [exact R | apply expired_deadline].
  - (* Cleanup *) cbn. repeat split. apply purge_refines, R.
  - (* Tick *) cbn. repeat split. apply tick_refines, R.
Qed.

(* ------------------------------------------------------------------------------------------ *)
(* all histories                                                                               *)
(* ------------------------------------------------------------------------------------------ *)

Theorem mem_refines_spec D (HD : 0 < D) :
  forall (h : list op) (m s : kvmap) (now : N),
  refines m s now ->
  outs_of (mem_run D repaired m now h) = outs_of (spec_run D s now h)
  /\ now_of (mem_run D repaired m now h) = now_of (spec_run D s now h)
  /\ refines (map_of (mem_run D repaired m now h)) (map_of (spec_run D s now h)) (now_of (mem_run D repaired m now h)).
Proof.
  unfold mem_run, spec_run, outs_of, map_of, now_of.
  induction h as [|o t IH]; intros m s now R.
  - cbn. repeat split. exact R.
  - cbn [run_with].
    pose proof (step_refines D HD m s now o R) as Hs. unfold step_ok in Hs.
    destruct (mem_step D repaired m now o) as [[r m1] now1].
    destruct (spec_step D s now o) as [[r' s1] now1']. cbn [fst snd] in Hs.
    destruct Hs as (Hr & Hn & R1). subst r' now1'.
    specialize (IH m1 s1 now1 R1).
    destruct (run_with (mem_step D repaired) m1 now1 t) as [[rs m2] now2].
    destruct (run_with (spec_step D) s1 now1 t) as [[rs' s2] now2']. cbn [fst snd] in *.
    destruct IH as (Ho & Hn2 & R2). subst. repeat split. exact R2.
Qed.

Corollary mem_answers_like_spec D (HD : 0 < D) (h : list op) (now0 : N) :
  outs_of (mem_run D repaired empty now0 h) = outs_of (spec_run D empty now0 h).
Proof.
  apply (mem_refines_spec D HD h empty empty now0). intros k. reflexivity.
Qed.

(* the clock of a history is monotone *)
Lemma spec_step_clock D s now o : now <= snd (spec_step D s now o).
Proof. destruct o; cbn; try lia; repeat (match goal with |- context [match ?x with _ => _ end] => destruct x end; cbn); lia. Qed.

Lemma run_clock_monotone D : forall h s now, now <= now_of (spec_run D s now h).
Proof.
  unfold spec_run, now_of. induction h as [|o t IH]; intros s now; cbn [run_with]; [cbn; lia|].
  pose proof (spec_step_clock D s now o) as H1.
  destruct (spec_step D s now o) as [[r s1] now1]. cbn [snd] in H1.
  specialize (IH s1 now1). destruct (run_with (spec_step D) s1 now1 t) as [[rs s2] now2]. cbn [snd] in *. lia.
Qed.

(* ------------------------------------------------------------------------------------------ *)
(* a zero lifetime means "never expires", for every operation that takes a lifetime            *)
(* ------------------------------------------------------------------------------------------ *)

Definition immortal (m : kvmap) (k : key) : Prop := exists it, m k = Some it /\ exp it = 0.

Lemma zero_ttl_makes_immortal D m now o k :
  with_zero_ttl o k = true ->
  succeeded (fst (fst (mem_step D repaired m now o))) = true ->
  immortal (snd (fst (mem_step D repaired m now o))) k.
Proof.
  intros Hz Hs. unfold immortal.
  destruct o; cbn [with_zero_ttl] in Hz; try discriminate;
    apply andb_true_iff in Hz; destruct Hz as [Hk Ht]; apply key_eqb_eq in Hk; subst k0;
    apply N.eqb_eq in Ht; subst ttl; revert Hs;
    cbn [mem_step repaired v_setexp_checks_expiry v_setexp_ttl0_never andb v_setnx_after v_cas_zero_guard v_cas_ttl0_never].
  - intros _. cbn. rewrite upd_same. eexists; split; reflexivity.
  - intros _. cbn. rewrite upd_same. eexists; split; reflexivity.
  - destruct (m k) as [it|]; [destruct (expired now it)|]; cbn; intros Hs; try discriminate;
      rewrite upd_same; eexists; split; reflexivity.
  - destruct (m k) as [it|]; [destruct (negb (expired now it))|]; cbn; intros Hs; try discriminate;
      rewrite upd_same; eexists; split; reflexivity.
  - destruct (m k) as [it|]; [destruct (expired now it); [destruct (is_nil old)|destruct (cas_matches (val it) old)]
                             |destruct (is_nil old)]; cbn; intros Hs; try discriminate;
      rewrite upd_same; eexists; split; reflexivity.
Qed.

Lemma immortal_not_expired now it : exp it = 0 -> expired now it = false.
Proof. intros H. unfold expired. rewrite H. reflexivity. Qed.

Lemma immortal_preserved D m now o k :
  mutates o k = false -> immortal m k -> immortal (snd (fst (mem_step D repaired m now o))) k.
Proof.
  intros Hm (it & Hk & H0). unfold immortal.
  assert (Hother : forall k' x, key_eqb k k' = false -> upd m k' x k = m k).
  { intros k' x E. unfold upd. rewrite E. reflexivity. }
  assert (Hgc : forall k', gc_key m now k' k = m k).
  { intros k'. unfold gc_key. destruct (m k') as [it'|] eqn:Hk'; [|reflexivity].
    destruct (expired now it') eqn:He; [|reflexivity].
    unfold upd. destruct (key_eqb k k') eqn:E; [|reflexivity].
    apply key_eqb_eq in E. subst k'. rewrite Hk in Hk'. injection Hk' as <-.
    rewrite (immortal_not_expired now it H0) in He. discriminate. }
  exists it. split; [|exact H0].
  destruct o; cbn [mutates] in Hm; cbn [mem_step repaired v_setexp_checks_expiry v_setexp_ttl0_never andb v_setnx_after v_cas_zero_guard v_cas_ttl0_never];
    try (cbn [fst snd]; exact Hk);
    try (cbn [fst snd]; rewrite (Hother _ _ Hm); exact Hk).
  - (* Append *) destruct (m k0) as [it'|]; [destruct (expired now it'); [|destruct (val it')]|]; cbn [fst snd];
      try exact Hk; rewrite (Hother _ _ Hm); exact Hk.
  - (* Remove *) destruct (m k0) as [it'|]; [destruct (expired now it'); [|destruct (val it')]|]; cbn [fst snd];
      try exact Hk; rewrite (Hother _ _ Hm); exact Hk.
  - (* GetHash *) destruct (read_phase repaired m now (KGetHash k0 f)) as [r [|]]; cbn [fst snd]; [rewrite Hgc|]; exact Hk.
  - (* GetAllHash *) destruct (read_phase repaired m now (KGetAllHash k0)) as [r [|]]; cbn [fst snd]; [rewrite Hgc|]; exact Hk.
  - (* DeleteHash *) destruct (m k0) as [it'|]; [destruct (expired now it'); [|destruct (val it')]|]; cbn [fst snd];
      try exact Hk; rewrite (Hother _ _ Hm); exact Hk.
  - (* IncrBy *)
    match goal with |- context [match val ?x with _ => _ end] => destruct (val x) as [[b|z|]|l|h] end; cbn [fst snd];
      try exact Hk; rewrite (Hother _ _ Hm); exact Hk.
  - (* SetExpiration *) destruct (m k0) as [it'|]; [destruct (expired now it')|]; cbn [fst snd];
      try exact Hk; rewrite (Hother _ _ Hm); exact Hk.
  - (* GetExpiration *) destruct (read_phase repaired m now (KGetExpiration k0)) as [r [|]]; cbn [fst snd]; [rewrite Hgc|]; exact Hk.
  - (* SetNX *) destruct (m k0) as [it'|]; [destruct (negb (expired now it'))|]; cbn [fst snd];
      try exact Hk; rewrite (Hother _ _ Hm); exact Hk.
  - (* CAS *) destruct (m k0) as [it'|]; [destruct (expired now it'); [destruct (is_nil old)|destruct (cas_matches (val it') old)]
                                         |destruct (is_nil old)]; cbn [fst snd];
      try exact Hk; rewrite (Hother _ _ Hm); exact Hk.
  - (* Cleanup *) cbn [fst snd]. unfold purge. rewrite Hk. cbn. rewrite (immortal_not_expired now it H0). reflexivity.
Qed.

Lemma immortal_run D : forall h m now k,
  Forall (fun o => mutates o k = false) h -> immortal m k ->
  immortal (map_of (mem_run D repaired m now h)) k.
Proof.
  unfold mem_run, map_of. induction h as [|o t IH]; intros m now k HF Him; [exact Him|].
  inversion HF as [|? ? Ho Ht]; subst. cbn [run_with].
  pose proof (immortal_preserved D m now o k Ho Him) as H1.
  destruct (mem_step D repaired m now o) as [[r m1] now1]. cbn [fst snd] in H1.
  specialize (IH m1 now1 k Ht H1).
  destruct (run_with (mem_step D repaired) m1 now1 t) as [[rs m2] now2]. exact IH.
Qed.

(* After any operation that takes a lifetime succeeded with lifetime 0 on k, k stays visible through
   EVERY later history that does not itself write k — whatever the Ticks in it. *)
Theorem zero_ttl_never_expires D :
  forall (m : kvmap) (now : N) (o : op) (k : key) (h : list op),
  with_zero_ttl o k = true ->
  succeeded (fst (fst (mem_step D repaired m now o))) = true ->
  Forall (fun o' => mutates o' k = false) h ->
  let m1 := snd (fst (mem_step D repaired m now o)) in
  let now1 := snd (mem_step D repaired m now o) in
  let r := mem_run D repaired m1 now1 h in
  fst (fst (mem_step D repaired (map_of r) (now_of r) (KExists k))) = OBool true.
Proof.
  intros m now o k h Hz Hs HF m1 now1 r.
  pose proof (zero_ttl_makes_immortal D m now o k Hz Hs) as H1.
  pose proof (immortal_run D h m1 now1 k HF H1) as (it & Hk & H0).
  fold r in Hk. cbn [mem_step fst]. rewrite Hk. rewrite (immortal_not_expired _ it H0). reflexivity.
Qed.

(* ------------------------------------------------------------------------------------------ *)
(* concurrent callers: every schedule is linearizable                                          *)
(* ------------------------------------------------------------------------------------------ *)

Lemma run_with_snoc step : forall h m now o,
  run_with step m now (h ++ [o]) =
  let '(rs, m1, now1) := run_with step m now h in
  let '(r, m2, now2) := step m1 now1 o in (rs ++ [r], m2, now2).
Proof.
  induction h as [|a t IH]; intros m now o; cbn [run_with app].
  - destruct (step m now o) as [[r m2] now2]. reflexivity.
  - destruct (step m now a) as [[ra ma] nowa]. rewrite IH.
    destruct (run_with step ma nowa t) as [[rs m1] now1].
    destruct (step m1 now1 o) as [[r m2] now2]. reflexivity.
Qed.

Section Lin.
  Variable D : N.
  Hypothesis HD : 0 < D.
  Variable now0 : N.

  Definition seen_in_log (log : list (op * out)) (lo : local) : Prop :=
    forall e, In e (lo_seen lo) -> In e log.

  Definition Inv (s : shared * list local) : Prop :=
    let sh := fst s in
    let sp := spec_run D empty now0 (map fst (sh_log sh)) in
    outs_of sp = map snd (sh_log sh)
    /\ now_of sp = sh_now sh
    /\ refines (sh_m sh) (map_of sp) (sh_now sh)
    /\ Forall (seen_in_log (sh_log sh)) (snd s).

  Lemma Forall_upd_nth {A} (P : A -> Prop) i x l : Forall P l -> P x -> Forall P (upd_nth i x l).
  Proof.
    intros HF Hx. revert i. induction HF as [|y t Hy Ht IH]; intros [|j]; cbn; constructor; auto.
  Qed.

  Lemma seen_mono log e lo : seen_in_log log lo -> seen_in_log (log ++ [e]) lo.
  Proof. intros H x Hx. apply in_or_app. left. apply H, Hx. Qed.

  Lemma Inv_init progs : Inv (init now0 progs).
  Proof.
    unfold Inv, init, init_shared. cbn [fst snd sh_m sh_now sh_log map].
    split; [reflexivity|]. split; [reflexivity|]. split.
    - intros k. reflexivity.
    - apply Forall_forall. intros lo Hlo. apply in_map_iff in Hlo. destruct Hlo as (p & <- & _).
      intros e He. destruct He.
  Qed.

  (* appending (o, r) to the log where r and the new store are what the Spec gives *)
  Lemma Inv_log_step sh ls i lo o r m' now' (lo' : local) :
    Inv (sh, ls) -> nth_error ls i = Some lo ->
    (let sp := spec_run D empty now0 (map fst (sh_log sh)) in
     let x := spec_step D (map_of sp) (now_of sp) o in
     r = fst (fst x) /\ now' = snd x /\ refines m' (snd (fst x)) now') ->
    lo_seen lo' = lo_seen lo ++ [(o, r)] ->
    Inv ({| sh_m := m'; sh_now := now'; sh_log := sh_log sh ++ [(o, r)] |}, upd_nth i lo' ls).
  Proof.
    intros (Ho & Hn & R & HF) Hnth Hx Hseen. cbn [fst snd] in *.
    unfold Inv. cbn [fst snd sh_m sh_now sh_log].
    rewrite !map_app. cbn [map fst snd].
    unfold spec_run in *. rewrite run_with_snoc.
    unfold outs_of, map_of, now_of in *.
    destruct (run_with (spec_step D) empty now0 (map fst (sh_log sh))) as [[rs s1] now1]. cbn [fst snd] in *.
    destruct (spec_step D s1 now1 o) as [[r1 s2] now2]. cbn [fst snd] in *.
    destruct Hx as (Hr & Hnow & R'). subst r1 now2.
    repeat split.
    - rewrite Ho. reflexivity.
    - exact R'.
    - apply Forall_upd_nth.
      + eapply Forall_impl; [|exact HF]. intros l0. apply seen_mono.
      + intros e He. rewrite Hseen in He. apply in_app_or in He. apply in_or_app.
        destruct He as [He|He]; [left|right; exact He].
        assert (Hlo : seen_in_log (sh_log sh) lo).
        { rewrite Forall_forall in HF. apply HF. eapply nth_error_In; eassumption. }
        apply Hlo, He.
  Qed.

  Lemma Inv_step s i : Inv s -> Inv (sys_step shared local (tstep D repaired) s i).
  Proof.
    intros HI. destruct s as [sh ls]. unfold sys_step. cbn [fst snd].
    destruct (nth_error ls i) as [lo|] eqn:Hnth; [|exact HI].
    unfold tstep.
    destruct (lo_pending lo) as [k|] eqn:Hp.
    - (* second critical section: invisible garbage collection *)
      destruct HI as (Ho & Hn & R & HF). cbn [fst snd] in *.
      unfold Inv. cbn [fst snd sh_m sh_now sh_log]. repeat split; try assumption.
      + apply gc_key_refines, R.
      + apply Forall_upd_nth; [exact HF|].
        rewrite Forall_forall in HF. intros e He. cbn [lo_seen] in He.
        exact (HF lo (nth_error_In _ _ Hnth) e He).
    - destruct (lo_prog lo) as [|o rest] eqn:Hprog.
      + (* nothing left to do *)
        destruct HI as (Ho & Hn & R & HF). cbn [fst snd] in *.
        unfold Inv. cbn [fst snd]. repeat split; try assumption.
        apply Forall_upd_nth; [exact HF|]. rewrite Forall_forall in HF. exact (HF lo (nth_error_In _ _ Hnth)).
      + pose proof HI as (Ho & Hn & R & HF). cbn [fst snd] in Ho, Hn, R, HF.
        destruct (two_phase o) as [k|] eqn:Htp.
        * (* first critical section of a two-section method: linearization point *)
          rewrite <- Hn in R.
          destruct (read_phase_spec D (sh_m sh) _ (sh_now sh) o k ltac:(rewrite <- Hn; exact R) Htp) as (Hr & Hs & Hnn).
          destruct (read_phase repaired (sh_m sh) (sh_now sh) o) as [r gc] eqn:Hrp. cbn [fst] in Hr.
          eapply (Inv_log_step sh ls i lo o r (sh_m sh) (sh_now sh)); [exact HI | exact Hnth | | reflexivity].
          cbn zeta. rewrite Hn. split; [exact Hr|]. split; [symmetry; exact Hnn|].
          rewrite Hs. rewrite <- Hn. exact R.
        * (* one critical section *)
          rewrite <- Hn in R.
          assert (R' : refines (sh_m sh) (map_of (spec_run D empty now0 (map fst (sh_log sh)))) (sh_now sh))
            by (rewrite <- Hn; exact R).
          pose proof (step_refines D HD (sh_m sh) _ (sh_now sh) o R') as Hst. unfold step_ok in Hst.
          destruct (mem_step D repaired (sh_m sh) (sh_now sh) o) as [[r m'] now'] eqn:Hms. cbn [fst snd] in Hst.
          destruct Hst as (Hr & Hnw & R2).
          eapply (Inv_log_step sh ls i lo o r m' now'); [exact HI | exact Hnth | | reflexivity].
          cbn zeta. rewrite Hn. split; [exact Hr|]. split; [exact Hnw|]. exact R2.
  Qed.

  (* Every schedule, any number of callers, any programs: the ghost log (operations in the order of
     their linearization points, with the answers the callers actually got) is a legal sequential
     history of the Spec, and everything any caller observed is in that log. *)
  Theorem linearizable_all_schedules (progs : list (list op)) (sched : list nat) :
    let fin := run shared local (tstep D repaired) (init now0 progs) sched in
    legal D now0 (sh_log (fst fin))
    /\ Forall (seen_in_log (sh_log (fst fin))) (snd fin).
  Proof.
    intros fin.
    assert (HI : Inv fin).
    { unfold fin. apply (inv_all_schedules shared local (tstep D repaired) Inv).
      - intros s i. apply Inv_step.
      - apply Inv_init. }
    destruct HI as (Ho & _ & _ & HF). split; [exact Ho | exact HF].
  Qed.
End Lin.

(* ------------------------------------------------------------------------------------------ *)
(* the pinned tree: each deviation refuted by a concrete history                               *)
(* ------------------------------------------------------------------------------------------ *)

Definition kA : key := [107].                 (* "k" *)
Definition sa : scalar := SStr [97].          (* "a" *)
Definition sb : scalar := SStr [98].          (* "b" *)
Definition DAY : N := 86400000.
Definition HOUR : N := 3600000.

Definition differs (h : list op) : Prop :=
  outs_of (mem_run DAY pinned empty 1000 h) <> outs_of (spec_run DAY empty 1000 h).

(* Set(k,a,0); CAS(k,a,b,1h) -> false and k is gone   [Appendix A, probed on the real code] *)
Lemma pinned_cas_on_never_expiring_refuted :
  differs [KSet kA (VS sa) 0; KCAS kA sa (VS sb) HOUR; KGet kA].
Proof. unfold differs. vm_compute. intros H. discriminate H. Qed.

(* Set(k,a,1h); CAS(k,a,b,0); 1 ms later Get(k) -> not found *)
Lemma pinned_cas_zero_ttl_refuted :
  differs [KSet kA (VS sa) HOUR; KCAS kA sa (VS sb) 0; KTick 1; KGet kA].
Proof. unfold differs. vm_compute. intros H. discriminate H. Qed.

(* Set(k,a,1h); SetExpiration(k,0); 1 ms later Get(k) -> not found *)
Lemma pinned_setexpiration_zero_ttl_refuted :
  differs [KSet kA (VS sa) HOUR; KSetExpiration kA 0; KTick 1; KGet kA].
Proof. unfold differs. vm_compute. intros H. discriminate H. Qed.

(* Set(k,a,50ms); 100 ms later SetExpiration(k,1h) revives the expired value *)
Lemma pinned_setexpiration_revives_refuted :
  differs [KSet kA (VS sa) 50; KTick 100; KSetExpiration kA HOUR; KGet kA].
Proof. unfold differs. vm_compute. intros H. discriminate H. Qed.

(* GetExpiration of a never-expiring key is negative *)
Lemma pinned_getexpiration_never_refuted :
  differs [KSet kA (VS sa) 0; KGetExpiration kA].
Proof. unfold differs. vm_compute. intros H. discriminate H. Qed.

(* exactly at the deadline instant Get still sees the key but SetNX overwrites it *)
Lemma pinned_setnx_boundary_refuted :
  differs [KSet kA (VS sa) 50; KTick 50; KGet kA; KSetNX kA (VS sb) 0].
Proof. unfold differs. vm_compute. intros H. discriminate H. Qed.

(* ------------------------------------------------------------------------------------------ *)
(* non-vacuity                                                                                 *)
(* ------------------------------------------------------------------------------------------ *)

Definition demo_history : list op :=
  [KSet kA (VS sa) 50; KSetList [108] [sa; sb] 0; KAppend [108] sa; KTick 100; KGet kA; KSetNX kA (VS sb) 0;
   KCAS kA sb (VS sa) 0; KTick HOUR; KGet kA; KRemove [108] sa; KGetList [108]; KIncrBy [99] 5; KCleanup;
   KSetHash [104] [102] sa; KGetAllHash [104]; KTick DAY; KTick DAY; KGetHash [104] [102]; KExists kA].

Lemma demo_history_outputs :
  outs_of (mem_run DAY repaired empty 1000 demo_history) =
  [OOk; OOk; OOk; OOk; ONotFound; OBool true; OBool true; OOk; OVal (VS sa); OOk; OVal (VList [sb]);
   OInt 5; OOk; OOk; OVal (VHash [([102], sa)]); OOk; OOk; ONotFound; OBool true]
  /\ 0 < DAY
  /\ refines empty empty 1000.
Proof. split; [vm_compute; reflexivity|]. split; [reflexivity|]. intros k. reflexivity. Qed.

(* a concrete schedule of two callers racing SetNX, with a two-section GetExpiration on garbage in between *)
Definition demo_progs : list (list op) :=
  [[KSet kA (VS sa) 50; KTick 100; KGetExpiration kA; KSetNX kA (VS sa) 0];
   [KSetNX kA (VS sb) 0; KGet kA]].
Lemma demo_schedule_log :
  map snd (sh_log (fst (run shared local (tstep DAY repaired) (init 1000 demo_progs) [0;0;0;1;0;1;0]%nat)))
  = [OOk; OOk; ONotFound; OBool true; OVal (VS sb); OBool false].
Proof. vm_compute. reflexivity. Qed.

(* ------------------------------------------------------------------------------------------ *)
(* the second backend                                                                          *)
(* ------------------------------------------------------------------------------------------ *)

(* redis.Storage talks to an external server and is not modelled: its answers enter as a function
   [redis_outs] of the history.  IF, on the histories of a given shape and under a projection of the
   answers, Redis answers like the Spec (this is what the differential run samples on the real
   redis.Storage over miniredis), THEN the two backends agree on those histories — the in-memory side
   of the equation is the theorem above, for every history. *)
Theorem backends_agree_given_redis_refines D (HD : 0 < D) (now0 : N)
  (redis_outs : list op -> list out) (shape : list op -> Prop) (proj : list out -> list out) :
  (forall h, shape h -> proj (redis_outs h) = proj (outs_of (spec_run D empty now0 h))) ->
  forall h, shape h -> proj (redis_outs h) = proj (outs_of (mem_run D repaired empty now0 h)).
Proof.
  intros Hr h Hs. rewrite (mem_answers_like_spec D HD h now0). apply Hr, Hs.
Qed.

(* ------------------------------------------------------------------------------------------ *)
(* CleanupExpired: one critical section; the two-phase rewrite loses writes                     *)
(* ------------------------------------------------------------------------------------------ *)

(* in the Threads model a caller's CleanupExpired is exactly one step: the whole purge, logged at that step *)
Lemma cleanup_is_one_section D V rest seen sh :
  tstep D V {| lo_prog := KCleanup :: rest; lo_pending := None; lo_seen := seen |} sh =
  ({| lo_prog := rest; lo_pending := None; lo_seen := seen ++ [(KCleanup, OOk)] |},
   {| sh_m := purge (sh_now sh) (sh_m sh); sh_now := sh_now sh; sh_log := sh_log sh ++ [(KCleanup, OOk)] |}).
Proof. reflexivity. Qed.

(* a completed write of a never-expiring value survives any CleanupExpired run concurrently with it, in every
   schedule: consequence of linearizability, stated directly on the store for the common case *)
Lemma purge_keeps_immortal m now k : immortal m k -> immortal (purge now m) k.
Proof.
  intros (it & Hk & H0). exists it. split; [|exact H0].
  unfold purge. rewrite Hk. cbn. rewrite (immortal_not_expired now it H0). reflexivity.
Qed.

(* caller 0: Set(k,a,50ms) ... CleanupExpired ; caller 1: (after expiry) Set(k,b,0) ; Get(k).
   schedule: 0 0 | 0 = sweep phase 1 | 1 = Set lands between the phases | 0 = phase 2 deletes k | 1 = Get -> not found *)
Definition sweep_progs : list (list op) :=
  [[KSet kA (VS sa) 50; KTick 100; KCleanup]; [KSet kA (VS sb) 0; KGet kA]].
Definition sweep_sched : list nat := [0; 0; 0; 1; 0; 1]%nat.

Lemma two_phase_cleanup_refuted :
  ~ legal DAY 1000
      (sh_log (fst (run shared local2 (tstep_two_phase_cleanup DAY repaired) (init2 1000 sweep_progs) sweep_sched))).
Proof. unfold legal. vm_compute. intros H. discriminate H. Qed.

(* the same programs and schedule on the real (one-section) CleanupExpired: the write survives *)
Lemma one_section_cleanup_same_schedule :
  map snd (sh_log (fst (run shared local (tstep DAY repaired) (init 1000 sweep_progs) sweep_sched)))
  = [OOk; OOk; OOk; OOk; OVal (VS sb)].
Proof. vm_compute. reflexivity. Qed.

(* ------------------------------------------------------------------------------------------ *)
(* an expired-entry reader (two sections) racing one writer                                    *)
(* ------------------------------------------------------------------------------------------ *)

(* GetHash / GetAllHash / GetExpiration r with ANY single-section call w landing between r's two sections
   (r1 ; w ; r2), from any related pair of states: the answers of both calls and the resulting store are those of
   the sequential order  r ; w  of the Spec.  (The other two interleavings ARE sequential orders: r1 ; r2 ; w = r ; w
   and w ; r1 ; r2 = w ; r by [step_refines].)  This is where the expiry re-test of the second section is used:
   [gc_key] deletes only what is expired NOW, which the abstraction does not see. *)
Theorem reader_upgrade_vs_writer D (HD : 0 < D) m s now r k w :
  refines m s now -> two_phase r = Some k -> two_phase w = None ->
  let '(out_r, gc) := read_phase repaired m now r in
  let '(out_w, m1, now1) := mem_step D repaired m now w in
  let m2 := if gc then gc_key m1 now1 k else m1 in
  let '(sr, s1, nowr) := spec_step D s now r in
  let '(sw, s2, noww) := spec_step D s1 nowr w in
  out_r = sr /\ out_w = sw /\ now1 = noww /\ refines m2 s2 now1.
Proof.
  intros R Hr Hw.
  destruct (read_phase_spec D m s now r k R Hr) as (Ho & Hs & Hn).
  destruct (read_phase repaired m now r) as [out_r gc]. cbn [fst] in Ho.
  pose proof (step_refines D HD m s now w R) as Hst. unfold step_ok in Hst.
  destruct (mem_step D repaired m now w) as [[out_w m1] now1]. cbn [fst snd] in Hst.
  destruct (spec_step D s now r) as [[sr s1] nowr]. cbn [fst snd] in Ho, Hs, Hn. subst s1 nowr.
  destruct (spec_step D s now w) as [[sw s2] noww]. cbn [fst snd] in Hst.
  destruct Hst as (Hw1 & Hw2 & R2). subst.
  repeat split; try reflexivity.
  destruct gc; [apply gc_key_refines|]; exact R2.
Qed.

(* identity re-check instead of expiry re-check: caller 0 plants a hash, lets it expire, GetHash;  caller 1 SetHash, GetHash.
   schedule 0 0 0 | 0 = GetHash section 1 (expired, remembers the item) | 1 = SetHash refreshes the SAME item in place
   | 0 = GetHash section 2 deletes it | 1 = GetHash(k,f) -> not found although SetHash(k,f,b) returned nil *)
Definition upgrade_progs : list (list op) :=
  [[KSetHash kA [102] sa; KSetExpiration kA 50; KTick 100; KGetHash kA [102]]; [KSetHash kA [102] sb; KGetHash kA [102]]].
Definition upgrade_sched : list nat := [0; 0; 0; 0; 1; 0; 1]%nat.

Lemma pointer_recheck_refuted :
  ~ legal DAY 1000
      (sh_log (s3 (fst (run shared3 local3 (tstep_pointer_recheck DAY repaired) (init3 1000 upgrade_progs) upgrade_sched)))).
Proof. unfold legal. vm_compute. intros H. discriminate H. Qed.

(* with a writer that installs a new item (Set) the identity re-check happens to be harmless: it is the in-place
   refreshers (SetHash, IncrBy) that break it *)
Lemma pointer_recheck_harmless_for_set :
  legal DAY 1000
      (sh_log (s3 (fst (run shared3 local3 (tstep_pointer_recheck DAY repaired)
                        (init3 1000 [[KSet kA (VS sa) 50; KTick 100; KGetExpiration kA]; [KSet kA (VS sb) 0; KGet kA]])
                        [0; 0; 0; 1; 0; 1]%nat)))).
Proof. unfold legal. vm_compute. reflexivity. Qed.

(* the same programs and schedule on the real (expiry re-testing) second section: the SetHash survives *)
Lemma expiry_recheck_same_schedule :
  map snd (sh_log (fst (run shared local (tstep DAY repaired) (init 1000 upgrade_progs) upgrade_sched)))
  = [OOk; OOk; OOk; ONotFound; OOk; OVal (VS sb)].
Proof. vm_compute. reflexivity. Qed.

(* ------------------------------------------------------------------------------------------ *)
(* value isolation: the Spec's values are immutable                                            *)
(* ------------------------------------------------------------------------------------------ *)
(* A Coq value cannot be changed after the fact, so the following are immediate — they are stated because they are
   obligations on an implementation whose values are Go slices and maps (harness mode "iso"):
     an answer is a function of the store at the time of the call — no later call changes an answer already returned;
     a call on one key leaves the value stored under every other key alone (copies between keys are copies);
     what the caller does afterwards with a slice it handed in or got out is not an operation of the history at all. *)

Lemma run_with_app_outs step : forall h1 h2 m now,
  outs_of (run_with step m now (h1 ++ h2)) =
  outs_of (run_with step m now h1) ++
  outs_of (run_with step (map_of (run_with step m now h1)) (now_of (run_with step m now h1)) h2).
Proof.
  unfold outs_of, map_of, now_of.
  induction h1 as [|o t IH]; intros h2 m now; cbn [app run_with].
  - cbn. reflexivity.
  - destruct (step m now o) as [[r m1] now1]. specialize (IH h2 m1 now1).
    destruct (run_with step m1 now1 (t ++ h2)) as [[rs m2] now2].
    destruct (run_with step m1 now1 t) as [[rs' m2'] now2']. cbn [fst snd] in *.
    rewrite IH. reflexivity.
Qed.

Lemma run_with_outs_length step : forall h m now, length (outs_of (run_with step m now h)) = length h.
Proof.
  unfold outs_of. induction h as [|o t IH]; intros m now; cbn [run_with]; [reflexivity|].
  destruct (step m now o) as [[r m1] now1]. specialize (IH m1 now1).
  destruct (run_with step m1 now1 t) as [[rs m2] now2]. cbn [fst snd length] in *. rewrite IH. reflexivity.
Qed.

(* the answers given during h1 are the same whatever history h2 follows *)
Theorem answers_never_change_later step (h1 h2 : list op) (m : kvmap) (now : N) :
  firstn (length h1) (outs_of (run_with step m now (h1 ++ h2))) = outs_of (run_with step m now h1).
Proof.
  rewrite run_with_app_outs. rewrite <- (run_with_outs_length step h1 m now).
  rewrite firstn_app, Nat.sub_diag, firstn_O, app_nil_r. apply firstn_all.
Qed.

(* a call that does not write k leaves what is stored under k exactly as it was (the clock aside) *)
Theorem spec_other_keys_untouched D s now o k :
  mutates o k = false -> (forall d, o <> KTick d) ->
  snd (fst (spec_step D s now o)) k = s k.
Proof.
  intros Hm Ht.
  destruct o; cbn [mutates] in Hm; cbn [spec_step];
    try (cbn [fst snd]; reflexivity);
    try (repeat match goal with
                | |- context [match ?x with _ => _ end] => destruct x
                end; cbn [fst snd]; unfold upd; rewrite ?Hm; reflexivity).
  exfalso. eapply Ht. reflexivity.
Qed.

(* ------------------------------------------------------------------------------------------ *)
(* snapshots of composite values                                                               *)
(* ------------------------------------------------------------------------------------------ *)

(* what Get / GetList / GetAllHash return is the value the key holds in the store at the instant of the call's (first)
   critical section — whole, not assembled from several instants.  Together with linearizable_all_schedules: a snapshot
   equals the store value at one instant between call and return. *)
Theorem snapshot_is_store_value D m now k :
  fst (fst (mem_step D repaired m now (KGet k)))
    = match live now (m k) with Some it => OVal (val it) | None => ONotFound end
  /\ fst (fst (mem_step D repaired m now (KGetList k)))
    = match live now (m k) with
      | Some it => match val it with VList l => OVal (VList l) | _ => OInvalidType end
      | None => ONotFound
      end
  /\ fst (read_phase repaired m now (KGetAllHash k))
    = match live now (m k) with
      | Some it => match val it with VHash h => OVal (VHash h) | _ => OInvalidType end
      | None => ONotFound
      end.
Proof.
  cbn [mem_step read_phase fst]. unfold live.
  destruct (m k) as [it|]; [destruct (expired now it)|]; cbn [fst]; repeat split; reflexivity.
Qed.

(* copy after unlock: caller 0 plants {a:0, b:0} and Gets it; caller 1 runs SetHash(a,1); SetHash(b,1).
   schedule 0 0 | 0 = Get looks the hash up | 0 = copies a (0) | 1 1 = both SetHash | 0 = copies b (1) | 0 = returns {a:0, b:1} *)
Definition fa : key := [97].
Definition fb : key := [98].
Definition torn_progs : list (list op) :=
  [[KSetHash kA fa (SInt 0); KSetHash kA fb (SInt 0); KGet kA]; [KSetHash kA fa (SInt 1); KSetHash kA fb (SInt 1)]].
Definition torn_sched : list nat := [0; 0; 0; 0; 1; 1; 0; 0]%nat.
Definition torn_log : list (op * out) :=
  sh_log (fst (run shared local4 (tstep_copy_after_unlock DAY repaired) (init4 1000 torn_progs) torn_sched)).

Lemma copy_after_unlock_refuted : ~ legal DAY 1000 torn_log.
Proof. unfold legal. vm_compute. intros H. discriminate H. Qed.

(* the snapshot returned is a value the key never held *)
Lemma torn_snapshot_never_stored :
  In (KGet kA, OVal (VHash [(fa, SInt 0); (fb, SInt 1)])) torn_log
  /\ ~ In (VHash [(fa, SInt 0); (fb, SInt 1)])
          [VHash [(fa, SInt 0)]; VHash [(fa, SInt 0); (fb, SInt 0)]; VHash [(fa, SInt 1); (fb, SInt 0)]; VHash [(fa, SInt 1); (fb, SInt 1)]].
Proof.
  split.
  - vm_compute. repeat (try (left; reflexivity); right).
  - cbn [In]. intros H. repeat (destruct H as [H|H]; [discriminate H|]). exact H.
Qed.

(* the same programs and schedule with the copy inside the read's critical section *)
Lemma copy_under_lock_same_schedule :
  map snd (sh_log (fst (run shared local (tstep DAY repaired) (init 1000 torn_progs) torn_sched)))
  = [OOk; OOk; OVal (VHash [(fa, SInt 0); (fb, SInt 0)]); OOk; OOk].
Proof. vm_compute. reflexivity. Qed.

(* ------------------------------------------------------------------------------------------ *)
(* concurrent increments of one counter                                                        *)
(* ------------------------------------------------------------------------------------------ *)

(* caller 0: IncrBy(k,5) (creates the counter), IncrBy(k,1);  caller 1: IncrBy(k,1).
   schedule 0 | 0 = caller 0 loads 5 | 1 = caller 1 loads 5 | 0 = stores 6 | 1 = stores 6: both return 6, one increment is lost *)
Definition incr_progs : list (list op) := [[KIncrBy kA 5; KIncrBy kA 1]; [KIncrBy kA 1]].
Definition incr_sched : list nat := [0; 0; 1; 0; 1]%nat.

Lemma incr_under_read_lock_refuted :
  ~ legal DAY 1000
      (sh_log (fst (run shared local5 (tstep_incr_under_read_lock DAY repaired) (init5 1000 incr_progs) incr_sched))).
Proof. unfold legal. vm_compute. intros H. discriminate H. Qed.

(* the same programs with IncrBy as one critical section, under a schedule that interleaves the two callers *)
Lemma incr_one_section_same_programs :
  map snd (sh_log (fst (run shared local (tstep DAY repaired) (init 1000 incr_progs) [0; 1; 0]%nat)))
  = [OInt 5; OInt 6; OInt 7].
Proof. vm_compute. reflexivity. Qed.

(* ------------------------------------------------------------------------------------------ *)
(* RemoveFromList racing AppendToList                                                          *)
(* ------------------------------------------------------------------------------------------ *)

(* caller 0: Append a; Append m; Remove m.   caller 1: Append u; GetList.
   schedule 0 0 | 0 = Remove scans [a,m] -> copy [a] | 1 = Append u -> [a,m,u] | 0 = writes [a] back | 1 = GetList -> [a]: u is lost *)
Definition su : scalar := SStr [117].
Definition sm : scalar := SStr [109].
Definition listrace_progs : list (list op) :=
  [[KAppend kA sa; KAppend kA sm; KRemove kA sm]; [KAppend kA su; KGetList kA]].
Definition listrace_sched : list nat := [0; 0; 0; 1; 0; 1]%nat.

Lemma two_section_remove_refuted :
  ~ legal DAY 1000
      (sh_log (fst (run shared local6 (tstep_two_section_remove DAY repaired) (init6 1000 listrace_progs) listrace_sched))).
Proof. unfold legal. vm_compute. intros H. discriminate H. Qed.

Lemma one_section_remove_same_schedule :
  map snd (sh_log (fst (run shared local (tstep DAY repaired) (init 1000 listrace_progs) listrace_sched)))
  = [OOk; OOk; OOk; OOk; OVal (VList [sa; su])].
Proof. vm_compute. reflexivity. Qed.

(* Proofs/CrossEndpoint.v — what a FrameStream puts on the wire does not depend on what it has read *)
From TX Require Import Model.CrossFrame Model.CrossEndpoint Proofs.CrossFrame.
Open Scope N_scope.

(* for EVERY script mixing Reads (of anything the peer sent: data, its half-close, its close, garbage) with Writes,
   CloseWrite and Close, the frames emitted are those of the write-side calls alone *)
Theorem ep_frames_ignore_reads M tid ops : forall s,
  ep_frames M false tid s ops = script_frames M tid (e_weof s) (wops ops).
Proof.
  induction ops as [|op t IH]; intros s; [reflexivity|].
  destruct op as [p| | |cap]; cbn [ep_frames ep_step wops script_frames andb].
  - unfold ep_write. destruct (fs_write M tid (e_weof s) (WWrite p)) as [[w' fs] res] eqn:E. now rewrite IH.
  - unfold ep_write. destruct (fs_write M tid (e_weof s) WCloseWrite) as [[w' fs] res] eqn:E. now rewrite IH.
  - unfold ep_write. destruct (fs_write M tid (e_weof s) WClose) as [[w' fs] res] eqn:E. now rewrite IH.
  - destruct (fs_read M tid cap (with_weof (e_rst s) (e_weof s)) (e_in s)) as [[res st'] r']. cbn [app]. now rewrite IH.
Qed.

(* hence: whatever this endpoint has read before, between and after, the peer reads exactly the bytes of the accepted Writes
   and then end-of-stream — delivered by a FRAME: anything (`tail`: more traffic of other tunnels, nothing at all with the
   connection staying open) may follow on the connection *)
Theorem close_always_ends_the_stream M (HM : M < 4294967296) (HP : 1 <= M) tid ops incoming tail weof caps dcap c :
  length tid = 16%nat -> has_close (wops ops) = true ->
  Forall (fun k => (1 <= k)%nat) caps -> (1 <= dcap)%nat ->
  data_of (fst (fst (read_stream M tid weof caps dcap (encode_all M (ep_frames M false tid (ep_init incoming) ops) ++ tail) c)))
    = accepted (wops ops) /\
  last (fst (fst (read_stream M tid weof caps dcap (encode_all M (ep_frames M false tid (ep_init incoming) ops) ++ tail) c))) RFuel = REof /\
  existsb (is_end_frame tid) (ep_frames M false tid (ep_init incoming) ops) = true.
Proof.
  intros Ht Hcl Hc Hd. rewrite ep_frames_ignore_reads. cbn [e_weof ep_init].
  destruct (stream_transparent_then_anything M HM tid HP (wops ops) tail weof caps dcap c Ht Hcl Hc Hd) as [A B].
  split; [exact A|]. split; [exact B|].
  clear A B. generalize (wops ops) Hcl. clear.
  assert (G : forall l w, has_close l = true -> w = false -> existsb (is_end_frame tid) (script_frames M tid w l) = true).
  { induction l as [|op t IH]; intros w Hc Hw; [discriminate|]. subst w.
    destruct op as [p| |]; cbn [script_frames fs_write has_close existsb orb] in *.
    - destruct p as [|b p]; [cbn [app]; apply IH; auto|]. remember (b :: p) as q.
      destruct (M <? lenN q); rewrite existsb_app; rewrite (IH false Hc eq_refl); apply orb_true_r.
    - cbn [app existsb]. unfold is_end_frame at 1. cbn [f_tid f_ty]. rewrite bytes_eqb_refl. reflexivity.
    - cbn [app existsb]. unfold is_end_frame at 1. cbn [f_tid f_ty]. rewrite bytes_eqb_refl. reflexivity. }
  intros l Hl. apply G; auto.
Qed.

(* the variant that skips the Close frame once readEOF is set: peer half-closes, we read that, answer and Close —
   the answer goes out but no end-of-stream marker ever follows it *)
Lemma skip_close_on_read_eof_refuted :
  exists tid incoming ops,
    has_close (wops ops) = true /\
    existsb (is_end_frame tid) (ep_frames 65536 true tid (ep_init incoming) ops) = false /\
    ep_frames 65536 true tid (ep_init incoming) ops <> script_frames 65536 tid false (wops ops).
Proof.
  exists (wire_id [97;98;99]),
         (mkrd (encode_all 65536 [{| f_tid := wire_id [97;98;99]; f_ty := T_EOF; f_data := [] |}]) []),
         [ERead 64; EWrite [1;2;3]; EClose].
  split; [reflexivity|]. split; [vm_compute; reflexivity|vm_compute; discriminate].
Qed.

Lemma endpoint_example :
  let tid := wire_id [97;98;99] in
  let incoming := mkrd (encode_all 65536 [{| f_tid := tid; f_ty := T_Data; f_data := [9] |}; {| f_tid := tid; f_ty := T_EOF; f_data := [] |}]) [] in
  map f_ty (ep_frames 65536 false tid (ep_init incoming) [ERead 64; ERead 64; EWrite [1;2;3]; ERead 1; EClose; EWrite [4]])
  = [T_Data; T_Close].
Proof. vm_compute. reflexivity. Qed.
Close Scope N_scope.

(* Proofs/SideC01.v — side conditions tying Model/Framing.v to the values regenerated from /repo
   (Gen/C01.v): re-proved for the current values on every run. *)
From TX Require Import Model.Framing Gen.C01.
From Coq Require Import ZArith ZifyN ZifyNat ZifyBool.
Open Scope N_scope.

Lemma max_body_fits_u32 : MaxPacketBodySize < 4294967296.
Proof. vm_compute. reflexivity. Qed.

Lemma header_layout : PacketTypeSize = 1 /\ PacketBodySizeBytes = 4.
Proof. split; reflexivity. Qed.

Lemma flag_values : T_Heartbeat = 3 /\ F_Compressed = 64 /\ F_Encrypted = 128.
Proof. repeat split; reflexivity. Qed.

(* the model's type predicates coincide with the real packet.Type methods on every byte value *)
Definition model_row (t : N) : bool * bool * bool * bool :=
  (is_heartbeat t, is_compressed t, is_encrypted t, is_json_cmd t).
Definition row_eqb (a b : bool * bool * bool * bool) : bool :=
  let '(a1, a2, a3, a4) := a in let '(b1, b2, b3, b4) := b in
  Bool.eqb a1 b1 && Bool.eqb a2 b2 && Bool.eqb a3 b3 && Bool.eqb a4 b4.

Lemma type_predicates_match_code :
  length type_table = 256%nat /\
  forallb (fun it => row_eqb (model_row (N.of_nat (fst it))) (snd it))
          (combine (seq 0 256) type_table) = true.
Proof. split; vm_compute; reflexivity. Qed.
Close Scope N_scope.

(* Proofs/SideC05.v — side conditions over values regenerated from /repo (Gen/C05.v) *)
From TX Require Import Model.Hostile Gen.C05.
From Coq Require Import ZArith ZifyN ZifyNat ZifyBool.
Open Scope N_scope.

Lemma max_body_at_least_header : 4 <= MaxPacketBodySize.
Proof. vm_compute. discriminate. Qed.

(* the dispatcher's classes agree with what the real HandlePacket does for every type byte:
   dispatch_table lists, per byte, whether the real dispatcher answered "unhandled packet type" *)
Definition is_unhandled (t : N) : bool := match dispatch t with HUnhandled => true | _ => false end.
Lemma dispatch_matches_code :
  length unhandled_table = 256%nat /\
  forallb (fun it => Bool.eqb (is_unhandled (N.of_nat (fst it))) (snd it))
          (combine (seq 0 256) unhandled_table) = true.
Proof. split; vm_compute; reflexivity. Qed.
Close Scope N_scope.

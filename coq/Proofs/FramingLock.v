(* Proofs/FramingLock.v — with writeLock, whatever the schedule and the number of callers, the wire is the
   concatenation of COMPLETE packet encodings (in lock-acquisition order) plus the part of the single packet in
   progress; a caller that skips the lock breaks it. *)
From TX Require Import Model.FramingLock.
From Coq Require Import Lia.

Definition holders (ls : list wth) : list wth := filter w_holds ls.

Definition WInv (s : wsh * list wth) : Prop :=
  let sh := fst s in let ls := snd s in
  (forall t, In t ls -> w_locked t = true) /\
  (lock sh = false -> holders ls = [] /\ wire sh = concat (g_done sh)) /\
  (lock sh = true -> exists t, holders ls = [t] /\
                       wire sh = concat (g_done sh) ++ w_written t /\
                       w_written t ++ concat (w_cur t) = w_pkt t) /\
  (forall t, In t ls -> w_holds t = false -> w_cur t = [] /\ w_written t = []).

Lemma filter_upd_nth_none {A} (f : A -> bool) : forall (l : list A) i x x',
  nth_error l i = Some x -> f x = false -> f x' = false -> filter f (upd_nth i x' l) = filter f l.
Proof.
  induction l as [|h t IH]; intros [|j] x x' H Hx Hx'; cbn in *; try discriminate.
  - inversion H; subst. now rewrite Hx, Hx'.
  - destruct (f h); [f_equal|]; eapply IH; eauto.
Qed.

Lemma filter_upd_nth_add {A} (f : A -> bool) : forall (l : list A) i x x',
  nth_error l i = Some x -> filter f l = [] -> f x' = true -> filter f (upd_nth i x' l) = [x'].
Proof.
  induction l as [|h t IH]; intros [|j] x x' H Hf Hx'; cbn in *; try discriminate.
  - inversion H; subst. rewrite Hx'. destruct (f x); [discriminate|]. now rewrite Hf.
  - destruct (f h); [discriminate|]. eapply IH; eauto.
Qed.

Lemma filter_upd_nth_same {A} (f : A -> bool) : forall (l : list A) i x x',
  nth_error l i = Some x -> filter f l = [x] -> f x = true -> f x' = true -> filter f (upd_nth i x' l) = [x'].
Proof.
  induction l as [|h t IH]; intros [|j] x x' H Hf Hx Hx'; cbn in *; try discriminate.
  - inversion H; subst. rewrite Hx in Hf. rewrite Hx'. inversion Hf as [Ht]. now rewrite Ht.
  - destruct (f h) eqn:Eh.
    + inversion Hf as [[Hh Ht]]. subst h.
      (* the holder is the head, so position S j is not a holder: contradiction with f x = true *)
      exfalso. assert (Hin : In x (filter f t)) by (apply filter_In; split; [eapply nth_error_In; eauto|exact Hx]).
      rewrite Ht in Hin. exact Hin.
    + eapply IH; eauto.
Qed.

Lemma filter_upd_nth_remove {A} (f : A -> bool) : forall (l : list A) i x x',
  nth_error l i = Some x -> filter f l = [x] -> f x = true -> f x' = false -> filter f (upd_nth i x' l) = [].
Proof.
  induction l as [|h t IH]; intros [|j] x x' H Hf Hx Hx'; cbn in *; try discriminate.
  - inversion H; subst. rewrite Hx in Hf. rewrite Hx'. now inversion Hf.
  - destruct (f h) eqn:Eh.
    + inversion Hf as [[Hh Ht]]. subst h.
      exfalso. assert (Hin : In x (filter f t)) by (apply filter_In; split; [eapply nth_error_In; eauto|exact Hx]).
      rewrite Ht in Hin. exact Hin.
    + eapply IH; eauto.
Qed.

Lemma upd_nth_same_eq {A} (l : list A) i x : nth_error l i = Some x -> l = upd_nth i x l.
Proof. revert i; induction l as [|h t IH]; intros [|j] H; cbn in *; try discriminate; [congruence|f_equal; auto]. Qed.

Lemma in_upd_nth' {A} (l : list A) i x y : In y (upd_nth i x l) -> y = x \/ In y l.
Proof.
  revert i; induction l as [|h t IH]; intros [|j] H; cbn in *; auto.
  - destruct H as [H|H]; auto.
  - destruct H as [H|H]; auto. destruct (IH j H); auto.
Qed.

Lemma winv_step s i : WInv s -> WInv (sys_step _ _ wstep s i).
Proof.
  destruct s as [sh ls]. unfold WInv, sys_step. cbn [fst snd].
  intros (Hall & Hfree & Hheld & Hidle).
  destruct (nth_error ls i) as [t|] eqn:E; [|cbn; auto].
  assert (Hin : In t ls) by (eapply nth_error_In; eauto).
  assert (Hlk : w_locked t = true) by (apply Hall; exact Hin).
  unfold wstep. rewrite Hlk. cbn [andb].
  destruct (w_holds t) eqn:Eh.
  - (* t is inside WritePacket: the lock is held and t is THE holder *)
    destruct (lock sh) eqn:El.
    2:{ destruct (Hfree eq_refl) as [Hnone _]. exfalso.
        assert (Hx : In t (holders ls)) by (apply filter_In; auto). rewrite Hnone in Hx. exact Hx. }
    destruct (Hheld eq_refl) as (t0 & Hh & Hw & Hp).
    assert (t0 = t).
    { assert (Hx : In t (holders ls)) by (apply filter_In; auto). rewrite Hh in Hx. destruct Hx as [->|[]]. reflexivity. }
    subst t0.
    destruct (w_cur t) as [|c cs] eqn:Ec.
    + (* release *)
      cbn [fst snd lock wire g_done].
      set (t' := {| w_locked := true; w_todo := w_todo t; w_cur := []; w_pkt := []; w_written := []; w_holds := false |}).
      split; [intros x Hx; apply in_upd_nth' in Hx; destruct Hx as [->|Hx]; [reflexivity|apply Hall; exact Hx]|].
      split.
      * intros _. split.
        -- unfold holders. eapply filter_upd_nth_remove; eauto.
        -- rewrite concat_app. cbn [concat]. rewrite app_nil_r. rewrite Hw. f_equal.
           rewrite <- Hp. cbn [concat]. now rewrite app_nil_r.
      * split; [discriminate|].
        intros x Hx Hxh. apply in_upd_nth' in Hx. destruct Hx as [->|Hx]; [auto|apply Hidle; assumption].
    + (* one transport write *)
      cbn [fst snd lock wire g_done].
      set (t' := {| w_locked := true; w_todo := w_todo t; w_cur := cs; w_pkt := w_pkt t; w_written := w_written t ++ c; w_holds := true |}).
      split; [intros x Hx; apply in_upd_nth' in Hx; destruct Hx as [->|Hx]; [reflexivity|apply Hall; exact Hx]|].
      split; [discriminate|]. split.
      * intros _. exists t'. split; [unfold holders; eapply filter_upd_nth_same; eauto|].
        cbn [w_written w_cur w_pkt t']. split.
        -- rewrite Hw. now rewrite app_assoc.
        -- rewrite <- Hp. cbn [concat]. now rewrite app_assoc.
      * intros x Hx Hxh. apply in_upd_nth' in Hx. destruct Hx as [->|Hx]; [discriminate|apply Hidle; assumption].
  - (* t is outside WritePacket *)
    destruct (Hidle t Hin Eh) as [Hc0 Hw0].
    destruct (w_todo t) as [|p ps] eqn:Et.
    { cbn [fst snd]. rewrite <- (upd_nth_same_eq ls i t E). auto. }
    destruct (lock sh) eqn:El.
    { cbn [fst snd]. rewrite <- (upd_nth_same_eq ls i t E). rewrite El. auto. }
    (* acquire *)
    cbn [fst snd lock wire g_done].
    destruct (Hfree eq_refl) as [Hnone Hwire].
    set (t' := {| w_locked := true; w_todo := ps; w_cur := p; w_pkt := concat p; w_written := []; w_holds := true |}).
    split; [intros x Hx; apply in_upd_nth' in Hx; destruct Hx as [->|Hx]; [reflexivity|apply Hall; exact Hx]|].
    split; [discriminate|]. split.
    + intros _. exists t'. split; [unfold holders; eapply filter_upd_nth_add; eauto|].
      cbn [w_written w_cur w_pkt t']. rewrite app_nil_r. auto.
    + intros x Hx Hxh. apply in_upd_nth' in Hx. destruct Hx as [->|Hx]; [discriminate|apply Hidle; assumption].
Qed.

Lemma winv_init (pkts : list (list (list (list byte)))) : WInv (wsh0, map (winit true) pkts).
Proof.
  unfold WInv. cbn [fst snd wsh0 lock wire g_done].
  assert (Hn : holders (map (winit true) pkts) = []).
  { unfold holders. induction pkts; cbn; auto. }
  split; [intros t Ht; apply in_map_iff in Ht; destruct Ht as (x & <- & _); reflexivity|].
  split; [intros _; split; [exact Hn|reflexivity]|].
  split; [discriminate|].
  intros t Ht _. apply in_map_iff in Ht. destruct Ht as (x & <- & _). auto.
Qed.

(* every schedule, any number of callers, any packets: when nobody is inside WritePacket the wire is exactly the
   concatenation of the completed packets, each a whole encoding; while someone is, it is that plus a prefix of
   the one packet in progress *)
Theorem locked_writers_never_interleave (pkts : list (list (list (list byte)))) sched :
  let s := run _ _ wstep (wsh0, map (winit true) pkts) sched in
  (lock (fst s) = false -> wire (fst s) = concat (g_done (fst s))) /\
  (lock (fst s) = true -> exists t, In t (snd s) /\ wire (fst s) = concat (g_done (fst s)) ++ w_written t /\
                                    w_written t ++ concat (w_cur t) = w_pkt t).
Proof.
  intros s. assert (H : WInv s) by (subst s; apply inv_all_schedules; [intros x i; apply winv_step|apply winv_init]).
  destruct H as (_ & Hfree & Hheld & _). split.
  - intros El. apply (Hfree El).
  - intros El. destruct (Hheld El) as (t & Hh & Hw & Hp). exists t. split; [|auto].
    assert (Hin : In t (holders (snd s))) by (rewrite Hh; cbn; auto). apply filter_In in Hin. tauto.
Qed.

(* a caller that skips the lock (heartbeat fast path): its byte lands inside another caller's packet *)
Lemma unlocked_writer_interleaves_refuted :
  exists sched,
    let s := run _ _ wstep (wsh0, [winit true [[[34%N]; [0;0;0;1]%N; [7%N]]]; winit false [[[3%N]]]]) sched in
    wire (fst s) = [34; 3; 0; 0; 0; 1; 7]%N /\ g_done (fst s) = [[3%N]; [34; 0; 0; 0; 1; 7]%N].
Proof. exists [0; 0; 1; 1; 1; 0; 0; 0]. vm_compute. auto. Qed.
